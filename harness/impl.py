"""Access to the REAL pydrex implementation (imported from /repo/src) and history recording.

NUMBA_DISABLE_JIT must be decided before numba is imported; the default for the harness is the
interpreted path (same Python source, no 20 s compile). Checks that need the compiled path run
`python -m harness.jitworker` in a subprocess with the variable unset.
"""
from __future__ import annotations

import os

if os.environ.get("PYDREX_VERIF_JIT", "0") != "1":
    os.environ.setdefault("NUMBA_DISABLE_JIT", "1")

import logging
import warnings

import numpy as np

warnings.filterwarnings("ignore")

import pydrex  # noqa: E402
from pydrex import core as _core  # noqa: E402
from pydrex import minerals as _minerals  # noqa: E402

logging.getLogger("pydrex").setLevel(logging.CRITICAL)
try:
    from pydrex import logger as _plog

    _plog.CONSOLE_LOGGER.setLevel(logging.CRITICAL)
except Exception:  # pragma: no cover
    pass

assert pydrex.__file__.startswith(os.environ.get("PYDREX_VERIF_REPO", "/repo") + "/src"), pydrex.__file__

_RealLSODA = _minerals.LSODA


class Recorder:
    """Replaces `pydrex.minerals.LSODA` while an update runs and records the solver history.

    For every solver step: the raw vector produced by LSODA (`raw`) and the vector found in
    `solver.y` when control next comes back to the solver or when the update ends (`post`),
    i.e. after `perform_step`'s write-back. Also the rhs closure and the start vector.
    """

    def __init__(self):
        self.updates = []  # one dict per LSODA construction

    def __enter__(self):
        rec = self

        class Proxy(_RealLSODA):
            def __init__(self, fun, t0, y0, t_bound, **kw):
                self._rec = {"rhs": fun, "t0": t0, "t1": t_bound, "y0": np.array(y0, dtype=float).copy(),
                             "raw": [], "post": [], "t": [], "kw": {k: (np.array(v).copy() if hasattr(v, "__len__") else v) for k, v in kw.items()},
                             "solver": self, "nfev_rhs": 0}
                rec.updates.append(self._rec)
                super().__init__(fun, t0, y0, t_bound, **kw)

            def step(self):
                r = self._rec
                if len(r["raw"]) > len(r["post"]):
                    r["post"].append(np.array(self.y, dtype=float).copy())
                msg = super().step()
                r["raw"].append(np.array(self.y, dtype=float).copy())
                r["t"].append(float(self.t))
                return msg

        self._saved = _minerals.LSODA
        _minerals.LSODA = Proxy
        return self

    def __exit__(self, *exc):
        _minerals.LSODA = self._saved
        for r in self.updates:
            if len(r["raw"]) > len(r["post"]):
                r["post"].append(np.array(r["solver"].y, dtype=float).copy())
        return False


def random_rotations(rng, n):
    from scipy.spatial.transform import Rotation

    return Rotation.random(n, random_state=int(rng.integers(0, 2**31))).as_matrix()


def make_L(kind, rng):
    """A 3x3 velocity gradient from a named family."""
    L = np.zeros((3, 3))
    if kind == "simple_shear":
        i, j = rng.choice(3, 2, replace=False)
        L[i, j] = 2.0
    elif kind == "pure_shear":
        L[0, 0], L[2, 2] = 1.0, -1.0
    elif kind == "axisymmetric":
        L[0, 0], L[1, 1], L[2, 2] = -0.5, -0.5, 1.0
    elif kind == "general":
        L = rng.normal(size=(3, 3))
        L -= np.eye(3) * np.trace(L) / 3
    elif kind == "general_trace":
        L = rng.normal(size=(3, 3))
    elif kind == "vortical":
        L = rng.normal(size=(3, 3))
        L = 0.2 * (L + L.T) / 2 + (L - L.T)
    else:
        raise ValueError(kind)
    return L


L_KINDS = ["simple_shear", "pure_shear", "axisymmetric", "general", "general_trace", "vortical"]

OLIVINE_FABRICS = [_core.MineralFabric.olivine_A, _core.MineralFabric.olivine_B, _core.MineralFabric.olivine_C,
                   _core.MineralFabric.olivine_D, _core.MineralFabric.olivine_E]
PHASE_FABRICS = [(_core.MineralPhase.olivine, f) for f in OLIVINE_FABRICS] + [
    (_core.MineralPhase.enstatite, _core.MineralFabric.enstatite_AB)]


def default_params(**over):
    p = _core.DefaultParams().as_dict()
    p.update(over)
    return p


def two_phase_params(**over):
    p = default_params(phase_assemblage=(_core.MineralPhase.olivine, _core.MineralPhase.enstatite),
                       phase_fractions=(0.7, 0.3))
    p.update(over)
    return p


def initial_texture(kind, rng, n):
    """orientations (n,3,3) and fractions (n,) from a named family"""
    from scipy.spatial.transform import Rotation

    if kind == "random":
        A = random_rotations(rng, n)
        f = np.full(n, 1.0 / n)
    elif kind == "clustered":
        base = Rotation.random(random_state=int(rng.integers(0, 2**31)))
        pert = Rotation.from_rotvec(rng.normal(scale=0.15, size=(n, 3)))
        A = (pert * base).as_matrix()
        f = np.full(n, 1.0 / n)
    elif kind == "girdle":
        ang = rng.uniform(0, 2 * np.pi, n)
        A = Rotation.from_euler("zxz", np.column_stack([ang, np.full(n, np.pi / 2), rng.normal(scale=0.1, size=n)])).as_matrix()
        f = np.full(n, 1.0 / n)
    elif kind == "single":
        base = Rotation.random(random_state=int(rng.integers(0, 2**31))).as_matrix()
        A = np.repeat(base[None], n, axis=0)
        f = np.full(n, 1.0 / n)
    elif kind == "nonuniform":
        A = random_rotations(rng, n)
        f = rng.dirichlet(np.full(n, 0.3))
        f = np.clip(f, 1e-12, None)
        f /= f.sum()
    elif kind == "aligned_mixed":   # one grain exactly aligned with the reference frame among random ones
        A = random_rotations(rng, n)
        A[0] = np.eye(3)
        f = np.full(n, 1.0 / n)
    elif kind == "aligned":
        A = np.repeat(np.eye(3)[None], n, axis=0)
        f = np.full(n, 1.0 / n)
    else:
        raise ValueError(kind)
    return np.ascontiguousarray(A), f


TEX_KINDS = ["random", "clustered", "girdle", "single", "nonuniform"]
