"""The compiled twin.

Every user of PyDRex runs the numba-COMPILED functions; most of the harness drives the interpreted
ones (NUMBA_DISABLE_JIT=1: start-up in milliseconds, and the symbolic tracer needs Python objects).
The correspondence "interpreted code = model" therefore says nothing about the compiled code unless
"compiled = interpreted" is checked as well.  This module runs one deterministic battery of calls per
group twice - in this process (interpreted) and in a subprocess with the JIT enabled - and compares
the outputs.  A difference is a broken correspondence for the property whose check asked for the
group (run_check then searches for a failing input; the inputs are part of the report).

Groups (a property module lists the ones it relies on in `JIT_TWIN`):
  tensors   every function of pydrex.tensors on float / integer-valued / degenerate inputs
  utils     apply_gbs, extract_vars, strain_increment, quat_product, geometry.misorientation_angles,
            diagnostics.smallest_angle
  velocity  the six flow callables for all axis assignments
  voigt     minerals.voigt_averages and diagnostics.elasticity_components
  diag      symmetry_pgr, bingham_average, coaxial_index on 7 ... 9001 (thorough 65537) grains, finite_strain
  update    whole texture-update histories (Mineral.update_orientations / update_all through LSODA)
  large_update  (compiled only, too slow interpreted) updates of aggregates of 8200 (thorough: 4100 ... 10000) grains with the
            clauses of C01 / C05 / C06 evaluated in the worker (SciPy's LSODA reserves work space quadratic in the state size, which
            bounds the aggregate size a user can integrate at all: 10000 grains = 100009 unknowns is near that limit)
"""
from __future__ import annotations

import json
import os
import subprocess
import sys

import numpy as np

from . import common as C

TOL = {"diag": 1e-9, "tensors": 1e-9, "utils": 1e-9, "velocity": 1e-9, "voigt": 1e-8, "update": 1e-6}


def _flat(x):
    if isinstance(x, (tuple, list)):
        out = []
        for v in x:
            out += _flat(v)
        return out
    return np.asarray(x, dtype=float).ravel().tolist()


def _rot(rng, n):
    from scipy.spatial.transform import Rotation

    return Rotation.random(n, random_state=int(rng.integers(2**31))).as_matrix()


# ------------------------------------------------------------------ batteries: [(label, input descriptor, flat output)]
def _b_tensors(rng, thorough):
    from pydrex import tensors as T

    out = []
    for k in range(4 if not thorough else 16):
        M = rng.normal(size=(6, 6)) * 50
        M = M + M.T
        if k % 4 == 1:
            M = np.round(M)                       # integer-valued floats
        if k % 4 == 2:
            M[0, 3] = M[3, 0] = 0.0
            M[1, 1] = 0.0                         # zero entries (upper_tri_to_symmetric's falsy zeros)
        R = _rot(rng, 1)[0]
        v = rng.normal(size=21) * 50
        if k % 4 == 3:
            v = np.round(v)
        A = rng.normal(size=(3, 3))
        inp = {"M": M.tolist(), "R": R.tolist(), "v": v.tolist(), "A": A.tolist()}
        Tn = T.voigt_to_elastic_tensor(M)
        d, dv = T.voigt_decompose(M)
        o = [Tn, T.elastic_tensor_to_voigt(Tn), T.rotate(Tn, R), T.elastic_tensor_to_voigt(T.rotate(Tn, R)), T.voigt_matrix_to_vector(M),
             T.voigt_vector_to_matrix(v), d, dv, T.mono_project(v), T.ortho_project(v), T.tetr_project(v), T.hex_project(v),
             T.upper_tri_to_symmetric(np.triu(M)), np.array(T.invariants_second_order(A))]
        for left in (True, False):
            Rm, P = T.polar_decompose(A.copy(), left)
            o += [P, P @ Rm if left else Rm @ P]
        names = ["voigt_to_elastic_tensor", "elastic_tensor_to_voigt", "rotate", "rotate->voigt", "voigt_matrix_to_vector", "voigt_vector_to_matrix",
                 "voigt_decompose[0]", "voigt_decompose[1]", "mono_project", "ortho_project", "tetr_project", "hex_project", "upper_tri_to_symmetric",
                 "invariants_second_order", "polar_left:P", "polar_left:product", "polar_right:P", "polar_right:product"]
        for nm, x in zip(names, o):
            out.append((nm, inp, _flat(x)))
        # integer-typed arrays (numba unifies types differently from numpy)
        vi = np.round(v).astype(np.int64)
        for nm in ("mono_project", "ortho_project", "tetr_project", "hex_project"):
            out.append((nm + "[int64]", {"v": vi.tolist()}, _flat(getattr(T, nm)(vi))))
    return out


def _b_utils(rng, thorough):
    from pydrex import diagnostics as D
    from pydrex import geometry as G
    from pydrex import utils as U
    from scipy.spatial.transform import Rotation

    out = []
    for k in range(6 if not thorough else 30):
        n = int(rng.integers(1, 40))
        A, Ap = _rot(rng, n), _rot(rng, n)
        f = rng.dirichlet(np.ones(n) * (0.3 if k % 2 else 3.0))
        if k % 3 == 0:
            f[rng.integers(0, n)] = 0.0
        thr = float(rng.choice([0.0, 0.2, 0.5, 1.0, 1.5]))
        inp = {"n": n, "threshold": thr, "f": f.tolist()}
        o_, f_ = U.apply_gbs(A.copy(), f.copy(), thr, Ap.copy(), n)
        out.append(("apply_gbs", inp, _flat([o_, f_])))
        y = np.concatenate([rng.normal(size=9), (A + rng.normal(size=A.shape) * 0.3).ravel(), f + rng.normal(size=n) * 0.05])
        if n > 1:
            y[9 + 9 * n] = -0.5
        F_, o2, f2 = U.extract_vars(y.copy(), n)
        out.append(("extract_vars", {"n": n, "y": y.tolist()}, _flat([F_, o2, f2])))
        L = rng.normal(size=(3, 3))
        dt = float(rng.choice([1.0, -0.5, 1e-9, 1e6]))
        out.append(("strain_increment", {"dt": dt, "L": L.tolist()}, _flat(U.strain_increment(dt, L))))
        q1, q2 = Rotation.random(2, random_state=int(rng.integers(2**31))).as_quat()
        out.append(("quat_product", {"q1": q1.tolist(), "q2": q2.tolist()}, _flat(U.quat_product(q1, q2))))
        N, a, b = int(rng.integers(1, 5)), int(rng.integers(1, 6)), int(rng.integers(1, 6))
        Q1 = Rotation.random(N * a, random_state=int(rng.integers(2**31))).as_quat().reshape(N, a, 4)
        Q2 = Rotation.random(N * b, random_state=int(rng.integers(2**31))).as_quat().reshape(N, b, 4)
        out.append(("misorientation_angles", {"q1": Q1.tolist(), "q2": Q2.tolist()}, _flat(G.misorientation_angles(Q1, Q2))))
        # identical float32 quaternions (single-orientation textures): |q.q| rounds above 1 for about one orientation in twelve
        Qs = np.repeat(Rotation.random(N, random_state=int(rng.integers(2**31))).as_quat().astype(np.float32)[:, None, :], 3, axis=1)
        out.append(("misorientation_angles[float32, identical quaternions]", {"q": Qs.tolist()}, _flat(G.misorientation_angles(Qs, Qs))))
        ns = int(rng.integers(3, 9))
        one = np.repeat(Rotation.random(random_state=int(rng.integers(2**31))).as_matrix()[None], ns, axis=0)
        out.append(("misorientation_index[single orientation]", {"n": ns, "A0": one[0].tolist()},
                    _flat(D.misorientation_index(one, G.LatticeSystem.orthorhombic))))
        u, w, p = (x / np.linalg.norm(x) for x in rng.normal(size=(3, 3)))
        out.append(("smallest_angle", {"v": u.tolist(), "axis": w.tolist()}, _flat(D.smallest_angle(u, w))))
        out.append(("smallest_angle[plane]", {"v": u.tolist(), "axis": w.tolist(), "plane": p.tolist()}, _flat(D.smallest_angle(u, w, p))))
    return out


def _b_velocity(rng, thorough):
    from pydrex import velocity as V

    out = []
    axes = [("X", "Y"), ("X", "Z"), ("Y", "X"), ("Y", "Z"), ("Z", "X"), ("Z", "Y")]
    for k in range(3 if not thorough else 12):
        for (a, b) in axes:
            sr = float(rng.normal())
            x = rng.uniform(-0.9, 0.9, size=3)
            for nm, mk in (("simple_shear_2d", lambda: V.simple_shear_2d(a, b, sr)), ("cell_2d", lambda: V.cell_2d(a, b, sr, edge_length=2.0)),
                           ("corner_2d", lambda: V.corner_2d(a, b, sr))):
                u, g = mk()
                t = float(rng.choice([np.nan, 0.0, 1.0]))
                out.append((f"{nm}[{a}{b}]", {"param": sr, "x": x.tolist(), "t": repr(t)}, _flat([u(t, x), g(t, x)])))
    return out


def _b_voigt(rng, thorough):
    from pydrex import core
    from pydrex import diagnostics as D
    from pydrex import minerals as M

    out = []
    st = M.StiffnessTensors()
    for k in range(2 if not thorough else 8):
        n = int(rng.integers(1, 30))
        ms = []
        for ph, fab in ((core.MineralPhase.olivine, core.MineralFabric.olivine_A), (core.MineralPhase.enstatite, core.MineralFabric.enstatite_AB)):
            ms.append(M.Mineral(phase=ph, fabric=fab, n_grains=n, fractions_init=rng.dirichlet(np.ones(n)), orientations_init=_rot(rng, n)))
        w = float(rng.uniform(0, 1))
        va = M.voigt_averages(ms, [core.MineralPhase.olivine, core.MineralPhase.enstatite], [w, 1 - w], st)
        inp = {"n": n, "olivine_fraction": w, "seed_note": "minerals drawn from the battery PRNG"}
        out.append(("voigt_averages", inp, _flat(va)))
        comp = D.elasticity_components(np.asarray(va))
        keys = sorted(k_ for k_ in comp if k_ != "hexagonal_axis")
        out.append(("elasticity_components", inp, _flat([comp[k_] for k_ in keys])))
    # single-crystal tensors (orthorhombic) in rotated frames: the eigenvector pairing inside elasticity_components goes through the
    # compiled smallest_angle with cosines at +-1 up to rounding
    from pydrex import tensors as T
    for k in range(6 if not thorough else 40):
        base = st.olivine if k % 2 == 0 else st.enstatite
        R = _rot(rng, 1)[0] if k % 3 else np.eye(3)[[1, 2, 0]]
        Cr = T.elastic_tensor_to_voigt(T.rotate(T.voigt_to_elastic_tensor(base), R))
        comp = D.elasticity_components(np.asarray([Cr]))
        keys = sorted(k_ for k_ in comp if k_ != "hexagonal_axis")
        out.append(("elasticity_components[rotated single crystal]", {"phase": "olivine" if k % 2 == 0 else "enstatite", "R": R.tolist()},
                    _flat([comp[k_] for k_ in keys] + [np.abs(comp["hexagonal_axis"])])))
    return out


def _b_update(rng, thorough):
    from . import solver

    out = []
    scs = [solver.make_scenario(rng, k, nmax=10, regimes=(4, 6)) for k in range(3 if not thorough else 10)]
    # grains on which no slip system can be activated (exactly axis-aligned grains under an axis-aligned shear; for C-type
    # olivine only the infinite-CRSS system is resolved): guards against 0/0 that compiled fastmath code may fold away
    for fab, (i, j) in ([(2, (1, 2)), (0, (0, 2))] if not thorough else [(2, (1, 2)), (2, (2, 1)), (0, (0, 2)), (1, (0, 2)), (3, (2, 0)), (4, (0, 2))]):
        sc = solver.make_scenario(rng, 0, nmax=6, regimes=(4, 6), fields=["const"])
        L = np.zeros((3, 3))
        L[i, j] = 2.0
        sc.update(phase=0, fabric=fab, tex="aligned_mixed", field=solver.LField(L), field_kind=f"no_slip_witness:{fab}:{i}{j}", n=max(sc["n"], 3))
        scs.append(sc)
    for sc in scs:
        with np.errstate(all="ignore"):
            m, Fs, _ = solver.run_scenario(sc, record=False)
        out.append((f"update_orientations[{sc['phase']},{sc['fabric']},regime{sc['regime']},n={sc['n']},updates={sc['n_updates']},{sc['field_kind']}]",
                    solver.scenario_json(sc), _flat([m.orientations[-1], m.fractions[-1], Fs[-1]])))
    return out


# ------------------------------------------------------------------ predicate groups: run ONLY compiled (too slow interpreted)
def _p_large_update(prop, rng, thorough):
    """texture updates of aggregates with many grains (above any plausible threshold for a parallel / blocked / vectorised code
    path): the clauses of C01, C05 and C06 evaluated on the compiled code. Returns violation records."""
    from . import solver

    out = []
    for n, regime in ([(8200, 4)] if not thorough else [(4100, 4), (8200, 4), (8200, 6), (10000, 4)]):
        sc = solver.make_scenario(rng, int(rng.integers(0, 100)), nmax=4, regimes=(regime,), fields=["const", "time"])
        if n != 4100:      # olivine (enstatite has no boundary migration in the model: equal strain energies)
            sc.update(phase=0, fabric=int(rng.integers(0, 5)))
        sc.update(n=n, params_n=n, n_updates=1 if n > 20000 else 2, span=float(rng.uniform(0.2, 0.4)), tex="nonuniform" if n % 200 else "random",
                  Mob=float(rng.choice([50.0, 125.0])), debug_log=False)
        rep = solver.scenario_json(sc)
        m, Fs, _ = solver.run_scenario(sc, record=False)
        A, f = m.orientations[-1], m.fractions[-1]
        strain = solver.accumulated_strain(sc)
        tol = 5e-3 + 1e-3 * (sc["n_updates"] + 2 * strain)
        if prop == "C01":
            dev = float(np.abs(np.einsum("gij,gkj->gik", A, A) - np.eye(3)).max()) if np.isfinite(A).all() else float("inf")
            if (len(m.fractions) != sc["n_updates"] + 1 or A.shape != (n, 3, 3) or f.shape != (n,) or not np.isfinite(f).all()
                    or (f < 0).any() or abs(f.sum() - 1) > 1e-9 or dev > tol):
                out.append({"key": "large_n:invalid_snapshot", "what": f"{n} grains (compiled code): stored snapshot is not a valid texture "
                            f"(snapshots {len(m.fractions)}, sum f {float(np.sum(f))!r}, max|A.A^T-I| {dev:.3e})", "replay": rep})
        if prop == "C06":
            Fref = solver.reference_F(sc)
            rel = float(np.abs(Fs[-1] - Fref).max() / max(1.0, np.abs(Fref).max()))
            if not rel <= tol:
                out.append({"key": "large_n:F_solution", "what": f"{n} grains (compiled code): returned F differs from the ODE solution: {rel:.3e} > {tol:.3e}",
                            "replay": rep})
        if prop == "C05":
            k = float(rng.choice([25.0, 1e3, 1e-3, 1e-14]))
            sck = dict(sc, field=sc["field"].scaled(k))
            m2, F2, _ = solver.run_scenario(sck, times=solver.times_of(sc) / k, record=False)
            dA = max(float(np.abs(a - b).max()) for a, b in zip(m.orientations, m2.orientations))
            df = max(float(np.abs(a - b).max()) for a, b in zip(m.fractions, m2.fractions)) * n     # in units of the mean grain volume
            dF = float(np.abs(Fs[-1] - F2[-1]).max() / max(1.0, np.abs(Fs[-1]).max()))
            if not (dA <= tol and df <= tol and dF <= tol):
                out.append({"key": "large_n:rate_invariance", "what": f"{n} grains (compiled code), k={k:g}: max|dA|={dA:.3e} max|df|*n={df:.3e} rel dF={dF:.3e} > {tol:.3e}",
                            "replay": dict(rep, k=k)})
    return out


PREDICATES = {"large_update": _p_large_update}

def _b_diag(rng, thorough):
    """texture diagnostics on small and LARGE orientation sets (block boundaries of any compiled summation kernel)"""
    from pydrex import diagnostics as D

    out = []
    for n in ([7, 4096, 4097, 9001] if not thorough else [1, 7, 1024, 4095, 4096, 4097, 8193, 10000, 65537]):
        A = _rot(rng, n)
        if n % 2:
            A[: n // 2] = _rot(rng, 1)[0]          # half the grains share one orientation: a clear point maximum
        inp = {"n": n, "note": "orientations drawn from the battery PRNG"}
        for ax in ("a", "b", "c"):
            out.append((f"symmetry_pgr[{ax}]", inp, _flat(D.symmetry_pgr(A, axis=ax))))
            out.append((f"bingham_average[{ax}]", inp, _flat(np.abs(D.bingham_average(A, axis=ax)))))
        out.append(("coaxial_index", inp, _flat(D.coaxial_index(A))))
        out.append(("symmetry_pgr[permuted grains]", inp, _flat(D.symmetry_pgr(A[rng.permutation(n)], axis="a"))))
    for k in range(4):
        F = np.eye(3) + rng.normal(size=(3, 3)) * 0.5
        s_, v_ = D.finite_strain(F)
        out.append(("finite_strain", {"F": F.tolist()}, _flat([s_, np.abs(v_)])))
    return out


BATTERIES = {"diag": _b_diag, "tensors": _b_tensors, "utils": _b_utils, "velocity": _b_velocity, "voigt": _b_voigt, "update": _b_update}


def battery(group, seed, thorough):
    rng = np.random.default_rng([seed, sum(map(ord, group))])
    return BATTERIES[group](rng, thorough)


# ------------------------------------------------------------------ driver side
def start(groups, ctx):
    """launch the compiled twin (numba enabled) in the background; returns a handle for `finish`"""
    env = dict(os.environ)
    env.pop("NUMBA_DISABLE_JIT", None)
    env["PYDREX_VERIF_JIT"] = "1"
    return subprocess.Popen([sys.executable, "-m", "harness.jittwin", ",".join(groups), str(ctx["seed"]), "1" if ctx["thorough"] else "0",
                             ctx.get("prop", "")],
                            cwd=str(C.VERIF), env=env, stdout=subprocess.PIPE, stderr=subprocess.PIPE, text=True)


def finish(handle, groups, ctx, res, prop):
    try:
        so, se = handle.communicate(timeout=1500)
    except subprocess.TimeoutExpired:
        handle.kill()
        res.mismatch("numba-compiled vs interpreted", {"groups": list(groups)}, "", "", note="the compiled twin did not finish within 1500 s")
        return
    line = [l for l in so.splitlines() if l.startswith("RESULT ")]
    if handle.returncode != 0 or not line:
        # the worker died (e.g. killed under memory pressure while several checks ran at once): once more, now that this check's own
        # work is done; only a second failure is reported
        res.count("jit-twin:worker_restarted")
        h2 = start(groups, ctx)
        try:
            so, se2 = h2.communicate(timeout=1500)
        except subprocess.TimeoutExpired:
            h2.kill()
            so, se2 = "", "timeout"
        line = [l for l in so.splitlines() if l.startswith("RESULT ")]
        if h2.returncode != 0 or not line:
            res.mismatch("numba-compiled vs interpreted", {"groups": list(groups)}, "", "",
                         note=f"the compiled twin failed twice (exit {handle.returncode}, then {h2.returncode}): " + (se[-300:] + " | " + se2[-300:]))
            return
    compiled = json.loads(line[0][7:])
    for g in [g_ for g_ in groups if g_ in PREDICATES]:
        res.count(f"jit-twin:{g}(compiled only)")
        res.evaluations += 1
        for v in compiled[g]:
            res.violation(v["key"], v["what"], v["replay"])
    for g in [g_ for g_ in groups if g_ not in PREDICATES]:
        interp = battery(g, ctx["seed"], ctx["thorough"])
        comp = compiled[g]
        if len(comp) != len(interp):
            res.mismatch(f"numba-compiled vs interpreted [{g}]", {}, len(interp), len(comp), note="different number of outputs")
            continue
        for (nm, inp, a), (nm2, _, b) in zip(interp, comp):
            res.count(f"jit-twin:{g}")
            if g == "update" and not all(z == z and abs(z) != float("inf") for z in b):
                # a texture snapshot or deformation gradient with NaN/inf violates every property that speaks about textures
                res.violation("compiled:nonfinite_texture", f"{nm}: the numba-compiled code stores a non-finite snapshot / returns a non-finite "
                              "deformation gradient for this history (the interpreted code " + ("does too)" if not all(z == z for z in a) else "does not)"), inp)
                continue
            sc = max(1.0, max((abs(z) for z in a if z == z), default=0.0))
            ok = len(a) == len(b) and all((x != x and y != y) or abs(x - y) <= TOL[g] * sc for x, y in zip(a, b))
            if ok:
                res.traces += 1
            else:
                res.mismatch(f"numba-compiled vs interpreted: {nm}", inp, a[:24], b[:24],
                             note=f"[{prop}] compiled and interpreted code disagree (maxdiff {C.maxdiff(a, b) if len(a) == len(b) else 'shape'})")


def _worker():
    groups, seed, thorough = sys.argv[1].split(","), int(sys.argv[2]), sys.argv[3] == "1"
    from . import impl  # noqa: F401
    import numba

    assert not numba.config.DISABLE_JIT
    prop = sys.argv[4] if len(sys.argv) > 4 else ""
    out = {}
    for g in groups:
        if g in PREDICATES:
            out[g] = C.jsonable(PREDICATES[g](prop, np.random.default_rng([seed, 4242]), thorough))
        else:
            out[g] = [(nm, None, o) for nm, _, o in battery(g, seed, thorough)]
    print("RESULT " + json.dumps(out))


if __name__ == "__main__":
    _worker()
