"""C19 — parameter records and configuration files.

Correspondence K36: the real `core.DefaultParams` and every preset class of `pydrex.mock` are
introspected (decorator, annotations, class attributes) and (a) compared with the model's static
tables, (b) fed to the model's dataclass semantics (`pr_inst`) whose results are compared with
the real instances; the dataclass model itself is validated against CPython on generated tiny
class hierarchies. K37: generated TOML files are parsed by the real `io.parse_config` and, decoded
with `tomllib`, by the Lean model (`cfg_parse`); exception class or the complete parsed
configuration are compared.

The property's own clauses are evaluated on the real objects: hashability/immutability/round trip
of the default record, every preset value by attribute and by `as_dict()`, invariants of every
parsed configuration, documented defaults for every omitted optional key, ConfigError for every
single-fault file.
"""
from __future__ import annotations

import dataclasses
import itertools
import json
import sys
import math
import os
import pathlib
import shutil
import tomllib
import warnings

import numpy as np

from .. import common as C
from .. import impl

PARTIAL = [
    "tomllib (TOML decoding), meshio.read, read_scsv, np.load and the velocity-gradient factories are externals: the model "
    "starts from the decoded tables and only records which inputs are loaded / reset to None",
    "the random default of `name` (`pydrex.<integer>`) is modelled as 'no given name'; only its prefix is checked on the real result",
    "the numeric test |sum(fractions) - 1| > 1e-16 is proved over the reals; the Float instantiation is compared with numpy on "
    "lists of at most 7 fractions (numpy sums those sequentially)",
]
ASSUMPTIONS = [
    "CPython dataclass semantics as modelled in ModelD.Params (validated on generated class hierarchies every run)",
    "the non-member attributes of the IntEnum class that `getattr` resolves are taken from dir(MineralPhase) at run time",
]
OPTIMIZED_TWIN = True   # the implementation-side search is repeated under `python -O` (validation must not live in assert / __debug__)
TRUSTED = ["tomllib", "introspection of the real classes through __dict__/__annotations__"]

SCRATCH_ROOT = pathlib.Path("/tmp/discrete")


# ------------------------------------------------------------------ encodings
def enc(s):
    return "S" + ".".join(str(ord(c)) for c in s)


def opt_enc(s):
    return "-" if s is None else enc(s)


def enc_scalar(v, core):
    if isinstance(v, core.MineralPhase):
        return f"P{int(v)}"
    if isinstance(v, core.MineralFabric):
        return f"F{int(v)}"
    if isinstance(v, bool):
        return "bT" if v else "bF"
    if isinstance(v, int):
        return f"i{v}"
    if isinstance(v, float):
        return "f" + enc(repr(v))
    if isinstance(v, str):
        return "s" + enc(v)
    raise TypeError(f"unsupported scalar {v!r}")


def enc_val(v, core):
    if v is None:
        return "None"
    if isinstance(v, tuple):
        return "t(" + ",".join(enc_scalar(x, core) for x in v) + ")"
    if isinstance(v, list):
        return "l(" + ",".join(enc_scalar(x, core) for x in v) + ")"
    return enc_scalar(v, core)


def class_def(cls, core):
    """(name, decorated, [(name, ann, val)], [(name, val)]) of one class body, by introspection"""
    d = cls.__dict__
    ann = d.get("__annotations__", {})
    annotated = [(n, getattr(t, "__name__", str(t)), d[n]) for n, t in ann.items() if n in d]
    plain = [(n, v) for n, v in d.items()
             if not n.startswith("__") and n not in ann and not callable(v) and not isinstance(v, (classmethod, staticmethod, property))]
    decorated = "__dataclass_fields__" in d
    return cls.__name__, decorated, annotated, plain


def fmt_class(cd, core):
    name, dec, annotated, plain = cd
    return (f"{name}|{1 if dec else 0}|" + ",".join(f"{n}:{a}:{enc_val(v, core)}" for n, a, v in annotated) + "|"
            + ",".join(f"{n}:{enc_val(v, core)}" for n, v in plain))


def class_tokens(cd, core):
    name, dec, annotated, plain = cd
    toks = [name, "1" if dec else "0", str(len(annotated))]
    for n, a, v in annotated:
        toks += [n, a, enc_val(v, core)]
    toks.append(str(len(plain)))
    for n, v in plain:
        toks += [n, enc_val(v, core)]
    return toks


def chain_of(cls, stop):
    """single-inheritance chain from cls down to (and including) `stop`"""
    out = []
    for k in cls.__mro__:
        if k is object:
            break
        out.append(k)
    return out


def real_instance_report(cls, kwargs, queries, sets, core):
    """what the real class does, in the driver's output format"""
    try:
        inst = cls(**kwargs)
    except ValueError:
        return "ValueError", None
    except TypeError:
        return "TypeError", None
    fields = dataclasses.fields(inst)
    parts = ["ok", "fields:" + ",".join(f"{f.name}:{getattr(f.type, '__name__', str(f.type))}" for f in fields)]
    parts.append("get:" + ",".join(f"{q}={enc_val(getattr(inst, q, None), core)}" for q in queries))
    dct = dataclasses.asdict(inst)
    parts.append("dict:" + ",".join(f"{k}={enc_val(v, core)}" for k, v in dct.items()))
    try:
        hash(inst)
        parts.append("hash:1")
    except TypeError:
        parts.append("hash:0")
    res = []
    for n in sets:
        probe = cls(**kwargs)
        try:
            setattr(probe, n, 1)
            res.append(f"{n}=ok")
        except dataclasses.FrozenInstanceError:
            res.append(f"{n}=FrozenInstanceError")
        except Exception as e:  # pragma: no cover
            res.append(f"{n}={type(e).__name__}")
    parts.append("set:" + ",".join(res))
    return "|".join(parts), inst


# ------------------------------------------------------------------ K36
def run_params(ctx, res):
    from pydrex import core, mock

    D = core.DefaultParams
    presets = [c for c in vars(mock).values() if isinstance(c, type) and issubclass(c, D) and c is not D]
    presets.sort(key=lambda c: c.__firstlineno__ if hasattr(c, "__firstlineno__") else list(vars(mock)).index(c.__name__))
    res.count("presets", len(presets))

    # ---- the property on the real objects
    d = D()
    res.evaluations += 1
    try:
        if not isinstance(hash(d), int):
            res.violation("default:not_hashable", "hash(DefaultParams()) is not an int", {"kind": "default"})
    except TypeError as e:
        res.violation("default:not_hashable", f"hash(DefaultParams()) raised {e!r}", {"kind": "default"})
    for f in dataclasses.fields(d):
        try:
            setattr(d, f.name, 1)
            res.violation("default:mutable", f"setattr(DefaultParams(), {f.name!r}, 1) succeeded", {"kind": "default", "field": f.name})
        except dataclasses.FrozenInstanceError:
            pass
    if not (D(**d.as_dict()) == d) or hash(D(**d.as_dict())) != hash(d):
        res.violation("default:roundtrip", "DefaultParams(**DefaultParams().as_dict()) != DefaultParams()", {"kind": "default"})
    if list(d.as_dict().keys()) != [f.name for f in dataclasses.fields(d)]:
        res.violation("default:as_dict_keys", "as_dict keys differ from the fields", {"kind": "default"})
    rng = np.random.default_rng(ctx["seed"] + 19)
    names = [f.name for f in dataclasses.fields(d)]
    for t in range(40 if not ctx["thorough"] else 400):
        kw = {}
        for n in rng.choice(names, size=int(rng.integers(1, 6)), replace=False):
            cur = getattr(d, n)
            if isinstance(cur, tuple):
                kw[n] = tuple(float(x) for x in rng.random(len(cur)))
            elif isinstance(cur, float):
                kw[n] = float(rng.random() * 10)
            elif isinstance(cur, core.MineralFabric):
                kw[n] = core.MineralFabric(int(rng.integers(0, 5)))
            else:
                kw[n] = int(rng.integers(0, 10000))
        x = D(**kw)
        res.evaluations += 1
        res.nontrivial(("default_kw", tuple(sorted(kw))))
        if not (D(**x.as_dict()) == x):
            res.violation("default:roundtrip", "D(**x.as_dict()) != x for a modified record", {"kind": "default", "kwargs": repr(kw)})
        if any(getattr(x, k) != v for k, v in kw.items()):
            res.violation("default:kwargs_ignored", "keyword argument not stored", {"kind": "default", "kwargs": repr(kw)})
    for P in presets:
        inst = P()
        declared = {n: v for n, v in vars(P).items() if not n.startswith("__") and not callable(v)}
        res.evaluations += 1
        res.nontrivial(("preset", P.__name__))
        for n, v in declared.items():
            got = getattr(inst, n)
            via = inst.as_dict().get(n, "<missing>")
            rep = {"kind": "preset", "preset": P.__name__, "name": n, "declared": repr(v), "attribute": repr(got), "as_dict": repr(via)}
            if got != v or type(got) is not type(v):
                res.violation(f"preset_declares:{P.__name__}:{n}", f"{P.__name__}().{n} is {got!r}, the class declares {v!r}", rep)
            elif via != v or type(via) is not type(v):
                res.violation(f"preset_declares:{P.__name__}:{n}", f"{P.__name__}().as_dict()[{n!r}] is {via!r}, the class declares {v!r}", rep)
        try:
            hash(inst)
        except TypeError:
            res.violation(f"preset:not_hashable:{P.__name__}", "preset instance is not hashable", {"kind": "preset", "preset": P.__name__})
        if [f.name for f in dataclasses.fields(inst)] != names:
            res.violation(f"preset:fields:{P.__name__}", "preset does not have the fields of the record", {"kind": "preset", "preset": P.__name__})

    # ---- static tables of the model vs the real classes
    real_table = ";".join(fmt_class(class_def(c, core), core) for c in [D] + presets)
    lines = ["pr_table"]
    want = [real_table]
    kinds = ["K36 static tables (DefaultParams + presets)"]
    # ---- the model's semantics on the introspected classes
    for P in [D] + presets:
        chain = chain_of(P, D)
        cds = [class_def(c, core) for c in chain]
        declared_names = [n for n, _, _ in cds[0][2]] + [n for n, _ in cds[0][3]]
        queries = list(dict.fromkeys(names + declared_names + ["no_such_attribute"]))
        sets = [names[4], "brand_new_attribute"]
        toks = ["pr_inst", str(len(cds))]
        for cd in cds:
            toks += class_tokens(cd, core)
        toks += ["0", str(len(queries))] + queries + [str(len(sets))] + sets
        lines.append(" ".join(toks))
        rep, _ = real_instance_report(P, {}, queries, sets, core)
        want.append(rep)
        kinds.append(f"K36 dataclass semantics on {P.__name__}")
    outs = C.run_driver(lines)
    for k, w, g in zip(kinds, want, outs):
        if w == g:
            res.traces += 1
        else:
            i = next((j for j, (a, b) in enumerate(zip(w, g)) if a != b), min(len(w), len(g)))
            res.mismatch(k, {}, w[max(0, i - 80):i + 120], g[max(0, i - 80):i + 120])
    res.sample({"preset": presets[1].__name__, "declared_gbm_mobility": vars(presets[1]).get("gbm_mobility"),
                "instance_gbm_mobility": presets[1]().gbm_mobility})
    _tiny_hierarchies(ctx, res, core)


def _tiny_hierarchies(ctx, res, core):
    """validate the dataclass model against CPython on generated class hierarchies"""
    rng = np.random.default_rng(ctx["seed"] + 1936)
    n_h = 500 if not ctx["thorough"] else 3000
    pool = ["a", "b", "c", "d", "e"]
    types = {"int": [0, 7, -3], "float": [0.5, 2.0, -1.25], "tuple": [(1, 2.0), (), (0.5,)], "str": ["x", ""], "bool": [True, False]}

    def rand_val(tn=None):
        tn = tn or list(types)[int(rng.integers(0, len(types)))]
        vals = types[tn]
        return tn, vals[int(rng.integers(0, len(vals)))]

    lines, want, reps = [], [], []
    for h in range(n_h):
        depth = int(rng.integers(1, 4))
        classes = []   # base first
        for lvl in range(depth):
            dec = True if lvl == 0 else bool(rng.random() < 0.5)
            annotated, plain = [], []
            for n in pool:
                r = rng.random()
                if lvl == 0 and r < 0.6 or lvl > 0 and r < 0.3:
                    tn, v = rand_val()
                    if rng.random() < 0.2:   # annotation that does not match the value's type
                        tn = list(types)[int(rng.integers(0, len(types)))]
                    annotated.append((n, tn, v))
                elif r < 0.5:
                    _, v = rand_val()
                    plain.append((n, v))
            classes.append((f"K{h}_{lvl}", dec, annotated, plain))
        # build the real classes
        ns = {"dataclass": dataclasses.dataclass, "post": core.DefaultParams.__post_init__}
        base = None
        ok_build = True
        real = []
        for (name, dec, annotated, plain) in classes:
            body = {"__annotations__": {n: eval(t) for n, t, _ in annotated}}
            for n, _, v in annotated:
                body[n] = v
            for n, v in plain:
                body[n] = v
            if base is None:
                body["__post_init__"] = core.DefaultParams.__post_init__
            try:
                k = type(name, (base,) if base else (), body)
                if dec:
                    k = dataclasses.dataclass(frozen=True)(k)
            except (TypeError, ValueError):
                ok_build = False
                break
            real.append(k)
            base = k
        if not ok_build:
            res.count("tiny:class_creation_rejected_by_python")
            continue
        P = real[-1]
        fields_now = [f.name for f in dataclasses.fields(P)]
        kwargs = {}
        for n in fields_now:
            if rng.random() < 0.25:
                kwargs[n] = [1, 2] if rng.random() < 0.2 else rand_val()[1]
        if rng.random() < 0.1:
            kwargs["zzz"] = 1
        queries = pool + ["zzz"]
        sets = [pool[int(rng.integers(0, len(pool)))], "fresh"]
        cds = [(c[0], c[1], c[2], c[3]) for c in reversed(classes)]
        toks = ["pr_inst", str(len(cds))]
        for cd in cds:
            toks += class_tokens(cd, core)
        toks += [str(len(kwargs))]
        for n, v in kwargs.items():
            toks += [n, enc_val(v, core)]
        toks += [str(len(queries))] + queries + [str(len(sets))] + sets
        lines.append(" ".join(toks))
        rep, _ = real_instance_report(P, kwargs, queries, sets, core)
        want.append(rep)
        reps.append({"classes": [(c[0], c[1], [(n, t, repr(v)) for n, t, v in c[2]], [(n, repr(v)) for n, v in c[3]]) for c in classes],
                     "kwargs": repr(kwargs)})
        res.evaluations += 1
        res.count("tiny:depth=%d" % depth)
        res.nontrivial(("tiny", h, repr(classes)))
    outs = C.run_driver(lines)
    for w, g, rep in zip(want, outs, reps):
        if w == g:
            res.traces += 1
        else:
            res.mismatch("K36 dataclass model vs CPython (generated hierarchy)", rep, w[:400], g[:400])


# ------------------------------------------------------------------ K37
FRACTION_CHOICES = [None, [1.0], [0.7, 0.3], [0.5, 0.5], [1], [0.25, 0.75], [0.6, 0.3, 0.1], [0.5], [0.7, 0.2], [1.0000000000000002],
                    [0.5, 0.25, 0.25], [0.1] * 7 + [0.3][:0], [1, 0], [0.3, 0.7], [0.9999999999999999], [2.0, -1.0]]
ASSEMBLAGE_OK = [None, ["olivine"], ["enstatite"], ["olivine", "enstatite"], ["enstatite", "olivine"], [0], [1, 0], [True], ["olivine", 1],
                 [False, True], ["olivine", "enstatite", "olivine"]]
ASSEMBLAGE_BAD = [["real"], ["foo"], [5], [-1], [1.0], [[0]], ["__doc__"], ["numerator"], ["olivine", "from_bytes"], ["Olivine"], [""],
                  ["olivine", 2], ["__members__"], ["name"], ["olivine "]]
FABRIC_OK = [None, "A", "B", "C", "D", "E"]
FABRIC_BAD = ["Z", "", "a", "AB", 0, True, "olivine_A", 1.5, ["A"], "A "]
PASS_VALUES = {"stress_exponent": [1.5, 2, 3.25], "deformation_exponent": [3.5, 3], "gbm_mobility": [125, 10, 0, 50.5], "gbs_threshold": [0.3, 0, 0.45],
               "nucleation_efficiency": [5.0, 5], "number_of_grains": [2000, 3500, 7], "disl_Peierls_stress": [2.0, 2], "disl_prefactors": [[1e-16, 1e-17]],
               "diff_prefactors": [[1e-10, 1e-10]], "disl_lowtemp_switch": [0.7], "disl_activation_energy": [460.0], "disl_activation_volume": [12.0],
               "diff_activation_energies": [[430.0, 330.0]], "diff_activation_volumes": [[4.0, 4.0]]}
COEFFS = {"ok": [4.4e8, -5.26e4, 2.11e-2, 1.74e-4, -41.8, 4.21e-2, -1.14e-5], "short": [1.0, 2.0], "long": [0.0] * 8, "empty": []}


def toml_value(v):
    if isinstance(v, bool):
        return "true" if v else "false"
    if isinstance(v, int):
        return str(v)
    if isinstance(v, float):
        if math.isnan(v):
            return "nan"
        if math.isinf(v):
            return "inf" if v > 0 else "-inf"
        r = repr(v)
        return r if ("." in r or "e" in r or "E" in r) else r + ".0"
    if isinstance(v, str):
        return json.dumps(v)
    if isinstance(v, (list, tuple)):
        return "[" + ", ".join(toml_value(x) for x in v) + "]"
    raise TypeError(v)


def write_toml(path, cfg):
    lines = []
    if cfg.get("name") is not None:
        lines.append(f"name = {toml_value(cfg['name'])}")
    for sect in ("input", "output", "parameters"):
        if cfg.get(sect) is None:
            continue
        lines.append(f"[{sect}]")
        for k, v in cfg[sect].items():
            lines.append(f"{k} = {toml_value(v)}")
    path.write_text("\n".join(lines) + "\n")


def phase_tok(x):
    if isinstance(x, str):
        return "s" + enc(x)
    if isinstance(x, bool):
        return "bT" if x else "bF"
    if isinstance(x, int):
        return f"i{x}"
    return "o"


def num_tok(x):
    if isinstance(x, (int, float)):
        return "n" + enc(repr(x))
    return "o"


def cfg_tokens(decoded, attrs):
    """driver request for a tomllib-decoded configuration; None when the model does not cover it"""
    toks = ["cfg_parse", "repaired", str(len(attrs))] + [enc(a) for a in attrs]
    toks.append(opt_enc(decoded.get("name")) if isinstance(decoded.get("name"), (str, type(None))) else None)
    if toks[-1] is None:
        return None
    p = decoded.get("parameters")
    if p is None:
        toks.append("P0")
    else:
        toks.append("P1")
        a = p.get("phase_assemblage")
        if a is None:
            toks.append("-")
        elif isinstance(a, list):
            toks += [str(len(a))] + [phase_tok(x) for x in a]
        else:
            return None
        f = p.get("phase_fractions")
        if f is None:
            toks.append("-")
        elif isinstance(f, list) and all(isinstance(x, (int, float)) and not isinstance(x, bool) for x in f) and len(f) <= 7:
            toks += [str(len(f))] + [C.f2h(float(x)) for x in f]
        else:
            return None
        fab = p.get("initial_olivine_fabric")
        toks.append("-" if fab is None else ("s" + enc(fab) if isinstance(fab, str) else "o"))
        co = p.get("disl_coefficients")
        if co is None:
            toks.append("-")
        elif isinstance(co, list):
            toks.append(str(len(co)))
        else:
            return None
        pt = [(k, v) for k, v in p.items() if k in PASS_VALUES]
        toks.append(str(len(pt)))
        for k, v in pt:
            toks += [k, enc(repr(v))]
    i = decoded.get("input")
    if i is None:
        toks.append("I0")
    else:
        toks.append("I1")
        toks.append("-" if "timestep" not in i else num_tok(i["timestep"]))
        toks.append("-" if "strain_final" not in i else num_tok(i["strain_final"]))
        for k in ("mesh", "velocity_gradient", "paths", "locations_initial", "locations_final"):
            toks.append("1" if k in i else "0")
    o = decoded.get("output")
    if o is None:
        toks.append("O0")
    else:
        toks.append("O1")
        toks.append(opt_enc(o.get("directory")))
        for k in ("raw_output", "diagnostics"):
            v = o.get(k)
            if v is None:
                toks.append("-")
            elif isinstance(v, list) and all(isinstance(x, str) for x in v):
                toks += [str(len(v))] + [enc(x) for x in v]
            else:
                return None
        for k in ("anisotropy", "paths", "log_level"):
            toks.append("-" if k not in o else enc(repr(o[k]) if k != "log_level" else o[k]))
    return " ".join(toks)


def result_string(decoded, cfg_path, out, core, attrs_rev):
    """the real result of parse_config in the driver's output format"""
    def pv(x):
        if isinstance(x, core.MineralPhase):
            return f"m{int(x)}"
        return "c" + enc(attrs_rev.get(id(x), attrs_rev.get(repr(x), "?")))

    params = out["parameters"]
    given_p = decoded.get("parameters") or {}
    parts = ["ok", "name=" + (opt_enc(out["name"]) if "name" in decoded else ("-" if str(out.get("name", "")).startswith("pydrex.") else "?"))]
    parts.append("phases=" + ",".join(pv(x) for x in params["phase_assemblage"]))
    parts.append("fr=" + ("-" if "phase_fractions" not in given_p and params["phase_fractions"] == (1.0,) and isinstance(params["phase_fractions"], tuple)
                          else " ".join(C.f2h(float(x)) for x in params["phase_fractions"])))
    fab = params["initial_olivine_fabric"]
    parts.append("fabric=" + (str(int(fab)) if isinstance(fab, core.MineralFabric) else "?"))
    dflt_co = core.DefaultParams().disl_coefficients
    parts.append("coeff=" + ("-" if "disl_coefficients" not in given_p and params["disl_coefficients"] == dflt_co
                             else (str(len(params["disl_coefficients"])) if isinstance(params["disl_coefficients"], tuple) else "?")))
    pt = []
    for k in PASS_VALUES:
        v = params[k]
        pt.append(f"{k}:" + ("G" + enc(repr(v)) if k in given_p else "D" + enc_val(v, core)))
    parts.append("pt=" + ";".join(pt))
    inp = out["input"]
    given_i = decoded.get("input") or {}

    def state(k):
        if k not in inp:
            return "absent"
        if inp[k] is None:
            return "none"
        if k in given_i and type(inp[k]) is type(given_i[k]) and inp[k] == given_i[k]:
            return "raw"
        return "loaded"

    mode = "mesh" if "mesh" in given_i else "velgrad" if "velocity_gradient" in given_i else "paths" if "paths" in given_i else "none"
    parts.append("in=" + ",".join([enc(repr(inp["timestep"])), enc(repr(inp["strain_final"])), mode, state("mesh"), state("velocity_gradient"),
                                   state("paths"), state("locations_initial"), state("locations_final")]))
    given_o = decoded.get("output") or {}
    if "output" not in out:
        parts.append("out=0")
        return "|".join(parts)
    o = out["output"]
    if "directory" in given_o:
        want_dir = (cfg_path.parent / given_o["directory"]).resolve()
        d = enc(given_o["directory"]) if pathlib.Path(o["directory"]) == want_dir else "?"
    else:
        d = "-" if pathlib.Path(o["directory"]) == pathlib.Path.cwd().resolve() else "?"
    default_aniso = ["Voigt", "hexaxis", "moduli", "%decomp"]
    aniso = enc(repr(o["anisotropy"])) if "anisotropy" in given_o else ("-" if o["anisotropy"] == default_aniso else "?")
    paths = "-" if o["paths"] is None else enc(repr(o["paths"]))
    parts.append("out=" + ",".join(["1", d, "[" + " ".join(pv(x) for x in o["raw_output"]) + "]", "[" + " ".join(pv(x) for x in o["diagnostics"]) + "]",
                                    aniso, paths, enc(o["log_level"])]))
    return "|".join(parts)


def check_parsed(res, decoded, out, core, rep):
    """the statement of C19 on a configuration that parsed"""
    p = out["parameters"]
    if len(p["phase_assemblage"]) != len(p["phase_fractions"]):
        res.violation("parsed:length_mismatch", "phase_assemblage and phase_fractions of different length were accepted", rep)
    if abs(float(np.sum(p["phase_fractions"])) - 1.0) > 1e-16:
        res.violation("parsed:fractions_do_not_sum_to_one", f"accepted fractions {p['phase_fractions']!r}", rep)
    if not all(isinstance(x, core.MineralPhase) for x in p["phase_assemblage"]):
        res.violation("parsed:phase_not_enum", f"phase_assemblage {p['phase_assemblage']!r} contains a non-member", rep)
    if not isinstance(p["initial_olivine_fabric"], core.MineralFabric):
        res.violation("parsed:fabric_not_enum", f"initial_olivine_fabric is {p['initial_olivine_fabric']!r}", rep)
    # documented defaults of omitted optional keys
    gp = decoded.get("parameters") or {}
    defaults = core.DefaultParams().as_dict()
    for k, v in defaults.items():
        if k not in gp:
            got = p.get(k, "<missing>")
            if got != v or type(got) is not type(v):
                res.violation(f"default:parameters.{k}", f"omitted parameter {k} became {got!r}, documented default {v!r}", rep)
    gi = decoded.get("input") or {}
    if "strain_final" not in gi and out["input"].get("strain_final") != math.inf:
        res.violation("default:input.strain_final", f"omitted strain_final became {out['input'].get('strain_final')!r}", rep)
    if "output" not in out:
        res.violation("default:output_table_missing", "the parsed configuration has no 'output' entry", rep)
        return
    go = decoded.get("output") or {}
    o = out["output"]
    expect = {"anisotropy": ["Voigt", "hexaxis", "moduli", "%decomp"], "paths": None, "log_level": "WARNING",
              "raw_output": list(p["phase_assemblage"]), "diagnostics": list(p["phase_assemblage"])}
    for k, v in expect.items():
        if k not in go and o.get(k, "<missing>") != v:
            res.violation(f"default:output.{k}", f"omitted [output].{k} became {o.get(k, '<missing>')!r}, documented default {v!r}", rep)
    if "directory" not in go and pathlib.Path(o["directory"]) != pathlib.Path.cwd().resolve():
        res.violation("default:output.directory", f"omitted output directory became {o['directory']!r}", rep)
    if "name" not in decoded and not str(out.get("name", "")).startswith("pydrex."):
        res.violation("default:name", f"omitted name became {out.get('name')!r}", rep)


INPUT_MODES = {
    "velgrad": {"velocity_gradient": ["simple_shear_2d", "Y", "X", 5e-6], "locations_initial": "start.scsv", "timestep": 1e9},
    "mesh": {"mesh": "mesh.vtu", "locations_final": "final.scsv", "timestep": 1e10},
    "paths": {"paths": ["p1.npz", "p2.npz"]},
    "paths_ts": {"paths": ["p1.npz"], "timestep": 1e9},
    "none": {"timestep": 5},
    "all_three": {"mesh": "mesh.vtu", "locations_final": "final.scsv", "velocity_gradient": ["simple_shear_2d", "Y", "X", 5e-6],
                  "locations_initial": "start.scsv", "paths": ["p1.npz"], "timestep": 1.5},
    "velgrad_paths": {"velocity_gradient": ["simple_shear_2d", "Y", "X", 5e-6], "locations_initial": "start.scsv", "paths": ["p1.npz"], "timestep": 1e9,
                      "locations_final": "final.scsv"},
    "none_with_locations": {"timestep": 1.0, "locations_initial": "start.scsv"},
    # every documented flow constructor, with and without its optional argument (cell_2d's edge_length)
    "velgrad_cell": {"velocity_gradient": ["cell_2d", "X", "Z", 1.0], "locations_initial": "start.scsv", "timestep": 0.1},
    "velgrad_cell_edge_length": {"velocity_gradient": ["cell_2d", "X", "Z", 1.0, 4.0], "locations_initial": "start.scsv", "timestep": 0.1},
    "velgrad_corner": {"velocity_gradient": ["corner_2d", "X", "Z", 2.0], "locations_initial": "start.scsv", "timestep": 0.1},
}


def base_config():
    return {"name": "run",
            "input": dict(INPUT_MODES["velgrad"], strain_final=2.5),
            "output": {"directory": "out", "raw_output": ["olivine"], "diagnostics": ["olivine"], "anisotropy": True,
                       "paths": ["pathline001.scsv"], "log_level": "DEBUG"},
            "parameters": {"phase_assemblage": ["olivine"], "phase_fractions": [1.0], "initial_olivine_fabric": "A",
                           "disl_coefficients": COEFFS["ok"], "gbm_mobility": 10, "number_of_grains": 2000, "stress_exponent": 1.5}}


OPTIONAL = [("name",), ("parameters",), ("parameters", "phase_assemblage+phase_fractions"), ("parameters", "initial_olivine_fabric"),
            ("parameters", "disl_coefficients"), ("parameters", "gbm_mobility"), ("parameters", "number_of_grains"), ("parameters", "stress_exponent"),
            ("input", "strain_final"), ("output",), ("output", "directory"), ("output", "raw_output"), ("output", "diagnostics"),
            ("output", "anisotropy"), ("output", "paths"), ("output", "log_level")]


def drop_keys(cfg, mask):
    """configuration with the optional entries of OPTIONAL whose mask bit is 0 removed"""
    c = json.loads(json.dumps(cfg))
    for keep, key in zip(mask, OPTIONAL):
        if keep:
            continue
        if len(key) == 1:
            c[key[0]] = None
        elif c.get(key[0]) is not None:
            for k in key[1].split("+"):
                c[key[0]].pop(k, None)
    return c


def run_config(ctx, res):
    from pydrex import core
    from pydrex import exceptions as err
    from pydrex import io as pio

    rng = np.random.default_rng(ctx["seed"] + 37)
    thorough = ctx["thorough"]
    root = SCRATCH_ROOT / f"c19-{os.getpid()}"
    if root.exists():
        shutil.rmtree(root)
    root.mkdir(parents=True)
    data = pathlib.Path(pio.data("specs"))
    meshes = pathlib.Path(pio.data("meshes"))
    shutil.copy(data / "start.scsv", root / "start.scsv")
    shutil.copy(meshes / "corner2d_2cmyr_5e5x1e5.vtu", root / "mesh.vtu")
    shutil.copy(meshes / "corner2d_2cmyr_5e5x1e5.scsv", root / "final.scsv")
    np.savez(root / "p1.npz", t=np.arange(3.0))
    np.savez(root / "p2.npz", t=np.arange(2.0))
    P = core.MineralPhase
    attrs = []
    attrs_rev = {}
    for n in dir(P):
        if n in P.__members__:
            continue
        try:
            v = getattr(P, n)
        except AttributeError:
            continue
        attrs.append(n)
        attrs_rev[id(v)] = n
        attrs_rev.setdefault(repr(v), n)
    res.count("enum_class_attributes_resolving", len(attrs))

    cases = []   # (tag, cfg, expect)  expect in {"parse", "ConfigError", None}

    # (i) subsets of the optional keys of a fully populated file
    base = base_config()
    n_opt = len(OPTIONAL)
    if thorough:
        masks = list(itertools.product([0, 1], repeat=n_opt))
        if len(masks) > 6000:
            idx = rng.choice(len(masks), size=6000, replace=False)
            masks = [masks[i] for i in idx]
    else:
        masks = [tuple(int(b) for b in rng.integers(0, 2, n_opt)) for _ in range(500)]
    masks += [tuple(0 if j == i else 1 for j in range(n_opt)) for i in range(n_opt)]
    masks += [tuple([0] * n_opt), tuple([1] * n_opt)]
    for m in masks:
        for mode in (("velgrad",) if not thorough else ("velgrad", "mesh", "paths_ts")):
            cfg = drop_keys(base, m)
            keep_sf = cfg["input"].get("strain_final")
            cfg["input"] = dict(INPUT_MODES[mode])
            if keep_sf is not None:
                cfg["input"]["strain_final"] = keep_sf
            cases.append(("subset", cfg, "parse"))
    # two-phase base, assemblage and fractions tied
    two = base_config()
    two["parameters"].update(phase_assemblage=["olivine", "enstatite"], phase_fractions=[0.7, 0.3])
    two["output"].update(raw_output=["olivine", "enstatite"], diagnostics=["enstatite"])
    for m in (masks[:60] if not thorough else masks[:1500]):
        cfg = drop_keys(two, m)
        if cfg.get("parameters") is None or "phase_assemblage" not in cfg["parameters"]:
            if cfg.get("output") is not None:
                for k in ("raw_output", "diagnostics"):
                    if k in cfg["output"]:
                        cfg["output"][k] = ["olivine"]
        cases.append(("subset_two_phase", cfg, "parse"))
    # (ii) valid configurations: input modes x phases x fabrics
    valid_pairs = [(None, None), (["olivine"], [1.0]), (["enstatite"], [1]), (["olivine", "enstatite"], [0.7, 0.3]), ([1, 0], [0.25, 0.75]),
                   ([True], None), (None, [1.0]), (["enstatite", "olivine"], [0.5, 0.5]), (["olivine", 1], [0.3, 0.7]), ([0], None)]
    for mode, inp in INPUT_MODES.items():
        for (a, f) in valid_pairs:
            for fab in FABRIC_OK:
                if rng.random() > (0.5 if not thorough else 1.0):
                    continue
                cfg = {"input": dict(inp), "parameters": {}, "output": {}}
                if a is not None:
                    cfg["parameters"]["phase_assemblage"] = a
                if f is not None:
                    cfg["parameters"]["phase_fractions"] = f
                if fab is not None:
                    cfg["parameters"]["initial_olivine_fabric"] = fab
                for k, vals in PASS_VALUES.items():
                    if rng.random() < 0.3:
                        cfg["parameters"][k] = vals[int(rng.integers(0, len(vals)))]
                if rng.random() < 0.3:
                    cfg["parameters"]["disl_coefficients"] = COEFFS["ok"]
                if rng.random() < 0.3:
                    cfg["parameters"] = cfg["parameters"] or None
                r = rng.random()
                if r < 0.3:
                    cfg["output"] = None
                elif r < 0.6:
                    cfg["output"] = {"raw_output": [], "log_level": "INFO"}
                cases.append(("valid:" + mode, cfg, "parse"))
    # (iii) single faults on top of a valid file
    def faulty(tag, mutate):
        cfg = base_config() if rng.random() < 0.5 else json.loads(json.dumps(two))
        if rng.random() < 0.5:
            cfg["input"] = dict(INPUT_MODES[["mesh", "paths_ts", "none", "velgrad"][int(rng.integers(0, 4))]])
        mutate(cfg)
        cases.append(("fault:" + tag, cfg, "ConfigError"))

    reps_f = 1 if not thorough else 4
    for _ in range(reps_f):
        for bad in ASSEMBLAGE_BAD:
            def mut(cfg, bad=bad):
                n = len(cfg["parameters"]["phase_fractions"])
                b = list(bad)
                while len(b) < n:
                    b.append("olivine")
                if len(b) > n:
                    cfg["parameters"]["phase_fractions"] = [1.0] + [0.0] * (len(b) - 1)
                cfg["parameters"]["phase_assemblage"] = b
                cfg["output"]["raw_output"] = []
                cfg["output"]["diagnostics"] = []
            faulty("phase:" + repr(bad[-1] if len(bad) > 1 else bad[0]), mut)
        for bad in FABRIC_BAD:
            faulty("fabric:" + repr(bad), lambda cfg, bad=bad: cfg["parameters"].__setitem__("initial_olivine_fabric", bad))
        for bad in ([0.5], [0.7, 0.2], [1.0000000000000002], [0.9999999999999999], [2.0, -1.5], [0.6, 0.3, 0.05]):
            def mut(cfg, bad=bad):
                cfg["parameters"]["phase_fractions"] = bad
                cfg["parameters"]["phase_assemblage"] = ["olivine"] * len(bad)
                cfg["output"]["diagnostics"] = ["olivine"]
                cfg["output"]["raw_output"] = ["olivine"]
            faulty("fractions_sum:" + repr(bad), mut)
        faulty("length:more_phases", lambda cfg: cfg["parameters"].update(phase_assemblage=["olivine", "enstatite", "olivine"]))
        faulty("length:more_fractions", lambda cfg: cfg["parameters"].update(phase_fractions=[0.5, 0.25, 0.25]))
        faulty("length:assemblage_without_fractions", lambda cfg: (cfg["parameters"].update(phase_assemblage=["olivine", "enstatite"]),
                                                                   cfg["parameters"].pop("phase_fractions")))
        for k in ("short", "long", "empty"):
            faulty("coefficients:" + k, lambda cfg, k=k: cfg["parameters"].__setitem__("disl_coefficients", COEFFS[k]))
        faulty("input:missing_section", lambda cfg: cfg.__setitem__("input", None))
        faulty("input:no_timestep", lambda cfg: cfg.__setitem__("input", {k: v for k, v in INPUT_MODES["velgrad"].items() if k != "timestep"}))
        for bad in ("1e9", [1.0], "fast"):
            faulty("input:timestep:" + repr(bad), lambda cfg, bad=bad: cfg["input"].__setitem__("timestep", bad))
            faulty("input:strain_final:" + repr(bad), lambda cfg, bad=bad: (cfg["input"].setdefault("timestep", 1.0), cfg["input"].__setitem__("strain_final", bad)))
        for key in ("raw_output", "diagnostics"):
            for bad in (["foo"], ["real"], ["olivine", "Enstatite"], ["__doc__"]):
                faulty(f"output:{key}:{bad[-1]}", lambda cfg, key=key, bad=bad: cfg["output"].__setitem__(key, bad))
        def not_simulated(cfg):
            cfg["parameters"].update(phase_assemblage=["olivine"], phase_fractions=[1.0])
            cfg["output"].update(raw_output=["enstatite"], diagnostics=["olivine"])
        faulty("output:phase_not_simulated", not_simulated)
    # (iv) unconstrained mixtures (correspondence only)
    for t in range(600 if not thorough else 3000):
        cfg = {"input": dict(INPUT_MODES[list(INPUT_MODES)[int(rng.integers(0, len(INPUT_MODES)))]]), "parameters": {}, "output": {}}
        a = (ASSEMBLAGE_OK + ASSEMBLAGE_BAD)[int(rng.integers(0, len(ASSEMBLAGE_OK) + len(ASSEMBLAGE_BAD)))]
        f = FRACTION_CHOICES[int(rng.integers(0, len(FRACTION_CHOICES)))]
        fab = (FABRIC_OK + FABRIC_BAD)[int(rng.integers(0, len(FABRIC_OK) + len(FABRIC_BAD)))]
        if a is not None:
            cfg["parameters"]["phase_assemblage"] = a
        if f is not None:
            cfg["parameters"]["phase_fractions"] = f
        if fab is not None:
            cfg["parameters"]["initial_olivine_fabric"] = fab
        if rng.random() < 0.3:
            cfg["parameters"]["disl_coefficients"] = COEFFS[list(COEFFS)[int(rng.integers(0, 4))]]
        if rng.random() < 0.2:
            cfg["input"]["timestep"] = ["x", True, 2, 1.5][int(rng.integers(0, 4))]
        if rng.random() < 0.15:
            cfg["input"].pop("locations_initial", None)
            cfg["input"].pop("locations_final", None)
        if rng.random() < 0.15:
            cfg["input"] = None
        r = rng.random()
        if r < 0.25:
            cfg["output"] = None
        else:
            for key in ("raw_output", "diagnostics"):
                if rng.random() < 0.6:
                    cfg["output"][key] = [[], ["olivine"], ["enstatite"], ["olivine", "enstatite"], ["real"], ["foo"]][int(rng.integers(0, 6))]
            if rng.random() < 0.3:
                cfg["output"]["paths"] = ["x.scsv"]
            if rng.random() < 0.3:
                cfg["output"]["directory"] = "o" + str(t % 3)
        if rng.random() < 0.2:
            cfg["parameters"] = None
        if rng.random() < 0.5:
            cfg["name"] = "n" + str(t)
        cases.append(("mixture", cfg, None))

    lines, wants, metas = [], [], []
    cwd = os.getcwd()
    for ci, (tag, cfg, expect) in enumerate(cases):
        path = root / f"c{ci % 50}.toml"
        write_toml(path, cfg)
        decoded = tomllib.loads(path.read_text())
        rep = {"kind": "config", "tag": tag, "toml": path.read_text()}
        with warnings.catch_warnings():
            warnings.simplefilter("ignore")
            try:
                out = pio.parse_config(path)
                outcome = "ok"
            except err.ConfigError:
                out, outcome = None, "ConfigError"
            except Exception as e:
                out, outcome = None, type(e).__name__
        res.evaluations += 1
        res.count("config:" + tag.split(":")[0])
        res.count("outcome:" + outcome)
        if ci < 2000 or ci % 7 == 0:
            res.nontrivial(("cfg", json.dumps(cfg, sort_keys=True, default=str)))
        if expect == "parse":
            if outcome != "ok":
                missing = [".".join(k) for k in OPTIONAL if (len(k) == 1 and cfg.get(k[0]) is None) or
                           (len(k) == 2 and (cfg.get(k[0]) is None or any(x not in cfg[k[0]] for x in k[1].split("+"))))]
                res.violation(f"optional_keys:{outcome}", f"a file with the required inputs and valid optional entries raised {outcome}; "
                              f"omitted: {missing[:8]}", rep)
        elif expect == "ConfigError":
            if outcome == "ok":
                res.violation(f"{tag.rsplit(':', 1)[0]}:accepted", f"invalid configuration ({tag}) was accepted", rep)
            elif outcome != "ConfigError":
                res.violation(f"{tag.rsplit(':', 1)[0]}:raised_{outcome}", f"invalid configuration ({tag}) raised {outcome}, not ConfigError", rep)
        if out is not None:
            check_parsed(res, decoded, out, core, rep)
        req = cfg_tokens(decoded, attrs)
        if req is None:
            res.count("config:not_covered_by_model")
            continue
        lines.append(req)
        wants.append(outcome if out is None else result_string(decoded, path, out, core, attrs_rev))
        metas.append(rep)
        if len(res.samples) < 5 and tag.startswith(("subset", "fault")) and ci % 37 == 0:
            res.sample({"config": tag, "toml": path.read_text()[:400], "outcome": outcome})
    outs = C.run_driver(lines)
    for w, g, rep in zip(wants, outs, metas):
        if w == g:
            res.traces += 1
        else:
            i = next((j for j, (a, b) in enumerate(zip(w, g)) if a != b), min(len(w), len(g)))
            res.mismatch("K37 parse_config", rep, w[max(0, i - 60):i + 160], g[max(0, i - 60):i + 160])
    os.chdir(cwd)
    shutil.rmtree(root, ignore_errors=True)


LOCALE_SCRIPT = r"""
import json, os, pathlib, sys, tempfile
os.environ.setdefault("NUMBA_DISABLE_JIT", "1")
import logging
logging.getLogger("pydrex").setLevel(logging.CRITICAL)
from pydrex import io as pio
def norm(x):
    if isinstance(x, dict): return {str(k): norm(v) for k, v in sorted(x.items(), key=lambda kv: str(kv[0]))}
    if isinstance(x, (list, tuple)): return [norm(v) for v in x]
    if callable(x): return "<callable>"
    if isinstance(x, (int, float, str, bool)) or x is None: return x
    return type(x).__name__ + ":" + str(x)
out = {}
spec_dir = pathlib.Path(pio.__file__).parent / "data" / "specs"
tmp = pathlib.Path(tempfile.mkdtemp())
NL = chr(10)
(tmp / "unicode.toml").write_bytes(NL.join(["# strain ε = γ/2, stiffness Cᵢⱼ, naïve café 日本", 'name = "run-é"', "[input]", "timestep = 1.0", "[output]", 'directory = "out"', ""]).encode("utf-8"))
(tmp / "ascii.toml").write_bytes(NL.join(['name = "run"', "[input]", "timestep = 1.0", ""]).encode("utf-8"))
for path in sorted(spec_dir.glob("*.toml")) + [tmp / "unicode.toml", tmp / "ascii.toml"]:
    cwd = os.getcwd()
    try:
        os.chdir(path.parent)
        r = pio.parse_config(path)
        r.pop("name", None) if "name" not in path.read_text(encoding="utf-8") else None
        out[path.name] = ["ok", json.dumps(norm(r), sort_keys=True, default=str).replace(str(tmp), "<tmp>")]
    except Exception as e:
        out[path.name] = ["err", type(e).__name__]
    finally:
        os.chdir(cwd)
print("RESULT " + json.dumps(out))
"""


def _locale_twin(ctx, res):
    """configuration files are UTF-8 (TOML), whatever the locale of the process: the shipped example configurations (their comments
    contain non-ASCII characters) and two generated ones parse to the same result under the C locale without UTF-8 mode"""
    import subprocess
    import sys

    outs = {}
    for tag, extra in (("utf8", {}), ("C_locale", {"LC_ALL": "C", "LANG": "C", "PYTHONUTF8": "0", "PYTHONCOERCECLOCALE": "0"})):
        env = dict(os.environ, **extra)
        script = SCRATCH_ROOT / "locale_twin.py"        # (source files are UTF-8 whatever the locale; a -c argument is not)
        script.write_text(LOCALE_SCRIPT, encoding="utf-8")
        p = subprocess.run([sys.executable, "-X", "utf8=0", str(script)] if tag == "C_locale" else [sys.executable, str(script)],
                           capture_output=True, text=True, env=env, timeout=600)
        line = [l for l in p.stdout.splitlines() if l.startswith("RESULT ")]
        if p.returncode != 0 or not line:
            res.mismatch("C19 locale twin", {"environment": tag}, "", "", note="the child failed: " + p.stderr[-400:])
            return
        outs[tag] = json.loads(line[0][7:])
    for name, a in outs["utf8"].items():
        b = outs["C_locale"].get(name)
        res.evaluations += 1
        res.count("locale_twin:" + a[0])
        if a != b:
            res.violation("config:depends_on_locale", f"parse_config({name}) gives {a[0]} in a UTF-8 process and {b[0] if b else None} "
                          f"({b[1] if b and b[0] == 'err' else 'another result'}) under LC_ALL=C without UTF-8 mode; TOML files are UTF-8 by definition",
                          {"file": name})


def run(ctx, res):
    res.rule = ("default record with random keyword modifications; every preset of pydrex.mock x every name it assigns; generated class "
                "hierarchies (depth 1..3, random decorator/annotation/plain assignments, type-mismatching defaults, random kwargs) against "
                "CPython; TOML files: subsets of the 16 optional keys/tables of a populated file (all single omissions, empty, full, random or "
                "all subsets) x input modes, valid combinations of phases/fractions/fabric letters x 8 input layouts, single-fault stream "
                "(bad phases, fabrics, sums, lengths, coefficients, missing/ill-typed input entries, unknown or unsimulated output phases), "
                "unconstrained mixtures; a case is non-trivial when it constructs an object or parses a file; distinct by content")
    SCRATCH_ROOT.mkdir(parents=True, exist_ok=True)
    run_params(ctx, res)
    run_config(ctx, res)
    # representation- and history-robustness of the public functions (harness/apirobust.py)
    from .. import apirobust_cases as _AC
    _AC.c19(res, np.random.default_rng(ctx["seed"] + 4242), ctx)
    if not sys.flags.optimize:      # (once: the python -O child does not repeat it)
        _locale_twin(ctx, res)


def replay(data):
    from pydrex import core, mock
    from pydrex import io as pio

    root = SCRATCH_ROOT / f"c19-replay-{os.getpid()}"
    root.mkdir(parents=True, exist_ok=True)
    try:
        for v in data.get("violations", [data]):
            r = v.get("replay", v)
            print("replaying", json.dumps(C.jsonable(r))[:600])
            if r.get("kind") == "preset":
                P = getattr(mock, r["preset"])
                print(f"  real code: {r['preset']}().{r['name']} = {getattr(P(), r['name'])!r}; as_dict -> {P().as_dict()[r['name']]!r}; "
                      f"class body declares {vars(P).get(r['name'])!r}")
            elif r.get("kind") == "config":
                shutil.copy(pathlib.Path(pio.data("specs")) / "start.scsv", root / "start.scsv")
                shutil.copy(pathlib.Path(pio.data("meshes")) / "corner2d_2cmyr_5e5x1e5.vtu", root / "mesh.vtu")
                shutil.copy(pathlib.Path(pio.data("meshes")) / "corner2d_2cmyr_5e5x1e5.scsv", root / "final.scsv")
                np.savez(root / "p1.npz", t=np.arange(3.0))
                np.savez(root / "p2.npz", t=np.arange(2.0))
                (root / "replay.toml").write_text(r["toml"])
                try:
                    out = pio.parse_config(root / "replay.toml")
                    print("  real code: parsed;", {k: out[k] for k in out if k != "input"})
                except Exception as e:
                    print("  real code:", type(e).__name__, e)
    finally:
        shutil.rmtree(root, ignore_errors=True)
    return 0
