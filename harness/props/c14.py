"""C14 — M-index: range, grain reordering, frame rotation, symmetry relabelling, uniform/single
textures, quadrature of the theoretical density, batched variant.

Correspondence (K25-K27): `utils.quat_product`, `geometry.symmetry_operations`,
`geometry.misorientation_angles`, `numpy.histogram` as called by `stats.misorientation_hist`,
`stats.misorientations_random`, the sum of `diagnostics.misorientation_index`, end-to-end
`misorientation_hist` / `misorientation_index` per lattice system, and the batched variant, against
ModelF.Quat / ModelD.MIndex (Lean driver, ops `quat_*`).

Property predicates are evaluated on the REAL outputs (failing-input search); every violation key
names (clause, lattice system) so that only the listed known findings are tolerated.
"""
from __future__ import annotations

import itertools
import math
import multiprocessing

import numpy as np
from scipy.spatial.transform import Rotation

from .. import common as C
from .. import impl  # noqa: F401

PARTIAL = [
    "the Grimmer (1979) densities are modelled and tied by the correspondence, not proved to be the distribution of "
    "random misorientations; their quadrature is validated numerically on the implementation",
    "numpy.histogram, float32 storage of the variant quaternions and float32 arccos are runtime: the model computes "
    "float64 angles and the comparison allows each pair angle the float32 error band before binning",
    "the process pool is runtime: proved is that ANY completion order yields the per-snapshot values in order under "
    "Pool.imap's documented contract (batched_is_map); worker counts and an external pool are validated by runs",
    "frame/relabelling invariance are proved for operators acting by left Hamilton multiplication and closed lists; "
    "the code's operators are not of that kind (known findings), so for the code as written only range, reordering, "
    "batching and the triclinic case are theorems",
]
ASSUMPTIONS = [
    "float32 error band of a pair angle: |dot| error <= 5e-7 (8 stored values, 4 products, 3 additions at unit roundoff 6e-8), angle error <= 1e-6*theta + 1e-5 deg after arccos",
    "uniform-texture band: M <= 1.25 * 0.5*sqrt(B/n_pairs) + 2e-3 (Cauchy-Schwarz bound on the mean of the sampling noise; "
    "measured mean 0.71, std 0.045 of that bound for the triclinic system over 360 seeds)",
    "Python's round(): the constant c of misorientations_random per system is a table in the model, compared with the formula each run",
]
JIT_TWIN = ('utils',)   # groups of harness/jittwin.py: the numba-compiled code is run on the same battery and compared
PRE_LEAN = C.s2_trace_quat   # S2: utils.quat_product re-traced on every run
EXTRA_LEAN_MODULES = ("Bridge.Quat",)
TRUSTED = ["scipy Rotation.from_matrix(...).as_quat() (external: the harness passes the same quaternions to the model)"]

import json as _json

try:
    _WITNESSES = _json.loads((C.VERIF / "harness" / "corpus" / "c14_witnesses.json").read_text())
except Exception:  # pragma: no cover
    _WITNESSES = {}

SYSTEMS = ["triclinic", "monoclinic", "orthorhombic", "rhombohedral", "tetragonal", "hexagonal"]


# maximum misorientation angle per lattice system as DOCUMENTED in the public `geometry.LatticeSystem` docstring (Grimmer 1979, table 1)
THETA_MAX_DOC = {"triclinic": 180, "monoclinic": 180, "orthorhombic": 120, "rhombohedral": 120, "tetragonal": 90, "hexagonal": 90}


def _theta_max(S, sysm):
    """the private helper of pydrex.stats when it exists under its present name, otherwise the documented table
    (a renamed or inlined private helper is not a behaviour change)"""
    f = getattr(S, "_max_misorientation", None)
    return f(sysm) if f is not None else THETA_MAX_DOC[sysm.name]



def _lat(G, name):
    return getattr(G.LatticeSystem, name)


def _hamilton(p, q):
    pv, qv = np.asarray(p[:3]), np.asarray(q[:3])
    return np.concatenate([p[3] * qv + q[3] * pv + np.cross(pv, qv), [p[3] * q[3] - pv @ qv]])


# ------------------------------------------------------------------ K25 quat_product
def _quat_product(res, rng, thorough):
    from pydrex import utils as U

    N = 200 if not thorough else 5000
    lines, want = [], []
    kinds = ["unit", "unit", "general", "parallel", "identity_left", "identity_right", "axis_pi", "zero"]
    for k in range(N):
        kind = kinds[k % len(kinds)]
        p = rng.normal(size=4)
        q = rng.normal(size=4)
        if kind in ("unit", "parallel", "axis_pi", "identity_left", "identity_right"):
            p /= np.linalg.norm(p)
            q /= np.linalg.norm(q)
        if kind == "parallel":
            q[:3] = p[:3] * rng.normal()
        elif kind == "identity_left":
            p = np.array([0.0, 0.0, 0.0, 1.0])
        elif kind == "identity_right":
            q = np.array([0.0, 0.0, 0.0, 1.0])
        elif kind == "axis_pi":
            p = np.zeros(4)
            p[rng.integers(0, 3)] = 1.0
        elif kind == "zero":
            p = np.zeros(4) if k % 2 else p
        got = np.array(U.quat_product(p.copy(), q.copy()), dtype=float)
        res.evaluations += 1
        res.count("quat_product:" + kind)
        lines.append(f"quat_prod {C.fs2h(p)} {C.fs2h(q)}")
        want.append((p, q, got, kind))
        ref = _hamilton(p, q)
        cr = np.cross(p[:3], q[:3])
        if np.abs(cr).max() > 1e-9:
            res.nontrivial(("qp", p.tobytes(), q.tobytes()))
        if not np.allclose(got, ref, rtol=1e-12, atol=1e-12):
            res.violation("quat_product:not_hamilton",
                          f"utils.quat_product({p.tolist()}, {q.tolist()}) = {got.tolist()} but the Hamilton product is {ref.tolist()} "
                          f"(difference = cross(q1.v, q2.v) = {cr.tolist()})", {"q1": p.tolist(), "q2": q.tolist()})
    # replay of the Lean negation witness: i * j = k, coded gives 0
    got = np.array(U.quat_product(np.array([1.0, 0, 0, 0]), np.array([0, 1.0, 0, 0])), float)
    res.evaluations += 1
    if not np.allclose(got, [0, 0, 1, 0]):
        res.violation("quat_product:not_hamilton", f"witness: quat_product((1,0,0,0),(0,1,0,0)) = {got.tolist()}, Hamilton product (0,0,1,0)",
                      {"q1": [1, 0, 0, 0], "q2": [0, 1, 0, 0]})
    outs = C.run_driver(lines)
    for (p, q, got, kind), line in zip(want, outs):
        m = C.hs2f(line.split())
        if C.close(m, got, scale=float(max(1.0, np.abs(got).max()))):
            res.traces += 1
        else:
            res.mismatch("K25 quat_product", {"q1": p.tolist(), "q2": q.tolist(), "kind": kind}, got.tolist(), m)


# ------------------------------------------------------------------ K26 symmetry_operations, constants
def _operators(res):
    from pydrex import geometry as G
    from pydrex import stats as S

    lines = [f"quat_ops {i}" for i in range(6)] + [f"quat_consts {i}" for i in range(6)]
    outs = C.run_driver(lines)
    for i, name in enumerate(SYSTEMS):
        sysm = _lat(G, name)
        ops = G.symmetry_operations(sysm)
        res.evaluations += 1
        toks = outs[i].split()
        n = int(toks[0])
        ok = n == len(ops)
        pos = 1
        model_ops = []
        for _ in range(n):
            kind = toks[pos]
            vals = C.hs2f(toks[pos + 1:pos + 5])
            pos += 5
            model_ops.append((kind, vals))
        for (kind, vals), op in zip(model_ops, ops):
            op = np.asarray(op, float)
            if op.shape == (4, 4):
                ok &= kind == "d" and np.array_equal(op, np.diag(np.diag(op))) and C.close(vals, np.diag(op))
            else:
                ok &= kind == "r" and op.shape == (4,) and C.close(vals, op)
        if ok:
            res.traces += 1
        else:
            res.mismatch("K26 symmetry_operations", name, [np.asarray(o).tolist() for o in ops], model_ops)
        # constants of misorientations_random and _max_misorientation
        M, N = sysm.value
        a = np.tan(np.deg2rad(90 / M))
        b = 2 * np.rad2deg(np.arctan(np.sqrt(1 + a**2)))
        c = round(2 * np.rad2deg(np.arctan(np.sqrt(1 + 2 * a**2))))
        th = _theta_max(S, sysm)
        t = outs[6 + i].split()
        got = (int(t[0]), int(t[1]), int(t[2]), int(t[3]), *C.hs2f(t[4:6]))
        res.evaluations += 1
        if got[:4] == (M, N, th, c) and C.close(got[4], a, rtol=1e-12) and C.close(got[5], b, rtol=1e-12):
            res.traces += 1
        else:
            res.mismatch("K27 constants (M, N, theta_max, c, a, b)", name, (M, N, th, c, a, b), got)
        res.count(f"system:{name}:n_ops={len(ops)}")


# ------------------------------------------------------------------ K27 misorientation_angles
def _angle_close(a, b):
    """compare two misorientation angles in degrees through |dot| = cos(theta/2) (arccos is ill-conditioned at 0)"""
    ca, cb = math.cos(math.radians(a) / 2), math.cos(math.radians(b) / 2)
    if abs(ca - cb) > 1e-12:
        return False
    return abs(a - b) <= 1e-9 * max(1.0, abs(a)) or min(ca, cb) > 1 - 1e-6


def _misorientation_angles(res, rng, thorough):
    from pydrex import geometry as G

    N = 60 if not thorough else 1200
    lines, want = [], []
    for k in range(N):
        na, nb = int(rng.integers(1, 8)), int(rng.integers(1, 8))
        rows = int(rng.integers(1, 5))
        q1 = rng.normal(size=(rows, na, 4))
        q2 = rng.normal(size=(rows, nb, 4))
        q1 /= np.linalg.norm(q1, axis=2, keepdims=True)
        q2 /= np.linalg.norm(q2, axis=2, keepdims=True)
        kind = ["random", "equal", "antipodal", "overlong", "orthogonal"][k % 5]
        if kind == "equal":
            q2[:, 0] = q1[:, 0]
        elif kind == "antipodal":
            q2[:, 0] = -q1[:, 0]
        elif kind == "overlong":       # |dot| > 1: the clip matters
            q1 *= 1.001
        elif kind == "orthogonal":
            q1[:, :, :] = 0
            q1[:, :, 0] = 1
            q2[:, :, :] = 0
            q2[:, :, 1] = 1
        got = np.asarray(G.misorientation_angles(q1, q2), float)
        res.evaluations += 1
        res.count("misorientation_angles:" + kind)
        res.nontrivial(("ma", q1.tobytes(), q2.tobytes()))
        for r in range(rows):
            lines.append(f"quat_minangle {na} {nb} {C.fs2h(q1[r].ravel())} {C.fs2h(q2[r].ravel())}")
            want.append((q1[r], q2[r], float(got[r]), kind))
        # the documented failure mode
        if k % 20 == 0:
            try:
                G.misorientation_angles(q1, np.concatenate([q2, q2]))
                res.violation("misorientation_angles:no_value_error", "unequal first dimensions accepted", {})
            except ValueError:
                pass
    outs = C.run_driver(lines)
    for (a, b, g, kind), line in zip(want, outs):
        m = C.h2f(line)
        if _angle_close(m, g):
            res.traces += 1
        else:
            res.mismatch("K27 misorientation_angles", {"q1": a.tolist(), "q2": b.tolist(), "kind": kind}, g, m)


# ------------------------------------------------------------------ histogram, theoretical density, sum
def _histogram(res, rng, thorough):
    N = 40 if not thorough else 600
    lines, want = [], []
    for k in range(N):
        B = int(rng.choice([90, 120, 180]))
        n = int(rng.integers(1, 300))
        kind = ["uniform", "edges", "beyond", "all_first", "last_edge"][k % 5]
        x = rng.uniform(0, B, n)
        if kind == "edges":
            x = rng.integers(0, B + 1, n).astype(float)
        elif kind == "beyond":
            x = rng.uniform(-5, B + 20, n)
            x[0] = B / 2
        elif kind == "all_first":
            x = rng.uniform(0, 0.2, n)
        elif kind == "last_edge":
            x[: max(1, n // 3)] = float(B)
        dens, edges = np.histogram(x, bins=B, range=(0, B), density=True)
        cnt, _ = np.histogram(x, bins=B, range=(0, B))
        res.evaluations += 1
        res.count("histogram:" + kind)
        lines.append(f"quat_hist {B} {C.fs2h(x)}")
        want.append((B, x, cnt, dens, kind))
    outs = C.run_driver(lines)
    for (B, x, cnt, dens, kind), line in zip(want, outs):
        left, right = line.split("|")
        mc = [int(t) for t in left.split()]
        md = C.hs2f(right.split())
        if mc == cnt.tolist() and C.close(md, dens):
            res.traces += 1
        else:
            res.mismatch("K27 numpy.histogram(bins=theta_max, range=(0,theta_max), density=True)", {"B": B, "x": x.tolist()[:50], "kind": kind},
                         cnt.tolist(), mc)


def _random_density(res, rng, thorough):
    from pydrex import geometry as G
    from pydrex import stats as S

    N = 60 if not thorough else 1500
    lines, want = [], []
    for i, name in enumerate(SYSTEMS):
        sysm = _lat(G, name)
        th = _theta_max(S, sysm)
        M, Nn = sysm.value
        special = [0.0, 180 / M, 180 * M / Nn, 90.0, float(th), th - 1.0, 104.0, 104.5, 98.0, 94.0, 109.47, 60.0, 45.0, 30.0]
        cases = []
        for k in range(N):
            lo = float(rng.uniform(0, th))
            hi = float(rng.uniform(lo, th))
            kind = ["generic", "bin", "special", "invalid"][k % 4]
            if kind == "bin":
                lo = float(rng.integers(0, th))
                hi = lo + 1
            elif kind == "special":
                lo = float(rng.choice(special))
                hi = float(rng.choice(special))
                lo, hi = min(lo, hi), max(lo, hi)
            elif kind == "invalid":
                lo, hi = [(hi, lo - 1e-9), (-1.0, hi), (lo, th + 1.0), (lo, th + 1e-9)][k % 16 // 4]
            cases.append((lo, hi, kind))
        for lo, hi, kind in cases:
            try:
                w = float(S.misorientations_random(lo, hi, sysm))
            except ValueError:
                w = "ValueError"
            except AssertionError:
                w = "AssertionError"
            res.evaluations += 1
            res.count(f"misorientations_random:{name}:{kind}")
            if not isinstance(w, str):
                res.nontrivial(("mr", name, lo, hi))
            lines.append(f"quat_random {i} {C.f2h(lo)} {C.f2h(hi)}")
            want.append((name, lo, hi, w))
        # ---- property: the density integrates to 1 over [0, theta_max] (1 degree bins as used by the index, and finer)
        for nb in (th, 4 * th):
            edges = np.linspace(0, th, nb + 1)
            res.evaluations += 1
            try:
                quad = float(sum(S.misorientations_random(edges[j], edges[j + 1], sysm) * (edges[j + 1] - edges[j]) for j in range(nb)))
            except AssertionError:
                bad = [float(e) for e in edges if _raises(S, e, sysm)]
                res.violation(f"random_density_raises:{name}:AssertionError",
                              f"misorientations_random raises AssertionError for {name} at bin edges in [{min(bad)}, {max(bad)}] "
                              f"(theta_max = {th}): the theoretical density cannot be evaluated over the admissible range",
                              {"system": name, "low": min(bad) - 1.0, "high": min(bad)})
                continue
            if abs(quad - 1) > 1e-3:
                res.violation(f"random_density_integral:{name}",
                              f"quadrature of misorientations_random over [0, {th}] with {nb} bins = {quad!r} (should be 1 within 1e-3)",
                              {"system": name, "bins": nb})
    outs = C.run_driver(lines)
    for (name, lo, hi, w), got in zip(want, outs):
        if isinstance(w, str):
            ok = got == w
        else:
            ok = got.startswith("ok ") and C.close(C.h2f(got.split()[1]), w, rtol=1e-9, atol=1e-13)
        if ok:
            res.traces += 1
        else:
            res.mismatch("K27 misorientations_random", {"system": name, "low": lo, "high": hi}, w, got)


def _raises(S, e, sysm):
    try:
        S.misorientations_random(float(e), float(e), sysm)
        return False
    except AssertionError:
        return True


# ------------------------------------------------------------------ end to end
def _angle_band(theta):
    """interval that the float32 pipeline's angle can fall in, given the float64 angle (degrees)"""
    c = np.cos(np.radians(theta) / 2)
    lo = 2 * np.degrees(np.arccos(np.clip(c + 5e-7, 0, 1)))
    hi = 2 * np.degrees(np.arccos(np.clip(c - 5e-7, 0, 1)))
    slack = 1e-6 * theta + 1e-5
    return np.maximum(lo - slack, 0.0), hi + slack      # an angle is never negative


def _count_bounds(theta, B):
    """per-bin certain / possible counts, bounds of the in-range total, number of undecided pairs"""
    lo, hi = _angle_band(theta)
    out = lo > B                                             # certainly dropped by the histogram range
    blo = np.floor(lo)
    bhi = np.floor(hi)
    certain = (~out) & (((blo == bhi) & (hi < B)) | ((lo >= B - 1) & (hi <= B)))   # last bin is closed at B
    idx = np.clip(blo, 0, B - 1).astype(int)
    cmin = np.bincount(idx[certain], minlength=B).astype(float)
    cmax = cmin.copy()
    unc = ~certain & ~out
    n_unc = int(unc.sum())
    for l, h in zip(lo[unc], hi[unc]):
        for b in range(int(max(0, math.floor(l))), int(min(B - 1, math.floor(h))) + 1):
            cmax[b] += 1
    tmin = cmin.sum()
    tmax = tmin + n_unc
    return cmin, cmax, tmin, tmax, n_unc


class _HistRecorder:
    """records what stats.misorientation_hist returned during a misorientation_index call"""

    def __init__(self, S):
        self.S = S
        self.out = None

    def __enter__(self):
        self.saved = self.S.misorientation_hist
        rec = self

        def wrapped(*a, **kw):
            r = rec.saved(*a, **kw)
            rec.out = r
            return r

        self.S.misorientation_hist = wrapped
        return self

    def __exit__(self, *exc):
        self.S.misorientation_hist = self.saved
        return False


def _evaluate(D, S, A, sysm):
    """real M (or the exception), real histogram"""
    with _HistRecorder(S) as rec:
        try:
            m = float(D.misorientation_index(A, sysm))
            exc = None
        except Exception as e:  # noqa: BLE001
            m, exc = None, e
    return m, exc, rec.out


def _textures(rng, n, kind):
    if kind == "uniform":
        return Rotation.random(n, random_state=int(rng.integers(0, 2**31))).as_matrix()
    base = Rotation.random(random_state=int(rng.integers(0, 2**31)))
    if kind == "clustered":
        return (Rotation.from_rotvec(rng.normal(scale=0.35, size=(n, 3))) * base).as_matrix()
    if kind == "girdle":
        ang = rng.uniform(0, 2 * np.pi, n)
        return (Rotation.from_euler("zxz", np.column_stack([ang, rng.normal(scale=0.1, size=n), rng.normal(scale=0.1, size=n)])) * base).as_matrix()
    if kind == "single":
        return np.repeat(base.as_matrix()[None], n, axis=0)
    if kind == "bimodal":
        other = Rotation.random(random_state=int(rng.integers(0, 2**31)))
        pick = rng.uniform(size=n) < 0.5
        pert = Rotation.from_rotvec(rng.normal(scale=0.1, size=(n, 3)))
        return np.where(pick[:, None, None], (pert * base).as_matrix(), (pert * other).as_matrix())
    raise ValueError(kind)


def _model_angles(jobs):
    """jobs: list of (system index, quaternions (n,4)) -> list of float64 pair-angle arrays from the Lean model"""
    lines = [f"quat_misangles {i} {len(q)} {C.fs2h(np.asarray(q).ravel())}" for i, q in jobs]
    return [np.array(C.hs2f(o.split()), float) if o else np.zeros(0) for o in C.run_driver(lines)]


def _end_to_end(res, rng, thorough):
    from pydrex import diagnostics as D
    from pydrex import geometry as G
    from pydrex import stats as S

    sizes = {"triclinic": 70, "monoclinic": 44, "orthorhombic": 44, "rhombohedral": 36, "tetragonal": 36, "hexagonal": 30}
    if thorough:
        sizes = {"triclinic": 160, "monoclinic": 90, "orthorhombic": 90, "rhombohedral": 70, "tetragonal": 70, "hexagonal": 60}
    # (the quick tier keeps the three sizes at which the recorded findings uniform_near_zero:* reproduce)
    big_uniform = ({"triclinic": 200, "monoclinic": 120, "orthorhombic": 300, "tetragonal": 100, "hexagonal": 120} if thorough
                   else {"orthorhombic": 300, "tetragonal": 100, "hexagonal": 120})
    tex_kinds = ["clustered", "girdle"] if not thorough else ["clustered", "girdle", "bimodal", "clustered"]
    for si, name in enumerate(SYSTEMS):
        sysm = _lat(G, name)
        B = _theta_max(S, sysm)
        n = sizes[name]
        rot_ops = [np.asarray(o, float) for o in G.symmetry_operations(sysm) if np.asarray(o).shape == (4,)]
        cases = []      # (tag, A)
        for t, kind in enumerate(tex_kinds):
            A = _textures(rng, n, kind)
            Q = Rotation.random(random_state=int(rng.integers(0, 2**31))).as_matrix()
            perm = rng.permutation(n)
            relab = A.copy()
            for g in range(n):
                o = rot_ops[int(rng.integers(0, len(rot_ops)))]
                relab[g] = Rotation.from_quat(o).as_matrix() @ A[g]
            cases += [(f"{kind}{t}:base", A), (f"{kind}{t}:perm", A[perm]), (f"{kind}{t}:frame", A @ Q.T), (f"{kind}{t}:relabel", relab)]
        wit = _WITNESSES.get("invariance", {}).get(name)
        if wit is not None:      # fixed witness of the frame/relabel findings (harness/corpus/c14_witnesses.json)
            Aw = Rotation.from_quat(np.array(wit["grains_quat_xyzw"], float)).as_matrix()
            Qw = Rotation.from_quat(np.array(wit["frame_rotation_quat_xyzw"], float)).as_matrix()
            Rw = np.array([Rotation.from_quat(rot_ops[k % len(rot_ops)]).as_matrix() @ Aw[g] for g, k in enumerate(wit["relabel_op_index_per_grain"])])
            cases += [("witness:base", Aw), ("witness:perm", Aw[::-1]), ("witness:frame", Aw @ Qw.T), ("witness:relabel", Rw)]
        if name in _WITNESSES.get("two_grains_nan", {}):
            cases.append(("two_grains_witness", Rotation.from_quat(np.array(_WITNESSES["two_grains_nan"][name], float)).as_matrix()))
        cases.append(("uniform", _textures(rng, n, "uniform")))
        cases.append(("single", _textures(rng, max(8, n // 2), "single")))
        cases.append(("two_grains", _textures(rng, 2, "uniform")))
        if name in big_uniform:
            cases.append(("uniform_large", _textures(rng, big_uniform[name], "uniform")))
        # two-grain textures: the smallest admissible input ("at least two orientations"); search for one whose single
        # pair angle falls outside [0, theta_max] as computed by the code (the histogram is then empty and M is NaN)
        found_nan = None
        for _ in range(60 if not thorough else 400):
            A2 = _textures(rng, 2, "uniform")
            try:
                m2 = float(D.misorientation_index(A2, sysm))
            except AssertionError:
                break
            res.evaluations += 1
            res.count(f"mindex:{name}:two_grain_search")
            if not (-1e-12 <= m2 <= 1 + 1e-3):
                found_nan = (A2, m2)
                break
        if found_nan is not None:
            cases.append(("two_grains_out_of_range", found_nan[0]))
        real = {}
        jobs = []
        for tag, A in cases:
            m, exc, hist = _evaluate(D, S, A, sysm)
            res.evaluations += 1
            res.count(f"mindex:{name}:{tag.split(':')[-1]}")
            real[tag] = (m, exc, hist, A)
            if tag != "uniform_large":
                jobs.append((si, Rotation.from_matrix(A.copy()).as_quat()))
        angles = dict(zip([t for t, _ in cases if t != "uniform_large"], _model_angles(jobs)))
        raised = None
        for tag, A in cases:
            m, exc, hist, _ = real[tag]
            rep = {"system": name, "case": tag, "n_grains": len(A), "orientations": A.tolist() if len(A) <= 12 else "seeded; see rule",
                   "seed_note": "regenerate with the same VERIF_SEED"}
            if exc is not None:
                raised = exc
                res.violation(f"mindex_raises:{name}:{type(exc).__name__}",
                              f"misorientation_index raised {type(exc).__name__} for lattice system {name} ({len(A)} grains, texture {tag})", rep)
                continue
            res.nontrivial(("mi", name, tag, len(A)))
            # ---- range
            if not (-1e-12 <= m <= 1 + 1e-3):
                res.violation(f"range:{name}", f"M = {m!r} outside [0, 1 + 1e-3] ({tag}, {len(A)} grains)", rep)
            # ---- correspondence: histogram and sum against the model
            if hist is not None and tag in angles:
                dens, edges = hist
                th = angles[tag]
                npairs = len(A) * (len(A) - 1) // 2
                ok = len(th) == npairs and len(dens) == B and np.array_equal(edges, np.arange(B + 1))
                if ok:
                    cmin, cmax, tmin, tmax, n_unc = _count_bounds(th, B)
                    res.count("pair_angles_within_float32_band_of_a_bin_edge", n_unc)
                    res.count("pair_angles_total", npairs)
                    if np.isnan(dens).all():
                        # numpy divides by the in-range total: all-NaN iff no pair angle lies in [0, theta_max]
                        ok = tmin == 0
                        res.count("histogram_all_nan")
                    else:
                        lo_d = cmin / max(tmax, 1)
                        hi_d = cmax / max(tmin, 1)
                        ok = bool(tmax > 0 and np.all(dens >= lo_d - 1e-12) and np.all(dens <= hi_d + 1e-12))
                if ok:
                    res.traces += 1
                else:
                    res.mismatch("K27 misorientation_hist (end to end)", {"system": name, "case": tag, "n": len(A)},
                                 np.asarray(dens).tolist()[:30], "model float64 angles binned with float32 band")
                theory = np.array([S.misorientations_random(edges[j], edges[j + 1], sysm) for j in range(B)])
                ml = C.run_driver([f"quat_mindex {C.f2h(B)} {B} {C.fs2h(theory)} {C.fs2h(dens)}"])[0]
                if C.close(C.h2f(ml), m, rtol=1e-9, atol=1e-12):
                    res.traces += 1
                else:
                    res.mismatch("K27 M-index sum", {"system": name, "case": tag}, m, C.h2f(ml))
        if raised is not None:
            res.count(f"mindex_clauses_unevaluable:{name}")
            continue

        def tol_for(t1, t2):
            u = 0
            for t in (t1, t2):
                if t in angles:
                    u += _count_bounds(angles[t], B)[4]
            tot = min([_count_bounds(angles[t], B)[2] for t in (t1, t2) if t in angles] + [10**9])
            return (u + 1) / max(tot, 1) + 1e-9

        groups = [(f"{kind}{t}", kind, n) for t, kind in enumerate(tex_kinds)]
        if "witness:base" in real:
            groups.insert(0, ("witness", "witness (harness/corpus/c14_witnesses.json)", len(real["witness:base"][3])))
        for gtag, kind, ng in groups:
            base = real[f"{gtag}:base"][0]
            rep = {"system": name, "texture": kind, "n_grains": ng, "M_base": base}
            mp = real[f"{gtag}:perm"][0]
            if abs(mp - base) > 1e-12:
                res.violation(f"perm_invariance:{name}", f"M changes from {base!r} to {mp!r} when the grains are reordered ({kind}, {ng} grains)", rep)
            mf = real[f"{gtag}:frame"][0]
            if abs(mf - base) > tol_for(f"{gtag}:base", f"{gtag}:frame"):
                res.violation(f"frame_invariance:{name}", f"M changes from {base!r} to {mf!r} under a rigid rotation of the sample frame "
                              f"({kind} texture, {ng} grains, lattice system {name})", dict(rep, M_rotated=mf))
            mr = real[f"{gtag}:relabel"][0]
            if abs(mr - base) > tol_for(f"{gtag}:base", f"{gtag}:relabel"):
                res.violation(f"relabel_invariance:{name}", f"M changes from {base!r} to {mr!r} when grains are replaced by orientations "
                              f"equivalent under the proper rotations of symmetry_operations({name}) ({kind} texture, {ng} grains)", dict(rep, M_relabelled=mr))
        for tag in ("uniform", "uniform_large"):
            if tag not in real:
                continue
            mu = real[tag][0]
            ng = len(real[tag][3])
            band = 1.25 * 0.5 * math.sqrt(B / (ng * (ng - 1) / 2)) + 2e-3
            if mu > band:
                res.violation(f"uniform_near_zero:{name}", f"M = {mu!r} for {ng} uniformly random orientations exceeds the sampling band {band!r} "
                              f"(lattice system {name})", {"system": name, "n_grains": ng, "M": mu, "band": band})
        ms = real["single"][0]
        if abs(ms - 1) > 1e-2:
            res.violation(f"single_near_one:{name}", f"M = {ms!r} for a single-orientation texture (lattice system {name})",
                          {"system": name, "M": ms})
        if len(res.samples) < 5:
            res.sample({"system": name, "n_grains": n, "M_clustered": real[f"{tex_kinds[0]}0:base"][0], "M_rotated_frame": real[f"{tex_kinds[0]}0:frame"][0],
                        "M_uniform": real["uniform"][0], "M_single": ms})


# ------------------------------------------------------------------ batched variant
def _batched(res, rng, thorough):
    from pydrex import diagnostics as D
    from pydrex import geometry as G

    workers = range(1, 5) if not thorough else range(1, 17)
    stacks = []
    # stack lengths below, equal to and above the worker counts ("all stack lengths and all worker counts")
    for name, n, k in (("triclinic", 14, 5), ("orthorhombic", 10, 4), ("triclinic", 6, 2), ("triclinic", 5, 1)) + ((("hexagonal", 8, 7),) if thorough else ()):
        st = np.stack([_textures(rng, n, ["uniform", "clustered", "girdle", "single"][j % 4]) for j in range(k)])
        stacks.append((name, st))
    for name, st in stacks:
        sysm = _lat(G, name)
        seq = np.array([D.misorientation_index(s, sysm) for s in st])
        rep = {"system": name, "stack_shape": list(st.shape)}
        for w in workers:
            try:
                got = np.asarray(D.misorientation_indices(st, sysm, ncpus=w))
            except Exception as e:  # noqa: BLE001
                res.evaluations += 1
                res.violation(f"batched:raises:{type(e).__name__}", f"misorientation_indices(stack of {len(st)}, ncpus={w}) raised {type(e).__name__}: {e}",
                              dict(rep, ncpus=w))
                continue
            res.evaluations += 1
            res.count(f"batched:ncpus={w}")
            res.nontrivial(("batched", name, w, st.shape))
            if got.shape != seq.shape or not np.array_equal(got, seq):
                res.violation(f"batched:ncpus:{name}", f"misorientation_indices(ncpus={w}) = {got.tolist()} differs from the sequential values {seq.tolist()}",
                              dict(rep, ncpus=w))
        with multiprocessing.Pool(processes=3) as pool:
            got = np.asarray(D.misorientation_indices(st, sysm, pool=pool))
            got2 = np.asarray(D.misorientation_indices(st, sysm, ncpus=2, pool=pool))   # ncpus ignored with a warning
        res.evaluations += 2
        res.count("batched:external_pool", 2)
        if not np.array_equal(got, seq) or not np.array_equal(got2, seq):
            res.violation(f"batched:external_pool:{name}", f"misorientation_indices(pool=...) = {got.tolist()} differs from {seq.tolist()}", rep)
    # an externally supplied THREAD pool (multiprocessing.pool.ThreadPool is a Pool): the snapshots are then evaluated concurrently in
    # this very process, so any shared scratch state shows; and a pool that has seen a failing call is still the caller's pool
    from multiprocessing.pool import ThreadPool
    name, st = stacks[0]
    sysm = _lat(G, name)
    st8 = np.concatenate([st, st[::-1]])[:8] if len(st) >= 4 else st
    seq = np.array([D.misorientation_index(s_, sysm) for s_ in st8])
    rep = {"system": name, "stack_shape": list(st8.shape)}
    with ThreadPool(4) as tp:
        for round_ in range(3 if not thorough else 10):
            got = np.asarray(D.misorientation_indices(st8, sysm, pool=tp))
            res.evaluations += 1
            res.count("batched:external_thread_pool")
            if got.shape != seq.shape or not np.allclose(got, seq, rtol=0, atol=1e-12):
                res.violation("batched:external_thread_pool", f"misorientation_indices(pool=ThreadPool(4)) = {got.tolist()} differs from the sequential "
                              f"values {seq.tolist()}", rep)
                break
        bad = st8.copy()
        bad[1, 0] = np.nan           # one snapshot that cannot be evaluated
        try:
            D.misorientation_indices(bad, sysm, pool=tp)
            res.count("batched:nan_snapshot_returned")
        except Exception as e:  # noqa: BLE001
            res.count(f"batched:nan_snapshot_raised:{type(e).__name__}")
        try:
            again = np.asarray(D.misorientation_indices(st8, sysm, pool=tp))
            res.evaluations += 1
            if not np.allclose(again, seq, rtol=0, atol=1e-12):
                res.violation("batched:pool_after_failed_call:differs", "a valid call on the caller's pool after a failed call gives other values", rep)
        except Exception as e:  # noqa: BLE001
            res.violation(f"batched:pool_after_failed_call:raises:{type(e).__name__}", f"after one call on the caller's pool failed, the next valid call on the "
                          f"same pool raises {type(e).__name__}: {str(e)[:120]} (the pool is the caller's; a failing snapshot must not close it)", rep)
    # the model of the pool: any completion order gives the per-snapshot values in order
    lines, want = [], []
    for k in range(12 if not thorough else 200):
        n = int(rng.integers(0, 9))
        order = list(rng.permutation(n)) if k % 3 else list(range(n))[::-1]
        if k % 4 == 3 and n:
            order = order + [int(rng.integers(0, n))]          # a duplicated completion is harmless
        lines.append("quat_batched %d %s" % (n, " ".join(str(int(o)) for o in order)))
        want.append(" ".join(str(i) for i in range(n)))
    for n in (0, 1, 2, 5, 7):
        lines.append(f"quat_pairs {n}")
        want.append(" ".join(f"{i},{j}" for i, j in itertools.combinations(range(n), 2)))
    for w, got in zip(want, C.run_driver(lines)):
        res.evaluations += 1
        if got.strip() == w:
            res.traces += 1
        else:
            res.mismatch("K27 imap order / itertools.combinations", w, w, got)


def run(ctx, res):
    rng = np.random.default_rng(ctx["seed"] + 1414)
    th = ctx["thorough"]
    res.rule = ("quat_product over 8 argument families; operator lists and constants of all 6 lattice systems; misorientation_angles "
                "over shapes (rows<=4, A,B<=7) and 5 families; histogram and theoretical density over edge/invalid/special bounds; "
                "end to end per lattice system: textures {clustered, girdle, bimodal} x {base, permuted, rotated frame, symmetry-relabelled}, "
                "uniform, single orientation, two grains (grain counts 30..70 quick, 60..300 thorough); batched variant with "
                "worker counts 1..4 (quick) / 1..16 (thorough) and an external pool. Non-trivial = non-parallel vector parts "
                "(quat_product), a finite density value, or an index that was actually computed; distinct by input hash")
    _quat_product(res, rng, th)
    _operators(res)
    _misorientation_angles(res, rng, th)
    _histogram(res, rng, th)
    _random_density(res, rng, th)
    _end_to_end(res, rng, th)
    _batched(res, rng, th)
    # representation- and history-robustness of the public functions (harness/apirobust.py)
    from .. import apirobust_cases as _AC
    _AC.c14(res, np.random.default_rng(ctx["seed"] + 4242), ctx)


def replay(data):
    import json

    from pydrex import utils as U

    rc = 0
    for v in data.get("violations", []):
        print("violation:", v.get("key"), "-", v.get("what"))
        r = v.get("replay", {})
        if "q1" in r:
            got = np.array(U.quat_product(np.array(r["q1"], float), np.array(r["q2"], float)), float)
            print("  quat_product:", got.tolist(), " Hamilton:", _hamilton(np.array(r["q1"], float), np.array(r["q2"], float)).tolist())
            rc = 1
        else:
            print(json.dumps(r)[:2000])
    return rc
