"""C15 — volume-weighted resampling (`stats.resample_orientations`).

Correspondence K28: the real function is called with a seed; the harness draws the same
variates from an identically seeded `default_rng` (one `random(n_samples)` call per snapshot)
and sends them with the volumes to the Lean driver (`ModelF.resampleSnap`, `countLess`,
`bsearchLeft`, `ModelD.Resample.outcome`). Compared exactly: output volumes (bitwise), selected
grains, output shapes / exception class for every shape combination.

The property's own clauses are evaluated on the real outputs: pair membership, zero-volume
grains never drawn, every variate lies in the cumulative-volume interval of the grain it
selected, shapes, default n_samples, reproducibility (same and separate processes), ValueError
for every malformed shape combination.
"""
from __future__ import annotations

import hashlib
import itertools
import json
import subprocess
import sys
from unittest import mock

import numpy as np

from .. import common as C
from .. import impl

PARTIAL = [
    "uniformity of numpy's PCG64 `Generator.random` is trusted; the theorem is that the set of variates in [0,1) "
    "selecting a grain has Lebesgue measure equal to its volume fraction (a chi-square statistic of the real "
    "samples is checked as supporting evidence)",
    "the variate u = 0.0 (probability 2^-53 per draw) selects position 0 of the ascending order, i.e. a zero-volume "
    "grain when one exists: excluded point of zero_volume_never_drawn, replayed through an injected generator",
    "floating-point rounding of the cumulative sums (theorems over the reals; the Float model reproduces numpy's "
    "sequential cumsum bit for bit, positions are compared exactly)",
]
ASSUMPTIONS = [
    "np.argsort returns a permutation of 0..M-1 (checked on every call the harness sees); nothing is assumed about ties",
    "np.searchsorted on an ascending array returns the first position whose entry is >= the key "
    "(checked against the model's linear scan and its binary search on every call)",
]
OPTIMIZED_TWIN = True   # the implementation-side search is repeated under `python -O` (validation must not live in assert / __debug__)
TRUSTED = ["numpy.random.default_rng(seed) determinism and uniformity", "numpy fancy indexing / broadcasting rules as modelled in ModelD.Resample.broadcastOk"]

FAMILIES = ["dirichlet", "zeros", "duplicates", "dominant", "uniform", "dyadic", "tiny"]


def _fractions(rng, family, M):
    if family == "dirichlet":
        f = rng.dirichlet(np.ones(M))
    elif family == "zeros":
        f = rng.dirichlet(np.ones(M))
        k = int(rng.integers(0, M))  # number of zeros (leaves at least one)
        f[rng.choice(M, size=k, replace=False)] = 0.0
        f = f / f.sum()
    elif family == "duplicates":
        vals = rng.dirichlet(np.ones(max(1, M // 3 + 1)))
        f = rng.choice(vals, size=M)
        f = f / f.sum()
    elif family == "dominant":
        f = np.full(M, 1e-9)
        f[int(rng.integers(0, M))] = 1.0
        f = f / f.sum()
    elif family == "uniform":
        f = np.full(M, 1.0 / M)
    elif family == "dyadic":
        # exactly representable: multiples of 1/64 summing to 1 exactly (ties and zeros included)
        k = rng.multinomial(64, np.ones(M) / M)
        f = k / 64.0
    else:  # tiny: subnormal-scale entries next to ordinary ones
        f = rng.dirichlet(np.ones(M))
        f[rng.integers(0, M)] *= 1e-300
        f = f / f.sum()
    return np.ascontiguousarray(f, dtype=float)


def _variates(seed, N, n):
    rng = np.random.default_rng(seed=seed)
    return [rng.random(n) for _ in range(N)]


def _check_snapshot(res, tag, f, orient, us, out_o, out_f, rep):
    """The statement of C15 on the real outputs of one snapshot. Returns impl's selected grains
    (-1: orientation is not an input grain)."""
    M = len(f)
    fa = np.sort(f, kind="stable")
    pre = np.concatenate([[0.0], np.cumsum(fa)])
    key = {}
    for g in range(M):
        key.setdefault(orient[g].tobytes(), g)
    grains = np.array([key.get(out_o[k].tobytes(), -1) for k in range(len(us))], dtype=int)
    us = np.asarray(us)
    if (grains < 0).any():
        res.violation("membership:pair_not_an_input_grain",
                      "a resampled orientation is not an orientation of the same snapshot", rep)
    okg = grains >= 0
    if (f[grains[okg]] != out_f[okg]).any():
        res.violation("membership:orientation_paired_with_foreign_volume",
                      "a resampled orientation is paired with a volume that is not its own", rep)
    drawn_zero = (out_f == 0.0) & (us > 0.0)
    if drawn_zero.any():
        res.violation("zero_volume:drawn", f"a zero-volume grain was drawn for variate {us[drawn_zero][0]!r}", rep)
    # the variate must lie in the cumulative interval of the positions holding this volume
    # (equal volumes are contiguous in the ascending order); boundaries within 1e-12 are not judged
    l = np.searchsorted(fa, out_f, side="left")
    r = np.searchsorted(fa, out_f, side="right")
    present = r > l
    if not present.all():
        res.violation("membership:volume_not_an_input_volume", "a resampled volume is not a volume of the same snapshot", rep)
    l, r = l[present], r[present]
    u = us[present]
    inside = ((u > pre[l] - 1e-12) | (l == 0)) & ((u <= pre[r] + 1e-12) | (r == M))
    if not inside.all():
        k = int(np.flatnonzero(~inside)[0])
        res.violation("selection:variate_outside_volume_interval",
                      f"variate {u[k]!r} selected a grain of volume {out_f[present][k]!r} whose cumulative-volume interval "
                      f"({pre[l][k]!r}, {pre[r][k]!r}] does not contain it", rep)
    return grains.tolist()


def _chi2(res, f, out_f_all, rep):
    """supporting statistic: empirical frequency of each distinct volume value vs its total volume"""
    try:
        from scipy.stats import chi2
    except Exception:
        return None
    n = len(out_f_all)
    vals, inv = np.unique(f, return_inverse=True)
    expected = np.array([f[inv == j].sum() for j in range(len(vals))]) * n
    observed = np.array([(out_f_all == v).sum() for v in vals])
    keep = expected >= 5
    if keep.sum() < 2:
        return None
    e = np.concatenate([expected[keep], [expected[~keep].sum()]]) if (~keep).any() else expected[keep]
    o = np.concatenate([observed[keep], [observed[~keep].sum()]]) if (~keep).any() else observed[keep]
    nz = e > 0
    stat = float((((o - e) ** 2)[nz] / e[nz]).sum())
    if (o[~nz] > 0).any():
        stat = float("inf")
    dof = int(nz.sum() - 1)
    if dof < 1:
        return None
    p = float(chi2.sf(stat, dof))
    if p < 1e-12:
        res.violation("distribution:chi2", f"sample frequencies incompatible with the volumes (chi2={stat:.1f}, dof={dof}, p={p:.2e})", rep)
    return p


def _run_wellformed(ctx, res, S):
    rng = np.random.default_rng(ctx["seed"] + 1515)
    thorough = ctx["thorough"]
    n_cases = 160 if not thorough else 1500
    lines, meta = [], []
    pvals = []
    zscores = []
    for k in range(n_cases):
        family = FAMILIES[k % len(FAMILIES)]
        N = int(rng.integers(1, 6))
        M = int(rng.integers(1, 201)) if k % 5 else int(rng.integers(1, 4))
        mode = k % 4
        if mode == 0:
            n_samples = None
        elif mode == 1:
            n_samples = int(rng.integers(1, 2 * M + 2))
        elif mode == 2:
            n_samples = 1
        else:
            n_samples = int(rng.integers(1, 400 if not thorough else 3000))
        # 'for all seeds': the special values 0, 1 and the largest 32/63-bit seeds come first, then random ones
        seed = [0, 1, 2**32 - 1, 2**63 - 1][k % 4] if k < 24 else int(rng.integers(0, 2**31))
        F = np.stack([_fractions(rng, family, M) for _ in range(N)])
        O = impl.random_rotations(rng, N * M).reshape(N, M, 3, 3)
        as_list = (k % 7 == 3)
        rep = {"kind": "wellformed", "family": family, "N": N, "M": M, "n_samples": n_samples, "seed": seed,
               "fractions": F.tolist() if M <= 12 else None, "gen": {"k": k, "harness_seed": ctx["seed"]}}
        out_o, out_f = S.resample_orientations(O.tolist() if as_list else O.copy(), F.tolist() if as_list else F.copy(),
                                               n_samples=n_samples, seed=seed)
        res.evaluations += 1
        res.count("family:" + family)
        res.count("n_samples:default" if n_samples is None else "n_samples:given")
        n = M if n_samples is None else n_samples
        if out_o.shape != (N, n, 3, 3) or out_f.shape != (N, n):
            res.violation("shapes:wrong_output_shape", f"got {out_o.shape} / {out_f.shape}, expected {(N, n, 3, 3)} / {(N, n)}", rep)
            continue
        U = _variates(seed, N, n)
        ties = False
        for i in range(N):
            f = F[i]
            has_ties = len(np.unique(f)) < M
            ties = ties or has_ties
            grains = _check_snapshot(res, family, f, O[i], U[i], out_o[i], out_f[i], rep)
            perm = np.argsort(f)  # the call the implementation makes (default kind; ties unspecified)
            if sorted(perm.tolist()) != list(range(M)) or (np.diff(f[perm]) < 0).any():
                res.violation("argsort:not_a_sorting_permutation", "np.argsort did not return a sorting permutation", rep)
            # model with its own stable sort, and with numpy's permutation
            lines.append(f"rs_snap {M} s {C.fs2h(f)} {n} {C.fs2h(U[i])}")
            meta.append(("own", k, i, f, out_f[i], grains, has_ties, rep))
            lines.append(f"rs_snap {M} p {' '.join(map(str, perm.tolist()))} {C.fs2h(f)} {n} {C.fs2h(U[i])}")
            meta.append(("numpy", k, i, f, out_f[i], grains, has_ties, rep))
        res.count("ties" if ties else "no_ties")
        if (F == 0).any():
            res.count("has_zero_volume")
        res.nontrivial((family, N, M, n, seed, F.tobytes()))
        if k < 4:
            res.sample({"case": "wellformed", "family": family, "N": N, "M": M, "n_samples": n_samples, "seed": seed,
                        "first_fractions": F[0, :6].tolist(), "first_out_fractions": out_f[0, :6].tolist()})
        # reproducibility in-process
        o2, f2 = S.resample_orientations(O, F, n_samples=n_samples, seed=seed)
        if not (np.array_equal(o2, out_o) and np.array_equal(f2, out_f)):
            res.violation("reproducibility:same_seed_differs", "two calls with the same seed returned different samples", rep)
        o3, f3 = S.resample_orientations(O, F, n_samples=n_samples, seed=seed + 1)
        if n * N >= 64 and M >= 4 and family in ("dirichlet",) and np.array_equal(f3, out_f):
            res.violation("reproducibility:seed_ignored", "a different seed returned identical samples", rep)
    # large-sample cases: distribution statistic + model comparison at scale
    big = [(3, 20000), (17, 50000), (60, 100000)] if not thorough else [(3, 200000), (17, 10**6), (60, 10**6), (200, 300000), (5, 10**6)]
    for j, (M, n) in enumerate(big):
        family = ["dirichlet", "zeros", "duplicates", "dominant", "dyadic"][j % 5]
        f = _fractions(rng, family, M)
        O = impl.random_rotations(rng, M).reshape(1, M, 3, 3)
        seed = int(rng.integers(0, 2**31))
        rep = {"kind": "wellformed", "family": family, "N": 1, "M": M, "n_samples": n, "seed": seed, "fractions": [f.tolist()] if M <= 60 else None}
        out_o, out_f = S.resample_orientations(O, f[None, :], n_samples=n, seed=seed)
        res.evaluations += 1
        res.count("large_n")
        U = _variates(seed, 1, n)
        p = _chi2(res, f, out_f[0], rep)
        if p is not None:
            pvals.append(round(p, 4))
        # sample mean of a per-grain statistic vs its volume-weighted value (expectation_eq_weighted):
        # statistic g_i = f_i and g_i = first orientation entry; 8-sigma band
        for gname, gvals, sampled in (("volume", f, out_f[0]), ("orientation_00", O[0, :, 0, 0], out_o[0][:, 0, 0])):
            mean = float(np.sum(f * gvals))
            var = float(np.sum(f * gvals**2) - mean**2)
            z = abs(float(np.mean(sampled)) - mean) / max(np.sqrt(max(var, 0.0) / n), 1e-300)
            zscores.append(round(float(z), 2))
            if var > 0 and z > 8:
                res.violation("distribution:sample_mean", f"sample mean of {gname} is {z:.1f} sigma from the volume-weighted mean", rep)
        if (out_f[0] == 0).any() and (U[0][out_f[0] == 0] > 0).any():
            res.violation("zero_volume:drawn", "a zero-volume grain was drawn", rep)
        lines.append(f"rs_snap {M} s {C.fs2h(f)} {n} {C.fs2h(U[0])}")
        # grains by matching orientation (vectorised)
        key = {O[0, g].tobytes(): g for g in range(M)}
        grains = [key.get(out_o[0, t].tobytes(), -1) for t in range(n)]
        if -1 in grains:
            res.violation("membership:pair_not_an_input_grain", "a resampled orientation is not an input grain", rep)
        has_ties = len(np.unique(f)) < M
        meta.append(("own", -1 - j, 0, f, out_f[0], grains, has_ties, rep))
        res.nontrivial(("big", M, n, seed))
    res.notes.append(f"chi-square p-values of the large-sample cases (supporting only): {pvals}; "
                     f"z-scores of sample means vs volume-weighted means: {zscores}")
    outs = C.run_driver(lines)
    for (which, k, i, f, want_f, grains, has_ties, rep), line in zip(meta, outs):
        parts = [p.split() for p in line.split(";")]
        if len(parts) != 5:
            res.mismatch("K28 resample", rep, "(5 fields)", line[:200])
            continue
        perm, pos, posB, g_model, f_model = parts
        g_model = list(map(int, g_model))
        ok = True
        if pos != posB:
            ok = False
            res.mismatch("K28 searchsorted: linear scan vs binary search", rep, pos[:20], posB[:20])
        got_f = np.array(C.hs2f(f_model))
        if got_f.tobytes() != np.asarray(want_f, dtype=float).tobytes():
            ok = False
            bad = np.flatnonzero(got_f != want_f)[:5].tolist() if len(got_f) == len(want_f) else "length"
            res.mismatch("K28 output volumes", dict(rep, snapshot=i, model_sort=which), np.asarray(want_f)[:10].tolist(), got_f[:10].tolist(), note=f"first differing sample indices {bad}")
        # selected grains: exact when the implementation's grain is identifiable
        if which == "numpy" or not has_ties:
            for t, (gm, gi) in enumerate(zip(g_model, grains)):
                if gi >= 0 and gm != gi:
                    ok = False
                    res.mismatch("K28 selected grain", dict(rep, snapshot=i, model_sort=which, sample=t), gi, gm)
                    break
        else:
            for t, (gm, gi) in enumerate(zip(g_model, grains)):
                if gi >= 0 and f[gm] != f[gi]:
                    ok = False
                    res.mismatch("K28 selected grain (tie class)", dict(rep, snapshot=i, sample=t), gi, gm)
                    break
        if ok:
            res.traces += 1


def _shape_calls(S, os_, fs_, n_samples):
    O = np.ones(os_)
    F = np.full(fs_, 1.0 / max(1, fs_[-1])) if len(fs_) else np.ones(())
    try:
        o, f = S.resample_orientations(O, F, n_samples=n_samples, seed=1)
        return "ok " + " ".join(map(str, o.shape)) + " | " + " ".join(map(str, f.shape))
    except ValueError:
        return "ValueError"
    except IndexError:
        return "IndexError"
    except Exception as e:  # any other class is reported as such
        return type(e).__name__


def _wellformed(os_, fs_):
    return len(os_) == 4 and len(fs_) == 2 and tuple(os_[2:]) == (3, 3) and tuple(os_[:2]) == tuple(fs_)


def _run_shapes(ctx, res, S):
    ext = [1, 2, 3, 4]
    o_shapes = [s for r in range(1, 6) for s in itertools.product(ext, repeat=r)]
    f_ranks = range(1, 4) if not ctx["thorough"] else range(1, 5)
    f_shapes = [s for r in f_ranks for s in itertools.product(ext, repeat=r)]
    lines, impl_out, keys = [], [], []
    n_mal = 0
    for os_ in o_shapes:
        for fs_ in f_shapes:
            # all rank-4 x rank-2 pairs; other ranks: every pair in thorough, a third in quick
            if not (len(os_) == 4 and len(fs_) == 2) and not ctx["thorough"] and (hash((os_, fs_)) % 3):
                continue
            ns = None if (sum(os_) + sum(fs_)) % 2 else 5
            got = _shape_calls(S, os_, fs_, ns)
            res.evaluations += 1
            wf = _wellformed(os_, fs_)
            if not wf:
                n_mal += 1
                if got != "ValueError":
                    key = "validation:malformed_accepted:" + ("trailing=" + "x".join(map(str, os_[2:])) if len(os_) == 4 and len(fs_) == 2 and os_[:2] == fs_ else "other")
                    res.violation(key, f"orientations {os_} with fractions {fs_} returned {got} instead of raising ValueError",
                                  {"kind": "shape", "os": list(os_), "fs": list(fs_), "n_samples": ns})
            else:
                n = fs_[1] if ns is None else ns
                want = f"ok {fs_[0]} {n} 3 3 | {fs_[0]} {n}"
                if got != want:
                    res.violation("shapes:wrong_output_shape", f"well-formed {os_}/{fs_} n_samples={ns} gave {got}",
                                  {"kind": "shape", "os": list(os_), "fs": list(fs_), "n_samples": ns})
                res.count("shape:wellformed")
            lines.append(f"rs_shape fixed {len(os_)} {' '.join(map(str, os_))} {len(fs_)} {' '.join(map(str, fs_))} {'none' if ns is None else ns}")
            impl_out.append(got)
            keys.append((os_, fs_, ns))
    res.count("shape:malformed", n_mal)
    # degenerate extents (outside the property's N, M >= 1; model and code must still agree)
    for os_, fs_ in [((0, 3, 3, 3), (0, 3)), ((2, 0, 3, 3), (2, 0)), ((0, 0, 3, 3), (0, 0))]:
        got = _shape_calls(S, os_, fs_, None)
        lines.append(f"rs_shape fixed 4 {' '.join(map(str, os_))} 2 {' '.join(map(str, fs_))} none")
        impl_out.append(got)
        keys.append((os_, fs_, None))
        res.count("shape:degenerate")
    outs = C.run_driver(lines)
    for (os_, fs_, ns), want, got in zip(keys, impl_out, outs):
        if want == got:
            res.traces += 1
        else:
            res.mismatch("K28 shape validation / output shapes", {"os": list(os_), "fs": list(fs_), "n_samples": ns}, want, got)
    res.nontrivial(("shapes", len(lines)))
    res.sample({"case": "shape", "os": [2, 3, 1, 3], "fs": [2, 3], "impl": _shape_calls(S, (2, 3, 1, 3), (2, 3), None)})
    # ragged / non-numeric inputs (np.asarray itself raises ValueError)
    for bad in ([[np.eye(3), np.eye(3)], [np.eye(3)]],):
        try:
            S.resample_orientations(bad, [[0.5, 0.5], [1.0]], seed=1)
            res.violation("validation:malformed_accepted:ragged", "ragged input accepted", {"kind": "ragged"})
        except ValueError:
            res.count("shape:ragged_rejected")
        res.evaluations += 1


class _FakeRng:
    """stands in for the Generator returned by `np.random.default_rng(seed)`: `random(n)` returns prescribed variates"""

    def __init__(self, values):
        self.values = values
        self._real = np.random.Generator(np.random.PCG64(0))

    def random(self, n):
        return np.resize(np.asarray(self.values, dtype=float), n)

    def __getattr__(self, name):
        return getattr(self._real, name)


def _run_injected(ctx, res, S):
    """Variates that a seeded PCG64 stream essentially never produces, replayed through an injected generator:
    u = 0.0 (the excluded point of zero_volume_never_drawn), u exactly on a cumulative-volume boundary
    (left-closed search), and the largest variate 1 - 2^-53 on a snapshot whose rounded total is below it
    (the reason for `cumfrac[-1] = 1.0`)."""
    rng = np.random.default_rng(ctx["seed"] + 4)
    cases = []
    f0 = np.array([0.5, 0.0, 0.25, 0.25])
    cases.append(("u0_zero_volume", f0, [0.0, 0.3, 0.0, 0.99]))
    for _ in range(6 if not ctx["thorough"] else 60):
        M = int(rng.integers(2, 12))
        f = rng.multinomial(64, np.ones(M) / M) / 64.0
        c = np.cumsum(np.sort(f))
        us = [float(x) for x in c[:-1][(c[:-1] < 1.0) & (c[:-1] > 0.0)]] + [1 - 2.0**-53, float(rng.random())]
        cases.append(("on_boundary", f, us))
    found = 0
    for t in range(2000):
        M = int(rng.integers(20, 200))
        f = rng.dirichlet(np.ones(M))
        if np.cumsum(np.sort(f))[-1] < 1 - 2.0**-53:
            cases.append(("rounded_total_below_max_variate", f, [1 - 2.0**-53, 0.5]))
            found += 1
            if found >= (2 if not ctx["thorough"] else 10):
                break
    lines, wants = [], []
    real_default_rng = np.random.default_rng
    for tag, f, us in cases:
        M = len(f)
        O = impl.random_rotations(rng, M).reshape(1, M, 3, 3)
        rep = {"kind": "injected", "case": tag, "fractions": f.tolist(), "variates": [float(u) for u in us]}
        with mock.patch.object(np.random, "default_rng", lambda seed=None, _us=us: _FakeRng(_us)):
            try:
                out_o, out_f = S.resample_orientations(O, f[None, :], n_samples=len(us), seed=0)
            except Exception as e:
                res.violation("injected:" + tag + ":raised", f"{type(e).__name__} for variates a Generator can return: {e}", rep)
                continue
        assert np.random.default_rng is real_default_rng
        res.evaluations += 1
        res.count("injected:" + tag)
        res.nontrivial(("inj", tag, f.tobytes()))
        if tag == "u0_zero_volume":
            # excluded point: do not judge the zero-volume clause here, only record what happens
            res.count("excluded_point_u0:zero_volume_grain_drawn" if out_f[0][0] == 0.0 else "excluded_point_u0:not_drawn")
            res.notes.append(f"excluded point u=0.0 replayed with an injected generator: out_fractions={out_f[0].tolist()} "
                             "(a zero-volume grain is selected, as the model predicts; not a finding: probability 2^-53 per draw)")
        else:
            _check_snapshot(res, "injected", f, O[0], np.asarray(us), out_o[0], out_f[0], rep)
        lines.append(f"rs_snap {M} s {C.fs2h(f)} {len(us)} {C.fs2h(us)}")
        wants.append((tag, rep, out_f[0]))
    outs = C.run_driver(lines)
    for (tag, rep, want), line in zip(wants, outs):
        got_f = np.array(C.hs2f(line.split(";")[4].split()))
        if got_f.tobytes() == np.asarray(want).tobytes():
            res.traces += 1
        else:
            res.mismatch("K28 injected variates: " + tag, rep, np.asarray(want).tolist()[:12], got_f.tolist()[:12])


_SUBPROC = r"""
import os, sys, json, hashlib
os.environ.setdefault("NUMBA_DISABLE_JIT", "1")
import numpy as np
from pydrex import stats
cases = json.loads(sys.stdin.read())
out = []
for c in cases:
    rng = np.random.default_rng(c["gen"])
    F = rng.dirichlet(np.ones(c["M"]), size=c["N"])
    O = rng.normal(size=(c["N"], c["M"], 3, 3))
    o, f = stats.resample_orientations(O, F, n_samples=c["n"], seed=c["seed"])
    out.append(hashlib.sha256(o.tobytes() + f.tobytes()).hexdigest())
print(json.dumps(out))
"""


def _run_cross_process(ctx, res, S):
    rng = np.random.default_rng(ctx["seed"] + 77)
    cases = [{"gen": int(rng.integers(0, 2**31)), "N": int(rng.integers(1, 4)), "M": int(rng.integers(1, 50)),
              "n": [None, 7, 100][j % 3], "seed": int(rng.integers(0, 2**31))} for j in range(6 if not ctx["thorough"] else 30)]
    here = []
    for c in cases:
        g = np.random.default_rng(c["gen"])
        F = g.dirichlet(np.ones(c["M"]), size=c["N"])
        O = g.normal(size=(c["N"], c["M"], 3, 3))
        o, f = S.resample_orientations(O, F, n_samples=c["n"], seed=c["seed"])
        here.append(hashlib.sha256(o.tobytes() + f.tobytes()).hexdigest())
    p = subprocess.run([sys.executable, "-c", _SUBPROC], input=json.dumps(cases), capture_output=True, text=True, timeout=300)
    if p.returncode != 0:
        res.notes.append("cross-process reproducibility run failed to start: " + p.stderr[-300:])
        res.mismatch("harness", "cross-process subprocess", p.stderr[-300:], "")
        return
    there = json.loads(p.stdout.strip().splitlines()[-1])
    for c, a, b in zip(cases, here, there):
        res.evaluations += 1
        if a != b:
            res.violation("reproducibility:differs_across_processes", "same seed, different process, different samples", dict(c, kind="xproc"))
        else:
            res.count("reproducible_across_processes")


def run(ctx, res):
    from pydrex import stats as S

    res.rule = ("well-formed stacks: N in 1..5, M in 1..200 from families {dirichlet, zeros, duplicates, one dominant, uniform, "
                "dyadic exact, tiny}; n_samples in {default, 1, ~M, large}; lists and arrays; large-sample cases up to 1e6 variates; "
                "every shape combination of orientation ranks 1..5 x fraction ranks 1..3(4) over extents {1,2,3,4}; "
                "a case is non-trivial when it has at least one snapshot (distinct by family, sizes, seed and volume bytes); "
                "the shape sweep counts as one case")
    _run_wellformed(ctx, res, S)
    _run_shapes(ctx, res, S)
    _run_injected(ctx, res, S)
    _run_cross_process(ctx, res, S)
    # representation- and history-robustness of the public functions (harness/apirobust.py)
    from .. import apirobust_cases as _AC
    _AC.c15(res, np.random.default_rng(ctx["seed"] + 4242), ctx)
    _AC.c15_sizes(res, np.random.default_rng(ctx["seed"] + 4243), ctx)


def replay(data):
    from pydrex import stats as S

    for v in data.get("violations", [data]):
        r = v.get("replay", v)
        print("replaying", json.dumps(r)[:400])
        if r.get("kind") == "shape":
            print("  real code:", _shape_calls(S, tuple(r["os"]), tuple(r["fs"]), r.get("n_samples")))
        elif r.get("kind") == "wellformed" and r.get("fractions"):
            F = np.array(r["fractions"])
            O = impl.random_rotations(np.random.default_rng(0), F.size).reshape(F.shape + (3, 3))
            o, f = S.resample_orientations(O, F, n_samples=r["n_samples"], seed=r["seed"])
            print("  out_fractions[0][:10] =", f[0][:10].tolist())
    return 0
