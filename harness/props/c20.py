"""C20 — coordinate conversions and pole-figure primitives.

Correspondence K38–K41: `geometry.to_cartesian`, `to_spherical`, `poles`, `lambert_equal_area`,
`stats.point_density` and the five kernels against ModelF.Geom.* / ModelF.Density.* (Lean driver).
The statement of C20 is evaluated directly on the real outputs: Cartesian → spherical → Cartesian
round trip and the longitude/colatitude convention, poles = normalised Aᵀ·hkl permuted per the
reference-axes string, Lambert radius² = 1 − |z| / azimuth / inverse of the lifting, density finite,
non-negative, unit grid mean, inside the disk, permutation- and (axial) sign-invariant.
"""
from __future__ import annotations

import numpy as np

from .. import common as C
from .. import impl  # noqa: F401  (sets NUMBA_DISABLE_JIT, imports pydrex from /repo/src)

PARTIAL = [
    "floating-point rounding (theorems over the reals; comparisons within 1e-9): near the poles of the sphere the masked branch "
    "|x|,|y| < 1e-16 of lambert_equal_area returns the origin although 1-|z| may be as large as 2e-32",
    "trigonometric functions: Float.sin/cos/acos/atan2 of the C library vs numpy's; arcsin is modelled as pi/2 - arccos",
    "the discontinuous counting kernels are compared only when no datum lies within 1e-9 of a counting-circle boundary, and the "
    "normalised totals only when the grid mean is not ill-conditioned (|mean| >= 1e-6 mean|.|); both rules are counted",
    "numpy.ma's domain-safe division (masks when |a|*tiny >= |b|) is not modelled (unreachable for |1-|z|| < 1e275)",
]
ASSUMPTIONS = [
    "to_spherical/to_cartesian: the property's domain is R^3 minus the origin; the longitude is atan2(y, x) in (-pi, pi] "
    "(the docstring's range [0, 2pi) is the same longitude modulo 2pi) and the colatitude is arccos(z/r) in [0, pi]",
    "point_density: data sets with at least one datum; scalar weights (vector weights are only compared with the model)",
    "set.pop() on a two-element set (ref_axes such as 'xx') is hash-order dependent: left unspecified by the model, not compared",
]
PRE_LEAN = C.s2_trace_geom   # S2: to_cartesian / to_spherical / poles (six strings) and the five counting kernels of stats.py re-traced on every run
EXTRA_LEAN_MODULES = ("Bridge.Geom", "Bridge.Kernels")
TRUSTED = []

TOL = 1e-9
KERNELS = ["kamb_count", "schmidt_count", "exponential_kamb", "linear_inverse_kamb", "square_inverse_kamb"]
REF_VALID = ["xy", "xz", "yx", "yz", "zx", "zy"]
REF_OTHER = ["XZ", "Yx", "zY", "xx", "zz", "x", "", "xyz", "zyx", "ab", "xq", "qx", "xzq", "xyq", "x z"]


def enc(s: str) -> str:
    return ",".join(str(ord(c)) for c in s) if s else "-"


def call(fn, *a, **k):
    try:
        return ("ok", fn(*a, **k))
    except Exception as e:  # noqa: BLE001
        return (type(e).__name__, None)


def unit(v):
    v = np.asarray(v, dtype=float)
    return v / np.linalg.norm(v, axis=-1, keepdims=True)


# ------------------------------------------------------------------ K38 conversions
def conversion_points(rng, n_random):
    pts = []
    for s in (1.0, -1.0):
        for k in range(3):
            e = np.zeros(3)
            e[k] = s
            pts.append(("axis", e))
            pts.append(("axis_scaled", e * float(rng.uniform(1e-3, 1e3))))
    for p in ([1, 0, 1], [0, 1, 1], [1, 1, 0], [-1, 0, 1], [0, -1, -1], [-1, -1, 0], [1, 1, 1], [-1, -1, -1],
              [-1, 0, 0.5], [-2, 0, -3], [1e-9, 0, 1], [0, 1e-9, -1], [1e-12, 1e-12, 1], [3, -4, 0]):
        pts.append(("structured", np.array(p, dtype=float)))
    for _ in range(n_random):
        pts.append(("random", rng.normal(size=3) * 10 ** rng.uniform(-3, 3)))
        v = unit(rng.normal(size=3))
        pts.append(("unit", v))
    for _ in range(max(4, n_random // 8)):
        z = rng.choice([-1.0, 1.0]) * rng.uniform(0.1, 10)
        pts.append(("z_axis", np.array([0.0, 0.0, z])))
        pts.append(("xz_plane_negx", np.array([-abs(rng.normal()), 0.0, rng.normal()])))
        pts.append(("xy_plane", np.array([rng.normal(), rng.normal(), 0.0])))
    return pts


def check_conversions(ctx, res, G, rng, add):
    pts = conversion_points(rng, 60 if not ctx["thorough"] else 2000)
    for kind, p in pts:
        x, y, z = map(float, p)
        res.count("conversion:" + kind)
        with np.errstate(all="ignore"):
            r, ph, th = (float(np.asarray(v).ravel()[0]) for v in G.to_spherical(x, y, z))
            back = [float(np.asarray(v).ravel()[0]) for v in G.to_cartesian(ph, th, r)]
        res.evaluations += 2
        add(f"geom_sph {C.fs2h([x, y, z])}", "K38 to_spherical", {"p": [x, y, z]}, [r, ph, th])
        add(f"geom_cart {C.fs2h([ph, th, r])}", "K38 to_cartesian", {"phi": ph, "theta": th, "r": r}, back)
        rep = {"point": [x, y, z], "kind": kind}
        scale = float(np.linalg.norm(p))
        res.nontrivial(("conv", x, y, z))
        if not all(np.isfinite([r, ph, th])):
            res.violation("conversion:nonfinite", f"to_spherical({x!r},{y!r},{z!r}) = {(r, ph, th)!r}", rep)
            continue
        # arccos is ill-conditioned at the poles (arccos(1-d) ~ sqrt(2d)): within 1e-3 rad of the z axis the
        # round trip is only good to sqrt(eps)*|p|; elsewhere it is checked to 1e-12*|p| (counted rule)
        near_pole = np.hypot(x, y) < 1e-3 * scale
        if near_pole:
            res.count("conversion:near_pole_loose_tolerance")
        if not np.allclose(back, [x, y, z], rtol=0, atol=(4e-8 if near_pole else 1e-12) * scale):
            res.violation("conversion:roundtrip", f"to_cartesian(to_spherical(p)) = {back!r} != p = {[x, y, z]!r}", rep)
        th_want = float(np.arccos(np.clip(z / scale, -1, 1)))
        if not (-1e-12 <= th <= np.pi + 1e-12) or abs(th - th_want) > 1e-7:
            res.violation("conversion:colatitude_convention", f"third value {th!r} is not the colatitude arccos(z/r) = {th_want!r}", rep)
        if abs(r - scale) > 1e-12 * scale:
            res.violation("conversion:radius", f"r = {r!r}, |p| = {scale!r}", rep)
        if np.hypot(x, y) > 1e-9 * scale:
            dphi = (ph - np.arctan2(y, x) + np.pi) % (2 * np.pi) - np.pi
            if abs(dphi) > 1e-9:
                res.violation("conversion:longitude_convention", f"phi = {ph!r}, atan2(y, x) = {np.arctan2(y, x)!r}", rep)
    # the origin is outside the property's domain: replayed and counted
    with np.errstate(all="ignore"):
        o = [float(np.asarray(v).ravel()[0]) for v in G.to_spherical(0.0, 0.0, 0.0)]
    res.count("conversion:origin_excluded:" + ("nan" if np.isnan(o[2]) else "finite"))
    # vectorised call and default radius
    P = rng.normal(size=(7, 3))
    with np.errstate(all="ignore"):
        r, ph, th = G.to_spherical(P[:, 0], P[:, 1], P[:, 2])
    xb, yb, zb = G.to_cartesian(ph, th)
    res.evaluations += 2
    for i in range(7):
        add(f"geom_sph {C.fs2h(P[i])}", "K38 to_spherical (array call)", {"p": P[i].tolist()}, [r[i], ph[i], th[i]])
        add(f"geom_cart {C.fs2h([ph[i], th[i], 1.0])}", "K38 to_cartesian (default r=1)", {"phi": ph[i], "theta": th[i]}, [xb[i], yb[i], zb[i]])
    # spherical -> Cartesian -> spherical (away from the z axis and from the branch cut of the longitude)
    for _ in range(40 if not ctx["thorough"] else 1000):
        ph, th, r = float(rng.uniform(-np.pi + 1e-3, np.pi - 1e-3)), float(rng.uniform(0.05, np.pi - 0.05)), float(10 ** rng.uniform(-3, 3))
        with np.errstate(all="ignore"):
            c = [float(np.asarray(t).ravel()[0]) for t in G.to_cartesian(ph, th, r)]
            back = [float(np.asarray(t).ravel()[0]) for t in G.to_spherical(*c)]
        res.evaluations += 2
        res.count("conversion:reverse_roundtrip")
        if not (abs(back[0] - r) <= 1e-12 * r and abs(back[1] - ph) <= 1e-10 and abs(back[2] - th) <= 1e-10):
            res.violation("conversion:reverse_roundtrip", f"to_spherical(to_cartesian(phi={ph!r}, theta={th!r}, r={r!r})) = {back!r}",
                          {"point": c, "phi": ph, "theta": th, "r": r})
    # to_cartesian on its own: any angles give a vector of norm |r|
    for _ in range(40 if not ctx["thorough"] else 500):
        ph, th, r = float(rng.uniform(-7, 7)), float(rng.uniform(-7, 7)), float(rng.uniform(-3, 3))
        v = [float(np.asarray(t).ravel()[0]) for t in G.to_cartesian(ph, th, r)]
        res.evaluations += 1
        add(f"geom_cart {C.fs2h([ph, th, r])}", "K38 to_cartesian", {"phi": ph, "theta": th, "r": r}, v)
        if abs(np.linalg.norm(v) - abs(r)) > 1e-12:
            res.violation("conversion:to_cartesian_norm", f"|to_cartesian({ph},{th},{r})| = {np.linalg.norm(v)!r}", {"phi": ph, "theta": th, "r": r})


# ------------------------------------------------------------------ K39 poles
def check_poles(ctx, res, G, rng, add):
    from scipy.spatial.transform import Rotation

    letter = {"x": 0, "y": 1, "z": 2}
    hkls = [[1, 0, 0], [0, 1, 0], [0, 0, 1], [1, 1, 0], [1, 1, 1], [-1, 2, 0], [0, 0, -3], [2, 1, 3]]
    n_sets = 12 if not ctx["thorough"] else 150
    for k in range(n_sets):
        n = int(rng.choice([1, 2, 5, 30])) if k % 4 else int(rng.choice([1, 300]))
        if k % 3 == 2:
            A = rng.normal(size=(n, 3, 3))  # not orthonormal: transposition and normalisation both visible
            akind = "general"
        else:
            A = Rotation.random(n, random_state=int(rng.integers(0, 2**31))).as_matrix()
            akind = "rotation"
        A = np.ascontiguousarray(A)
        hkl = hkls[k % len(hkls)] if k % 5 else (rng.normal(size=3) * 3).tolist()
        strings = REF_VALID + (REF_OTHER if k < 2 else [REF_OTHER[k % len(REF_OTHER)]])
        for ra in strings:
            st, out = call(G.poles, A.copy(), ra, hkl)
            res.evaluations += 1
            res.count("poles:" + ("valid_string" if ra in REF_VALID else "other_string") + ":" + akind)
            hexin = f"geom_poles {enc(ra)} {n} {C.fs2h(A.ravel())} {C.fs2h(hkl)}"
            if st == "ok":
                xv, yv, zv = (np.asarray(v, dtype=float) for v in out)
                rows = np.column_stack([xv, yv, zv])
                add(hexin, "K39 poles", {"ref_axes": ra, "n": n, "hkl": hkl, "A": akind}, ("poles", rows))
            else:
                add(hexin, "K39 poles", {"ref_axes": ra, "n": n, "hkl": hkl}, ("raw", st))
            if ra not in REF_VALID:
                continue
            rep = {"ref_axes": ra, "hkl": hkl, "orientations": A.tolist() if n <= 5 else None, "A": akind}
            if st != "ok":
                res.violation("poles:valid_string_raises", f"poles(ref_axes={ra!r}) raised {st}", rep)
                continue
            res.nontrivial(("poles", ra, A.tobytes(), tuple(hkl)))
            d = np.einsum("nji,j->ni", A, np.asarray(hkl, dtype=float))
            d = d / np.linalg.norm(d, axis=1, keepdims=True)
            third = ({"x", "y", "z"} - set(ra)).pop()
            want = np.column_stack([d[:, letter[ra[0]]], d[:, letter[ra[1]]], d[:, letter[third]]])
            if np.abs(np.linalg.norm(rows, axis=1) - 1).max() > 1e-12:
                res.violation("poles:unit", "pole vectors are not unit vectors", rep)
            if np.abs(rows - want).max() > 1e-12:
                res.violation("poles:direction_or_permutation",
                              f"poles != normalised A^T.hkl permuted as ({ra[0]},{ra[1]},{third}); max diff {np.abs(rows - want).max()!r}", rep)
            if akind == "rotation" and sorted(map(abs, hkl)) == [0, 0, 1] and sum(hkl) == 1:
                kk = int(np.argmax(hkl))
                rowk = A[:, kk, :]
                want2 = np.column_stack([rowk[:, letter[ra[0]]], rowk[:, letter[ra[1]]], rowk[:, letter[third]]])
                if np.abs(rows - want2).max() > 1e-12:
                    res.violation("poles:crystal_axis_is_row", f"poles(hkl=e_{kk}) is not row {kk} of the orientation matrix", rep)


# ------------------------------------------------------------------ K40 Lambert
def check_lambert(ctx, res, G, rng, add):
    pts = []
    for s in (1.0, -1.0):
        pts += [("pole", [0, 0, s]), ("pole_tiny", [1e-17, -5e-17, s]), ("pole_tiny", [9.9e-17, 0, s]),
                ("near_pole", [1e-16, 0, s]), ("near_pole", [1e-15, 1e-15, s]), ("near_pole", [1e-9, -1e-9, s * np.sqrt(1 - 2e-18)]),
                ("equator", [s, 0, 0]), ("equator", [0, s, 0]), ("equator", [s * 0.6, -0.8, 0])]
    nrand = 200 if not ctx["thorough"] else 5000
    for v in unit(rng.normal(size=(nrand, 3))):
        pts.append(("unit", v.tolist()))
    for _ in range(nrand // 5):
        th = rng.uniform(0, 2 * np.pi)
        eps = 10 ** rng.uniform(-12, -2)
        z = rng.choice([-1, 1]) * np.sqrt(1 - eps * eps)
        pts.append(("near_pole", [eps * np.cos(th), eps * np.sin(th), z]))
    P = np.array([p for _, p in pts], dtype=float)
    X, Y = G.lambert_equal_area(P[:, 0], P[:, 1], P[:, 2])
    res.evaluations += 1
    add(f"geom_lambert {len(P)} {C.fs2h(P.ravel())}", "K40 lambert_equal_area", {"n": len(P)}, np.column_stack([X, Y]).ravel())
    for (kind, p), x, y in zip(pts, X, Y):
        res.count("lambert:" + kind)
        res.nontrivial(("lam", tuple(p)))
        rep = {"point": list(map(float, p)), "kind": kind}
        r2 = x * x + y * y
        if not np.isfinite([x, y]).all():
            res.violation("lambert:nonfinite", f"lambert{tuple(p)!r} = {(x, y)!r}", rep)
            continue
        if r2 > 1 + 1e-12:
            res.violation("lambert:outside_disk", f"X^2+Y^2 = {r2!r} > 1", rep)
        if abs(r2 - (1 - abs(p[2]))) > 1e-12:
            res.violation("lambert:radius", f"X^2+Y^2 = {r2!r} != 1-|z| = {1 - abs(p[2])!r}", rep)
        if kind in ("pole", "pole_tiny") and (x != 0 or y != 0):
            res.violation("lambert:pole_not_origin", f"pole mapped to {(x, y)!r}", rep)
        rho = np.hypot(p[0], p[1])
        if rho > 1e-6 and (abs(x * p[1] - y * p[0]) > 1e-12 or x * p[0] + y * p[1] <= 0):
            res.violation("lambert:azimuth", f"azimuth changed: (x,y)={(p[0], p[1])!r} -> {(x, y)!r}", rep)
    # scalar call
    x1, y1 = G.lambert_equal_area(0.6, 0.0, -0.8)
    add(f"geom_lambert 1 {C.fs2h([0.6, 0.0, -0.8])}", "K40 lambert_equal_area (scalar call)", {}, [float(x1[0]), float(y1[0])])
    # lambert o lift = id on the disk (the lifting is the inverse equal-area map to the upper hemisphere)
    nd = 100 if not ctx["thorough"] else 3000
    D2 = rng.uniform(-1, 1, size=(nd * 2, 2))
    D2 = D2[(D2 ** 2).sum(axis=1) <= 1][:nd]
    D2 = np.vstack([D2, [[0, 0], [1, 0], [0, -1], [0.6, 0.8], [1e-20, 0], [1e-3, 1e-3]]])
    R2 = (D2 ** 2).sum(axis=1)
    lift = np.column_stack([D2[:, 0] * np.sqrt(2 - R2), D2[:, 1] * np.sqrt(2 - R2), 1 - R2])
    Xl, Yl = G.lambert_equal_area(lift[:, 0], lift[:, 1], lift[:, 2])
    res.evaluations += 1
    add(f"geom_lambert {len(lift)} {C.fs2h(lift.ravel())}", "K40 lambert_equal_area (lifted disk)", {"n": len(lift)}, np.column_stack([Xl, Yl]).ravel())
    err = np.abs(np.column_stack([Xl, Yl]) - D2).max(axis=1)
    bad = np.nonzero(err > 1e-12)[0]
    res.count("lambert:lift_roundtrip", len(D2))
    if len(bad):
        i = int(bad[0])
        res.violation("lambert:not_inverse_of_lift", f"lambert(lift({D2[i].tolist()!r})) = {(Xl[i], Yl[i])!r}", {"disk_point": D2[i].tolist()})
    # non-unit input (outside the property's domain): model comparison only
    Q = rng.normal(size=(40, 3)) * 2
    Xq, Yq = G.lambert_equal_area(Q[:, 0], Q[:, 1], Q[:, 2])
    add(f"geom_lambert {len(Q)} {C.fs2h(Q.ravel())}", "K40 lambert_equal_area (non-unit input)", {"n": len(Q)}, np.column_stack([Xq, Yq]).ravel())
    res.count("lambert:non_unit_model_only", len(Q))


# ------------------------------------------------------------------ K41 density
def data_set(rng, kind, n):
    if kind == "random":
        return unit(rng.normal(size=(n, 3)))
    if kind == "clustered":
        c = unit(rng.normal(size=3))
        return unit(c + 0.15 * rng.normal(size=(n, 3)))
    if kind == "girdle":
        a = rng.uniform(0, 2 * np.pi, n)
        v = np.column_stack([np.cos(a), np.sin(a), 0.05 * rng.normal(size=n)])
        q = impl.random_rotations(rng, 1)[0]
        return unit(v @ q.T)
    if kind == "single":
        return np.repeat(unit(rng.normal(size=3))[None], n, axis=0)
    if kind == "axes":
        e = np.vstack([np.eye(3), -np.eye(3)])
        return e[rng.integers(0, 6, n)]
    raise ValueError(kind)


DATA_KINDS = ["random", "clustered", "girdle", "single", "axes"]


def density_case(res, S, rng, add, grid_of, data, g, kernel, axial, sigma, weights, kind, paired=True):
    n = len(data)
    kw = {}
    if sigma is not None:
        kw["σ"] = sigma
    wdesc = weights if np.ndim(weights) == 0 else "vector"
    rep = {"data": data.tolist() if n <= 500 else None, "n": n, "gridsteps": g, "kernel": kernel, "axial": axial,
           "sigma": sigma, "weights": weights if np.ndim(weights) == 0 else np.asarray(weights).tolist()[:20], "family": kind}
    with np.errstate(all="ignore"):
        st, out = call(S.point_density, data[:, 0], data[:, 1], data[:, 2], gridsteps=g, weights=weights, kernel=kernel, axial=axial, **kw)
    res.evaluations += 1
    res.count(f"density:{kernel}")
    res.count(f"density:g={'<=5' if g <= 5 else '6-31' if g <= 31 else '32-101'}")
    res.count("density:axial" if axial else "density:non_axial")
    res.count("density:weights_" + ("scalar" if np.ndim(weights) == 0 else "vector"))
    wv = np.atleast_1d(np.asarray(weights, dtype=float))
    line = (f"dens {enc(kernel)} {1 if axial else 0} {C.f2h(sigma) if sigma is not None else '-'} {g} "
            f"{'s' if np.ndim(weights) == 0 else 'v'} {len(wv)} {C.fs2h(wv)} {n} {C.fs2h(data.ravel())}")
    if st != "ok":
        add(line, "K41 point_density", rep, ("raw", st))
        if np.ndim(weights) == 0 and kernel in KERNELS and not (kernel == "schmidt_count" and sigma is not None):
            res.violation(f"density:raises:{kernel}", f"point_density raised {st}", rep)
        return None
    X, Y, T = (np.asarray(v, dtype=float) for v in out)
    # conditioning / tie rule, from the model's grid and the real data
    cnt = grid_of(g)
    prod = data @ cnt.T
    if axial:
        prod = np.abs(prod)
    sg = 10.0 if sigma is None else sigma
    r = sg * sg / (n + sg * sg)
    thr = 0.99 if kernel == "schmidt_count" else (1 - r if axial else 1 - 2 * r)
    tie = kernel != "exponential_kamb" and bool((np.abs(prod - thr) < 1e-9).any())
    zero_count = kernel == "schmidt_count" and not bool((prod >= 0.99 - 1e-9).any())
    zero_count_possible = kernel == "schmidt_count" and not bool((prod >= 0.99 + 1e-9).any())
    small_nonaxial = (not axial) and kernel in ("kamb_count", "linear_inverse_kamb", "square_inverse_kamb") and n <= sg * sg
    add(line, "K41 point_density", rep, ("density", X.ravel(), Y.ravel(), T.ravel(), tie or zero_count))
    if tie:
        res.count("density:threshold_tie_excluded_from_model_comparison")
    if np.ndim(weights) != 0:
        return T
    # ---- the statement on the real output (scalar weights)
    if X.shape != (g, g) or T.shape != (g, g):
        res.violation("density:shape", f"shapes {X.shape}, {T.shape} for gridsteps={g}", rep)
    if not np.isfinite(T).all():
        if zero_count_possible:
            key = "density:nonfinite:schmidt_count:no_datum_in_any_cell"
        elif small_nonaxial:
            key = f"density:nonfinite:non_axial_n_le_sigma2:{kernel}"
        else:
            key = f"density:nonfinite:{kernel}"
        res.violation(key, f"point_density returned non-finite values (n={n}, gridsteps={g}, kernel={kernel}, axial={axial}, σ={sg})", rep)
        return None
    if zero_count:
        res.count("density:schmidt_zero_count_finite_by_rounding")
        return None
    res.nontrivial(("dens", kernel, axial, g, sigma, float(np.asarray(weights)), data.tobytes()))
    if (T < 0).any():
        res.violation("density:negative", f"negative density {T.min()!r}", rep)
    m = T.mean()
    if m < 1 - TOL or (T.min() > 0 and abs(m - 1) > TOL):
        res.violation("density:mean", f"grid mean {m!r} (min {T.min()!r}): not normalised to 1 before clipping", rep)
    if ((X ** 2 + Y ** 2) > 1 + 1e-12).any() or not np.isfinite(X).all() or not np.isfinite(Y).all():
        res.violation("density:grid_outside_disk", f"max X^2+Y^2 = {(X ** 2 + Y ** 2).max()!r}", rep)
    if paired and n > 1:
        perm = rng.permutation(n)
        d2 = data[perm]
        with np.errstate(all="ignore"):
            _, _, T2 = S.point_density(d2[:, 0], d2[:, 1], d2[:, 2], gridsteps=g, weights=weights, kernel=kernel, axial=axial, **kw)
        res.evaluations += 1
        if not np.allclose(T2, T, rtol=1e-8, atol=1e-9 * max(1.0, float(T.max()))):
            res.violation(f"density:order_dependent:{kernel}", f"density changes when the data are reordered (max diff {np.abs(T2 - T).max()!r})", rep)
    if paired and axial:
        sgn = rng.choice([-1.0, 1.0], size=(n, 1))
        d3 = data * sgn
        with np.errstate(all="ignore"):
            _, _, T3 = S.point_density(d3[:, 0], d3[:, 1], d3[:, 2], gridsteps=g, weights=weights, kernel=kernel, axial=True, **kw)
        res.evaluations += 1
        if not np.allclose(T3, T, rtol=1e-8, atol=1e-9 * max(1.0, float(T.max()))):
            res.violation(f"density:sign_dependent:{kernel}", f"axial density changes when data are negated (max diff {np.abs(T3 - T).max()!r})", rep)
    return T


def check_density(ctx, res, S, rng, add):
    grids = {}

    def grid_of(g):
        if g not in grids:
            out = C.run_driver([f"dens_grid {g}"])[0]
            grids[g] = np.array(C.hs2f(out.split())).reshape(-1, 3)
        return grids[g]

    thorough = ctx["thorough"]
    n_cases = 60 if not thorough else 1000
    gs_small = [2, 3, 5, 7, 11, 16, 21, 31]
    for k in range(n_cases):
        kernel = KERNELS[k % 5]
        kind = DATA_KINDS[(k // 5) % len(DATA_KINDS)]
        if thorough:
            g = int(rng.choice([5, 6, 9, 11, 16, 21, 31, 41, 51, 75, 101], p=[.12, .12, .12, .15, .14, .15, .14, .02, .02, .01, .01]))
            n = int(rng.choice([1, 2, 5, 20, 99, 100, 101, 150, 500, 2000], p=[.08, .08, .12, .15, .08, .08, .08, .15, .13, .05]))
            n = max(1, min(n, 1_500_000 // (g * g)))  # budget of the executable model: g*g*n <= 1.5e6
        else:
            g = gs_small[k % len(gs_small)] if k >= 2 else 101
            n = int(rng.choice([1, 2, 5, 20, 101, 150, 400])) if k >= 2 else 101
        data = data_set(rng, kind, n)
        axial = bool(k % 7 != 3)
        sigma = None if (k % 4 or kernel == "schmidt_count") else float(rng.choice([3.0, 20.0]))
        weights = 1 if k % 3 == 0 else float(rng.choice([2.5, 0.3, 1.0]))
        density_case(res, S, rng, add, grid_of, data, g, kernel, axial, sigma, weights, kind, paired=(g <= 51))
        if k < 3:
            res.sample({"kernel": kernel, "family": kind, "n": n, "gridsteps": g, "axial": axial, "sigma": sigma, "weights": weights})
    # vector weights (outside the property's quantifier): model comparison, incl. the broadcasting failure
    for k in range(10 if not thorough else 60):
        kernel = KERNELS[k % 5]
        n = int(rng.choice([3, 20, 150]))
        data = data_set(rng, "random", n)
        nw = n if k % 4 else int(rng.choice([1, 2, n + 1]))
        weights = rng.uniform(0.1, 2, nw)
        density_case(res, S, rng, add, grid_of, data, int(rng.choice([3, 5, 9])), kernel, True, None, weights, "random", paired=False)
    # the excluded points the proofs force (hypotheses `mean != 0`, `scale > 0`), replayed on the real code
    d1 = np.array([[1.0, 0.0, 0.0]])
    for g in (3, 11):
        density_case(res, S, rng, add, grid_of, d1, g, "schmidt_count", True, None, 1, "single_on_x_axis", paired=False)
    d7 = data_set(rng, "random", 7)
    for kernel in ("kamb_count", "linear_inverse_kamb", "square_inverse_kamb"):
        density_case(res, S, rng, add, grid_of, d7, 7, kernel, False, None, 1, "random", paired=False)
    d100 = data_set(rng, "random", 100)
    density_case(res, S, rng, add, grid_of, d100, 7, "kamb_count", False, None, 1, "random", paired=False)
    # empty data set: outside the domain (n >= 1), replayed and counted
    with np.errstate(all="ignore"):
        st, out = call(S.point_density, [], [], [], gridsteps=5)
    res.count("density:empty_data_excluded:" + ("nan" if st == "ok" and np.isnan(out[2]).all() else st))
    # unknown kernel, unexpected keyword
    for kernel, kw in (("foo", {}), ("", {}), ("Kamb_count", {}), ("schmidt_count", {"σ": 3.0})):
        st, _ = call(S.point_density, d7[:, 0], d7[:, 1], d7[:, 2], gridsteps=3, kernel=kernel, **kw)
        res.evaluations += 1
        sig = C.f2h(kw["σ"]) if kw else "-"
        add(f"dens {enc(kernel)} 1 {sig} 3 s 1 {C.f2h(1.0)} 7 {C.fs2h(d7.ravel())}", "K41 point_density (bad arguments)", {"kernel": kernel, "kw": list(kw)}, ("raw", st))
        if kernel not in KERNELS and st != "ValueError":
            res.violation("density:unknown_kernel_accepted", f"kernel={kernel!r} gave {st}", {"kernel": kernel})
    # the kernel functions on their own
    table = getattr(S, "SPHERICAL_COUNTING_KERNELS", None)
    if table is None:
        res.count("skipped:kernel_table_absent")
        return
    for k in range(40 if not thorough else 600):
        kernel = KERNELS[k % 5]
        n = int(rng.choice([1, 3, 10, 100, 101, 250]))
        c = rng.uniform(0, 1, n) if k % 3 else np.abs(rng.normal(scale=0.5, size=n)).clip(0, 1)
        axial = bool(k % 4)
        sigma = float(rng.choice([10.0, 3.0, 20.0]))
        sg2 = sigma * sigma
        thr = 0.99 if kernel == "schmidt_count" else (1 - sg2 / (n + sg2) if axial else 1 - 2 * sg2 / (n + sg2))
        if (np.abs(c - thr) < 1e-9).any():
            res.count("kernel:threshold_tie_excluded")
            continue
        with np.errstate(all="ignore"):
            if kernel == "schmidt_count":
                cnt, scale = table[kernel](c.copy(), axial=axial)
            else:
                cnt, scale = table[kernel](c.copy(), σ=sigma, axial=axial)
        res.evaluations += 1
        res.count("kernel:" + kernel)
        add(f"dens_kernel {enc(kernel)} {1 if axial else 0} {C.f2h(sigma)} {C.fs2h(c)}", "K41 kernel " + kernel,
            {"n": n, "axial": axial, "sigma": sigma}, ("okfloats", list(map(float, cnt)) + [float(scale)]))


def run(ctx, res):
    from pydrex import geometry as G
    from pydrex import stats as S

    rng = np.random.default_rng(ctx["seed"] + 2020)
    res.rule = ("points of R^3 (axes, poles, coordinate planes, random over 6 decades); orientation sets (rotations and general matrices) "
                "with 8 hkl families, the six ref_axes strings plus 15 other strings; unit vectors incl. poles/near-poles/equator and lifted disk "
                "points; data sets {random, clustered, girdle, single, axes} with n in 1..2000, grids 2..101, five kernels, axial/non-axial, "
                "σ in {default, 3, 20}, scalar and vector weights; a case is non-trivial when the property's predicates were evaluated on it "
                "(valid string / finite density on a non-degenerate class); distinct by input hash")
    lines, cases = [], []

    def add(line, kernel, inp, want):
        lines.append(line)
        cases.append((kernel, inp, want))

    check_conversions(ctx, res, G, rng, add)
    check_poles(ctx, res, G, rng, add)
    check_lambert(ctx, res, G, rng, add)
    check_density(ctx, res, S, rng, add)

    outs = C.run_driver(lines)
    for (kernel, inp, want), line in zip(cases, outs):
        compare(res, kernel, inp, want, line)
    # representation- and history-robustness of the public functions (harness/apirobust.py)
    from .. import apirobust_cases as _AC
    _AC.c20(res, np.random.default_rng(ctx["seed"] + 4242), ctx)
    _AC.c20_many_data(res, np.random.default_rng(ctx["seed"] + 4243), ctx)


def compare(res, kernel, inp, want, line):
    toks = line.split()
    note = ""
    if isinstance(want, tuple):
        tag = want[0]
        if tag == "raw":
            got = "ok" if toks and toks[0] == "ok" else line.strip()
            ok = got == want[1]
            show = want[1]
        elif tag == "okfloats":
            got = C.hs2f(toks[1:]) if toks and toks[0] == "ok" else line.strip()
            ok = bool(toks) and toks[0] == "ok" and C.close(got, want[1])
            show = want[1][:12]
        elif tag == "poles":
            rows = want[1]
            show = rows.tolist()[:4]
            if not toks or toks[0] != "ok" or len(toks) != 1 + rows.size:
                ok, got = False, line.strip()[:200]
            else:
                ok, got = True, []
                for tk, w in zip(toks[1:], rows.ravel()):
                    if tk == "?":
                        res.count("poles:ambiguous_pop_not_compared")
                        continue
                    v = C.h2f(tk)
                    got.append(v)
                    ok = ok and C.close(v, float(w))
                got = got[:12]
        else:  # density
            _, X, Y, T, skip_totals = want
            show = T.tolist()[:8]
            if not toks or toks[0] != "ok":
                ok, got = False, line.strip()[:200]
            else:
                vals = C.hs2f(toks[1:])
                m = len(X)
                if len(vals) != 3 * m + 2:
                    ok, got = False, f"{len(vals)} values for {m} grid points"
                else:
                    gx, gy, gt = vals[:m], vals[m:2 * m], vals[2 * m:3 * m]
                    mean_raw, mean_abs = vals[3 * m], vals[3 * m + 1]
                    ok = C.close(gx, X.tolist(), atol=1e-9) and C.close(gy, Y.tolist(), atol=1e-9)
                    got = gt[:8]
                    if not ok:
                        note = "grid coordinates differ"
                    ill = not (abs(mean_raw) >= 1e-6 * mean_abs) and np.isfinite(mean_abs)
                    if skip_totals or ill:
                        res.count("density:totals_not_compared(tie_or_ill_conditioned_mean)")
                    else:
                        scale = max(1.0, float(np.nanmax(np.abs(T))) if np.isfinite(T).any() else 1.0)
                        okt = C.close(gt, T.tolist(), scale=scale, rtol=1e-8)
                        if not okt:
                            note = f"totals differ, maxdiff={C.maxdiff(gt, T.tolist())}"
                        ok = ok and okt
    else:
        got = C.hs2f(toks)
        want = [float(v) for v in np.asarray(want).ravel()]
        ok = C.close(got, want, atol=1e-12)
        show = want[:12]
        got = got[:12]
    if ok:
        res.traces += 1
    else:
        res.mismatch(kernel, inp, show, got, note=note)


def replay(data):
    """Re-run the failing inputs of recorded violations on the real code."""
    import json

    from pydrex import geometry as G
    from pydrex import stats as S

    for v in data.get("violations", []):
        r = v.get("replay", {})
        print("violation:", v.get("key"), "-", v.get("what"))
        with np.errstate(all="ignore"):
            if "point" in r and v["key"].startswith("conversion"):
                s = G.to_spherical(*r["point"])
                print("  to_spherical ->", [float(t[0]) for t in s], " to_cartesian ->", [float(t[0]) for t in G.to_cartesian(s[1], s[2], s[0])])
            elif "point" in r:
                print("  lambert ->", G.lambert_equal_area(*r["point"]))
            elif r.get("data") is not None:
                d = np.array(r["data"])
                kw = {} if r.get("sigma") is None else {"σ": r["sigma"]}
                out = S.point_density(d[:, 0], d[:, 1], d[:, 2], gridsteps=r["gridsteps"], weights=r["weights"], kernel=r["kernel"], axial=r["axial"], **kw)
                print("  density min/mean/max:", np.nanmin(out[2]), np.nanmean(out[2]), np.nanmax(out[2]), " nan count:", int(np.isnan(out[2]).sum()))
            else:
                print(json.dumps(r)[:1500])
    return 0
