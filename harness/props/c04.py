"""C04 — frame indifference and crystal-symmetry invariance of rates and textures."""
from __future__ import annotations

import numpy as np

from .. import common as C
from .. import impl
from .. import drex, solver
from .. import robust

# S2: the arithmetic kernels of core.py are re-traced from the source on every run and the bridge theorems
# (lean/Bridge/Drex.lean: traced_f = ModelR.f) are re-checked by the Lean kernel.
PRE_LEAN = C.s2_trace_core
EXTRA_LEAN_MODULES = ("Bridge.Drex", "Bridge.DrexSlipRates", "Properties.C04Rhs")

PARTIAL = [
    "integrated textures: LSODA's error weights are per component and therefore frame dependent, and extract_vars clips entries "
    "to [-1,1] (not rotation covariant when it acts); equality 'within solver tolerance' is validated by paired real runs; the theorems "
    "give exact equivariance of the rates and of every explicit Runge-Kutta scheme under the stated commutation hypotheses",
    "invariance of max|eig| of the strain rate under rotation is a property of the external eigvalsh (checked numerically)",
]
ASSUMPTIONS = ["instantaneous rates compared at 1e-9 relative (rounding)"]
JIT_TWIN = ('update',)   # groups of harness/jittwin.py: the numba-compiled code is run on the same battery and compared
TRUSTED = ["harness/drex.py and harness/solver.py generators"]

TWOFOLDS = [np.diag([1.0, -1.0, -1.0]), np.diag([-1.0, 1.0, -1.0]), np.diag([-1.0, -1.0, 1.0])]


def _rand_Q(rng):
    from scipy.spatial.transform import Rotation

    return Rotation.random(random_state=int(rng.integers(0, 2**31))).as_matrix()


def run(ctx, res):
    rng = np.random.default_rng(ctx["seed"] + 404)
    N = 160 if not ctx["thorough"] else 3000
    res.rule = ("(a) instantaneous: core.derivatives at (L, A) and (Q L Q^T, A Q^T) for random proper Q, and at (L, S A) for the three "
                "two-folds on random grain subsets, all fabrics, regimes 4/6, interpreted path (compiled path in thorough); "
                "(b) integrated: paired real runs in the original and the rotated frame / with relabelled initial grains, 1..4 update "
                "calls; non-trivial = Q != I and at least one grain relabelled; distinct by seed")
    cases, pairs = [], []
    for k in range(N):
        c = drex.make_case(rng, k, nmax=8 if not ctx["thorough"] else 24)
        if c["kinds"][0] == "nonorth":
            c["A"] = np.ascontiguousarray(drex.rotations(rng, c["n"], "random"))
        Q = _rand_Q(rng)
        cq = dict(c, A=np.ascontiguousarray(c["A"] @ Q.T), L=Q @ c["L"] @ Q.T, D=Q @ c["D"] @ Q.T, spin=rng.normal(size=(3, 3)))
        sub = rng.random(c["n"]) < 0.5
        if not sub.any():
            sub[0] = True
        which = rng.integers(0, 3, size=c["n"])
        As = c["A"].copy()
        for g in range(c["n"]):
            if sub[g]:
                As[g] = TWOFOLDS[which[g]] @ As[g]
        cs = dict(c, A=np.ascontiguousarray(As))
        cases += [c, cq, cs]
        pairs.append((c, cq, cs, Q, sub, which))
    outs = [drex.call_derivatives(c) for c in cases]
    outs_j = drex.run_jit(cases) if ctx["thorough"] else None
    model = C.run_driver([drex.case_line(c) for c in cases])
    for k, (c, cq, cs, Q, sub, which) in enumerate(pairs):
        for tag, oo in (("interpreted", outs),) + ((("jit", outs_j),) if outs_j else ()):
            o, oq, os_ = oo[3 * k], oo[3 * k + 1], oo[3 * k + 2]
            res.evaluations += 1
            res.nontrivial(("c04", k, tag))
            res.count(f"phase{c['phase']}fabric{c['fabric']}")
            rep = {"phase": c["phase"], "fabric": c["fabric"], "regime": c["regime"], "A": c["A"].tolist(), "f": c["f"].tolist(),
                   "L": c["L"].tolist(), "Q": Q.tolist(), "params": [c["p"], c["nexp"], c["lam"], c["M"], c["phi"]], "path": tag}
            if o[0] != "ok" or oq[0] != "ok" or os_[0] != "ok":
                res.violation("rates:raised", f"derivatives raised: {o[:2]} {oq[:2]} {os_[:2]}", rep)
                continue
            cond = drex.conditioning(c)
            if cond["near_tie"] or cond["near_guard"] or drex.conditioning(cq)["near_tie"] or drex.conditioning(cq)["near_guard"]:
                res.count("excluded(near tie/guard: the rotated frame may resolve a rounding-level tie differently)")
                continue
            sc = max(1.0, float(np.abs(o[1]).max()))
            scf = max(1e-12, float(np.abs(o[2]).max()))
            if np.abs(oq[1] - o[1] @ Q.T).max() > 1e-9 * sc or np.abs(oq[2] - o[2]).max() > 1e-9 * scf + 1e-13:
                res.violation("rates:not_frame_indifferent", f"max dev A-rates {np.abs(oq[1] - o[1] @ Q.T).max():.3e}, f-rates {np.abs(oq[2] - o[2]).max():.3e}", rep)
            want = o[1].copy()
            for g in range(c["n"]):
                if sub[g]:
                    want[g] = TWOFOLDS[which[g]] @ want[g]
            if np.abs(os_[1] - want).max() > 1e-9 * sc or np.abs(os_[2] - o[2]).max() > 1e-9 * scf + 1e-13:
                res.violation("rates:not_symmetry_invariant", f"two-fold relabelling: dev A-rates {np.abs(os_[1] - want).max():.3e}, "
                              f"f-rates {np.abs(os_[2] - o[2]).max():.3e}", dict(rep, subset=sub.tolist(), twofold=which.tolist()))
        # model vs implementation on all three members
        for j in range(3):
            cc, oo_, ml = cases[3 * k + j], outs[3 * k + j], model[3 * k + j]
            cond = drex.conditioning(cc)
            if cond["near_tie"] or cond["near_guard"] or oo_[0] != "ok":
                continue
            toks = ml.split()
            want = np.concatenate([oo_[1].ravel(), oo_[2]])
            got = C.hs2f(toks[1:]) if toks[0] == "ok" else []
            if toks[0] == "ok" and C.close(got, want, scale=max(1.0, float(np.abs(want).max()))):
                res.traces += 1
            else:
                res.mismatch("K9 core.derivatives", {"member": ["orig", "rotated", "relabelled"][j], "case": k}, want.tolist()[:20], got[:20])
        if k < 2:
            res.sample({"phase": c["phase"], "fabric": c["fabric"], "regime": c["regime"], "n": c["n"], "Q": Q.tolist(),
                        "relabelled_grains": int(sub.sum())})

    robust.run(res, np.random.default_rng(ctx["seed"] + 80), ctx, "C04", n_sc=(1 if not ctx["thorough"] else 6))
    # ---------------- (b) integrated textures
    n_sc = 8 if not ctx["thorough"] else 50
    worst = 0.0
    for k in range(n_sc):
        sc = solver.make_scenario(rng, k, nmax=10 if not ctx["thorough"] else 32, regimes=(4, 6))
        Q = _rand_Q(rng)
        m0 = solver.build_mineral(sc)
        A0, f0 = m0.orientations[0].copy(), m0.fractions[0].copy()
        M = impl._minerals
        mk = lambda A: M.Mineral(phase=m0.phase, fabric=m0.fabric, regime=m0.regime, n_grains=sc["n"],  # noqa: E731
                                 fractions_init=f0.copy(), orientations_init=np.ascontiguousarray(A))
        if k % 2 == 0:
            m1, F1, _ = solver.run_scenario(sc, mineral=mk(A0), record=False)
            scq = dict(sc, field=sc["field"].rotated(Q), F0=Q @ sc["F0"] @ Q.T)
            m2, F2, _ = solver.run_scenario(scq, mineral=mk(A0 @ Q.T), record=False)
        else:
            # the same problem posed the way a user with ONE flow object would pose it: the callable is re-used and its frame is changed
            # in place between the runs; it returns Fortran-ordered arrays; the rotated orientations are handed over as a transposed view
            class FrameField:
                def __init__(self, base):
                    self.base, self.Q = base, np.eye(3)

                def set_frame(self, Q_):
                    self.Q = np.array(Q_)

                def pos(self, t):
                    return self.Q @ self.base.pos(t)

                def __call__(self, t, x):
                    return np.asfortranarray(self.Q @ self.base(t, self.Q.T @ np.asarray(x, float)) @ self.Q.T)

            ff = FrameField(sc["field"])
            m1, F1, _ = solver.run_scenario(dict(sc, field=ff), mineral=mk(A0), record=False)
            ff.set_frame(Q)
            A0q = np.ascontiguousarray(np.einsum("ij,gkj->gik", Q, A0)).transpose(0, 2, 1)   # values of A0 @ Q.T, stored transposed
            assert np.allclose(A0q, A0 @ Q.T, atol=1e-15)
            m2, F2, _ = solver.run_scenario(dict(sc, field=ff, F0=np.asfortranarray(Q @ sc["F0"] @ Q.T)),
                                            mineral=M.Mineral(phase=m0.phase, fabric=m0.fabric, regime=m0.regime, n_grains=sc["n"],
                                                              fractions_init=f0.copy(), orientations_init=A0q), record=False)
            res.count("integrated_pairs:one_reused_callable,fortran_L,transposed_view_A")
        sub = rng.random(sc["n"]) < 0.5
        sub[0] = True
        which = rng.integers(0, 3, size=sc["n"])
        As = A0.copy()
        for g in range(sc["n"]):
            if sub[g]:
                As[g] = TWOFOLDS[which[g]] @ As[g]
        m3, F3, _ = solver.run_scenario(sc, mineral=mk(As), record=False)
        res.evaluations += 3
        res.nontrivial(("c04int", k))
        res.count("integrated_pairs")
        strain = solver.accumulated_strain(sc)
        tol = 5e-3 + 1e-3 * (sc["n_updates"] + 2 * strain)
        rep = dict(solver.scenario_json(sc), Q=Q.tolist())
        dA = max(float(np.abs(b - a @ Q.T).max()) for a, b in zip(m1.orientations, m2.orientations))
        df = max(float(np.abs(b - a).max()) for a, b in zip(m1.fractions, m2.fractions))
        dF = float(np.abs(F2[-1] - Q @ F1[-1] @ Q.T).max() / max(1.0, np.abs(F1[-1]).max()))
        worst = max(worst, dA, df, dF)
        if dA > 2 * tol or df > 2 * tol or dF > 2 * tol:
            res.violation("integrated:not_frame_indifferent", f"max|dA|={dA:.3e} max|df|={df:.3e} dF={dF:.3e} > {2 * tol:.3e}", rep)
        dAs = 0.0
        for a, b in zip(m1.orientations, m3.orientations):
            w = a.copy()
            for g in range(sc["n"]):
                if sub[g]:
                    w[g] = TWOFOLDS[which[g]] @ w[g]
            dAs = max(dAs, float(np.abs(b - w).max()))
        dfs = max(float(np.abs(b - a).max()) for a, b in zip(m1.fractions, m3.fractions))
        worst = max(worst, dAs, dfs)
        if dAs > 2 * tol or dfs > 2 * tol:
            res.violation("integrated:not_symmetry_invariant", f"max|dA|={dAs:.3e} max|df|={dfs:.3e} > {2 * tol:.3e}",
                          dict(rep, subset=sub.tolist(), twofold=which.tolist()))
        if k < 2:
            res.sample({"integrated": True, "n": sc["n"], "updates": sc["n_updates"], "frame: max|dA|": dA, "max|df|": df, "dF": dF,
                        "relabel: max|dA|": dAs, "max|df| ": dfs})
    res.notes.append(f"largest integrated pair difference in this run: {worst:.3e}")
    _degenerate_flows(ctx, res, rng)


def _degenerate_flows(ctx, res, rng):
    """frame pairs for velocity gradients on which a frame-dependent shortcut would act: rigid rotation about a coordinate axis
    (exactly antisymmetric in the first frame, antisymmetric up to rounding in the other), vorticity-dominated flows with a strain
    rate 1e-12 ... 1e-6 of the vorticity, and planar flows (third row and column zero) with non-zero trace"""
    M = impl._minerals
    # the strain-rate / vorticity ratio of the vorticity-dominated family sweeps 1e-12 ... 1e-6 on a grid (random offset) fine
    # enough that a frame-dependent cut-off anywhere in that range puts the two frames of at least one pair on different sides
    step = 0.2 if not ctx["thorough"] else 0.05
    sweep = [-12 + float(rng.uniform(0, step)) + step * j for j in range(int(6 / step))]
    plan = ["pure_spin", "planar_with_trace"] * (2 if not ctx["thorough"] else 10) + [("vorticity_dominated", e_) for e_ in sweep]
    for k, item in enumerate(plan):
        fam, expo = (item, None) if isinstance(item, str) else item
        sc = solver.make_scenario(rng, k, nmax=8 if expo is None else 4, regimes=(4, 6), fields=["const"])
        if expo is not None:
            sc["n_updates"] = 1
        ax = int(rng.integers(0, 3))
        i, j = [(1, 2), (2, 0), (0, 1)][ax]
        W = np.zeros((3, 3))
        W[i, j], W[j, i] = -1.0, 1.0
        W *= float(rng.uniform(0.5, 2.0))
        if fam == "pure_spin":
            L = W
        elif fam == "vorticity_dominated":
            S = rng.normal(size=(3, 3))
            S = (S + S.T) / 2
            S -= np.trace(S) / 3 * np.eye(3)
            L = W + float(10 ** expo) * np.abs(W).max() * S / np.abs(np.linalg.eigvalsh(S)).max()
            sc["span"] = float(rng.uniform(0.5, 1.5))
        else:
            L = np.zeros((3, 3))
            L[:2, :2] = rng.normal(size=(2, 2))
            L[0, 0] += 0.5 * np.sign(L[0, 0] + L[1, 1] or 1.0)      # clearly non-zero trace
            sc["Mob"] = float(rng.choice([50.0, 125.0, 200.0]))
        sc["field"] = solver.LField(L)
        sc["field_kind"] = "degenerate:" + fam
        sc["F0"] = np.eye(3) + 0.2 * rng.normal(size=(3, 3)) if k % 2 else np.eye(3)
        if np.linalg.det(sc["F0"]) <= 0.1:
            sc["F0"] = np.eye(3)
        Q = _rand_Q(rng)
        m0 = solver.build_mineral(sc)
        A0, f0 = m0.orientations[0].copy(), m0.fractions[0].copy()
        mk = lambda A: M.Mineral(phase=m0.phase, fabric=m0.fabric, regime=m0.regime, n_grains=sc["n"],  # noqa: E731
                                 fractions_init=f0.copy(), orientations_init=np.ascontiguousarray(A))
        m1, F1, _ = solver.run_scenario(sc, mineral=mk(A0), record=False)
        scq = dict(sc, field=sc["field"].rotated(Q), F0=Q @ sc["F0"] @ Q.T)
        m2, F2, _ = solver.run_scenario(scq, mineral=mk(A0 @ Q.T), record=False)
        res.evaluations += 2
        res.nontrivial(("c04deg", fam, k))
        res.count("integrated_pairs:" + fam)
        strain = max(solver.accumulated_strain(sc), solver.accumulated_strain(scq))
        tol = 2 * (5e-3 + 1e-3 * (sc["n_updates"] + 2 * strain))
        rep = dict(solver.scenario_json(sc), Q=Q.tolist(), family=fam)
        dA = max(float(np.abs(b - a @ Q.T).max()) for a, b in zip(m1.orientations, m2.orientations))
        df = max(float(np.abs(b - a).max()) for a, b in zip(m1.fractions, m2.fractions))
        dF = float(np.abs(F2[-1] - Q @ F1[-1] @ Q.T).max() / max(1.0, np.abs(F1[-1]).max()))
        if dF > tol:
            res.violation(f"integrated:{fam}:F_not_frame_indifferent", f"deformation gradients differ between the frames by {dF:.3e} > {tol:.3e}", rep)
        if fam == "pure_spin":
            # the integrated form of rigid_rotation_rhs (Properties/C04Rhs.lean): dA/dt = damp * A L^T, so A(t) = A0 exp(damp L^T t)
            from scipy.linalg import expm
            damp = 1.0 if sc["regime"] == 4 else 0.3
            want = A0 @ expm(damp * L.T * sc["span"])
            # grains under the sliding threshold chi/n are frozen by design (C09); volumes do not change under a rigid rotation
            free = f0 >= sc["chi"] / sc["n"]
            dev = float(np.abs(m1.orientations[-1][free] - want[free]).max()) if free.any() else 0.0
            res.count("integrated_pairs:pure_spin:closed_form_compared")
            if dev > tol:
                res.violation("integrated:pure_spin:not_corotating", f"rigid rotation: the texture differs from A0 exp({damp} L^T t) by {dev:.3e} > {tol:.3e}", rep)
            moved1 = float(np.abs(m1.orientations[-1] - A0).max())
            moved2 = float(np.abs(m2.orientations[-1] - A0 @ Q.T).max())
            if dA > tol and moved1 == 0.0 and moved2 > tol:
                # the texture is frozen in the frame where L is exactly antisymmetric and co-rotates in the other one
                res.violation("integrated:pure_spin:texture_frozen_in_exact_frame", f"rigid rotation: the texture does not move in the frame where "
                              f"the velocity gradient is exactly antisymmetric but rotates by {moved2:.3f} in a rotated frame", rep)
            elif dA > tol or df > tol:
                res.violation("integrated:pure_spin:not_frame_indifferent", f"max|dA|={dA:.3e} max|df|={df:.3e} > {tol:.3e}", rep)
        elif dA > tol or df > tol:
            res.violation(f"integrated:{fam}:not_frame_indifferent", f"max|dA|={dA:.3e} max|df|={df:.3e} > {tol:.3e}", rep)


def replay(data):
    return drex.replay_violations(data)
