"""C11 — elastic tensor representations (pydrex.tensors, kernels K14–K19).

Correspondence: every public function of `pydrex.tensors` against the Float instantiation of
`lean/tmpl/Tensors.lean.tmpl` (driver ops `t_*`) on exhaustive index tuples, one-hot inputs,
structured and random inputs.  The statement of C11 is evaluated directly on the real outputs.
Thorough tier: a subset is re-run with the numba JIT enabled in a subprocess (compiled = interpreted).
"""
from __future__ import annotations

import itertools
import json
import os
import subprocess
import sys

import numpy as np

from .. import common as C
from .. import impl

PARTIAL = [
    "np.linalg.svd / np.linalg.det are LAPACK calls: the SVD enters the model as a triple with a stated specification "
    "(M = U diag(S) Vh, U and Vh orthogonal, S >= 0) that is checked numerically on every call the harness sees; "
    "det is compared with the cofactor expansion within tolerance",
    "floating-point rounding and numba fastmath reassociation (theorems over the reals; correspondence within 1e-9 relative)",
]
ASSUMPTIONS = [
    "np.linalg.svd returns (U, S, Vh) with M = U diag(S) Vh, U^T U = U U^T = 1, Vh Vh^T = Vh^T Vh = 1, S >= 0 "
    "(residuals measured on every harness call; a failure is reported as a correspondence problem, not a violation)",
    "np.sqrt(2) is used only through sqrt2*sqrt2 = 2 and sqrt2 > 0",
]
JIT_TWIN = ('tensors',)   # groups of harness/jittwin.py: the numba-compiled code is run on the same battery and compared
TRUSTED = ["numpy einsum as the independent reference for the tensor transformation law and contractions"]
EXTRA_LEAN_MODULES = ["Proofs.TensorsGroup",  # projectors = point-group averages; hex image is transversely isotropic
                      "Bridge.Tensors", "Bridge.TensorsRotate"]  # S2: definitions traced from tensors.py on this run = the model
PRE_LEAN = C.s2_trace_tensors

TOL = 1e-9


def T():
    from pydrex import tensors

    return tensors


# ------------------------------------------------------------------ generators
def random_rotation(rng):
    return impl.random_rotations(rng, 1)[0]


def sym6(rng, kind="random"):
    if kind == "olivine":
        from pydrex.minerals import StiffnessTensors

        return StiffnessTensors().olivine.copy()
    if kind == "enstatite":
        from pydrex.minerals import StiffnessTensors

        return StiffnessTensors().enstatite.copy()
    if kind == "primes":
        pr = [2, 3, 5, 7, 11, 13, 17, 19, 23, 29, 31, 37, 41, 43, 47, 53, 59, 61, 67, 71, 73]
        M = np.zeros((6, 6))
        M[np.triu_indices(6)] = pr
        return M + np.triu(M, 1).T
    if kind == "spd":
        A = rng.normal(size=(6, 6))
        return A @ A.T + 6 * np.eye(6)
    if kind == "sparse":
        M = rng.normal(size=(6, 6)) * (rng.random((6, 6)) < 0.4)
        return np.triu(M) + np.triu(M, 1).T
    M = rng.normal(size=(6, 6)) * 100
    return np.triu(M) + np.triu(M, 1).T


SYM_KINDS = ["random", "olivine", "enstatite", "primes", "spd", "sparse"]


def mats3(rng, kind):
    if kind == "random":
        return rng.normal(size=(3, 3))
    if kind == "rotation":
        return random_rotation(rng)
    if kind == "reflection":
        R = random_rotation(rng)
        R[:, 0] *= -1
        return R
    if kind == "negdet":
        A = rng.normal(size=(3, 3))
        if np.linalg.det(A) > 0:
            A[0] *= -1
        return A
    if kind == "rank2":
        A = rng.normal(size=(3, 2))
        return A @ rng.normal(size=(2, 3))
    if kind == "rank1":
        return np.outer(rng.normal(size=3), rng.normal(size=3))
    if kind == "zero":
        return np.zeros((3, 3))
    if kind == "diag_singular":
        return np.diag([rng.normal(), rng.normal(), 0.0])
    if kind == "diag":
        return np.diag(rng.normal(size=3))
    if kind == "symmetric":
        A = rng.normal(size=(3, 3))
        return A + A.T
    if kind == "triangular":
        return np.triu(rng.normal(size=(3, 3)))
    if kind == "defgrad":
        return np.eye(3) + 0.5 * rng.normal(size=(3, 3))
    if kind == "integer":
        return rng.integers(-3, 4, size=(3, 3)).astype(float)
    raise ValueError(kind)


M3_KINDS = ["random", "rotation", "reflection", "negdet", "rank2", "rank1", "zero", "diag_singular", "diag",
            "symmetric", "triangular", "defgrad", "integer"]


def is_elastic(Tn, tol=0.0):
    a = np.abs(Tn - Tn.transpose(1, 0, 2, 3)).max()
    b = np.abs(Tn - Tn.transpose(0, 1, 3, 2)).max()
    c = np.abs(Tn - Tn.transpose(2, 3, 0, 1)).max()
    return max(a, b, c) <= tol


def rel(a, b):
    a = np.asarray(a, dtype=float)
    b = np.asarray(b, dtype=float)
    s = max(1.0, float(np.abs(a).max(initial=0.0)), float(np.abs(b).max(initial=0.0)))
    return float(np.abs(a - b).max(initial=0.0)) / s


class Batch:
    """collect driver requests with the expected (implementation) output"""

    def __init__(self, res):
        self.res = res
        self.lines = []
        self.meta = []

    def add(self, kernel, line, want, inp, scale=1.0):
        self.lines.append(line)
        self.meta.append((kernel, np.asarray(want, dtype=float).ravel(), inp, scale))

    def flush(self):
        outs = C.run_driver(self.lines) if self.lines else []
        for (kernel, want, inp, scale), line in zip(self.meta, outs):
            got = C.hs2f(line.split())
            if C.close(got, list(want), scale=scale):
                self.res.traces += 1
            else:
                self.res.mismatch(kernel, inp, list(want)[:40], got[:40], note=f"maxdiff={C.maxdiff(got, want)}")
        self.lines, self.meta = [], []


def h(a):
    return C.fs2h(np.asarray(a, dtype=float).ravel())


# ------------------------------------------------------------------ predicates on the implementation
def check_matrix_tensor(res, M, tag):
    """C11 clauses for a symmetric 6x6 matrix, on the real functions."""
    t = T()
    rep = {"kind": "sym6", "M": M.tolist(), "case": tag}
    Tn = t.voigt_to_elastic_tensor(M)
    res.evaluations += 1
    if not is_elastic(Tn):
        res.violation("v2t:symmetries", "tensor of a symmetric matrix lacks a minor/major symmetry", rep)
    d, v = t.voigt_decompose(M)
    if rel(d, np.einsum("ijkk", Tn)) > 1e-13 or rel(v, np.einsum("ikjk", Tn)) > 1e-13:
        res.violation("decompose:contractions", "voigt_decompose differs from C_ijkk / C_ikjk of the 4th-order tensor", rep)
    if not np.array_equal(t.elastic_tensor_to_voigt(Tn), M):
        if rel(t.elastic_tensor_to_voigt(Tn), M) > 1e-14:
            res.violation("roundtrip:voigt", "elastic_tensor_to_voigt(voigt_to_elastic_tensor(M)) != M", rep)
    vec = t.voigt_matrix_to_vector(M)
    if rel(t.voigt_vector_to_matrix(vec), M) > 1e-14:
        res.violation("roundtrip:vector_mat", "voigt_vector_to_matrix(voigt_matrix_to_vector(M)) != M", rep)
    n4 = float(np.sqrt((Tn ** 2).sum()))
    if abs(np.linalg.norm(vec) - n4) > 1e-12 * max(1.0, n4):
        res.violation("isometry", f"|vector| = {np.linalg.norm(vec)!r} but |tensor| = {n4!r}", rep)
    return Tn, vec


def check_tensor_roundtrip(res, Tn, tag):
    t = T()
    res.evaluations += 1
    back = t.voigt_to_elastic_tensor(t.elastic_tensor_to_voigt(Tn))
    if rel(back, Tn) > 1e-13:
        res.violation("roundtrip:tensor", "voigt_to_elastic_tensor(elastic_tensor_to_voigt(T)) != T for an elastic T",
                      {"kind": "ten4", "T": Tn.tolist(), "case": tag})


def check_vector_roundtrip(res, v, tag):
    t = T()
    res.evaluations += 1
    M = t.voigt_vector_to_matrix(v)
    if not np.array_equal(M, M.T):
        res.violation("v2m:symmetric", "voigt_vector_to_matrix result not symmetric", {"kind": "vec21", "v": v.tolist(), "case": tag})
    if rel(t.voigt_matrix_to_vector(M), v) > 1e-14:
        res.violation("roundtrip:vector_vec", "voigt_matrix_to_vector(voigt_vector_to_matrix(v)) != v",
                      {"kind": "vec21", "v": v.tolist(), "case": tag})


def check_rotate(res, Tn, R1, R2, tag, orthogonal):
    t = T()
    res.evaluations += 1
    rep = {"kind": "rotate", "T": Tn.tolist(), "R1": R1.tolist(), "R2": R2.tolist(), "case": tag}
    r1 = t.rotate(Tn, R1)
    ref = np.einsum("ia,jb,kc,ld,abcd->ijkl", R1, R1, R1, R1, Tn)
    if rel(r1, ref) > 1e-12:
        res.violation("rotate:law", "rotate differs from R_ia R_jb R_kc R_ld T_abcd", rep)
    r12 = t.rotate(r1, R2)
    r21 = t.rotate(Tn, R2 @ R1)
    if rel(r12, r21) > 1e-11:
        res.violation("rotate:composition", "rotate(rotate(T,R1),R2) != rotate(T, R2 R1)", rep)
    if rel(t.rotate(Tn, np.eye(3)), Tn) > 0:
        res.violation("rotate:identity", "rotate(T, 1) != T", rep)
    if orthogonal:
        n0, n1 = np.sqrt((Tn ** 2).sum()), np.sqrt((r1 ** 2).sum())
        if abs(n0 - n1) > 1e-11 * max(1.0, n0):
            res.violation("rotate:norm", f"norm {n0!r} -> {n1!r} under an orthogonal matrix", rep)
        if rel(t.rotate(r1, R1.T), Tn) > 1e-11:
            res.violation("rotate:inverse", "rotate(rotate(T,R),R^T) != T", rep)
        if is_elastic(Tn) and not is_elastic(r1, 1e-10 * max(1.0, np.abs(Tn).max())):
            res.violation("rotate:symmetries", "rotation destroyed an elastic symmetry", rep)
    return r1


PROJ = ["mono_project", "ortho_project", "tetr_project", "hex_project"]


def check_projectors(res, x, y, tag):
    t = T()
    res.evaluations += 1
    rep = {"kind": "proj", "x": x.tolist(), "y": y.tolist(), "case": tag}
    s = max(1.0, np.abs(x).max())
    P = {n: getattr(t, n) for n in PROJ}
    for n, f in P.items():
        px = f(x)
        if np.abs(f(px) - px).max() > 1e-13 * s:
            res.violation(f"proj:idempotent:{n}", f"{n} is not idempotent", rep)
        if abs(np.dot(px, y) - np.dot(x, f(y))) > 1e-12 * max(1.0, np.linalg.norm(x) * np.linalg.norm(y)):
            res.violation(f"proj:selfadjoint:{n}", f"<{n} x, y> != <x, {n} y>", rep)
        if abs(np.dot(px, x - px)) > 1e-12 * max(1.0, np.dot(x, x)):
            res.violation(f"proj:orthogonal:{n}", f"residual of {n} not orthogonal to its image", rep)
    chain = PROJ
    for big, small in zip(chain[:-1], chain[1:]):
        a = P[small](P[big](x))
        b = P[big](P[small](x))
        c = P[small](x)
        if np.abs(a - c).max() > 1e-13 * s or np.abs(b - c).max() > 1e-13 * s:
            res.violation(f"proj:nested:{small}<{big}", f"{small} and {big} are not nested projectors", rep)


def _rz(theta):
    c, s_ = np.cos(theta), np.sin(theta)
    return np.array([[c, -s_, 0.0], [s_, c, 0.0], [0.0, 0.0, 1.0]])


RX180 = np.diag([1.0, -1.0, -1.0])
GROUPS = {
    "mono_project": [np.eye(3), np.diag([-1.0, -1.0, 1.0])],
    "ortho_project": [np.eye(3), np.diag([-1.0, -1.0, 1.0]), RX180, np.diag([-1.0, 1.0, -1.0])],
    "tetr_project": [g @ x for g in (_rz(k * np.pi / 2) for k in range(4)) for x in (np.eye(3), RX180)],
    "hex_project": [g @ x for g in (_rz(k * np.pi / 6) for k in range(12)) for x in (np.eye(3), RX180)],
}


def check_projector_group_average(res, v, tag):
    """Independent specification: each projector is the average over the point group of its symmetry class
    (two-fold axis z; three two-fold axes; four-fold z + two-fold x; transverse isotropy about z),
    evaluated with numpy einsum, not with tensors.rotate."""
    t = T()
    res.evaluations += 1
    Tn = t.voigt_to_elastic_tensor(t.voigt_vector_to_matrix(v))
    s = max(1.0, np.abs(v).max())
    for n, G in GROUPS.items():
        avg = np.zeros(21)
        for g in G:
            Tg = np.einsum("ia,jb,kc,ld,abcd->ijkl", g, g, g, g, Tn)
            avg += t.voigt_matrix_to_vector(t.elastic_tensor_to_voigt(Tg))
        avg /= len(G)
        if np.abs(avg - getattr(t, n)(v)).max() > 1e-11 * s:
            res.violation(f"proj:group_average:{n}", f"{n} is not the average over the symmetry group of its class",
                          {"kind": "proj", "x": v.tolist(), "y": v.tolist(), "case": tag})


def svd_spec_residual(M, U, S, Vh):
    return max(np.abs(U @ np.diag(S) @ Vh - M).max(), np.abs(U.T @ U - np.eye(3)).max(), np.abs(U @ U.T - np.eye(3)).max(),
               np.abs(Vh @ Vh.T - np.eye(3)).max(), np.abs(Vh.T @ Vh - np.eye(3)).max(), max(0.0, -S.min()))


def check_polar(res, M, left, tag):
    t = T()
    res.evaluations += 1
    rep = {"kind": "polar", "M": M.tolist(), "left": bool(left), "case": tag}
    side = "left" if left else "right"
    try:
        R, P = t.polar_decompose(M.copy(), left)
    except Exception as e:  # the statement promises a decomposition for every real 3x3 matrix
        res.violation(f"polar:{side}:raises", f"polar_decompose raised {type(e).__name__}: {e}", rep)
        return None
    s = float(np.abs(M).max()) or 1.0     # the decomposition is scale equivariant: tolerances relative to |M| (SI-unit gradients ~1e-16 included)
    if not np.isfinite(R).all() or np.abs(R.T @ R - np.eye(3)).max() > 1e-10:
        res.violation(f"polar:{side}:orthogonal", "rotation factor is not orthogonal", rep)
    if np.abs(P - P.T).max() > 1e-12 * s:
        res.violation(f"polar:{side}:symmetric", "stretch is not symmetric", rep)
    elif np.linalg.eigvalsh((P + P.T) / 2).min() < -1e-10 * s:
        res.violation(f"polar:{side}:psd", "stretch is not positive semi-definite", rep)
    prod = P @ R if left else R @ P
    if np.abs(prod - M).max() > 1e-10 * s:
        res.violation(f"polar:{side}:product", "product in the documented order does not reproduce the input", rep)
    return R, P


def check_invariants(res, M, tag):
    t = T()
    res.evaluations += 1
    I1, I2, I3 = t.invariants_second_order(M)
    lam = np.linalg.eigvals(M)
    e1 = lam.sum()
    e2 = lam[0] * lam[1] + lam[1] * lam[2] + lam[2] * lam[0]
    e3 = lam.prod()
    s = float(np.abs(M).max()) or 1.0
    # scale of the determinant: the product of the row sums of |M| bounds every term of its expansion (Hadamard-type bound); a
    # backward-stable determinant is accurate relative to it, also when the eigenvalues span many decades
    s3 = max(float(np.prod(np.abs(M).sum(axis=1))), 1e-30 * s ** 3)
    # eigenvalues of defective / nearly defective matrices are only accurate to ~sqrt(eps): compare through the
    # characteristic polynomial instead when the eigenvalue route disagrees
    bad = max(abs(I1 - e1) / s, abs(I2 - e2) / s ** 2, abs(I3 - e3) / s3)
    if bad > 1e-9:
        cp = np.poly(M)  # x^3 - I1 x^2 + I2 x - I3
        bad = max(abs(I1 + cp[1]) / s, abs(I2 - cp[2]) / s ** 2, abs(I3 + cp[3]) / s3)
    if bad > 1e-9:
        d3 = (M[0, 0] * (M[1, 1] * M[2, 2] - M[1, 2] * M[2, 1]) - M[0, 1] * (M[1, 0] * M[2, 2] - M[1, 2] * M[2, 0])
              + M[0, 2] * (M[1, 0] * M[2, 1] - M[1, 1] * M[2, 0]))
        bad = max(abs(I1 - np.trace(M)) / s, abs(I3 - d3) / s3)
    if bad > 1e-9:
        res.violation("invariants:esymm", "invariants differ from the elementary symmetric functions of the eigenvalues",
                      {"kind": "invariants", "M": M.tolist(), "case": tag})
    return I1, I2, I3


# ------------------------------------------------------------------ JIT worker (thorough tier)
def _jit_cases(seed):
    rng = np.random.default_rng(seed + 1177)
    cases = []
    for k in range(6):
        M = sym6(rng, SYM_KINDS[k % len(SYM_KINDS)])
        R = random_rotation(rng)
        v = rng.normal(size=21) * 50
        A = mats3(rng, M3_KINDS[k % len(M3_KINDS)])
        cases.append((M, R, v, A))
    return cases


def _jit_eval(cases):
    t = T()
    out = []
    for M, R, v, A in cases:
        Tn = t.voigt_to_elastic_tensor(M)
        d, dv = t.voigt_decompose(M)
        o = [Tn, t.elastic_tensor_to_voigt(t.rotate(Tn, R)), t.voigt_matrix_to_vector(M), t.voigt_vector_to_matrix(v), d, dv,
             t.mono_project(v), t.ortho_project(v), t.tetr_project(v), t.hex_project(v), t.upper_tri_to_symmetric(np.triu(M) + 3.0 * np.tril(M, -1)),
             np.array(t.invariants_second_order(A))]
        for left in (True, False):
            Rm, P = t.polar_decompose(A.copy(), left)
            # the SVD sign convention may differ between builds only through LAPACK, which is the same library here
            o += [P, Rm @ P if not left else P @ Rm]
        out.append([np.asarray(x, dtype=float).ravel().tolist() for x in o])
    return out


def _jit_worker():
    seed = int(sys.argv[2])
    import numba

    assert not numba.config.DISABLE_JIT
    print(json.dumps(_jit_eval(_jit_cases(seed))))


def jit_compare(ctx, res):
    env = dict(os.environ)
    env.pop("NUMBA_DISABLE_JIT", None)
    env["PYDREX_VERIF_JIT"] = "1"
    env["NUMBA_CACHE_DIR"] = "/tmp/tensors_numba_cache"
    p = subprocess.run([sys.executable, "-m", "harness.props.c11", "--jit-worker", str(ctx["seed"])], cwd=str(C.VERIF), env=env,
                       capture_output=True, text=True, timeout=900)
    if p.returncode != 0:
        res.notes.append("JIT worker failed to run: " + p.stderr[-300:])
        res.count("jit:worker_failed")
        return
    compiled = json.loads(p.stdout.strip().splitlines()[-1])
    interp = _jit_eval(_jit_cases(ctx["seed"]))
    for ci, (a, b) in enumerate(zip(compiled, interp)):
        for oi, (x, y) in enumerate(zip(a, b)):
            sc = max(1.0, max((abs(z) for z in y), default=0.0))
            res.count("jit:outputs")
            if C.close(x, y, scale=sc, rtol=1e-9):
                res.traces += 1
            else:
                res.mismatch("numba-compiled vs interpreted tensors.py", {"case": ci, "output": oi}, y[:20], x[:20],
                             note=f"maxdiff={C.maxdiff(x, y)}")


# ------------------------------------------------------------------ run
def run(ctx, res):
    t = T()
    rng = np.random.default_rng(ctx["seed"] + 1111)
    thorough = ctx["thorough"]
    N = 150 if not thorough else 1500
    res.rule = ("all 9 index pairs / 81 tuples / 36 one-hot matrices / 81 one-hot tensors / 21 one-hot vectors exhaustively; "
                "symmetric 6x6 from {random, olivine, enstatite, 21 distinct primes, SPD, sparse}, non-symmetric 6x6, random and elastic "
                "4th-order tensors, random 21-vectors, rotations/reflections/non-orthogonal 3x3, 3x3 from "
                f"{M3_KINDS} for polar/invariants; a case is non-trivial when its input is not all-zero; distinct by input bytes")
    B = Batch(res)

    # ---- index maps, exhaustively (the code's arithmetic is observed through a labelled matrix)
    L = np.arange(36, dtype=float).reshape(6, 6)
    TL = t.voigt_to_elastic_tensor(L)
    want_idx = {}
    for p, q, r, s in itertools.product(range(3), repeat=4):
        i, j = divmod(int(TL[p, q, r, s]), 6)
        want_idx.setdefault((p, q), set()).add(i)
        want_idx.setdefault((r, s), set()).add(j)
        res.count("index:tuples81")
    lines = [f"t_vidx {p} {q}" for p in range(3) for q in range(3)]
    outs = C.run_driver(lines)
    for (p, q), o in zip(itertools.product(range(3), repeat=2), outs):
        a, b = (int(x) for x in o.split())
        res.evaluations += 1
        if want_idx[(p, q)] == {a} and a == b:
            res.traces += 1
        else:
            res.mismatch("K14 index map", {"p": p, "q": q}, sorted(want_idx[(p, q)]), [a, b])
        exp = p if p == q else 6 - p - q
        if want_idx[(p, q)] != {exp}:
            res.violation("index:table", f"index pair ({p},{q}) maps to {want_idx[(p, q)]}, Voigt table says {exp}", {"kind": "index", "p": p, "q": q})
    # one-hot tensors: accumulation, divisor and symmetrisation of elastic_tensor_to_voigt (81 tuples x 36 entries)
    for p, q, r, s in itertools.product(range(3), repeat=4):
        E = np.zeros((3, 3, 3, 3))
        E[p, q, r, s] = 1.0
        Mv = t.elastic_tensor_to_voigt(E)
        B.add("K15 elastic_tensor_to_voigt (one-hot)", "t_t2v " + h(E), Mv, {"pqrs": [p, q, r, s]})
        res.evaluations += 1
        res.nontrivial(("onehot4", p, q, r, s))
        i = p if p == q else 6 - p - q
        j = r if r == s else 6 - r - s
        mult = (1 if p == q else 2) * (1 if r == s else 2)
        expM = np.zeros((6, 6))
        expM[i, j] += 0.5 / mult
        expM[j, i] += 0.5 / mult
        if not np.array_equal(Mv, expM):
            res.violation("t2v:onehot", f"one-hot tensor {p,q,r,s} maps to the wrong Voigt entries", {"kind": "onehot4", "pqrs": [p, q, r, s]})
    for i, j in itertools.product(range(6), repeat=2):
        E = np.zeros((6, 6))
        E[i, j] = 1.0
        B.add("K14 voigt_to_elastic_tensor (one-hot)", "t_v2t " + h(E), t.voigt_to_elastic_tensor(E), {"ij": [i, j]})
        B.add("K16 voigt_matrix_to_vector (one-hot)", "t_m2v " + h(E), t.voigt_matrix_to_vector(E), {"ij": [i, j]})
        d, v = t.voigt_decompose(E)
        B.add("K18 voigt_decompose (one-hot)", "t_dec " + h(E), np.concatenate([d.ravel(), v.ravel()]), {"ij": [i, j]})
        res.count("index:onehot36")
        res.evaluations += 3
        res.nontrivial(("onehot6", i, j))
    for k in range(21):
        e = np.zeros(21)
        e[k] = 1.0
        B.add("K16 voigt_vector_to_matrix (one-hot)", "t_v2m " + h(e), t.voigt_vector_to_matrix(e), {"k": k})
        for n in PROJ:
            B.add(f"K17 {n} (one-hot)", f"t_{n.split('_')[0]} " + h(e), getattr(t, n)(e), {"k": k})
        check_vector_roundtrip(res, e, "onehot")
        res.count("index:onehot21")
        res.evaluations += 5
        res.nontrivial(("onehot21", k))
    B.flush()

    # ---- matrices / tensors / vectors
    for k in range(N):
        kind = SYM_KINDS[k % len(SYM_KINDS)]
        M = sym6(rng, kind)
        res.count("sym6:" + kind)
        res.nontrivial(("sym6", M.tobytes()))
        Tn, vec = check_matrix_tensor(res, M, kind)
        B.add("K14 voigt_to_elastic_tensor", "t_v2t " + h(M), Tn, {"kind": kind, "M": M.tolist()}, scale=np.abs(M).max())
        B.add("K16 voigt_matrix_to_vector", "t_m2v " + h(M), vec, {"kind": kind, "M": M.tolist()}, scale=np.abs(M).max())
        d, v = t.voigt_decompose(M)
        B.add("K18 voigt_decompose", "t_dec " + h(M), np.concatenate([d.ravel(), v.ravel()]), {"kind": kind, "M": M.tolist()}, scale=np.abs(M).max())
        if k < 2:
            res.sample({"kernel": "sym6 roundtrips/isometry", "case": kind, "M_row0": M[0].tolist(), "norm": float(np.linalg.norm(vec))})
        # non-symmetric 6x6: the functions are still total; compare everything
        Mn = rng.normal(size=(6, 6)) * 10
        res.count("nonsym6")
        res.nontrivial(("nonsym6", Mn.tobytes()))
        Tq = t.voigt_to_elastic_tensor(Mn)
        B.add("K14 voigt_to_elastic_tensor (non-symmetric)", "t_v2t " + h(Mn), Tq, {"M": Mn.tolist()})
        B.add("K15 elastic_tensor_to_voigt (of non-symmetric)", "t_t2v " + h(Tq), t.elastic_tensor_to_voigt(Tq), {"M": Mn.tolist()})
        B.add("K16 voigt_matrix_to_vector (non-symmetric)", "t_m2v " + h(Mn), t.voigt_matrix_to_vector(Mn), {"M": Mn.tolist()})
        d, v = t.voigt_decompose(Mn)
        B.add("K18 voigt_decompose (non-symmetric)", "t_dec " + h(Mn), np.concatenate([d.ravel(), v.ravel()]), {"M": Mn.tolist()})
        res.evaluations += 4
        if rel(t.elastic_tensor_to_voigt(Tq), (Mn + Mn.T) / 2) > 1e-14:
            res.violation("roundtrip:voigt_sympart", "round trip of a non-symmetric matrix is not its symmetric part", {"kind": "nonsym6", "M": Mn.tolist()})
        # general (no symmetry) and elastic tensors
        Tg = rng.normal(size=(3, 3, 3, 3)) * 10
        B.add("K15 elastic_tensor_to_voigt (general tensor)", "t_t2v " + h(Tg), t.elastic_tensor_to_voigt(Tg), {"T": "random"})
        res.evaluations += 1
        res.nontrivial(("ten4", Tg.tobytes()))
        check_tensor_roundtrip(res, Tn, kind)
        # vectors
        v21 = rng.normal(size=21) * 100 * (rng.random(21) < (1.0 if k % 3 else 0.5))
        y21 = rng.normal(size=21) * 100
        res.nontrivial(("vec21", v21.tobytes()))
        check_vector_roundtrip(res, v21, "random")
        check_projectors(res, v21, y21, "random")
        check_projectors(res, vec, y21, kind)
        if k < (6 if not thorough else 60):
            check_projector_group_average(res, v21 if k % 2 else vec, kind)
        B.add("K16 voigt_vector_to_matrix", "t_v2m " + h(v21), t.voigt_vector_to_matrix(v21), {"v": v21.tolist()}, scale=100)
        for n in PROJ:
            B.add(f"K17 {n}", f"t_{n.split('_')[0]} " + h(v21), getattr(t, n)(v21), {"v": v21.tolist()}, scale=100)
            res.evaluations += 1
        # upper_tri_to_symmetric: zeros / negative zeros in the upper triangle, junk in the lower triangle
        n = int(rng.integers(1, 7))
        A = rng.normal(size=(n, n)) * (rng.random((n, n)) < 0.7)
        if n > 1 and k % 4 == 0:
            A[0, n - 1] = -0.0
        res.count(f"uts:n={n}")
        res.evaluations += 1
        res.nontrivial(("uts", n, A.tobytes()))
        S = t.upper_tri_to_symmetric(A)
        B.add("upper_tri_to_symmetric", f"t_uts {n} " + h(A), S, {"A": A.tolist()})
        iu = np.triu_indices(n)
        expS = np.zeros((n, n))
        expS[iu] = A[iu]
        expS = expS + np.triu(expS, 1).T
        if not np.array_equal(S, expS):
            res.violation("uts:spec", "upper_tri_to_symmetric is not the symmetric completion of the upper triangle", {"kind": "uts", "A": A.tolist()})
    B.flush()

    # ---- rotation (the 8-fold loop is slow in interpreted Python: fewer cases)
    NR = 30 if not thorough else 300
    rot_kinds = ["rotation", "rotation", "reflection", "random", "integer", "rotation"]
    for k in range(NR):
        kind = rot_kinds[k % len(rot_kinds)]
        R1, R2 = mats3(rng, kind), mats3(rng, kind)
        if k % 2 == 0:
            Tn = t.voigt_to_elastic_tensor(sym6(rng, SYM_KINDS[k % len(SYM_KINDS)]))
            tk = "elastic"
        else:
            Tn = rng.normal(size=(3, 3, 3, 3)) * 10
            tk = "general"
        res.count(f"rotate:{kind}:{tk}")
        res.nontrivial(("rot", Tn.tobytes(), R1.tobytes()))
        r1 = check_rotate(res, Tn, R1, R2, f"{kind}/{tk}", orthogonal=kind in ("rotation", "reflection"))
        sc = float(np.abs(Tn).max() * max(1.0, np.abs(R1).max()) ** 4)
        B.add("K17 rotate", "t_rot " + h(Tn) + " " + h(R1), r1, {"kind": kind, "tensor": tk, "R": R1.tolist()}, scale=sc)
        if k < 1:
            res.sample({"kernel": "rotate", "case": kind, "R": R1.tolist(), "norm_before": float(np.sqrt((Tn**2).sum())),
                        "norm_after": float(np.sqrt((r1**2).sum()))})
    B.flush()

    # ---- polar decomposition and invariants
    NP = 25 * len(M3_KINDS) if not thorough else 300 * len(M3_KINDS)
    worst_svd = 0.0
    for k in range(NP):
        kind = M3_KINDS[k % len(M3_KINDS)]
        M = mats3(rng, kind)
        if k % 7 == 0:
            M = M * 10.0 ** rng.integers(-3, 4)
        elif k % 7 == 3:
            M = M * 10.0 ** float(rng.choice([-17, -16, -12, 8, 12]))       # SI-unit magnitudes
            res.count("mat3:extreme_scale")
        elif k % 7 == 5 and kind in ("diag", "triangular", "symmetric", "defgrad"):
            # eigenvalues spanning many decades (large finite strains): well scaled entries, ill-conditioned matrix
            e_ = float(rng.uniform(8, 15))
            M = np.diag([np.exp(e_), 1.0, np.exp(-e_)]) + (np.triu(rng.normal(size=(3, 3)), 1) if kind == "triangular" else 0.0)
            res.count("mat3:eigenvalues_spanning_decades")
        res.count("mat3:" + kind)
        if M.any():
            res.nontrivial(("mat3", M.tobytes()))
        U, S, Vh = np.linalg.svd(M)
        worst_svd = max(worst_svd, svd_spec_residual(M, U, S, Vh) / max(1.0, np.abs(M).max()))
        for left in (True, False):
            out = check_polar(res, M, left, kind)
            if out is not None:
                R, P = out
                B.add(f"K19 polar_decompose(left={left})", f"t_polar {int(left)} " + h(U) + " " + h(S) + " " + h(Vh),
                      np.concatenate([R.ravel(), P.ravel()]), {"kind": kind, "M": M.tolist()}, scale=max(1.0, np.abs(M).max()))
        I = check_invariants(res, M, kind)
        B.add("K19 invariants_second_order", "t_inv " + h(M), I, {"kind": kind, "M": M.tolist()}, scale=max(1.0, np.abs(M).max()) ** 3)
        if k < 2:
            res.sample({"kernel": "polar/invariants", "case": kind, "M": M.tolist(), "invariants": [float(x) for x in I]})
    B.flush()
    res.notes.append(f"largest SVD-specification residual seen (relative): {worst_svd:.3e}")
    if worst_svd > 1e-10:
        res.mismatch("np.linalg.svd specification", "assumed SVD spec not met by LAPACK", worst_svd, 0.0)

    if thorough:
        jit_compare(ctx, res)
    # representation- and history-robustness of the public functions (harness/apirobust.py)
    from .. import apirobust_cases as _AC
    _AC.c11(res, np.random.default_rng(ctx["seed"] + 4242), ctx)


def replay(data):
    """Re-run the C11 predicates on the inputs stored in a replay file."""
    res = C.Result("C11")
    for v in data.get("violations", []):
        r = v.get("replay", {})
        k = r.get("kind")
        if k == "sym6":
            check_matrix_tensor(res, np.array(r["M"]), "replay")
        elif k == "ten4":
            check_tensor_roundtrip(res, np.array(r["T"]), "replay")
        elif k == "vec21":
            check_vector_roundtrip(res, np.array(r["v"]), "replay")
        elif k == "rotate":
            R1 = np.array(r["R1"])
            check_rotate(res, np.array(r["T"]), R1, np.array(r["R2"]), "replay", abs(np.abs(R1.T @ R1 - np.eye(3)).max()) < 1e-9)
        elif k == "proj":
            check_projectors(res, np.array(r["x"]), np.array(r["y"]), "replay")
            check_projector_group_average(res, np.array(r["x"]), "replay")
        elif k == "polar":
            check_polar(res, np.array(r["M"]), r["left"], "replay")
        elif k == "invariants":
            check_invariants(res, np.array(r["M"]), "replay")
        else:
            print("stored violation:", json.dumps(v)[:2000])
    for v in res.violations:
        print("REPRODUCED", v["key"], "-", v["what"])
    if not res.violations:
        print("no violation reproduced on the current tree")
    return 1 if res.violations else 0


if __name__ == "__main__" and len(sys.argv) > 1 and sys.argv[1] == "--jit-worker":
    _jit_worker()
