"""C16 — SCSV save/read round trip is lossless; invalid schemas and data are refused.

Correspondence K29–K31: the real `pydrex.io.save_scsv` / `read_scsv` / `_validate_scsv_schema` /
`_parse_scsv_cell` against `Scsv.save` / `read` / `validate` / `parseCell` (Lean driver): file
BYTES compared exactly, parsed tuples compared exactly (type and value; floats by bit pattern).
The modelled externals (`csv`, YAML scalars, `str` methods, `int()`/`str(int)`, text-mode line
iteration) are differentially tested against CPython / PyYAML themselves. CPython's float and
complex formatting/parsing are oracle tables computed here with the real CPython (which is also
the validation of the assumed spec `parse (repr x) = x`).

The property's own statement is evaluated on the real outputs: a generated in-domain data set
must read back as itself with fill substitution (computed here from the statement, not from the
model); a single-fault corruption must raise SCSVError.
"""
from __future__ import annotations

import collections
import csv
import io as _pyio
import logging
import math
import os
import pathlib
import shutil
import struct

import numpy as np

from .. import common as C
from .. import impl  # noqa: F401  (sets NUMBA_DISABLE_JIT, imports pydrex from /repo/src)

PARTIAL = [
    "CPython float/complex repr and parsing are externals with the assumed spec parse(repr x) = x (validated on "
    "every float/complex cell the harness generates, incl. NaN, +-inf, -0.0, subnormals)",
    "PyYAML and the csv module are modelled (single-quoted scalars and plain-scalar resolution; QUOTE_MINIMAL writer, "
    "skipinitialspace reader) and tied by differential tests, not verified; YAML text of any other shape than the "
    "writer's is outside the model (`unmodelled`)",
    "str.isidentifier is modelled exactly for code points < 0x100 only; names are generated from that range",
    "fills given as int for float/complex fields or as float for integer fields are `unmodelled` (mixed numeric conversion)",
]
ASSUMPTIONS = [
    "integers are below CPython's int->str digit limit (4300 digits)",
    "NaN payload and sign are not observable (str() prints 'nan'): every NaN is canonicalised to 0x7ff8000000000000",
    "the file is written and read with the UTF-8 locale encoding; os.linesep == '\\n'",
    "delimiters '\"', '\\n', '\\r' are not CSV-legal (compared model-vs-code, excluded from the round-trip predicate)",
    "0-row data sets are outside the quantifier (1..1e4 rows): read_scsv raises ValueError on them (counted, compared)",
]
OPTIMIZED_TWIN = True   # the implementation-side search is repeated under `python -O` (validation must not live in assert / __debug__)
TRUSTED = ["oracle tables for float()/repr()/complex()/str(complex) computed by the running CPython",
           "the request serialisation of harness/props/c16.py and lean/Driver/Ops/Scsv.lean"]

NAN_BITS = "7ff8000000000000"
ABSENT = object()
TMP = pathlib.Path("/tmp/scsv") / f"run-{os.getpid()}"


# ------------------------------------------------------------------ encoding
def hx(s: str) -> str:
    return s.encode("utf-8").hex()


def unhx(h: str) -> str:
    return bytes.fromhex(h).decode("utf-8")


def fbits(x) -> str:
    x = float(x)
    if x != x:
        return NAN_BITS
    return struct.pack(">d", x).hex()


def bits2f(h: str) -> float:
    return struct.unpack(">d", bytes.fromhex(h))[0]


def cell_tok(d) -> str:
    if isinstance(d, (bool, np.bool_)):
        return "b1" if d else "b0"
    if isinstance(d, (int, np.integer)):
        return "i" + str(int(d))
    if isinstance(d, (float, np.floating)):
        return "f" + fbits(d)
    if isinstance(d, (complex, np.complexfloating)):
        return "z" + fbits(d.real) + fbits(d.imag)
    if isinstance(d, str):
        return "s" + hx(d)
    raise TypeError(f"cell {d!r}")


def canon(d):
    """canonical comparable form of a typed cell value"""
    t = cell_tok(d)
    return t


def opt_tok(v) -> str:
    return "-" if v is ABSENT else "s" + hx(v)


def fill_tok(v) -> str:
    if v is ABSENT:
        return "-"
    if isinstance(v, str):
        return "s" + hx(v)
    if isinstance(v, bool):
        raise TypeError("bool fill not modelled")
    if isinstance(v, int):
        return "i" + str(v)
    if isinstance(v, float):
        return "f" + fbits(v)
    raise TypeError(f"fill {v!r}")


def schema_toks(schema: dict) -> str:
    out = ["S", opt_tok(schema.get("delimiter", ABSENT)), opt_tok(schema.get("missing", ABSENT)), "F"]
    if "fields" not in schema:
        out.append("-")
    else:
        fs = schema["fields"]
        out.append(str(len(fs)))
        for f in fs:
            out += [opt_tok(f.get("name", ABSENT)), opt_tok(f.get("type", ABSENT)), opt_tok(f.get("unit", ABSENT)),
                    fill_tok(f.get("fill", ABSENT))]
    return " ".join(out)


def data_toks(data) -> str:
    out = ["D", str(len(data))]
    for col in data:
        col = list(col)
        out += ["C", str(len(col))] + [cell_tok(d) for d in col]
    return " ".join(out)


# ------------------------------------------------------------------ oracle (CPython externals)
class Oracle:
    """float()/repr()/complex()/str(complex) tables; every entry is computed by the running CPython."""

    def __init__(self):
        self.e = {}

    def add(self, need: str):
        if need in self.e:
            return
        tag, body = need[0], need[1:]
        if tag == "r":
            self.e[need] = hx(repr(bits2f(body)))
        elif tag == "c":
            self.e[need] = hx(str(complex(bits2f(body[:16]), bits2f(body[16:]))))
        elif tag == "p":
            try:
                self.e[need] = fbits(float(unhx(body)))
            except ValueError:
                self.e[need] = "!"
        elif tag == "q":
            try:
                z = complex(unhx(body))
                self.e[need] = fbits(z.real) + fbits(z.imag)
            except ValueError:
                self.e[need] = "!"
        else:
            raise C.DriverError(f"unknown oracle request {need!r}")

    def seed_cells(self, data, schema):
        for col in data:
            for d in col:
                if isinstance(d, (float, np.floating)) and not isinstance(d, bool):
                    self.add("r" + fbits(d))
                elif isinstance(d, (complex, np.complexfloating)):
                    self.add("c" + fbits(d.real) + fbits(d.imag))
        for f in schema.get("fields", []) or []:
            if isinstance(f.get("fill", None), float):
                self.add("r" + fbits(f["fill"]))

    def toks(self) -> str:
        return "O " + str(len(self.e)) + ("" if not self.e else " " + " ".join(k + "=" + v for k, v in self.e.items()))


def _run_driver(lines):
    """C.run_driver, retried while another builder is relinking the driver binary"""
    import time

    for attempt in range(6):
        try:
            return C.run_driver(lines)
        except C.DriverError as e:
            if "driver not built" not in str(e) or attempt == 5:
                raise
            time.sleep(3)
        except OSError:
            if attempt == 5:
                raise
            time.sleep(3)


def run_oracle_requests(reqs):
    """reqs: list of (op, Oracle, tail). Returns the driver's final answers (never a `miss`)."""
    results = [None] * len(reqs)
    pending = list(range(len(reqs)))
    for _ in range(8):
        if not pending:
            break
        lines = [f"{reqs[i][0]} {reqs[i][1].toks()} {reqs[i][2]}" for i in pending]
        outs = _run_driver(lines)
        nxt = []
        for i, out in zip(pending, outs):
            if out.startswith("miss "):
                for need in out.split()[1:]:
                    reqs[i][1].add(need)
                nxt.append(i)
            else:
                results[i] = out
        pending = nxt
    if pending:
        raise C.DriverError("oracle tables did not converge")
    return results


# ------------------------------------------------------------------ the real implementation
def _classify(e: BaseException) -> str:
    import yaml
    from pydrex import exceptions as E

    if isinstance(e, E.SCSVError):
        return "SCSVError"
    if isinstance(e, yaml.YAMLError):
        return "YAMLError"
    if isinstance(e, csv.Error):
        return "csvError"
    for cls in (KeyError, IndexError, AttributeError, TypeError, StopIteration, ValueError):
        if isinstance(e, cls):
            return cls.__name__
    return type(e).__name__


def real_save(schema, data, path):
    from pydrex import io as I

    try:
        I.save_scsv(path, schema, data)
    except Exception as e:  # noqa: BLE001
        return ("err", _classify(e))
    return ("ok", pathlib.Path(path).read_bytes())


def real_read(path):
    from pydrex import io as I

    try:
        r = I.read_scsv(path)
    except Exception as e:  # noqa: BLE001
        return ("err", _classify(e))
    return ("ok", list(r._fields), [[canon(v) for v in col] for col in r])


def parse_table(resp: str):
    """driver answer of scsv-read -> same shape as real_read"""
    t = resp.split()
    if t[0] == "err":
        return ("err", t[1])
    assert t[0] == "ok" and t[1] == "N", resp[:80]
    k = int(t[2])
    names = [unhx(x[1:]) for x in t[3:3 + k]]
    i = 3 + k
    assert t[i] == "D"
    ncols = int(t[i + 1])
    i += 2
    cols = []
    for _ in range(ncols):
        assert t[i] == "C"
        n = int(t[i + 1])
        cols.append(t[i + 2:i + 2 + n])
        i += 2 + n
    return ("ok", names, cols)


def silence():
    logging.getLogger("pydrex").setLevel(logging.CRITICAL + 10)
    try:
        from pydrex import logger as L

        L.CONSOLE_LOGGER.setLevel(logging.CRITICAL + 10)
    except Exception:  # noqa: BLE001
        pass


# ------------------------------------------------------------------ the statement (independent of the model)
PYTYPE = {"string": str, "integer": int, "float": float, "boolean": bool, "complex": complex}


def _same_nan_pattern(a: complex, b: complex) -> bool:
    def part(x, y):
        return (x != x and y != y) or x == y
    return part(a.real, b.real) and part(a.imag, b.imag)


def expected_column(ftype: str, fill, col):
    """What the statement says must come back: the cell, or the fill value where the cell equals it."""
    t = PYTYPE[ftype]
    out = []
    for d in col:
        if t is bool:
            out.append(canon(bool(d)))
            continue
        fv = t(fill)
        if t is float:
            eq = (d != d and fv != fv) or d == fv
        elif t is complex:
            eq = _same_nan_pattern(complex(d), fv)
        else:
            eq = d == fv
        out.append(canon(fv if eq else t(d)))
    return out


def expected_table(schema, data):
    names = [f["name"] for f in schema["fields"]]
    cols = [expected_column(f.get("type", "string"), f.get("fill", ""), col) for f, col in zip(schema["fields"], data)]
    return ("ok", names, cols)


# ------------------------------------------------------------------ generators
LETTERS = "abcxyzABCXYZeEnNtTfiIjJ"
IDCH = LETTERS + "0123456789_" + "éñÜ"
PUNCT = ",;|:/!#$%&*+-.<=>?@^_~'\"()[]{}\\`"
INNER_WS = " \t\xa0"
NONASCII = "éñÜµ€λ中"
KEYWORDS = {"False", "None", "True", "and", "as", "assert", "async", "await", "break", "class", "continue", "def",
            "del", "elif", "else", "except", "finally", "for", "from", "global", "if", "import", "in", "is",
            "lambda", "nonlocal", "not", "or", "pass", "raise", "return", "try", "while", "with", "yield"}
YAML_WORDS = ["yes", "no", "on", "off", "true", "false", "null", "y", "n", "Yes", "NULL", "nan", "inf", "e1", "x1e3"]
DELIMS = list(",;|\t:/!#$%&*+-.<=>?@^~'") + ["a", "e", "n", "1", "0", "T", "j", "(", "é", "\xa0", "\\"]
MISSINGS = ["-", "", "NA", "N/A", "?", "--", "missing", "nan", "NaN", "None", "*", "n/a", "null", "~", "it's",
            'a"b', "-9999", "0", "1.0", "True", "False", "0j", "(0j)", "---", "#", "x y", "é", "inf", "5", "''", "\\N"]
STR_FILLS = ["", "", "NaN", "N/A", "MISSING", "-", "null", "true", "010", "~", " z", "z ", "it's", "a: b", "x #y", "%",
             "yes", "1e3", "0x10", 5, "[a", "{", "- a", "? b", "é", "'", "''", "#", "!tag", "&a", "*a", "|", ">", "@", "`"]
INT_FILLS = ["0", "-1", "999999", "010", "+5", "1_000", " 7 ", "-0", 0, 999999, -5]
FLOAT_FILLS = ["NaN", "nan", "0.0", "-0.0", "1e5", "inf", "-inf", "0", " 1.5 ", "1_0.5", ".5", "Infinity", "-nan",
               float("nan"), 0.5, -0.0, 1e300]
COMPLEX_FILLS = ["NaN", "0", "0j", "1+2j", "(1-1j)", "nan+nanj", "inf", "-0-0j", " 1j ", "nanj", 0.0, 2.5]
BOOL_FILLS = [ABSENT, ABSENT, ABSENT, "x", "", "True", 1]
UNITS = [ABSENT, ABSENT, "m", "%", "m/s", "m: s", "a #b", "'quoted'", "", "µm", " lead", "it's", "- x", "[1]"]
TYPES = ["string", "integer", "float", "boolean", "complex"]
SPECIAL_F = [0.0, -0.0, 1.0, -1.0, 0.1, 1.5, float("nan"), float("inf"), -float("inf"), 5e-324, 2.2250738585072014e-308,
             1.7976931348623157e308, 1e16, 1e22, 1e-5, 1e-4, 123456789012345680.0, 0.30000000000000004, 1e100, -2.5e-10,
             9007199254740992.0, 4.9406564584124654e-324, 100000.0, 1e5, 0.5]


def gen_name(rng, used, delim):
    for _ in range(50):
        r = rng.random()
        if r < 0.15:
            s = str(rng.choice(YAML_WORDS))
        else:
            n = int(rng.integers(1, 9))
            s = str(rng.choice(list(LETTERS + "éñ"))) + "".join(rng.choice(list(IDCH), size=n - 1))
            if r > 0.8 and delim.isidentifier():
                s += delim
        if s.isidentifier() and s not in KEYWORDS and not s.startswith("_") and s not in used:
            used.add(s)
            return s
    raise RuntimeError("name generator")


def gen_text(rng, delim, maxlen=8):
    n = int(rng.integers(0, maxlen + 1))
    pools = [LETTERS, "0123456789", PUNCT, INNER_WS, delim + '"' + "'", NONASCII, "-"]
    w = np.array([4, 2, 3, 1.5, 2, 1, 1.0])
    out = []
    for _ in range(n):
        pool = pools[int(rng.choice(len(pools), p=w / w.sum()))]
        out.append(pool[int(rng.integers(0, len(pool)))])
    return "".join(out)


def gen_float(rng):
    r = rng.random()
    if r < 0.35:
        return float(SPECIAL_F[int(rng.integers(0, len(SPECIAL_F)))])
    if r < 0.55:
        return struct.unpack(">d", struct.pack(">Q", int(rng.integers(0, 2**64, dtype=np.uint64))))[0]
    if r < 0.75:
        return float(np.round(rng.normal(scale=100), int(rng.integers(0, 6))))
    return float(rng.normal() * 10.0 ** int(rng.integers(-30, 30)))


def gen_int(rng):
    r = rng.random()
    if r < 0.3:
        return int(rng.choice([0, 1, -1, 5, 10, 8, 999999, -5, 7, 1000]))
    if r < 0.8:
        return int(rng.integers(-2**63, 2**63 - 1))
    return int(rng.integers(1, 2**62)) ** int(rng.integers(2, 6)) * int(rng.choice([-1, 1]))


def gen_cell(rng, ftype, fill, delim):
    """one in-type cell; with some probability exactly the fill value"""
    t = PYTYPE[ftype]
    if ftype != "boolean" and rng.random() < 0.25:
        try:
            return t(fill)
        except (ValueError, TypeError):
            pass
    if ftype == "string":
        return gen_text(rng, delim)
    if ftype == "integer":
        return gen_int(rng)
    if ftype == "float":
        return gen_float(rng)
    if ftype == "boolean":
        return bool(rng.integers(0, 2))
    return complex(gen_float(rng), gen_float(rng))


def yaml_safe(s: str) -> bool:
    """header scalar the YAML layer can carry on one line: printable and no YAML line break"""
    for ch in s:
        n = ord(ch)
        printable = n in (0x09, 0x0A, 0x0D, 0x85) or 0x20 <= n <= 0x7E or 0xA0 <= n <= 0xD7FF or 0xE000 <= n <= 0xFFFD or n >= 0x10000
        if not printable or ch in "\n\r\x85\u2028\u2029":
            return False
    return True


def gen_valid(rng, thorough, nrows=None, numpy_cols=False):
    """A schema and data set inside the property's stated domain AND outside every known-finding class
    (those are produced on purpose by `hypothesis_cases`). Returns (schema, data, tags)."""
    for _ in range(200):
        delim = str(rng.choice(DELIMS)) if rng.random() < 0.6 else ","
        if rng.random() < 0.04:
            delim = " "
        missing = str(rng.choice(MISSINGS)) if rng.random() < 0.7 else "-"
        if delim in missing or missing != missing.strip() or (delim == " " and missing == ""):
            continue
        nf = int(rng.integers(1, 9))
        if nrows is None:
            nr = int(rng.integers(1, 6)) if rng.random() < 0.5 else int(rng.integers(1, 40))
        else:
            nr = nrows
        used = set()
        fields, data = [], []
        ok = True
        for _j in range(nf):
            ftype = str(rng.choice(TYPES))
            f = {"name": gen_name(rng, used, delim)}
            if not (ftype == "string" and rng.random() < 0.3):
                f["type"] = ftype
            pool = {"string": STR_FILLS, "integer": INT_FILLS, "float": FLOAT_FILLS, "complex": COMPLEX_FILLS,
                    "boolean": BOOL_FILLS}[ftype]
            fill = pool[int(rng.integers(0, len(pool)))]
            if ftype == "string" and rng.random() < 0.25:
                fill = ABSENT
            if ftype == "string" and rng.random() < 0.1:
                fill = gen_text(rng, delim)
            if fill is not ABSENT:
                if isinstance(fill, str) and not yaml_safe(fill):
                    fill = "z"
                f["fill"] = fill
            unit = UNITS[int(rng.integers(0, len(UNITS)))]
            if unit is not ABSENT:
                f["unit"] = unit
            fv = f.get("fill", "")
            col = []
            for _i in range(nr):
                for _k in range(20):
                    d = gen_cell(rng, ftype, fv, delim)
                    if ftype == "string":
                        d = d.strip()
                        if "\n" in d or "\r" in d or d == missing or (delim == " " and d == ""):
                            continue
                    else:
                        if str(d).strip() == missing:
                            continue
                    if ftype == "complex":
                        fc = complex(fv)
                        if (d != d) and (fc != fc) and not _same_nan_pattern(d, fc):
                            continue  # known finding complex_partial_nan
                    break
                else:
                    ok = False
                col.append(d)
            if numpy_cols and ftype in ("float", "complex", "boolean") and nr > 0:
                col = np.array(col)
            fields.append(f)
            data.append(col)
        if not ok:
            continue
        schema = {"delimiter": delim, "missing": missing, "fields": fields}
        return schema, data
    raise RuntimeError("valid generator did not converge")


def clone(schema, data):
    s = {k: v for k, v in schema.items() if k != "fields"}
    if "fields" in schema:
        s["fields"] = [dict(f) for f in schema["fields"]]
    return s, [list(c) for c in data]


def terse_cases(rng, n):
    """schemas obtained from the REAL `parse_scsv_schema` on generated terse strings, with in-domain data
    (the route of the property's `why_tests_cant` example: the terse parser always emits fill '')"""
    from pydrex import io as I

    pt = getattr(I, "parse_scsv_schema", None)
    if pt is None:
        return []
    out = []
    code = {"string": "s", "integer": "i", "float": "f", "boolean": "b", "complex": "c"}
    for _ in range(n):
        delim = str(rng.choice([",", ";", "|", "\t", "/"]))
        missing = str(rng.choice(["-", "NA", "--", "?", "nan"]))
        used = set()
        t = "d" + delim + "m" + missing + ":"
        types = []
        for _j in range(int(rng.integers(1, 7))):
            ftype = str(rng.choice(TYPES))
            name = gen_name(rng, used, delim)
            spec = "" if (ftype == "string" and rng.random() < 0.4) else code[ftype]
            fill = None
            if ftype in ("integer", "float", "complex") or rng.random() < 0.5:
                fill = {"string": ["", "N/A", "z", "NaN", "true", "010", "-"], "integer": ["0", "-1", "999999", "010"],
                        "float": ["NaN", "0.0", "1e5", "inf"], "complex": ["NaN", "0", "1+2j"], "boolean": ["", "x"]}[ftype]
                fill = str(fill[int(rng.integers(0, len(fill)))])
                spec += ":" + fill
                if rng.random() < 0.5:
                    spec += ":" + str(rng.choice(["m", "%", "m/s", "a #b", "it's", ""]))
            t += name + "(" + spec + ")"
            types.append(ftype)
        try:
            schema = pt(t)
        except Exception:  # noqa: BLE001
            continue
        nr = int(rng.integers(1, 12))
        data = []
        ok = True
        for f, ftype in zip(schema["fields"], types):
            col = []
            for _i in range(nr):
                for _k in range(20):
                    d = gen_cell(rng, ftype, f.get("fill", ""), delim)
                    if ftype == "string":
                        d = d.strip()
                        if "\n" in d or "\r" in d or d == missing:
                            continue
                    elif str(d).strip() == missing:
                        continue
                    if ftype == "complex":
                        fc = complex(f.get("fill", ""))
                        if (d != d) and (fc != fc) and not _same_nan_pattern(d, fc):
                            continue
                    break
                else:
                    ok = False
                col.append(d)
            data.append(col)
        if ok:
            out.append((t, schema, data))
    return out


def hypothesis_cases(rng):
    """Inputs INSIDE the stated domain that violate exactly one extra hypothesis of `save_read_roundtrip`
    (each was derived from the Lean model and is replayed here on the real code). (key, schema, data)."""
    F = lambda n, t, **k: dict(name=n, type=t, **k)  # noqa: E731
    S = lambda fields, d=",", m="-": {"delimiter": d, "missing": m, "fields": fields}  # noqa: E731
    out = []
    i5 = int(rng.integers(2, 10**6))
    x = float(np.round(rng.normal(scale=10), 2)) or 1.5
    out.append(("roundtrip:cell_text_equals_missing:integer", S([F("a", "integer", fill="0")], m=str(i5)), [[i5, 0, 1]]))
    out.append(("roundtrip:cell_text_equals_missing:float", S([F("a", "float", fill="0")], m=repr(x)), [[x, 0.0]]))
    out.append(("roundtrip:cell_text_equals_missing:float", S([F("a", "float", fill="0")], m="nan"), [[float("nan"), 1.0]]))
    out.append(("roundtrip:cell_text_equals_missing:boolean", S([F("a", "boolean")], m="True"), [[True, False]]))
    out.append(("roundtrip:cell_text_equals_missing:complex", S([F("a", "complex", fill="0")], m="1j"), [[1j, 2j]]))
    ws = str(rng.choice([" -", "- ", "\t-", "NA\xa0", " "]))
    out.append(("roundtrip:missing_marker_surrounding_whitespace", S([F("a", "string", fill="z"), F("b", "integer", fill="7")], m=ws),
                [["x", "z"], [7, 1]]))
    bad = str(rng.choice(["_a", "_", "class", "None", "for", "lambda"]))
    out.append(("roundtrip:name_rejected_by_namedtuple", S([F(bad, "string", fill="z")]), [["x"]]))
    out.append(("roundtrip:name_rejected_by_namedtuple", S([F("a", "string", fill="z"), F("a", "integer", fill="0")]), [["x"], [1]]))
    im = float(rng.integers(1, 9))
    out.append(("roundtrip:complex_partial_nan_collapsed_to_fill", S([F("a", "complex", fill="NaN")]),
                [[complex(im, float("nan")), complex(float("nan"), im), 1j]]))
    out.append(("roundtrip:space_delimiter_empty_cell",
                S([F("a", "string", fill="z"), F("b", "string", fill="z"), F("c", "string", fill="z")], d=" "), [["x"], [""], ["y"]]))
    ctrl = str(rng.choice(["\x01", "\x0b", "\x0c", "\x1f", "\x7f"]))
    out.append(("roundtrip:header_scalar_not_yaml_printable", S([F("a", "string", fill="z"), F("b", "integer", fill="0")], d=ctrl),
                [["x", "z"], [0, 1]]))
    out.append(("roundtrip:header_scalar_not_yaml_printable", S([F("a", "string", fill="z" + ctrl)]), [["x"]]))
    brk = str(rng.choice(["a\x85b", "a\u2028 b", "a \u2029b"]))
    out.append(("roundtrip:header_scalar_yaml_line_break", S([F("a", "string", fill="z")], m=brk), [["x", "z"]]))
    # classes removed by the fix: commits (replayed to show they stay repaired; no violation expected)
    out.append(("fixed:string_fill_empty", S([F("a", "string", fill="")]), [["x", "", "y"]]))
    out.append(("fixed:yaml_keyword_name", S([F(str(rng.choice(["yes", "no", "on", "off", "true", "null", "False"])) if False else
                                               str(rng.choice(["yes", "no", "on", "off", "true", "null"])), "string", fill="z")]), [["x"]]))
    out.append(("fixed:quote_in_delimiter_or_missing", S([F("a", "string", fill="z"), F("b", "integer", fill="0")], d="'"), [["x", "z"], [0, 1]]))
    out.append(("fixed:quote_in_delimiter_or_missing", S([F("a", "string", fill="z")], m="it's"), [["x", "z"]]))
    out.append(("fixed:fill_resolved_by_yaml", S([F("a", "string", fill=str(rng.choice(["010", "true", "null", "~", "0x10", "1_0"])))]), [["x"]]))
    out.append(("fixed:fill_resolved_by_yaml", S([F("a", "integer", fill="010")]), [[1, 10, 8]]))
    # rows that consist of delimiters only (every cell equals its fill and the missing marker is empty): the written line is
    # whitespace-only for a tab delimiter and must still be read back as a row
    out.append(("inside:whitespace_only_row", S([F("a", "string", fill="z"), F("b", "integer", fill="7")], d="\t", m=""),
                [["x", "z", "y", "z"], [1, 7, 2, 7]]))
    out.append(("inside:whitespace_only_row", S([F("a", "float", fill="NaN"), F("b", "float", fill="0"), F("c", "string", fill="")], d="\t", m=""),
                [[float("nan"), 1.5], [0.0, 2.5], ["", "q"]]))
    out.append(("fixed:unit_not_plain_scalar", S([F("a", "float", fill="NaN", unit=str(rng.choice(["%", "m: s", "a #b"])))]), [[1.0]]))
    out.append(("fixed:csv_line_is_yaml_fence", S([F("a", "string", fill="z")]), [["x", "---", "y"]]))
    out.append(("fixed:csv_line_is_yaml_fence", S([F(n, "string", fill="z") for n in "abcd"], d="-", m="?"), [["", "x"]] * 4))
    out.append(("fixed:string_fill_NaN", S([F("a", "string", fill="NaN")]), [["x", "NaN"]]))
    return out


def fault_cases(rng, thorough):
    """single-fault corruptions of a valid schema / data set; (fault class, schema, data)"""
    out = []
    base_schema, base_data = gen_valid(rng, thorough)

    def fresh():
        return clone(base_schema, base_data)

    for key in ("delimiter", "missing", "fields"):
        s, d = fresh()
        del s[key]
        out.append(("missing_key:" + key, s, d))
    s, d = fresh()
    s["fields"] = []
    out.append(("no_fields", s, d))
    for bad in ("bad name", "1a", "", "a-b", "a.b", "é!", " a"):
        s, d = fresh()
        s["fields"][int(rng.integers(0, len(s["fields"])))]["name"] = bad
        out.append(("non_identifier_name", s, d))
    s, d = fresh()
    j = int(rng.integers(0, len(s["fields"])))
    t = str(rng.choice(["integer", "float", "complex"]))
    s["fields"][j] = {"name": s["fields"][j]["name"], "type": t}
    d[j] = [{"integer": 1, "float": 1.0, "complex": 1j}[t]] * len(d[j])
    out.append(("numeric_field_without_fill", s, d))
    s, d = fresh()
    s["missing"] = s["delimiter"]
    out.append(("delimiter_equals_missing", s, d))
    s, d = fresh()
    s["missing"] = str(rng.choice(["x", "", "--"])) + s["delimiter"] + str(rng.choice(["", "y"]))
    out.append(("delimiter_in_missing", s, d))
    s, d = fresh()
    s["fields"][int(rng.integers(0, len(s["fields"])))]["type"] = str(rng.choice(["strin", "int", "str", "Float", ""]))
    out.append(("unknown_type", s, d))
    if len(base_data) >= 2:
        s, d = fresh()
        j = int(rng.integers(0, len(d)))
        if rng.random() < 0.5 and len(d[j]) > 0:
            d[j] = d[j][:-1]
        else:
            d[j] = d[j] + d[j][:1] if d[j] else d[j] + ["x"]
        out.append(("unequal_column_lengths", s, d))
    s, d = fresh()
    d.append(list(d[0]))
    out.append(("wrong_column_count:more", s, d))
    s, d = fresh()
    d.pop()
    out.append(("wrong_column_count:fewer" if d else "wrong_column_count:no_columns", s, d))
    s, d = fresh()
    out.append(("wrong_column_count:no_columns", s, []))
    # unparseable cells
    for ftype, bads in (("integer", ["foo", 1.5, True, "1.0", "", 2j]), ("float", ["foo", "1,5", 2j, "--"]),
                        ("complex", ["foo", "1+2i", "j1"])):
        s, d = fresh()
        nr = len(d[0])
        if nr == 0:
            continue
        bad = bads[int(rng.integers(0, len(bads)))]
        if str(bad).strip() == s["missing"]:
            continue
        s["fields"].append({"name": "zzfault", "type": ftype, "fill": {"integer": "0", "float": "NaN", "complex": "NaN"}[ftype]})
        col = [{"integer": 1, "float": 1.0, "complex": 1j}[ftype]] * nr
        col[int(rng.integers(0, nr))] = bad
        d.append(col)
        out.append(("unparseable_cell:" + ftype, s, d))
    s, d = fresh()
    del s["fields"][int(rng.integers(0, len(s["fields"])))]["name"]
    out.append(("field_without_name", s, d))
    return out


def exotic_cases(rng):
    """outside the stated domain; compared model-vs-code only"""
    out = []
    for dl in ['"', "\n", "\r", " "]:
        s, d = gen_valid(rng, False)
        s["delimiter"] = dl
        if dl in s["missing"]:
            s["missing"] = "-"
        out.append(("exotic_delimiter:" + repr(dl), s, d))
    for bad in (" lead", "trail ", "a\nb", "a\rb", "a\r\nb", "\n", "\xa0pad\xa0", "\x1c", "a\x0bb", "---\n", "\n\n"):
        s, d = gen_valid(rng, False)
        s["fields"].append({"name": "zzexotic", "type": "string", "fill": "q"})
        nr = len(d[0])
        col = ["v"] * nr
        col[int(rng.integers(0, nr))] = bad
        d.append(col)
        out.append(("string_cell_outside_domain", s, d))
    s, d = gen_valid(rng, False, nrows=0)
    out.append(("zero_rows", s, d))
    s, d = gen_valid(rng, False)
    s["delimiter"] = ",,"
    out.append(("long_delimiter", s, d))
    s, d = gen_valid(rng, False)
    s["delimiter"] = ""
    out.append(("empty_delimiter", s, d))
    # fills that do not parse as the field's type
    for ftype, fill, cell in (("integer", "NaN", 1), ("integer", "abc", 1), ("float", "abc", 1.0), ("complex", "1+", 1j),
                              ("integer", 1.5, 1), ("float", 3, 1.0), ("complex", 3, 1j)):
        s, d = gen_valid(rng, False)
        s["fields"].append({"name": "zzfill", "type": ftype, "fill": fill})
        d.append([cell] * len(d[0]))
        out.append(("fill_not_of_type", s, d))
    # foreign cells that do parse
    for ftype, fill, cell in (("float", "0", "1.5"), ("complex", "0", "1j"), ("integer", "0", "5"), ("string", "", 5),
                              ("string", "", 1.5), ("boolean", ABSENT, "yes"), ("boolean", ABSENT, 1), ("float", "0", 5),
                              ("integer", "0", True)):
        s, d = gen_valid(rng, False)
        f = {"name": "zzforeign", "type": ftype}
        if fill is not ABSENT:
            f["fill"] = fill
        s["fields"].append(f)
        d.append([cell] * len(d[0]))
        out.append(("foreign_cell_that_parses", s, d))
    return out


# ------------------------------------------------------------------ driving both sides
def summarise(schema, data):
    return {"schema": C.jsonable(_jsonable_schema(schema)), "data": C.jsonable([[_jsonable_cell(d) for d in list(col)[:12]] for col in data][:8]),
            "rows": len(data[0]) if len(data) else 0}


def _jsonable_cell(d):
    if isinstance(d, (complex, np.complexfloating)):
        return "complex:" + repr(complex(d))
    if isinstance(d, (float, np.floating)):
        return "float:" + repr(float(d))
    if isinstance(d, (bool, np.bool_)):
        return bool(d)
    if isinstance(d, (int, np.integer)):
        return int(d) if abs(int(d)) < 2**53 else "int:" + str(int(d))
    return d


def _jsonable_schema(schema):
    s = {k: v for k, v in schema.items() if k != "fields"}
    if "fields" in schema:
        s["fields"] = [{k: _jsonable_cell(v) for k, v in f.items()} for f in schema["fields"]]
    return s


def rebuild(rep):
    """inverse of summarise for replay files (only the first 12 rows are kept there)"""
    def cell(x):
        if isinstance(x, str) and x.startswith("complex:"):
            return complex(x[8:])
        if isinstance(x, str) and x.startswith("float:"):
            return float(x[6:])
        if isinstance(x, str) and x.startswith("int:"):
            return int(x[4:])
        return x
    schema = {k: v for k, v in rep["schema"].items() if k != "fields"}
    if "fields" in rep["schema"]:
        schema["fields"] = [{k: cell(v) for k, v in f.items()} for f in rep["schema"]["fields"]]
    return schema, [[cell(x) for x in col] for col in rep["data"]]


class Case:
    __slots__ = ("stream", "key", "schema", "data", "expect", "real_save", "real_read", "model_save", "model_read", "domain")

    def __init__(self, stream, key, schema, data, expect):
        self.stream, self.key, self.schema, self.data, self.expect = stream, key, schema, data, expect
        self.real_save = self.real_read = self.model_save = self.model_read = self.domain = None


def _other_device_dir():
    """a writable directory on ANOTHER file system than the system temp dir (e.g. /dev/shm), or None: a destination need not
    be where temporary files live (a save that goes through a scratch file and a rename must cope)"""
    import tempfile

    try:
        dev = os.stat(tempfile.gettempdir()).st_dev
    except OSError:
        return None
    for cand in ("/dev/shm", "/var/tmp", os.path.expanduser("~/.cache"), "/run/user/%d" % os.getuid()):
        try:
            if os.path.isdir(cand) and os.access(cand, os.W_OK) and os.stat(cand).st_dev != dev:
                d = pathlib.Path(cand) / f"pydrex-verif-scsv-{os.getpid()}"
                d.mkdir(parents=True, exist_ok=True)
                return d
        except OSError:
            continue
    return None


def process(cases, res, tag):
    """Run the real code and the model on every case, compare, and evaluate the statement."""
    path0 = str(TMP / f"{tag}.scsv")
    alt = _other_device_dir()
    path1 = str(alt / f"{tag}.scsv") if alt is not None else path0
    reqs = []
    for ci_, c in enumerate(cases):
        path = path1 if ci_ % 4 == 3 else path0
        if path is path1 and alt is not None:
            res.count("destination_on_another_file_system_than_tempdir")
        try:
            os.unlink(path)
        except FileNotFoundError:
            pass
        c.real_save = real_save(c.schema, c.data, path)
        c.real_read = real_read(path) if c.real_save[0] == "ok" else None
        o = Oracle()
        o.seed_cells(c.data, c.schema)
        reqs.append(("scsv-save", o, schema_toks(c.schema) + " " + data_toks(c.data)))
        res.evaluations += 1
    outs = run_oracle_requests(reqs)
    rreqs, ridx = [], []
    for i, (c, out) in enumerate(zip(cases, outs)):
        t = out.split()
        c.model_save = ("ok", bytes.fromhex(t[1][1:])) if t[0] == "ok" else ("err", t[1])
        if c.real_save[0] == "ok":
            try:
                text = c.real_save[1].decode("utf-8")
            except UnicodeDecodeError:
                continue
            ridx.append(i)
            rreqs.append(("scsv-read", reqs[i][1], "t" + hx(text)))
    for i, out in zip(ridx, run_oracle_requests(rreqs)):
        cases[i].model_read = parse_table(out)
    # which hypotheses of the Lean round-trip theorem does the input violate? (executable `domainFailures`,
    # proved sound: an empty list implies the round trip in the model)
    didx = [i for i, c in enumerate(cases) if c.expect == "roundtrip"]
    douts = run_oracle_requests([("scsv-domain", reqs[i][1], reqs[i][2]) for i in didx])
    for i, out in zip(didx, douts):
        cases[i].domain = out.split()[1:]
    for c in cases:
        rep = summarise(c.schema, c.data)
        rep["case"] = c.key
        # ---- correspondence
        if c.model_save == ("err", "unmodelled"):
            res.count(f"{c.stream}:unmodelled(save)")
        elif c.model_save == c.real_save:
            res.traces += 1
        else:
            show = lambda r: r[1] if r[0] == "err" else r[1][:400].decode("utf-8", "replace")  # noqa: E731
            res.mismatch("K29 save_scsv", rep, show(c.real_save), show(c.model_save), note=c.key)
        if c.real_read is not None and c.model_read is not None:
            if c.model_read == ("err", "unmodelled"):
                res.count(f"{c.stream}:unmodelled(read)")
            elif c.model_read == c.real_read:
                res.traces += 1
            else:
                res.mismatch("K30 read_scsv", rep, _short(c.real_read), _short(c.model_read), note=c.key)
        # ---- the statement, on the real outputs
        outcome = c.real_save[1] if c.real_save[0] == "err" else ("read:" + c.real_read[1] if c.real_read[0] == "err" else "ok")
        res.count(f"{c.stream}:outcome:{outcome}")
        if c.expect == "roundtrip":
            want = expected_table(c.schema, c.data)
            inside = c.domain == []
            res.count(f"{c.stream}:proved_domain:" + ("inside" if inside else "outside:" + ",".join(c.domain)))
            if inside and (c.real_save[0] == "err" or c.real_read != want):
                # the theorem (about the model) promises the round trip here: the model and the code disagree
                res.mismatch("proved domain vs implementation", rep, _short(c.real_read) if c.real_read else c.real_save[1],
                             "domainFailures = [] (save_read_roundtrip applies)", note=c.key)
            if c.stream == "hypothesis" and c.key.startswith("roundtrip:") and inside:
                res.mismatch("hypothesis replay inside the proved domain", rep, c.key, "domainFailures = []")
            if c.real_save[0] == "err":
                res.violation(c.key, f"valid schema and representable data refused by save_scsv with {c.real_save[1]}", rep)
            elif c.real_read != want:
                res.violation(c.key, "read_scsv(save_scsv(data)) differs from the data with fill substitution: "
                              + _diff(want, c.real_read), rep)
            elif c.stream in ("valid", "terse"):
                bad = _written_cells_check(c)
                if bad:
                    res.violation(c.key + ":written_cells", "the file does not hold the missing marker exactly for the cells equal to the fill: " + bad, rep)
        elif c.expect == "scsv":
            if c.real_save != ("err", "SCSVError"):
                got = c.real_save[1] if c.real_save[0] == "err" else "no error"
                res.violation(f"{c.key}:{got}", f"single fault `{c.key}` is not refused with SCSVError (got {got})", rep)
    return cases


def _written_cells_check(c):
    """the clause `cells equal to a field's fill value are written as the missing marker`, read off the real file
    (CSV part parsed with the csv module, no model involved)"""
    text = c.real_save[1].decode("utf-8")
    d = c.schema["delimiter"]
    if "\r" in text or d in '"\n\r ':
        return ""
    lines = text.split("\n")
    k = lines.index("---", 1)
    rows = list(csv.reader(_pyio.StringIO("\n".join(lines[k + 1:])), delimiter=d))[1:]
    m = c.schema["missing"]
    for j, (f, col) in enumerate(zip(c.schema["fields"], c.data)):
        t = f.get("type", "string")
        for i, cell in enumerate(col):
            want = m if (t != "boolean" and _is_fill(t, f.get("fill", ""), cell)) else str(cell)
            if rows[i][j] != want:
                return f"column {j} row {i}: file has {rows[i][j]!r}, expected {want!r}"
    return ""


def _short(r):
    if r[0] == "err":
        return r[1]
    return {"names": r[1], "cols": [c[:8] for c in r[2]][:8]}


def _diff(want, got):
    if got[0] == "err":
        return f"read_scsv raised {got[1]}"
    if want[1] != got[1]:
        return f"names {got[1]!r} != {want[1]!r}"
    for j, (a, b) in enumerate(zip(want[2], got[2])):
        for i, (x, y) in enumerate(zip(a, b)):
            if x != y:
                return f"column {j} row {i}: wrote {x} read {y}"
        if len(a) != len(b):
            return f"column {j}: {len(a)} rows written, {len(b)} read"
    return f"{len(want[2])} columns written, {len(got[2])} read"


def read_fault_cases(rng, cases, res):
    """single-fault corruptions of a FILE written by save_scsv; read_scsv is expected to raise SCSVError"""
    out = []
    for c in cases:
        if c.real_save[0] != "ok" or c.real_read is None or c.real_read[0] != "ok":
            continue
        d = c.schema["delimiter"]
        text = c.real_save[1].decode("utf-8")
        if "\r" in text or d in '"\n\r ':
            continue
        lines = text.split("\n")
        try:
            k = lines.index("---", 1)
        except ValueError:
            continue
        head, body = lines[:k + 1], "\n".join(lines[k + 1:])
        rows = list(csv.reader(_pyio.StringIO(body), delimiter=d))
        if len(rows) < 2:
            continue
        ncol = len(rows[0])

        def emit(rows):
            buf = _pyio.StringIO()
            w = csv.writer(buf, delimiter=d, lineterminator="\n")
            for r in rows:
                w.writerow(r)
            return "\n".join(head) + "\n" + buf.getvalue()

        kind = str(rng.choice(["ragged", "ragged_longer", "ragged_duplicated_cell", "more_columns", "fewer_columns", "unparseable_cell", "header_name",
                               "schema_type", "schema_nofill"]))
        rows2 = [list(r) for r in rows]
        if kind == "ragged" and ncol >= 2:
            rows2[int(rng.integers(1, len(rows2)))].pop()
        elif kind == "ragged_longer" and len(rows2) >= 3:
            rows2[int(rng.integers(1, len(rows2)))].append("x")          # ONE data row with a surplus cell (the others are fine)
        elif kind == "ragged_duplicated_cell" and len(rows2) >= 3:
            r_ = rows2[int(rng.integers(1, len(rows2)))]
            j_ = int(rng.integers(0, len(r_)))
            r_.insert(j_, r_[j_])                                          # a cell typed twice: the rest of the row shifts right
        elif kind == "more_columns":
            for r in rows2[1:]:
                r.append("x")
        elif kind == "fewer_columns" and ncol >= 2:
            for r in rows2[1:]:
                r.pop()
        elif kind == "unparseable_cell":
            js = [j for j, f in enumerate(c.schema["fields"]) if f.get("type", "string") in ("integer", "float", "complex")]
            if not js or c.schema["missing"] == "foo":
                continue
            rows2[int(rng.integers(1, len(rows2)))][int(rng.choice(js))] = "foo"
        elif kind == "header_name":
            rows2[0][int(rng.integers(0, ncol))] += "x"
        elif kind == "schema_type":
            idx = [i for i, l in enumerate(head) if l.startswith("      type: ")]
            i = int(rng.choice(idx))
            head = head[:i] + ["      type: integr"] + head[i + 1:]
        elif kind == "schema_nofill":
            idx = [i for i, l in enumerate(head) if l.startswith("      fill: ") and
                   (head[i - 1].startswith("      type: ") and head[i - 1][12:] in ("integer", "float", "complex")
                    or head[i - 2].startswith("      type: ") and head[i - 2][12:] in ("integer", "float", "complex"))]
            if not idx:
                continue
            i = int(rng.choice(idx))
            head = head[:i] + head[i + 1:]
        else:
            continue
        out.append((kind, emit(rows2), c))
    path = str(TMP / "readfault.scsv")
    reqs, reals = [], []
    for kind, text, c in out:
        pathlib.Path(path).write_bytes(text.encode("utf-8"))
        reals.append(real_read(path))
        reqs.append(("scsv-read", Oracle(), "t" + hx(text)))
        res.evaluations += 1
    for (kind, text, c), real, o in zip(out, reals, run_oracle_requests(reqs)):
        model = parse_table(o)
        rep = {"case": "read_fault:" + kind, "file": text[:1500]}
        res.count("read_fault:" + kind)
        res.count("read_fault:outcome:" + (real[1] if real[0] == "err" else "ok"))
        if model == ("err", "unmodelled"):
            res.count("read_fault:unmodelled")
        elif model == real:
            res.traces += 1
        else:
            res.mismatch("K30 read_scsv (corrupted file)", rep, _short(real), _short(model), note=kind)
        if real != ("err", "SCSVError"):
            got = real[1] if real[0] == "err" else "no error"
            res.violation(f"fault:read:{kind}:{got}", f"file with a single fault ({kind}) is not refused with SCSVError (got {got})", rep)


# ------------------------------------------------------------------ the modelled externals against CPython / PyYAML
def rand_text(rng, alphabet, maxlen):
    n = int(rng.integers(0, maxlen + 1))
    return "".join(alphabet[int(i)] for i in rng.integers(0, len(alphabet), size=n))


def check_components(rng, res, thorough):
    import yaml
    from pydrex import io as I

    N = 1500 if not thorough else 20000
    # ---- csv.writer
    alpha = list("ab1 ,;|\t\"'\r\n-é") + ["\x0b", "x"]
    lines, wants = [], []
    for _ in range(N):
        d = str(rng.choice(list(",;|\t -a\"'é")))
        row = [rand_text(rng, alpha, 5) for _ in range(int(rng.integers(1, 6)))]
        buf = _pyio.StringIO()
        csv.writer(buf, delimiter=d, lineterminator=os.linesep).writerow(row)
        wants.append(buf.getvalue()[:-1])
        lines.append(f"scsv-csvw s{hx(d)} {len(row)} " + " ".join("s" + hx(f) for f in row))
    for line, want, out in zip(lines, wants, _run_driver(lines)):
        res.evaluations += 1
        if out == "ok t" + hx(want):
            res.traces += 1
        else:
            res.mismatch("csv.writer QUOTE_MINIMAL", line[:200], want, out[:200])
    res.count("component:csv.writer", N)
    # ---- csv.reader on arbitrary lines (not only writer output)
    lines, wants = [], []
    for k in range(N):
        d = str(rng.choice(list(",;|\t -a\"'é")))
        if k % 2:
            text = rand_text(rng, list("ab ,;|\"'\n\n\r-é"), 30)
            ls = text.split("\n")
            ls = [x + "\n" for x in ls[:-1]] + ([ls[-1]] if ls[-1] else [])
        else:  # writer output
            buf = _pyio.StringIO()
            w = csv.writer(buf, delimiter=d, lineterminator="\n")
            for _ in range(int(rng.integers(1, 4))):
                w.writerow([rand_text(rng, alpha, 4) for _ in range(int(rng.integers(1, 5)))])
            ls = [x + "\n" for x in buf.getvalue().split("\n")[:-1]]
        try:
            want = ("ok", list(csv.reader(ls, delimiter=d, skipinitialspace=True)))
        except csv.Error:
            want = ("err", "csvError")
        wants.append(want)
        lines.append(f"scsv-csvr s{hx(d)} " + " ".join("s" + hx(x) for x in ls))
    for line, want, out in zip(lines, wants, _run_driver(lines)):
        res.evaluations += 1
        t = out.split()
        if t[0] == "err":
            got = ("err", t[1])
        else:
            got, i = [], 2
            for _ in range(int(t[1])):
                n = int(t[i + 1])
                got.append([unhx(x[1:]) for x in t[i + 2:i + 2 + n]])
                i += 2 + n
            got = ("ok", got)
        if got == want:
            res.traces += 1
        else:
            res.mismatch("csv.reader skipinitialspace", line[:300], repr(want)[:300], repr(got)[:300])
    res.count("component:csv.reader", N)
    # ---- YAML plain-scalar resolution
    loader = yaml.SafeLoader("")
    words = ["yes", "No", "TRUE", "off", "null", "~", "", "NULL", "Null", "nUll", "y", "n", "on", "ON", "oN", ".inf", "-.INF", ".nan",
             ".NaN", ".Nan", "0", "00", "08", "0o7", "0b1", "0b_", "0x", "0x_", "0xFf", "1_000", "_1", "1__", "+1", "-0", "1:30", "1:60", "1:5:9",
             "190:20:30.15", "1.", ".5", "1e3", "1.0e+3", "1.e-3", "1.5e3", "+.5", "-.5", "._5", "1_.0_", "2001-01-01", "2001-1-1",
             "2001-12-14t21:59:43.10-05:00", "2001-12-14 21:59:43.10 -5", "2001-12-15 2:59:43.10", "2001-12-14T21:59:43Z",
             "2001-13-41", "<<", "=", "NaN", "nan", "inf", "string", "float", "integer", "boolean", "complex", "0_", "0__7", "-0b1_0",
             "+0x_A", "1:00", "-1:30.5", "0.0", "0.", "-", "+", ".", "e3", "1e", "12e03", "1E5", "1.0E+5"]
    texts = list(words)
    for _ in range(N * 2):
        texts.append(rand_text(rng, list("0123456789_.-+:eExXbo ~nulNyesYonfatrTFZ\t=<"), 8))
    lines, wants = [], []
    for s in texts:
        tag = loader.resolve(yaml.ScalarNode, s, (True, False)).rsplit(":", 1)[1]
        if tag in ("bool", "int", "null"):
            try:
                v = loader.construct_object(yaml.ScalarNode("tag:yaml.org,2002:" + tag, s))
                want = {"bool": lambda: f"bool {int(v)}", "int": lambda: f"int {v}", "null": lambda: "null"}[tag]()
            except ValueError:
                want = "error"
        elif tag == "str":
            want = "str s" + hx(s)
        elif tag == "float":
            want = "float s" + hx(s)
        else:
            want = tag
        wants.append(want)
        lines.append("scsv-yplain s" + hx(s))
    for s, want, out in zip(texts, wants, _run_driver(lines)):
        res.evaluations += 1
        if out == want:
            res.traces += 1
        else:
            res.mismatch("YAML implicit resolver", s, want, out)
    res.count("component:yaml.resolve", len(texts))
    # ---- single-quoted scalars: writer side (`_yaml_quoted`) and PyYAML reading them back
    yq = getattr(I, "_yaml_quoted", None)
    texts = [rand_text(rng, list("ab' \t#:%-[]{}\"\\,éλ~") + ["''", "\xa0"], 8) for _ in range(N)]
    lines = ["scsv-ysq s" + hx(s) for s in texts]
    for s, out in zip(texts, _run_driver(lines)):
        res.evaluations += 1
        q = unhx(out.split()[1][1:])
        ok = yaml.safe_load("k: " + q + "\n") == {"k": s} and (yq is None or yq(s) == q)
        if ok:
            res.traces += 1
        else:
            res.mismatch("YAML single-quoted scalar", s, repr(yaml.safe_load("k: " + q + "\n")), q)
    if yq is None:
        res.count("component:_yaml_quoted absent (skipped)")
    res.count("component:yaml.single_quoted", N)
    # scanner direction: arbitrary text after `k: '`
    texts = [rand_text(rng, list("ab' \t#:é"), 8) for _ in range(N)]
    for s, out in zip(texts, _run_driver(["scsv-yscan s" + hx("'" + s) for s in texts])):
        res.evaluations += 1
        t = out.split()
        if t[0] != "ok" or t[2] != "s":
            res.count("component:yaml.scan:not-a-complete-scalar")
            continue
        try:
            got = yaml.safe_load("k: '" + s + "\n")
        except yaml.YAMLError as e:
            got = repr(e)[:60]
        if got == {"k": unhx(t[1][1:])}:
            res.traces += 1
        else:
            res.mismatch("YAML single-quoted scanner", s, repr(got), out)
    # ---- str methods, int(), _parse_scsv_bool, printable, namedtuple
    pool = list("aZ_09 \t\n\r\x0b\x0c\x1c\x1f\x85\xa0 　+-_.éµ·ª²١") + ["yes", "True", "t", "1", "class", "None"]
    texts = [rand_text(rng, pool, 6) for _ in range(N * 2)] + ["", " 12 ", "1_0", "+5", "-0", "1__0", "_1", "1_", "0005", "- 5", "١٢", "²"]
    pb = getattr(I, "_parse_scsv_bool", None)
    lines = ["scsv-str s" + hx(s) for s in texts]
    for s, out in zip(texts, _run_driver(lines)):
        res.evaluations += 1
        ascii_latin = all(ord(ch) < 0x100 or ch.isspace() for ch in s)
        try:
            iv = "i" + str(int(s))
        except ValueError:
            iv = "!"
        try:
            collections.namedtuple("Columns", [s])
            nt = "1"
        except ValueError:
            nt = "0"
        want = ["ok", "s" + hx(s.strip()), str(int(s.isidentifier())), iv, str(int(pb(s))) if pb else None,
                str(int(yaml.reader.Reader.NON_PRINTABLE.search(s) is None)), nt]
        got = out.split()
        if not ascii_latin:
            # outside the modelled code-point range for identifiers / digits: compare strip and printable only
            want[2] = got[2]
            want[3] = got[3]
            want[6] = got[6]
            res.count("component:str:non-latin1 (identifier/int not compared)")
        if want[4] is None:
            want[4] = got[4]
        if got == want:
            res.traces += 1
        else:
            res.mismatch("str.strip/isidentifier/int()/_parse_scsv_bool/printable/namedtuple", s, want, got)
    res.count("component:str", len(texts))
    # ---- character classes over the whole code space
    out = _run_driver(["scsv-charclasses 0 1114112"])[0].split()
    iw, istart, icont = out.index("W"), out.index("S"), out.index("C")
    W = [int(x) for x in out[iw + 1:istart]]
    S0 = [int(x) for x in out[istart + 1:icont]]
    C0 = [int(x) for x in out[icont + 1:]]
    res.evaluations += 3
    if W == [n for n in range(0x110000) if not 0xD800 <= n <= 0xDFFF and chr(n).isspace()]:
        res.traces += 1
    else:
        res.mismatch("str.isspace table", "all code points", "CPython", W)
    if S0 == [n for n in range(0x100) if chr(n).isidentifier()]:
        res.traces += 1
    else:
        res.mismatch("XID_Start table (<0x100)", "0..255", [n for n in range(0x100) if chr(n).isidentifier()], S0)
    if C0 == [n for n in range(0x100) if ("a" + chr(n)).isidentifier()]:
        res.traces += 1
    else:
        res.mismatch("XID_Continue table (<0x100)", "0..255", [n for n in range(0x100) if ("a" + chr(n)).isidentifier()], C0)
    # ---- str(int)
    ints = [gen_int(rng) for _ in range(N)] + [0, -1, 10, -10, 10**30, -(10**30)]
    for i, out in zip(ints, _run_driver([f"scsv-strint {i}" for i in ints])):
        res.evaluations += 1
        if out == "ok s" + hx(str(i)):
            res.traces += 1
        else:
            res.mismatch("str(int)", i, str(i), out)
    # ---- text-mode line iteration with universal newlines
    texts = [rand_text(rng, list("ab\n\r-,"), 12) for _ in range(N)]
    for s, out in zip(texts, _run_driver(["scsv-lines s" + hx(s) for s in texts])):
        res.evaluations += 1
        want = list(_pyio.TextIOWrapper(_pyio.BytesIO(s.encode()), encoding="utf-8", newline=None))
        t = out.split()
        got = [unhx(x[1:]) for x in t[2:]]
        if got == want:
            res.traces += 1
        else:
            res.mismatch("text-mode line iteration", s, want, got)
    res.count("component:lines", N)
    # ---- parse_scsv_schema (terse notation)
    pt = getattr(I, "parse_scsv_schema", None)
    if pt is None:
        res.count("component:parse_scsv_schema absent (skipped)")
    else:
        texts = ["d,m-:colA(s)colB(s:N/A:...)colC()colD(i:999999)colE(f:NaN:%)", "", "d", "d,m-:", "d,m-:a", "d,m-:a(", "d,m-:a()",
                 "d,m-:a()b", "d,m-:a()b(", "x,m-:a()", "d,m:a()", "dmm-:a()", "d,,m:a()", "d:m-:a()", "d,m-a()", "d,m-:a(x)", "d,m-:a(s:1:2:3)",
                 "d,m-:a(s:1:2)junk", "d,m-:(s)", "d,m-:a(:fill)", "d,m-:a(::unit)", "d,m-:a)b(", "d\tmNA:a(f:NaN)", "d,m-:a((s))"]
        for _ in range(N):
            r = rng.random()
            if r < 0.5:
                dl = str(rng.choice([",", ";", "|", "\t", ",,", "d", " "])) if rng.random() < 0.85 else str(rng.choice(["m", ":", ""]))
                ms = str(rng.choice(["-", "NA", "--", "N/A", "?", "nan"])) if rng.random() < 0.85 else str(rng.choice(["", "m", "x:y", "("]))
                t = "d" + dl + "m" + ms + ":"
                for _k in range(int(rng.integers(1, 6)) if rng.random() < 0.9 else 0):
                    name = rand_text(rng, list("abC_1 ():"), 4) if rng.random() < 0.2 else rand_text(rng, list("abcXYZ_01"), 5)
                    spec = str(rng.choice(["", "s", "i", "f", "b", "c", "s", "i", "f", "b", "c", "", "x", "si", "S"]))
                    if rng.random() < 0.7:
                        spec += ":" + rand_text(rng, list("NaN-019./ "), 4)
                        if rng.random() < 0.5:
                            spec += ":" + rand_text(rng, list("m/s% :()"), 4)
                            if rng.random() < 0.1:
                                spec += ":extra"
                    t += name + "(" + spec + ")"
                if rng.random() < 0.1:
                    t += rand_text(rng, list("ab()"), 3)
                texts.append(t)
            else:
                texts.append(rand_text(rng, list("d,m-:()sifbc aN/"), 14))
        wants = []
        for t in texts:
            try:
                sch = pt(t)
                want = "ok s" + hx(sch["delimiter"]) + " s" + hx(sch["missing"]) + " " + str(len(sch["fields"])) + " " + " ".join(
                    "s" + hx(f["name"]) + " s" + hx(f["type"]) + " " + ("s" + hx(f["unit"]) if "unit" in f else "-") + " s" + hx(f["fill"])
                    for f in sch["fields"])
            except Exception as e:  # noqa: BLE001
                want = "err " + _classify(e)
            wants.append(want)
        for t, want, out in zip(texts, wants, _run_driver(["scsv-terse s" + hx(t) for t in texts])):
            res.evaluations += 1
            res.count("component:parse_scsv_schema:" + ("ok" if want.startswith("ok") else want))
            if out.strip() == want.strip():
                res.traces += 1
            else:
                res.mismatch("parse_scsv_schema", t, want, out)
    # ---- _validate_scsv_schema and _parse_scsv_cell directly
    val = getattr(I, "_validate_scsv_schema", None)
    pc = getattr(I, "_parse_scsv_cell", None)
    if val is None or pc is None:
        res.count("component:private helpers absent (skipped)")
        return
    lines, wants = [], []
    for _ in range(N):
        s, d = gen_valid(rng, False, nrows=1)
        r = rng.random()
        if r < 0.6:
            fc = fault_cases(rng, False)
            _, s, _ = fc[int(rng.integers(0, len(fc)))]
        try:
            want = "ok " + str(int(bool(val(s))))
        except Exception as e:  # noqa: BLE001
            want = "err " + _classify(e)
        wants.append(want)
        lines.append("scsv-validate " + schema_toks(s))
    for line, want, out in zip(lines, wants, _run_driver(lines)):
        res.evaluations += 1
        res.count("component:validate:" + want)
        if out == want:
            res.traces += 1
        else:
            res.mismatch("K31 _validate_scsv_schema", line[:300], want, out)
    cellpool = ["yes", "Yes", " yes", "true", "TRUE", "t", "T", "1", "0", "no", "", " ", "-", " - ", "NaN", "nan", "12", " 12 ", "1_0",
                "+5", "1.5", "1e3", "inf", "-inf", "(1+2j)", "1+2j", "j", "1j", "foo", "0x10", "١٢", "1 2", "--", "N/A"]
    reqs, wants = [], []
    for _ in range(N):
        ty = str(rng.choice(["str", "int", "float", "bool", "complex"]))
        data = str(rng.choice(cellpool)) if rng.random() < 0.8 else rand_text(rng, pool, 5)
        missing = str(rng.choice(["-", "", "NaN", "N/A", " -", data.strip()]))
        fill = [ "", "NaN", "0", "1.5", "abc", "1+2j", 7, 2.5, float("nan")][int(rng.integers(0, 9))]
        if not all(ord(ch) < 0x100 or ch.isspace() for ch in data):
            continue
        try:
            want = "ok " + canon(pc(PYTYPE[{"str": "string", "int": "integer", "float": "float", "bool": "boolean", "complex": "complex"}[ty]],
                                    data, missingstr=missing, fillval=fill))
        except Exception as e:  # noqa: BLE001
            want = "err " + _classify(e)
        wants.append(want)
        reqs.append(("scsv-parsecell", Oracle(), f"{ty} s{hx(data)} s{hx(missing)} {fill_tok(fill)}"))
    # parsecell asks the externals directly; supply every text up front
    for (op, o, tail) in reqs:
        toks = tail.split()
        for text in (unhx(toks[1][1:]), unhx(toks[3][1:]) if toks[3][0] == "s" else None):
            if text is not None:
                for t2 in (text, text.strip()):
                    o.add("p" + hx(t2))
                    o.add("q" + hx(t2))
        if toks[3][0] == "f":
            o.add("r" + toks[3][1:])
            rep = unhx(o.e["r" + toks[3][1:]])
            o.add("p" + hx(rep))
            o.add("q" + hx(rep))
    for (op, o, tail), want, out in zip(reqs, wants, run_oracle_requests(reqs)):
        res.evaluations += 1
        if out == "err unmodelled":
            res.count("component:parsecell:unmodelled")
        elif out == want:
            res.traces += 1
        else:
            res.mismatch("K31 _parse_scsv_cell", tail[:200], want, out)
    res.count("component:parsecell", len(reqs))


# ------------------------------------------------------------------ entry points
def validate_external_spec(res, cases):
    """the assumed spec of the CPython externals, checked on every float/complex cell generated:
    float(repr(x)) == x bit for bit (NaN canonical), complex(str(z)) == z, and the texts are clean."""
    clean = set("0123456789+-.einfa")
    n = 0
    for c in cases:
        for col in c.data:
            for d in col:
                if isinstance(d, (float, np.floating)) and not isinstance(d, (bool, np.bool_)):
                    s = repr(float(d))
                    ok = fbits(float(s)) == fbits(d) and set(s) <= clean and s == s.strip() and s != ""
                elif isinstance(d, (complex, np.complexfloating)):
                    s = str(complex(d))
                    z = complex(s)
                    ok = fbits(z.real) == fbits(d.real) and fbits(z.imag) == fbits(d.imag) and set(s) <= clean | set("()j") and s != ""
                else:
                    continue
                n += 1
                if not ok:
                    res.mismatch("external spec parse(repr x) = x", repr(d), s, "violated")
    res.count("external_spec:cells_checked", n)
    res.traces += 1 if n else 0


def run(ctx, res):
    silence()
    thorough = ctx["thorough"]
    rng = np.random.default_rng(ctx["seed"] + 1616)
    if TMP.exists():
        shutil.rmtree(TMP, ignore_errors=True)
        _alt = _other_device_dir()
        if _alt is not None:
            shutil.rmtree(_alt, ignore_errors=True)
    TMP.mkdir(parents=True, exist_ok=True)
    res.rule = ("type-directed schemas (1..8 fields over string/integer/float/boolean/complex; 40 delimiters; 30 missing markers; "
                "fills incl. '' and NaN; str/int/float fill objects), rows 1..40 (quick) / up to 1e4 (thorough); streams: valid "
                "(statement evaluated), hypothesis replays (one extra hypothesis of the Lean theorem violated), single faults "
                "(save and file level), exotic (model-vs-code only); every case is distinct by content hash and non-trivial "
                "(>= 1 row written through the four layers)")
    try:
        # ---- valid stream
        n_valid = 600 if not thorough else 9000
        cases = []
        for k in range(n_valid):
            s, d = gen_valid(rng, thorough, numpy_cols=(k % 7 == 3))
            cases.append(Case("valid", "roundtrip:valid_stream", s, d, "roundtrip"))
        big = [300, 1000, 2500] if not thorough else [1000, 3000, 10000, 10000, 10000, 7777]
        for nr in big:
            s, d = gen_valid(rng, thorough, nrows=nr, numpy_cols=(nr == 1000))
            cases.append(Case("valid", "roundtrip:valid_stream", s, d, "roundtrip"))
        for c in cases:
            res.count("valid:fields", 0)
            res.count(f"valid:nfields={len(c.schema['fields'])}")
            nr = len(c.data[0])
            res.count("valid:rows<=5" if nr <= 5 else "valid:rows<=40" if nr <= 40 else "valid:rows<=1000" if nr <= 1000 else "valid:rows>1000")
            res.count("valid:delimiter=" + ("comma" if c.schema["delimiter"] == "," else repr(c.schema["delimiter"])))
            res.count("valid:missing=" + repr(c.schema["missing"]))
            for f, col in zip(c.schema["fields"], c.data):
                t = f.get("type", "string")
                res.count("valid:type=" + t)
                fv = f.get("fill", ABSENT)
                res.count("valid:fill=" + ("absent" if fv is ABSENT else type(fv).__name__ + ":" + repr(fv)[:12]))
                exp = expected_column(t, f.get("fill", ""), col)
                res.count("valid:cells", len(exp))
                res.count("valid:cells_substituted", sum(1 for a, b in zip(exp, col) if t != "boolean" and a != canon(PYTYPE[t](b))
                                                         or (t not in ("boolean",) and _is_fill(t, f.get("fill", ""), b))))
            res.nontrivial((c.schema["delimiter"], c.schema["missing"], repr(c.schema["fields"]), repr([list(map(_jsonable_cell, col[:50])) for col in c.data])))
        process(cases, res, "valid")
        validate_external_spec(res, cases)
        for c in cases[:3]:
            res.sample({"stream": "valid", **summarise(c.schema, c.data), "bytes_written": len(c.real_save[1]) if c.real_save[0] == "ok" else None})
        read_fault_cases(rng, cases[: (250 if not thorough else 3000)], res)
        # ---- schemas produced by the real terse parser
        tcases = []
        for t, s, d in terse_cases(rng, 80 if not thorough else 1500):
            tcases.append(Case("terse", "roundtrip:terse_schema", s, d, "roundtrip"))
            res.count("terse:fields", len(s["fields"]))
            res.count("terse:string_fields_with_default_fill", sum(1 for f in s["fields"] if f["type"] == "string" and f["fill"] == ""))
            res.nontrivial((t, repr(d)))
        process(tcases, res, "terse")
        if tcases:
            res.sample({"stream": "terse", "schema_from": "parse_scsv_schema", **summarise(tcases[0].schema, tcases[0].data)})
        # ---- hypothesis replays
        hcases = []
        for _ in range(5 if not thorough else 60):
            for key, s, d in hypothesis_cases(rng):
                hcases.append(Case("hypothesis", key, s, d, "roundtrip"))
                res.count("hypothesis:" + key)
                res.nontrivial((key, repr(s), repr(d)))
        process(hcases, res, "hyp")
        res.sample({"stream": "hypothesis", "keys": sorted({c.key for c in hcases})})
        # ---- single faults
        fcases = []
        for _ in range(30 if not thorough else 400):
            for key, s, d in fault_cases(rng, thorough):
                fcases.append(Case("fault", "fault:" + key, s, d, "scsv"))
                res.count("fault:" + key)
                res.nontrivial((key, repr(s), repr(d)[:2000]))
        process(fcases, res, "fault")
        # ---- exotic
        ecases = []
        for _ in range(4 if not thorough else 40):
            for key, s, d in exotic_cases(rng):
                ecases.append(Case("exotic", key, s, d, None))
                res.count("exotic:" + key)
        process(ecases, res, "exotic")
        # ---- modelled externals
        check_components(rng, res, thorough)
    finally:
        shutil.rmtree(TMP, ignore_errors=True)
        _alt = _other_device_dir()
        if _alt is not None:
            shutil.rmtree(_alt, ignore_errors=True)
        try:
            TMP.parent.rmdir()
        except OSError:
            pass
    # representation- and history-robustness of the public functions (harness/apirobust.py)
    from .. import apirobust_cases as _AC
    _AC.c16(res, np.random.default_rng(ctx["seed"] + 4242), ctx)


def _is_fill(t, fill, d):
    try:
        fv = PYTYPE[t](fill)
    except (ValueError, TypeError):
        return False
    if t == "float":
        return (d != d and fv != fv) or d == fv
    if t == "complex":
        return _same_nan_pattern(complex(d), fv)
    return d == fv


def replay(data):
    """re-run the recorded failing inputs on the real code and print what happens"""
    silence()
    TMP.mkdir(parents=True, exist_ok=True)
    rc = 0
    try:
        for v in data.get("violations", []):
            rep = v["replay"]
            print("violation", v["key"], "-", v["what"][:200])
            if "schema" in rep:
                schema, d = rebuild(rep)
                path = str(TMP / "replay.scsv")
                rs = real_save(schema, d, path)
                print("  save_scsv:", rs[1] if rs[0] == "err" else rs[1].decode("utf-8", "replace"))
                if rs[0] == "ok":
                    rr = real_read(path)
                    print("  read_scsv:", rr[1:] if rr[0] == "ok" else rr[1])
                    try:
                        print("  expected :", expected_table(schema, d)[1:])
                    except Exception as e:  # noqa: BLE001
                        print("  expected : n/a", repr(e))
                rc = 1
            elif "file" in rep:
                path = str(TMP / "replay.scsv")
                pathlib.Path(path).write_text(rep["file"])
                print("  read_scsv:", real_read(path))
                rc = 1
        for b in data.get("unchecked", []):
            print("broken:", C.json.dumps(b)[:3000])
    finally:
        shutil.rmtree(TMP, ignore_errors=True)
        _alt = _other_device_dir()
        if _alt is not None:
            shutil.rmtree(_alt, ignore_errors=True)
    return rc
