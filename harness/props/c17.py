"""C17 — mineral persistence (`Mineral.save`, `Mineral.load`, `Mineral.from_file`).

Correspondence K32: scenarios (sequences of saves of minerals under postfixes into real NPZ files
in a scratch directory, then loads through both loaders) are executed on the real code and sent as
one script per scenario to the Lean driver (`ModelD.Npz`: archive member lists, NpzFile lookup,
savez-replaces / ZipFile-append, stack/unstack). Compared exactly: result of every operation
(exception class or the loaded mineral, token for token by float64 bit patterns) and the member
names of every file afterwards.

The property's own clauses are evaluated on the real objects and files: bitwise restoration of
every snapshot, phase/fabric/regime/grain count, any save order / load order, corrupt states and
non-NPZ names rejected with ValueError with an unchanged directory (listing + sha256 of every file).
"""
from __future__ import annotations

import hashlib
import json
import os
import pathlib
import shutil
import warnings
import zipfile

import numpy as np

from .. import common as C
from .. import impl

PARTIAL = [
    "ZIP and NPY byte formats (zipfile, numpy.lib.format) are trusted externals: the model treats np.save/np.load of one "
    "array as the identity on (shape, 64-bit tokens); every round trip of the real files is compared by bytes",
    "dtype is not modelled (float64 data, uint8 meta); the harness checks the dtypes of what the loaders return",
    "postfixes are valid Unicode text without surrogates whose member names fit ZIP's 65535-byte limit (zipfile raises "
    "UnicodeEncodeError / struct.error otherwise, before any member is completed)",
]
ASSUMPTIONS = [
    "NpzFile.__getitem__ of the installed numpy: exact member name first, then the member whose name minus '.npy' equals "
    "the key; ZipFile.open(name) returns the last member of that name (checked by the duplicate-postfix and '.npy' scenarios)",
]
OPTIMIZED_TWIN = True   # the implementation-side search is repeated under `python -O` (validation must not live in assert / __debug__)
TRUSTED = ["zipfile / numpy.lib.format byte codecs", "the scratch directory /tmp/discrete/c17-* is private to the run"]

SCRATCH_ROOT = pathlib.Path("/tmp/discrete")

SPECIALS = np.array([np.nan, -np.nan, np.inf, -np.inf, 0.0, -0.0, 5e-324, -5e-324, 2.2250738585072014e-308,
                     1.7976931348623157e308, 1.0, -1.0], dtype=np.float64)


def _enc(s):
    if s is None:
        return "-"
    return "S" + ".".join(str(ord(c)) for c in s)


def _arr_tokens(a):
    a = np.ascontiguousarray(a)
    if a.dtype == np.float64:
        bits = a.reshape(-1).view(np.uint64)
    else:
        bits = a.reshape(-1).astype(np.uint64)
    toks = [str(a.ndim)] + [str(d) for d in a.shape] + [str(bits.size)] + [format(int(b), "016x") for b in bits]
    return " ".join(toks)


def _mineral_tokens(phase, fabric, regime, n_grains, fractions, orientations):
    parts = [str(int(phase)), str(int(fabric)), str(int(regime)), str(int(n_grains)), str(len(fractions))]
    parts += [_arr_tokens(a) for a in fractions]
    parts.append(str(len(orientations)))
    parts += [_arr_tokens(a) for a in orientations]
    return " ".join(parts)


def _tok(m):
    return _mineral_tokens(m.phase, m.fabric, m.regime, m.n_grains, m.fractions, m.orientations)


def _contents(rng, shape, kind):
    n = int(np.prod(shape))
    if kind == "bits":  # arbitrary bit patterns (quiet/signalling NaNs with payloads, subnormals, …)
        x = rng.integers(0, 2**64, size=n, dtype=np.uint64).view(np.float64)
    elif kind == "special":
        x = rng.choice(SPECIALS, size=n)
    elif kind == "mixed":
        x = rng.normal(size=n)
        k = rng.integers(0, n + 1)
        idx = rng.choice(n, size=k, replace=False)
        x[idx] = rng.choice(SPECIALS, size=k)
    else:
        x = rng.random(n)
    return np.ascontiguousarray(x.reshape(shape))


def _make_mineral(M, core, rng, combo, n=None, snaps=None, kind=None):
    phase, fabric, regime = combo
    n = int(rng.integers(1, 65)) if n is None else n
    snaps = int(rng.integers(1, 21)) if snaps is None else snaps
    kind = kind or ["plain", "mixed", "special", "bits"][int(rng.integers(0, 4))]
    m = M.Mineral(phase=phase, fabric=fabric, regime=regime, n_grains=n,
                  fractions_init=_contents(rng, (n,), kind), orientations_init=_contents(rng, (n, 3, 3), kind))
    for _ in range(snaps - 1):
        m.fractions.append(_contents(rng, (n,), kind))
        m.orientations.append(_contents(rng, (n, 3, 3), kind))
    return m, kind


POSTFIX_POOL = ["a", "a_b", "b", "x", "", "_", "meta", "fractions", "orientations", "a.npy", ".npy", "0", "a b", " a", "a/b",
                "../x", "é", "日本", "π_1", "A" * 200, "a\\b", "a\nb", "%s", "{0}", "npz", ".npz", "a_", "_a", "a__b"]


def _postfixes(rng, k):
    out = []
    while len(out) < k:
        if rng.random() < 0.6:
            p = POSTFIX_POOL[int(rng.integers(0, len(POSTFIX_POOL)))]
        else:
            L = int(rng.integers(1, 9))
            alphabet = "abcXYZ019_-. /éπ"
            p = "".join(alphabet[int(rng.integers(0, len(alphabet)))] for _ in range(L))
        if p not in out:
            out.append(p)
    return out


def _snapshot_dir(d):
    """listing + sha256 of every file below d"""
    out = {}
    for p in sorted(pathlib.Path(d).rglob("*")):
        if p.is_file():
            out[str(p.relative_to(d))] = hashlib.sha256(p.read_bytes()).hexdigest()
        else:
            out[str(p.relative_to(d)) + "/"] = "dir"
    return out


def _exc_name(e):
    n = type(e).__name__
    return n


def _same_bits(a, b):
    a = np.asarray(a)
    b = np.asarray(b)
    return a.shape == b.shape and a.dtype == b.dtype and a.tobytes() == b.tobytes()


def _check_restored(res, how, orig, got, rep):
    """the statement of C17 on a real loaded object"""
    for field in ("phase", "fabric", "regime"):
        if int(getattr(got, field)) != int(getattr(orig, field)) or not (getattr(got, field) == getattr(orig, field)):
            res.violation(f"roundtrip:{how}:{field}", f"{field} not restored: {getattr(got, field)!r} vs {getattr(orig, field)!r}", rep)
    if got.n_grains != orig.n_grains:
        res.violation(f"roundtrip:{how}:n_grains", f"n_grains {got.n_grains} after loading a mineral saved with {orig.n_grains}", rep)
    for name in ("fractions", "orientations"):
        a, b = getattr(orig, name), getattr(got, name)
        if len(a) != len(b):
            res.violation(f"roundtrip:{how}:{name}_count", f"{len(b)} snapshots loaded, {len(a)} saved", rep)
            continue
        for i, (x, y) in enumerate(zip(a, b)):
            if not _same_bits(x, y):
                res.violation(f"roundtrip:{how}:{name}_bits", f"snapshot {i} of {name} not restored bit for bit", rep)
                break


def _scenarios(ctx, res, M, core, root):
    rng = np.random.default_rng(ctx["seed"] + 1717)
    thorough = ctx["thorough"]
    combos = [(p, f, r) for p in core.MineralPhase for f in core.MineralFabric for r in core.DeformationRegime]
    n_scen = 80 if not thorough else 1500
    lines, expected, reps = [], [], []
    ci = 0
    for s in range(n_scen):
        k = int(rng.integers(1, 9))
        small = (s % 3 != 0)
        pfs = _postfixes(rng, k)
        minerals = []
        for j in range(k):
            long_history = (s % 20 == 7 and j == 0)        # 255, 256, 257, 300 ... snapshots (counts that do not fit in a byte)
            m, kind = _make_mineral(M, core, rng, combos[ci % len(combos)],
                                    n=(int(rng.integers(1, 4)) if long_history else int(rng.integers(1, 9))) if (small or long_history) else None,
                                    snaps=int(rng.choice([255, 256, 257, 300, 700])) if long_history else (int(rng.integers(1, 5)) if small else None))
            ci += 1
            minerals.append(m)
            res.count("contents:" + kind)
        whole = (s % 4 == 1)
        resave = (s % 5 == 2)   # one postfix saved twice (a later mineral replaces an earlier one)
        fname = root / f"s{s}" / ("deep/" if s % 7 == 0 else "") / f"arch{s}.npz"
        fstr = str(fname)
        rel = f"arch{s}.npz"
        order = list(rng.permutation(k))
        ops = []   # (kind, args)
        script = []
        exp = []
        rep = {"kind": "scenario", "scenario": s, "postfixes": pfs, "save_order": [int(i) for i in order], "whole_file_first": whole,
               "n_grains": [m.n_grains for m in minerals], "snapshots": [len(m.fractions) for m in minerals], "seed": ctx["seed"]}
        m0 = None
        with warnings.catch_warnings():
            warnings.simplefilter("ignore")
            # the whole-file save comes first, or (every other such scenario) somewhere in the middle,
            # where it replaces the archive: postfixes saved before it are gone
            whole_pos = 0 if (not whole or s % 8 == 1) else int(rng.integers(0, k + 1))
            last = {}
            lost = set()
            for pos, i in enumerate(list(order) + [None]):
                if whole and pos == whole_pos:
                    m0, _ = _make_mineral(M, core, rng, combos[ci % len(combos)], n=int(rng.integers(1, 9)), snaps=int(rng.integers(1, 4)))
                    ci += 1
                    m0.save(fstr)
                    script.append(f"SAVE {_enc(rel)} - {_tok(m0)}")
                    exp.append("ok")
                    lost |= set(last)
                    last = {}
                    if pos > 0:
                        res.count("scenario:whole_file_save_in_the_middle")
                if i is None:
                    break
                lost.discard(pfs[i])
                minerals[i].save(fstr, postfix=pfs[i])
                script.append(f"SAVE {_enc(rel)} {_enc(pfs[i])} {_tok(minerals[i])}")
                exp.append("ok")
                last[pfs[i]] = minerals[i]
            if resave:
                i = int(order[-1])
                extra, _ = _make_mineral(M, core, rng, combos[ci % len(combos)], n=int(rng.integers(1, 9)), snaps=int(rng.integers(1, 4)))
                ci += 1
                extra.save(fstr, postfix=pfs[i])
                script.append(f"SAVE {_enc(rel)} {_enc(pfs[i])} {_tok(extra)}")
                exp.append("ok")
                last[pfs[i]] = extra
                res.count("scenario:postfix_saved_twice")
        res.evaluations += 1
        res.count(f"scenario:minerals={k}")
        res.count("scenario:whole_file_first" if whole else "scenario:postfix_only")
        # loads in a random order through both loaders
        targets = [(pf, last.get(pf)) for pf in pfs] + ([(None, m0)] if whole else [])
        for t in rng.permutation(len(targets)):
            pf, orig = targets[int(t)]
            for how in ("from_file", "load"):
                if orig is None:
                    # saved before a whole-file save replaced the archive: not recoverable (modelled, outside the property)
                    n_t = 2
                    try:
                        if how == "from_file":
                            got = M.Mineral.from_file(fstr, postfix=pf)
                        else:
                            got = M.Mineral(n_grains=n_t)
                            got.load(fstr, postfix=pf)
                        exp.append("ok " + _tok(got))   # only through numpy's ".npy" fallback
                    except Exception as e:
                        exp.append(_exc_name(e))
                    script.append(f"FROM {_enc(rel)} {_enc(pf)}" if how == "from_file" else f"LOAD {_enc(rel)} {_enc(pf)} {n_t}")
                    res.count("load:replaced_by_whole_file_save")
                    continue
                try:
                    if how == "from_file":
                        got = M.Mineral.from_file(fstr, postfix=pf)
                        script.append(f"FROM {_enc(rel)} {_enc(pf)}")
                    else:
                        n_t = int(rng.integers(1, 6))
                        got = M.Mineral(n_grains=n_t)
                        got.load(fstr, postfix=pf)
                        script.append(f"LOAD {_enc(rel)} {_enc(pf)} {n_t}")
                    exp.append("ok " + _tok(got))
                    _check_restored(res, how, orig, got, dict(rep, postfix=pf))
                    for a in list(got.fractions) + list(got.orientations):
                        if a.dtype != np.float64:
                            res.violation(f"roundtrip:{how}:dtype", f"loaded array has dtype {a.dtype}", dict(rep, postfix=pf))
                            break
                except Exception as e:
                    exp.append(_exc_name(e))
                    res.violation(f"roundtrip:{how}:raised_{_exc_name(e)}", f"loading a saved mineral raised {e!r}", dict(rep, postfix=pf))
                res.evaluations += 1
        # a postfix that was never saved, and the ".npy" fallback of NpzFile
        for pf in ("never_saved_" + str(s),):
            try:
                M.Mineral.from_file(fstr, postfix=pf)
                exp.append("ok ?")
            except Exception as e:
                exp.append(_exc_name(e))
            script.append(f"FROM {_enc(rel)} {_enc(pf)}")
        script.append("LS")
        names = zipfile.ZipFile(fstr).namelist()
        exp.append("ls " + _enc(rel) + ":" + ",".join(_enc(n) for n in names))
        lines.append("npz_run " + " ".join(script))
        expected.append(exp)
        reps.append(rep)
        res.nontrivial(("scenario", s, tuple(pfs), tuple(int(i) for i in order), whole))
        if s < 3:
            res.sample({"scenario": s, "postfixes": pfs, "save_order": [int(i) for i in order], "whole_file_first": whole,
                        "n_grains": rep["n_grains"], "snapshots": rep["snapshots"], "members": names[:9]})
    outs = C.run_driver(lines)
    for exp, out, rep in zip(expected, outs, reps):
        got = out.split(" | ")
        if got == exp:
            res.traces += len(exp)
        else:
            bad = next((i for i, (a, b) in enumerate(zip(exp, got)) if a != b), min(len(exp), len(got)))
            res.mismatch("K32 save/load script", dict(rep, op_index=bad),
                         (exp[bad] if bad < len(exp) else "(missing)")[:300], (got[bad] if bad < len(got) else "(missing)")[:300])


def _corrupt_and_names(ctx, res, M, core, root):
    rng = np.random.default_rng(ctx["seed"] + 71)
    combos = [(p, f, r) for p in core.MineralPhase for f in core.MineralFabric for r in core.DeformationRegime]
    d = root / "corrupt"
    d.mkdir(parents=True, exist_ok=True)
    good, _ = _make_mineral(M, core, rng, combos[0], n=4, snaps=2, kind="plain")
    good.save(str(d / "existing.npz"))
    good.save(str(d / "existing.npz"), postfix="p")
    lines, expected, reps = [], [], []
    n_rounds = 8 if not ctx["thorough"] else 150

    def corrupt(kind):
        n = int(rng.integers(2, 9))
        snaps = int(rng.integers(2, 5))
        m, _ = _make_mineral(M, core, rng, combos[int(rng.integers(0, len(combos)))], n=n, snaps=snaps, kind="plain")
        if kind == "extra_fraction_snapshot":
            m.fractions.append(np.ones(n))
        elif kind == "extra_orientation_snapshot":
            m.orientations.append(np.ones((n, 3, 3)))
        elif kind == "n_grains_differs":
            m.n_grains = n + int(rng.choice([-1, 1, 5]))
        elif kind == "first_fraction_size":
            m.fractions[0] = np.ones(n + 1)
        elif kind == "first_orientation_size":
            m.orientations[0] = np.ones((n - 1, 3, 3))
        elif kind == "ragged_fraction":
            m.fractions[-1] = np.ones(n + 2)
        elif kind == "ragged_orientation":
            m.orientations[-1] = np.ones((n + 2, 3, 3))
        elif kind == "later_snapshot_other_n":
            m.fractions[-1] = np.ones(n + 3)
            m.orientations[-1] = np.ones((n + 3, 3, 3))
        elif kind == "all_orientations_other_n":       # consistently wrong: nothing ragged for numpy to trip over
            k_ = int(rng.choice([-1, 2, 3]))
            m.orientations = [np.ones((n + k_, 3, 3)) for _ in m.orientations]
        elif kind == "all_fractions_other_n":
            k_ = int(rng.choice([-1, 2, 3]))
            m.fractions = [np.ones(n + k_) for _ in m.fractions]
        elif kind == "later_snapshot_one_grain":      # sizes that numpy would silently broadcast over the grains
            m.fractions[-1] = np.ones(1)
            m.orientations[-1] = np.ones((1, 3, 3))
        elif kind == "later_fraction_one_grain":
            m.fractions[-1] = np.ones(1)
        elif kind == "later_orientation_one_grain":
            m.orientations[-1] = np.ones((1, 3, 3))
        return m

    kinds = ["extra_fraction_snapshot", "extra_orientation_snapshot", "n_grains_differs", "first_fraction_size",
             "first_orientation_size", "ragged_fraction", "ragged_orientation", "later_snapshot_other_n",
             "later_snapshot_one_grain", "later_fraction_one_grain", "later_orientation_one_grain",
             "all_orientations_other_n", "all_fractions_other_n"]
    for r in range(n_rounds):
        for kind in kinds:
            m = corrupt(kind)
            for target, pf in (("new.npz", None), ("new.npz", "q"), ("existing.npz", None), ("existing.npz", "p"),
                               ("sub/dir/new.npz", "q")):
                before = _snapshot_dir(d)
                rep = {"kind": "corrupt", "fault": kind, "file": target, "postfix": pf, "n_grains": m.n_grains,
                       "fraction_shapes": [list(a.shape) for a in m.fractions], "orientation_shapes": [list(a.shape) for a in m.orientations]}
                try:
                    with warnings.catch_warnings():
                        warnings.simplefilter("ignore")
                        m.save(str(d / target), postfix=pf)
                    outcome = "ok"
                    res.violation(f"corrupt:{kind}:not_rejected", "save accepted a corrupt mineral", rep)
                except ValueError:
                    outcome = "ValueError"
                except Exception as e:
                    outcome = _exc_name(e)
                    res.violation(f"corrupt:{kind}:raised_{outcome}", f"corrupt mineral rejected with {outcome}, not ValueError", rep)
                after = _snapshot_dir(d)
                if after != before:
                    res.violation(f"corrupt:{kind}:wrote", f"directory changed although save raised: {sorted(set(after.items()) ^ set(before.items()))[:4]}", rep)
                    # restore for the next case
                    shutil.rmtree(d)
                    d.mkdir(parents=True)
                    good.save(str(d / "existing.npz"))
                    good.save(str(d / "existing.npz"), postfix="p")
                res.evaluations += 1
                res.count("corrupt:" + kind)
                res.nontrivial(("corrupt", kind, target, pf, r))
                lines.append(f"npz_run SAVE {_enc(target)} {_enc(pf)} {_tok(m)} LS")
                expected.append([outcome, "ls "])
                reps.append(rep)
    # ---- file names
    bad_names = ["x.dat", "x", "x.npz.bak", "x.NPZ", "x.npy", "npz", "x.npz ", ""]
    for bn in bad_names:
        path = str(d / bn) if bn else ""
        for pf in (None, "p"):
            rep = {"kind": "filename", "name": bn, "postfix": pf}
            before = _snapshot_dir(d)
            for how in ("from_file", "load", "save"):
                try:
                    if how == "from_file":
                        M.Mineral.from_file(path, postfix=pf)
                    elif how == "load":
                        M.Mineral(n_grains=2).load(path, postfix=pf)
                    else:
                        with warnings.catch_warnings():
                            warnings.simplefilter("ignore")
                            good.save(path, postfix=pf)
                    res.violation(f"filename:{how}:accepted", f"{how} accepted the non-NPZ file name {bn!r}", rep)
                    outcome = "ok"
                except ValueError:
                    outcome = "ValueError"
                except Exception as e:
                    outcome = _exc_name(e)
                    res.violation(f"filename:{how}:raised_{outcome}", f"{how}({bn!r}) raised {outcome}, not ValueError", rep)
                res.evaluations += 1
                res.count("filename:" + how)
                if how == "save":
                    lines.append(f"npz_run SAVE {_enc(bn)} {_enc(pf)} {_tok(good)} LS")
                    expected.append([outcome, "ls "])
                else:
                    lines.append(f"npz_run {'FROM' if how == 'from_file' else 'LOAD'} {_enc(bn)} {_enc(pf)}" + (" 2" if how == "load" else ""))
                    expected.append([outcome])
                reps.append(rep)
            after = _snapshot_dir(d)
            if after != before:
                res.violation("filename:save:wrote", f"a file appeared for the non-NPZ name {bn!r}: {sorted(set(after) ^ set(before))}", rep)
                for extra in set(after) - set(before):
                    try:
                        (d / extra).unlink()
                    except Exception:
                        pass
    res.nontrivial(("filenames", len(bad_names)))
    # a pathlib.Path is accepted by save (pinned tests pass one)
    good.save(d / "aspath.npz")
    res.count("filename:pathlib_accepted")
    outs = C.run_driver(lines)
    for exp, out, rep in zip(expected, outs, reps):
        got = out.split(" | ")
        if got == exp:
            res.traces += 1
        else:
            res.mismatch("K32 rejection", rep, exp, got)


def _quirks(ctx, res, M, core, root):
    """numpy/zipfile behaviours the model encodes; and the NUL postfix (known finding)."""
    rng = np.random.default_rng(ctx["seed"] + 5)
    combos = [(p, f, r) for p in core.MineralPhase for f in core.MineralFabric for r in core.DeformationRegime]
    d = root / "quirks"
    d.mkdir(parents=True, exist_ok=True)
    a, _ = _make_mineral(M, core, rng, combos[3], n=3, snaps=2, kind="plain")
    b, _ = _make_mineral(M, core, rng, combos[50], n=5, snaps=1, kind="plain")
    lines, expected = [], []

    def run(script_ops, fname):
        script, exp = [], []
        for op in script_ops:
            if op[0] == "save":
                _, m, pf = op
                try:
                    with warnings.catch_warnings():
                        warnings.simplefilter("ignore")
                        m.save(str(d / fname), postfix=pf)
                    exp.append("ok")
                except Exception as e:
                    exp.append(_exc_name(e))
                script.append(f"SAVE {_enc(fname)} {_enc(pf)} {_tok(m)}")
            else:
                _, pf = op
                try:
                    got = M.Mineral.from_file(str(d / fname), postfix=pf)
                    exp.append("ok " + _tok(got))
                except Exception as e:
                    exp.append(_exc_name(e))
                script.append(f"FROM {_enc(fname)} {_enc(pf)}")
        lines.append("npz_run " + " ".join(script))
        expected.append(exp)
        return exp

    # only "a.npy" saved, "a" requested; both saved in either order
    run([("save", a, "a.npy"), ("from", "a"), ("from", "a.npy"), ("save", b, "a"), ("from", "a"), ("from", "a.npy")], "npy1.npz")
    run([("save", b, "a"), ("save", a, "a.npy"), ("from", "a"), ("from", "a.npy")], "npy2.npz")
    # whole-file save after postfix saves replaces the archive
    run([("save", a, "a"), ("save", b, None), ("from", "a"), ("from", None)], "replace.npz")
    # missing file, missing whole-file entries
    run([("from", None)], "missing.npz")
    run([("save", a, "a"), ("from", None)], "nowhole.npz")
    # NUL in the postfix: zipfile cuts the member name
    nul = "p\x00q"
    exp = run([("save", a, nul), ("from", nul)], "nul.npz")
    res.evaluations += 6
    rep = {"kind": "nul_postfix", "postfix": nul}
    if exp[0] == "ok" and exp[1] != "ok " + _tok(a):
        res.violation("postfix:nul_truncated",
                      f"save under a postfix containing NUL succeeds but the mineral cannot be loaded back ({exp[1][:40]}): zipfile cuts member names at NUL", rep)
    res.nontrivial(("quirks", 6))
    outs = C.run_driver(lines)
    for exp, out in zip(expected, outs):
        got = out.split(" | ")
        if got == exp:
            res.traces += len(exp)
        else:
            bad = next((i for i, (x, y) in enumerate(zip(exp, got)) if x != y), -1)
            res.mismatch("K32 numpy/zipfile lookup behaviour", {"op_index": bad}, [e[:80] for e in exp], [g[:80] for g in got])


def run(ctx, res):
    from pydrex import core
    from pydrex import minerals as M

    res.rule = ("scenarios: 1..8 minerals (all phase/fabric/regime combinations cycled, n in 1..64, 1..20 snapshots, float64 contents "
                "plain / mixed with NaN, +-inf, -0.0, subnormals / arbitrary bit patterns) saved under distinct postfixes (pool of "
                "adversarial names + random) in random order, optionally after a whole-file save, optionally one postfix re-saved, then "
                "loaded in random order through both loaders; corrupt states x 5 targets; bad file names x 3 entry points; "
                "a scenario is non-trivial when it holds at least one save and one load (distinct by postfixes/order)")
    SCRATCH_ROOT.mkdir(parents=True, exist_ok=True)
    root = SCRATCH_ROOT / f"c17-{os.getpid()}"
    if root.exists():
        shutil.rmtree(root)
    root.mkdir(parents=True)
    try:
        _scenarios(ctx, res, M, core, root)
        _corrupt_and_names(ctx, res, M, core, root)
        _quirks(ctx, res, M, core, root)
    finally:
        shutil.rmtree(root, ignore_errors=True)


def replay(data):
    from pydrex import core
    from pydrex import minerals as M

    root = SCRATCH_ROOT / f"c17-replay-{os.getpid()}"
    root.mkdir(parents=True, exist_ok=True)
    try:
        for v in data.get("violations", [data]):
            r = v.get("replay", v)
            print("replaying", json.dumps(C.jsonable(r))[:500])
            if r.get("kind") == "nul_postfix":
                m = M.Mineral(n_grains=3)
                m.save(str(root / "nul.npz"), postfix=r["postfix"])
                print("  members:", zipfile.ZipFile(root / "nul.npz").namelist())
                try:
                    M.Mineral.from_file(str(root / "nul.npz"), postfix=r["postfix"])
                    print("  loaded")
                except Exception as e:
                    print("  real code:", type(e).__name__, e)
            elif r.get("kind") == "filename":
                for how in ("from_file", "save"):
                    try:
                        if how == "from_file":
                            M.Mineral.from_file(str(root / r["name"]), postfix=r["postfix"])
                        else:
                            M.Mineral(n_grains=2).save(str(root / r["name"]), postfix=r["postfix"])
                        print(f"  {how}: accepted; directory now {sorted(os.listdir(root))}")
                    except Exception as e:
                        print(f"  {how}:", type(e).__name__)
    finally:
        shutil.rmtree(root, ignore_errors=True)
    return 0
