"""C10 — Voigt average (minerals.voigt_averages, kernel K20).

Correspondence: `voigt_averages` against the Float instantiation of `lean/tmpl/TensorsAvg.lean.tmpl`
(driver op `va_avg new`), outputs and exception classes.  The clauses of C10 (symmetric, weighted sum of
rotated single-crystal tensors, texture-independent K and G, co-rotation, single aligned grain, order
independence, rejection of mismatched minerals) are evaluated directly on the real outputs.
"""
from __future__ import annotations

import itertools
import json

import numpy as np

from .. import common as C
from .. import impl
from . import c11 as T11

PARTIAL = [
    "floating-point rounding (theorems over the reals; correspondence within 1e-9 relative); numpy adds the terms in loop order, "
    "the model adds them in the same order",
    "Mineral objects are read through the attributes phase, n_grains, orientations, fractions only (what voigt_averages touches)",
]
ASSUMPTIONS = [
    "MineralPhase is the IntEnum olivine = 0, enstatite = 1 and iterating a StiffnessTensors instance yields the matrices in that order "
    "(checked at the start of every run)",
]
PRE_LEAN = C.s2_trace_tensors   # S2: tensors.py kernels re-traced on every run
EXTRA_LEAN_MODULES = ("Bridge.TensorsRotate",)
JIT_TWIN = ('voigt',)   # groups of harness/jittwin.py: the numba-compiled code is run on the same battery and compared
OPTIMIZED_TWIN = True   # the implementation-side search is repeated under `python -O` (validation must not live in assert / __debug__)
TRUSTED = ["numpy einsum + an independent Voigt index table as the reference for the weighted sum of rotated tensors"]

VOIGT = {(0, 0): 0, (1, 1): 1, (2, 2): 2, (1, 2): 3, (2, 1): 3, (0, 2): 4, (2, 0): 4, (0, 1): 5, (1, 0): 5}


def to_tensor(M):
    Tn = np.empty((3, 3, 3, 3))
    for p, q, r, s in itertools.product(range(3), repeat=4):
        Tn[p, q, r, s] = M[VOIGT[p, q], VOIGT[r, s]]
    return Tn


def to_voigt(Tn):
    M = np.empty((6, 6))
    inv = {0: (0, 0), 1: (1, 1), 2: (2, 2), 3: (1, 2), 4: (0, 2), 5: (0, 1)}
    for i in range(6):
        for j in range(6):
            M[i, j] = Tn[inv[i] + inv[j]]
    return M


def KG(M):
    """Voigt bulk and shear modulus of a 6x6 stiffness matrix (C_iijj / 9 and (C_ijij - C_iijj/3) / 10)."""
    Tn = to_tensor(M)
    iijj = np.einsum("iijj", Tn)
    ijij = np.einsum("ijij", Tn)
    K = iijj / 9
    return K, (ijij - 3 * K) / 10


def make_mineral(phase, A_list, f_list, n_grains=None):
    from pydrex import core, minerals

    fabric = core.MineralFabric.olivine_A if int(phase) == 0 else core.MineralFabric.enstatite_AB
    m = minerals.Mineral(phase=core.MineralPhase(int(phase)), fabric=fabric, regime=core.DeformationRegime.matrix_dislocation,
                         n_grains=len(f_list[0]) if n_grains is None else n_grains,
                         fractions_init=np.asarray(f_list[0], dtype=float), orientations_init=np.asarray(A_list[0], dtype=float))
    for A, f in zip(A_list[1:], f_list[1:]):
        m.orientations.append(np.asarray(A, dtype=float))
        m.fractions.append(np.asarray(f, dtype=float))
    return m


def encode(minerals, assemblage, phis, stiff, which="new"):
    toks = ["va_avg", which, str(len(minerals))]
    for m in minerals:
        toks += [str(int(m.phase)), str(int(m.n_grains)), str(len(m.orientations))]
        for A in m.orientations:
            A = np.asarray(A, dtype=float).reshape(-1, 3, 3)
            toks += [str(A.shape[0])]
            if A.size:
                toks.append(C.fs2h(A.ravel()))
        toks += [str(len(m.fractions))]
        for f in m.fractions:
            f = np.asarray(f, dtype=float).ravel()
            toks += [str(f.shape[0])]
            if f.size:
                toks.append(C.fs2h(f))
    toks += [str(len(assemblage))] + [str(int(p)) for p in assemblage]
    toks += [str(len(phis))]
    if len(phis):
        toks.append(C.fs2h(phis))
    toks += ["2", C.fs2h(np.asarray(stiff.olivine).ravel()), C.fs2h(np.asarray(stiff.enstatite).ravel())]
    return " ".join(toks)


def call_impl(minerals, assemblage, phis, stiff):
    from pydrex import minerals as M

    try:
        out = M.voigt_averages(minerals, assemblage, phis, stiff)
        return "ok", np.asarray(out, dtype=float)
    except (ValueError, IndexError) as e:
        return "err " + type(e).__name__, None


def reference(minerals, assemblage, phis, stiff):
    """Independent evaluation of the statement: sum_m phi_m sum_g f_g * Voigt(R C_m R^T...) with einsum."""
    by_phase = {0: stiff.olivine, 1: stiff.enstatite}
    n_steps = len(minerals[0].orientations)
    n = minerals[0].n_grains
    out = np.zeros((n_steps, 6, 6))
    for i in range(n_steps):
        for m in minerals:
            Tm = to_tensor(by_phase[int(m.phase)])
            phi = phis[list(assemblage).index(m.phase)]
            A = np.asarray(m.orientations[i])[:n]
            f = np.asarray(m.fractions[i])[:n]
            R = A.transpose(0, 2, 1)
            Tr = np.einsum("g,gia,gjb,gkc,gld,abcd->ijkl", f, R, R, R, R, Tm)
            out[i] += phi * to_voigt(Tr)
    return out


def custom_stiffness(rng, kind):
    from pydrex.minerals import StiffnessTensors

    st = StiffnessTensors()
    if kind == "builtin":
        return st
    if kind == "swap":  # the two built-in tensors exchanged
        st.olivine, st.enstatite = st.enstatite, st.olivine
        return st
    st.olivine = T11.sym6(rng, "spd") * 10
    st.enstatite = T11.sym6(rng, "random" if kind == "triclinic" else "spd") * (1.0 if kind == "triclinic" else 7.0)
    return st


def texture(rng, kind, n):
    if kind == "aligned":
        return np.repeat(np.eye(3)[None], n, axis=0), np.full(n, 1.0 / n)
    A, f = impl.initial_texture(kind, rng, n)
    return A, f


ASSEMBLAGES = [(0,), (1,), (0, 1), (1, 0)]
ANAME = {(0,): "ol", (1,): "en", (0, 1): "ol+en", (1, 0): "en+ol"}


def phases(assemblage):
    from pydrex import core

    return [core.MineralPhase(p) for p in assemblage]


def build_case(rng, assemblage, n, n_steps, tex_kind, stiff_kind, extra_same_phase=False, same_orientations=False):
    minerals = []
    for p in assemblage:
        As, fs = [], []
        for i_ in range(n_steps):
            A, f = texture(rng, tex_kind, n)
            if same_orientations and i_ > 0:
                # consecutive snapshots with the SAME orientations and redistributed volumes (boundary migration without rotation,
                # or a repeated texture with other weights): the average must follow the volumes
                A = As[-1].copy()
                f = rng.dirichlet(np.ones(n) * 0.5)
            As.append(A)
            fs.append(f)
        minerals.append(make_mineral(p, As, fs))
    if len(assemblage) == 1:
        phis = [1.0]
    else:
        x = float(rng.choice([0.0, 1.0, 0.5, 0.7, rng.uniform(0.01, 0.99)]))
        phis = [x, 1.0 - x]
    return minerals, phases(assemblage), phis, custom_stiffness(rng, stiff_kind)


def check_statement(res, rng, minerals, assemblage, phis, stiff, out, tag, rot_budget):
    """C10 on the real output `out` of a well-formed call."""
    aname = ANAME.get(tuple(int(p) for p in assemblage), "other")
    rep = {"assemblage": [int(p) for p in assemblage], "phis": list(map(float, phis)), "case": tag,
           "n_grains": int(minerals[0].n_grains), "n_steps": len(minerals[0].orientations),
           "phases": [int(m.phase) for m in minerals],
           "orientations": [[np.asarray(a).tolist() for a in m.orientations] for m in minerals] if minerals[0].n_grains <= 2 else "omitted",
           "fractions": [[np.asarray(a).tolist() for a in m.fractions] for m in minerals] if minerals[0].n_grains <= 2 else "omitted",
           "stiffness": tag.split("/")[-1]}
    scale = max(1.0, float(np.abs(stiff.olivine).max()), float(np.abs(stiff.enstatite).max()))
    if np.abs(out - out.transpose(0, 2, 1)).max() > 1e-12 * scale:
        res.violation("avg:symmetric", "Voigt average is not a symmetric matrix", rep)
    ref = reference(minerals, assemblage, phis, stiff)
    if np.abs(out - ref).max() > 1e-10 * scale:
        res.violation(f"avg:weighted_sum:{aname}", "Voigt average differs from the volume-weighted sum of rotated single-crystal tensors "
                      f"(max abs difference {np.abs(out - ref).max():.4g})", rep)
    # texture independence of K and G (orthogonal orientations, grain volumes and phase fractions summing to one,
    # one mineral per listed phase)
    one_each = sorted(int(m.phase) for m in minerals) == sorted(int(p) for p in assemblage)
    if one_each and abs(sum(phis) - 1) < 1e-12:
        by_phase = {0: stiff.olivine, 1: stiff.enstatite}
        Kx = sum(phis[list(assemblage).index(m.phase)] * KG(by_phase[int(m.phase)])[0] for m in minerals)
        Gx = sum(phis[list(assemblage).index(m.phase)] * KG(by_phase[int(m.phase)])[1] for m in minerals)
        for i in range(out.shape[0]):
            if all(abs(np.asarray(m.fractions[i]).sum() - 1) < 1e-12 for m in minerals):
                K, G = KG(out[i])
                if abs(K - Kx) > 1e-10 * scale or abs(G - Gx) > 1e-10 * scale:
                    res.violation(f"avg:KG:{aname}", f"bulk/shear modulus of the average ({K:.6g}, {G:.6g}) differ from the phase-weighted "
                                  f"single-crystal Voigt moduli ({Kx:.6g}, {Gx:.6g})", rep)
                    break
    # co-rotation with the reference frame (A -> A Q^T), orthogonal Q
    if rot_budget:
        from pydrex import minerals as M

        Q = T11.random_rotation(rng)
        rot = [make_mineral(m.phase, [np.asarray(a) @ Q.T for a in m.orientations], m.fractions, m.n_grains) for m in minerals]
        out_q = M.voigt_averages(rot, assemblage, phis, stiff)
        want = np.array([to_voigt(np.einsum("ia,jb,kc,ld,abcd->ijkl", Q, Q, Q, Q, to_tensor(o))) for o in out])
        res.evaluations += 1
        if np.abs(out_q - want).max() > 1e-10 * scale:
            res.violation("avg:corotation", "Voigt average of the texture expressed in a rotated frame is not the rotated Voigt average", rep)


def run(ctx, res):
    from pydrex import core
    from pydrex import minerals as M

    rng = np.random.default_rng(ctx["seed"] + 1010)
    thorough = ctx["thorough"]
    st0 = M.StiffnessTensors()
    listed = [S for S in st0]
    if not (int(core.MineralPhase.olivine) == 0 and int(core.MineralPhase.enstatite) == 1
            and np.array_equal(listed[0], st0.olivine) and np.array_equal(listed[1], st0.enstatite)):
        res.mismatch("phase ordinals / StiffnessTensors.__iter__", "assumed olivine=0, enstatite=1 in ordinal order", "differs", "")
    res.rule = ("assemblages {ol, en, ol+en, en+ol} x textures {random, clustered, girdle, single, nonuniform, aligned} x stiffness "
                "{builtin, swapped, random SPD, triclinic} x n in 1..12 x 1..3 snapshots x phase fractions incl. 0/1/0.5; single aligned grain "
                "for all four assemblages; order permutations; malformed inputs (grain/snapshot count mismatches, stale n_grains, absent "
                "phase, short fraction list, empty mineral list); non-trivial = at least one grain; distinct by input bytes")
    lines, meta = [], []

    def submit(minerals, assemblage, phis, stiff, tag):
        kind, out = call_impl(minerals, assemblage, phis, stiff)
        res.evaluations += 1
        lines.append(encode(minerals, assemblage, phis, stiff))
        meta.append((tag, kind, out, max(1.0, float(np.abs(stiff.olivine).max()), float(np.abs(stiff.enstatite).max()))))
        return kind, out

    # ---- single aligned grain, every assemblage, built-in and custom tensors
    for assemblage in ASSEMBLAGES:
        for sk in ["builtin", "spd"]:
            for target in assemblage:
                stiff = custom_stiffness(rng, sk)
                m = make_mineral(target, [np.eye(3)[None]], [np.array([1.0])])
                phis = [1.0 if p == target else 0.0 for p in assemblage]
                kind, out = submit([m], phases(assemblage), phis, stiff, f"single_aligned/{ANAME[assemblage]}/{sk}")
                res.count("single_aligned:" + ANAME[assemblage])
                res.nontrivial(("single", assemblage, target, sk))
                want = stiff.olivine if target == 0 else stiff.enstatite
                rep = {"assemblage": list(assemblage), "phis": phis, "phases": [int(target)], "n_grains": 1, "n_steps": 1,
                       "orientations": [[np.eye(3)[None].tolist()]], "fractions": [[[1.0]]], "stiffness": sk, "case": "single_aligned"}
                if kind != "ok":
                    res.violation(f"avg:single_aligned_grain:{ANAME[assemblage]}", f"single aligned grain raised {kind}", rep)
                elif np.abs(out[0] - want).max() > 1e-12 * np.abs(want).max():
                    res.violation(f"avg:single_aligned_grain:{ANAME[assemblage]}",
                                  f"one aligned {'olivine' if target == 0 else 'enstatite'} grain with phase fraction 1 returns C11 = {out[0][0, 0]!r}, "
                                  f"single-crystal C11 = {want[0, 0]!r}", rep)
    # ---- well-formed random cases
    N = 36 if not thorough else 400
    tex_kinds = ["random", "clustered", "girdle", "single", "nonuniform", "aligned"]
    stiff_kinds = ["builtin", "spd", "triclinic", "swap"]
    for k in range(N):
        assemblage = ASSEMBLAGES[k % 4]
        n = int(rng.integers(1, 7 if not thorough else 13))
        n_steps = int(rng.integers(1, 4))
        tk = tex_kinds[k % len(tex_kinds)]
        sk = stiff_kinds[(k // 4) % len(stiff_kinds)]
        same_or = (k % 3 == 2)
        if same_or:
            n_steps, n = max(n_steps, 2), max(n, 2)
        minerals, asm, phis, stiff = build_case(rng, assemblage, n, n_steps, tk, sk, same_orientations=same_or)
        tag = f"{ANAME[assemblage]}/{tk}/{sk}" + ("/same_orientations_other_volumes" if same_or else "")
        kind, out = submit(minerals, asm, phis, stiff, tag)
        res.count("assemblage:" + ANAME[assemblage])
        res.count("texture:" + tk)
        res.count("stiffness:" + sk)
        res.count(f"snapshots={n_steps}")
        res.nontrivial((tag, n, n_steps, np.asarray(minerals[0].orientations).tobytes()))
        if k < 3:
            res.sample({"kernel": "voigt_averages", "case": tag, "n_grains": n, "snapshots": n_steps, "phis": phis,
                        "C11_first": None if out is None else float(out[0][0, 0])})
        if kind != "ok":
            res.violation("avg:wellformed_raises", f"well-formed input raised {kind}", {"case": tag, "assemblage": list(assemblage)})
            continue
        check_statement(res, rng, minerals, asm, phis, stiff, out, tag, rot_budget=(k % 3 == 0))
        # order independence: phases (with their fractions) listed in the other order; minerals in the other order
        if len(assemblage) == 2:
            k2, out2 = call_impl(minerals, asm[::-1], phis[::-1], stiff)
            k3, out3 = call_impl(minerals[::-1], asm, phis, stiff)
            res.evaluations += 2
            sc = max(1.0, np.abs(out).max())
            if k2 != "ok" or np.abs(out2 - out).max() > 1e-11 * sc:
                res.violation("avg:order:phases", "listing the phases (and their fractions) in the other order changes the Voigt average",
                              {"case": tag, "assemblage": list(assemblage), "phis": phis})
            if k3 != "ok" or np.abs(out3 - out).max() > 1e-11 * sc:
                res.violation("avg:order:minerals", "listing the minerals in the other order changes the Voigt average",
                              {"case": tag, "assemblage": list(assemblage), "phis": phis})
    # ---- two minerals of the same phase, stale n_grains smaller than the arrays (truncation), empty textures
    for k in range(6 if not thorough else 40):
        n = int(rng.integers(1, 6))
        A1, f1 = texture(rng, "random", n)
        A2, f2 = texture(rng, "nonuniform", n)
        asm = phases(ASSEMBLAGES[k % 4])
        p = asm[0]
        ms = [make_mineral(p, [A1], [f1 / 2]), make_mineral(p, [A2], [f2 / 2])]
        stiff = custom_stiffness(rng, "builtin" if k % 2 else "spd")
        phis = [1.0] if len(asm) == 1 else [0.25, 0.75]
        kind, out = submit(ms, asm, phis, stiff, "same_phase_twice")
        res.count("same_phase_twice")
        res.nontrivial(("same", k, A1.tobytes()))
        if kind == "ok":
            check_statement(res, rng, ms, asm, phis, stiff, out, "same_phase_twice/x", rot_budget=False)
        big = make_mineral(p, [np.concatenate([A1, A2])], [np.concatenate([f1, f2])], n_grains=n)
        submit([big], asm, phis, stiff, "n_grains_smaller_than_arrays")
        res.count("n_grains<rows")
    # ---- malformed inputs
    mal = 0
    for k in range(8 if not thorough else 60):
        n = int(rng.integers(1, 5))
        asm = phases((0, 1))
        phis = [0.6, 0.4]
        stiff = custom_stiffness(rng, "builtin")

        def tex(nn, steps):
            t = [texture(rng, "random", nn) for _ in range(steps)]
            return [a for a, _ in t], [f for _, f in t]

        variants = []
        A, f = tex(n, 2)
        B, g = tex(n + 1, 2)
        variants.append(("grain_count_mismatch", [make_mineral(0, A, f), make_mineral(1, B, g)], asm, phis, "err ValueError"))
        B, g = tex(n, 3)
        variants.append(("snapshot_count_mismatch", [make_mineral(0, A, f), make_mineral(1, B, g)], asm, phis, "err ValueError"))
        m1, m2 = make_mineral(0, A, f), make_mineral(1, *tex(n, 2))
        m2.fractions.append(m2.fractions[-1])
        variants.append(("fraction_snapshots_mismatch", [m1, m2], asm, phis, "err ValueError"))
        m1 = make_mineral(0, A, f)
        m1.fractions.pop()
        variants.append(("first_mineral_fraction_snapshots_mismatch", [m1], asm, phis, "err ValueError"))
        variants.append(("phase_not_in_assemblage", [make_mineral(1, A, f)], phases((0,)), [1.0], "err ValueError"))
        variants.append(("n_grains_larger_than_arrays", [make_mineral(0, A, f, n_grains=n + 2)], asm, phis, "err IndexError"))
        variants.append(("phase_fractions_too_short", [make_mineral(0, A, f), make_mineral(1, *tex(n, 2))], asm, [1.0], "err IndexError"))
        variants.append(("no_minerals", [], asm, phis, "err IndexError"))
        m0 = make_mineral(0, A, f, n_grains=0)
        variants.append(("n_grains_zero", [m0], phases((1,)), [], None))
        for name, ms, a, ph, expect in variants:
            kind, out = submit(ms, a, ph, stiff, "malformed/" + name)
            res.count("malformed:" + name)
            res.count("impl:" + kind)
            mal += 1
            if expect == "err ValueError" and kind != "err ValueError":
                res.violation(f"avg:mismatch_not_rejected:{name}", f"{name}: expected ValueError, got {kind}",
                              {"case": name, "n": n})
    # ---- correspondence
    outs = C.run_driver(lines)
    for (tag, kind, out, scale), line in zip(meta, outs):
        toks = line.split()
        if kind != "ok":
            if line.strip() == kind:
                res.traces += 1
            else:
                res.mismatch("K20 voigt_averages (exception class)", tag, kind, line[:80])
            continue
        if toks[:1] != ["ok"]:
            res.mismatch("K20 voigt_averages", tag, "ok", line[:80])
            continue
        got = C.hs2f(toks[1:])
        if C.close(got, list(out.ravel()), scale=scale):
            res.traces += 1
        else:
            res.mismatch("K20 voigt_averages", tag, list(out.ravel())[:12], got[:12], note=f"maxdiff={C.maxdiff(got, out.ravel())}")
    # the model of the code BEFORE the repair must be distinguishable from the implementation on the discriminating input
    m = make_mineral(1, [np.eye(3)[None]], [np.array([1.0])])
    old = C.run_driver([encode([m], phases((1,)), [1.0], st0, which="old")])[0].split()
    kind, out = call_impl([m], phases((1,)), [1.0], st0)
    res.count("pre-repair model agrees with implementation" if kind == "ok" and old[0] == "ok"
              and C.close(C.hs2f(old[1:]), list(out.ravel())) else "pre-repair model differs from implementation")
    # representation- and history-robustness of the public functions (harness/apirobust.py)
    from .. import apirobust_cases as _AC
    _AC.c10(res, np.random.default_rng(ctx["seed"] + 4242), ctx)


def replay(data):
    from pydrex import minerals as M

    rc = 0
    for v in data.get("violations", []):
        r = v.get("replay", {})
        print("violation", v.get("key"), "-", v.get("what"))
        if isinstance(r.get("orientations"), list) and "phases" in r:
            st = M.StiffnessTensors()
            ms = [make_mineral(p, [np.array(a) for a in As], [np.array(f) for f in fs])
                  for p, As, fs in zip(r["phases"], r["orientations"], r["fractions"])]
            kind, out = call_impl(ms, phases(r["assemblage"]), r["phis"], st)
            print(" replay on the current tree (built-in stiffness):", kind, None if out is None else out[0][0, :3].tolist())
            if kind == "ok" and len(ms) == 1 and r.get("case") == "single_aligned":
                want = st.olivine if r["phases"][0] == 0 else st.enstatite
                if np.abs(out[0] - want).max() > 1e-9:
                    print(" REPRODUCED: returns C11 =", out[0][0, 0], "expected", want[0, 0])
                    rc = 1
        else:
            print(json.dumps(r)[:1500])
    return rc
