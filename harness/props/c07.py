"""C07 — null forcing leaves the texture unchanged; unsupported regimes are rejected."""
from __future__ import annotations

import numpy as np

from .. import common as C
from .. import impl
from .. import drex, solver
from .. import robust

EXTRA_LEAN_MODULES = ("Properties.C07History",)

PARTIAL = [
    "that LSODA returns a constant solution for an identically zero right-hand side is an integrator fact, validated on the "
    "recorded histories (the theorems give: rates are exactly zero, post-processing is the identity on a valid texture)",
    "null-forcing invariance of the volume fractions is evaluated where the sliding floor is inactive (no fraction below chi/n at the "
    "start); where it is active the documented flooring of C09 changes fractions by design (counted, not a violation)",
]
ASSUMPTIONS = ["Python exception classes/messages are mapped to the model's error enum by message text"]
OPTIMIZED_TWIN = True   # the implementation-side search is repeated under `python -O` (validation must not live in assert / __debug__)
TRUSTED = ["harness/solver.py scenario driver and LSODA recorder"]


# out-of-range ordinals, including ones that alias a valid ordinal modulo 2^8, 2^16, 2^32 (a narrowing cast must not make them valid)
BAD_ORDINALS = [-1, 8, 255, 256, 260, 262, 263, 512, -256, -252, 65536, 65540, 2**32 + 4, 2**32]


def _err_kind(out):
    if out[0] != "err":
        return "ok"
    cls, msg = out[1], out[2]
    if cls != "ValueError":
        return f"{cls}"
    if "not yet supported" in msg:
        return "unsupportedRegime"
    if "regime must be" in msg:
        return "badRegime"
    if "phase must be" in msg:
        return "badPhase"
    if "fabric" in msg:
        return "badFabric"
    return "ValueError:" + msg[:40]


def run(ctx, res):
    rng = np.random.default_rng(ctx["seed"] + 707)
    robust.run(res, np.random.default_rng(ctx["seed"] + 79), ctx, "C07", n_sc=(3 if not ctx["thorough"] else 12))
    core = impl._core
    res.rule = ("(a) dispatch table: regime ordinals {-3,-1,0..9,255,10^6} x phase {0,1,2,-1} x fabric {0..6,-1}, exception kinds "
                "compared exactly with the model on both code paths; (b) null updates (regimes 0/7, L = 0, M = 0) on generated scenarios; "
                "(c) failure injection (unsupported regime from the start or switched mid-interval by get_regime, L callable raising at "
                "the k-th evaluation). non-trivial = every dispatch triple is distinct; scenarios distinct by hash")
    # ---------------- (a) dispatch table
    regs = [-3, -1, 0, 1, 2, 3, 4, 5, 6, 7, 8, 9, 255, 256, 260, 263, -252, 65540, 10**6]
    cases = []
    for r in regs:
        for ph in (0, 1, 2, -1):
            for fa in (0, 1, 2, 3, 4, 5, 6, -1):
                c = drex.make_case(rng, 0, nmax=3)
                c.update(regime=r, phase=ph, fabric=fa)
                cases.append(c)
    oi = [drex.call_derivatives(c) for c in cases]
    oj = drex.run_jit(cases)
    ml = C.run_driver([drex.case_line(c) for c in cases])
    for c, a, b, m in zip(cases, oi, oj, ml):
        res.evaluations += 1
        res.nontrivial(("dispatch", c["regime"], c["phase"], c["fabric"]))
        mk = m.split()[1] if m.startswith("err") else "ok"
        for tag, o in (("interpreted", a), ("jit", b)):
            k = _err_kind(o)
            res.count(f"dispatch:{k}")
            if k == mk:
                res.traces += 1
            else:
                res.mismatch(f"K9 dispatch ({tag})", {"regime": c["regime"], "phase": c["phase"], "fabric": c["fabric"]}, k, mk)
            # the property itself on the real code
            r, ph, fa = c["regime"], c["phase"], c["fabric"]
            rep = {"regime": r, "phase": ph, "fabric": fa, "path": tag}
            if r in (2, 3, 5) and o[0] != "err":
                res.violation("reject:unsupported_regime_returned_numbers", f"regime {r} returned numbers", rep)
            if (r < 0 or r > 7) and o[0] != "err":
                res.violation("reject:out_of_range_regime_returned_numbers", f"regime ordinal {r} returned numbers", rep)
            if r in (4, 6) and (ph, fa) not in drex.VALID and o[0] != "err":
                res.violation("reject:bad_phase_fabric_returned_numbers", f"(phase, fabric)=({ph},{fa}) returned numbers", rep)
            if r in (0, 7):
                if o[0] != "ok" or np.any(o[1] != 0) or np.any(o[2] != 0):
                    res.violation("null:regime_rates_nonzero", f"null regime {r} returned non-zero rates or raised", rep)
            if o[0] == "err" and o[1] != "ValueError":
                res.violation(f"reject:wrong_exception:{o[1]}", f"raised {o[1]} instead of ValueError", rep)
    res.sample({"dispatch_cases": len(cases), "example": {"regime": 5, "phase": 0, "fabric": 0, "impl": _err_kind(oi[0])}})

    # ---------------- (b) null updates on the real update_orientations
    n_sc = 12 if not ctx["thorough"] else 84
    for k in range(n_sc):
        mode = ["regime0", "regime7", "zeroL", "M0", "regime0_via_callable", "regime7_via_callable"][k % 6]
        sc = solver.make_scenario(rng, k, nmax=12 if not ctx["thorough"] else 48, regimes=(4, 6))
        if mode == "regime0":
            sc["regime"] = 0
        elif mode == "regime7":
            sc["regime"] = 7
        elif mode in ("regime0_via_callable", "regime7_via_callable"):
            # the null regime is declared by the get_regime callable while the mineral itself was built for dislocation creep
            r_ = core.DeformationRegime(0 if mode.startswith("regime0") else 7)
            gr = lambda t, x, r_=r_: r_  # noqa: E731
            gr.desc = f"constant {r_!r}"
            sc["get_regime"] = gr
        elif mode == "zeroL":
            sc["field"] = solver.make_field(rng, "zero")
        else:
            sc["Mob"] = 0.0
        m0 = solver.build_mineral(sc)
        if k % 2 == 1:
            # same numbers handed over as a transposed view / Fortran-ordered array
            A_c = m0.orientations[0]
            view = np.ascontiguousarray(A_c.transpose(0, 2, 1)).transpose(0, 2, 1) if k % 4 == 1 else np.asfortranarray(A_c)
            assert np.array_equal(view, A_c)
            m0 = impl._minerals.Mineral(phase=m0.phase, fabric=m0.fabric, regime=m0.regime, n_grains=sc["n"],
                                        fractions_init=m0.fractions[0].copy(), orientations_init=view)
            res.count("null:non_C_ordered_input")
        m, Fs, rec = solver.run_scenario(sc, mineral=m0)
        res.evaluations += 1
        res.count("null:" + mode)
        res.nontrivial(("null", mode, k, sc["tex_seed"]))
        thr = sc["chi"] / sc["n"]
        floor_active = any((f < thr).any() for f in m.fractions[:-1])
        res.count("null:floor_active" if floor_active else "null:floor_inactive")
        rep = solver.scenario_json(sc)
        rep["mode"] = mode
        A0, f0 = m.orientations[0], m.fractions[0]
        if len(m.fractions) != sc["n_updates"] + 1 or len(m.orientations) != sc["n_updates"] + 1:
            res.violation(f"null:{mode}:snapshot_count", f"{sc['n_updates']} null updates left {len(m.fractions)} snapshots", rep)
        for s in range(1, len(m.fractions)):
            if mode != "M0":
                if np.abs(m.orientations[s] - A0).max() > 1e-12:
                    res.violation(f"null:{mode}:orientations_changed", f"orientations moved by {np.abs(m.orientations[s] - A0).max():.3e} under null forcing", rep)
                    break
            if not floor_active and np.abs(m.fractions[s] - f0).max() > 1e-12:
                res.violation(f"null:{mode}:fractions_changed", f"fractions moved by {np.abs(m.fractions[s] - f0).max():.3e} under null forcing", rep)
                break
            if not (np.isfinite(m.orientations[s]).all() and np.isfinite(m.fractions[s]).all()):
                res.violation(f"null:{mode}:nonfinite", "non-finite snapshot under null forcing", rep)
                break
        # F still follows dF/dt = L F
        Fref = solver.reference_F(sc)
        strain = solver.accumulated_strain(sc)
        tol = 5e-3 + 1e-3 * (sc["n_updates"] + 2 * strain)
        relerr = np.abs(Fs[-1] - Fref).max() / max(1.0, np.abs(Fref).max())
        if relerr > tol:
            res.violation(f"null:{mode}:F_wrong", f"F relative error {relerr:.3e} > {tol:.3e}", rep)
        solver.check_rhs(res, sc, m, rec, max_points=2)
        if k < 2:
            res.sample({"null_mode": mode, "n": sc["n"], "updates": sc["n_updates"], "max|dA|": float(np.abs(m.orientations[-1] - A0).max()),
                        "max|df|": float(np.abs(m.fractions[-1] - f0).max()), "F_relerr": float(relerr)})

    # ---------------- (c) failed updates leave the stored history untouched
    n_f = 30 if not ctx["thorough"] else 90
    for k in range(n_f):
        mode = ["unsupported_regime", "switch_midway", "L_raises", "bad_regime_ordinal", "position_raises", "mismatched_fabric",
                "null_mineral_unsupported_callable", "null_mineral_bad_ordinal_callable", "bad_fabric_ordinal", "bad_phase_ordinal",
                "unsupported_regime_zero_L", "bad_regime_ordinal_zero_L", "mismatched_fabric_zero_L", "bad_fabric_ordinal_rigid_rotation",
                "bad_phase_ordinal_zero_L"][k % 15]
        sc = solver.make_scenario(rng, k, nmax=10)
        sc["n_updates"] = 1
        m = solver.build_mineral(sc)
        # one good update first so that the history has two snapshots
        params = solver.params_of(sc)
        fld = sc["field"]
        m.update_orientations(params, np.eye(3), fld, (0.0, 0.2, fld.pos))
        before_ids = [id(a) for a in m.orientations] + [id(a) for a in m.fractions]
        before_A = [a.copy() for a in m.orientations]
        before_f = [a.copy() for a in m.fractions]
        calls = {"n": 0}
        kth = int(rng.integers(1, 12))

        def Lraise(t, x):
            calls["n"] += 1
            if calls["n"] >= kth:
                raise RuntimeError("injected failure in velocity gradient callable")
            return fld(t, x)

        def posraise(t):
            calls["n"] += 1
            if calls["n"] >= kth + 6:
                raise RuntimeError("injected failure in position callable")
            return fld.pos(t)

        get_regime, getL, getpos = None, fld, fld.pos
        if mode == "unsupported_regime":
            m.regime = core.DeformationRegime(int(rng.choice([2, 3, 5])))
        elif mode == "bad_regime_ordinal":
            m.regime = int(rng.choice(BAD_ORDINALS))
        elif mode == "switch_midway":
            get_regime = lambda t, x: core.DeformationRegime.matrix_dislocation if t < 0.35 else core.DeformationRegime.sliding_dislocation  # noqa: E731
        elif mode in ("null_mineral_unsupported_callable", "null_mineral_bad_ordinal_callable"):
            # the mineral currently sits in a viscosity-bound regime; the callable then declares a rejected regime
            m.regime = core.DeformationRegime(int(rng.choice([0, 7])))
            bad = int(rng.choice([2, 3, 5])) if mode.startswith("null_mineral_unsupported") else int(rng.choice(BAD_ORDINALS))
            get_regime = lambda t, x, bad=bad: bad  # noqa: E731
        elif mode == "L_raises":
            getL = Lraise
        elif mode == "position_raises":
            getpos = posraise
        elif mode == "mismatched_fabric":
            m.fabric = core.MineralFabric.enstatite_AB if int(m.phase) == 0 else core.MineralFabric.olivine_A
        elif mode in ("unsupported_regime_zero_L", "bad_regime_ordinal_zero_L"):
            # no flow at all: the ordinals are still checked (the unrepaired code returned before the regime dispatch)
            m.regime = int(rng.choice([2, 3, 5])) if mode.startswith("unsupported") else int(rng.choice(BAD_ORDINALS))
            getL = lambda t, x: np.zeros((3, 3))  # noqa: E731
        elif mode in ("mismatched_fabric_zero_L", "bad_fabric_ordinal_rigid_rotation", "bad_phase_ordinal_zero_L"):
            # the (phase, fabric) pair is validated whatever the flow: also when no grain can slip (L = 0, rigid rotation)
            if mode.startswith("mismatched"):
                m.fabric = core.MineralFabric.enstatite_AB if int(m.phase) == 0 else core.MineralFabric.olivine_A
            elif mode.startswith("bad_fabric"):
                m.fabric = int(rng.choice([6, -1, 255, 256]))
            else:
                m.phase = int(rng.choice([2, -1, 256]))
            m.regime = core.DeformationRegime(int(rng.choice([4, 6])))
            W_ = np.zeros((3, 3))
            if "rigid" in mode:
                W_[0, 1], W_[1, 0] = 1.5, -1.5
            getL = lambda t, x, W_=W_: W_.copy()  # noqa: E731
        elif mode == "bad_fabric_ordinal":
            m.fabric = int(rng.choice([6, -1, 255, 256, 259, 513, 65536 + 2]))
        elif mode == "bad_phase_ordinal":
            m.phase = int(rng.choice([2, -1, 256, 257, 65536]))
        raised = None
        try:
            m.update_orientations(params, np.eye(3), getL, (0.2, 0.5, getpos), get_regime=get_regime)
        except Exception as e:  # noqa: BLE001
            raised = type(e).__name__
        res.evaluations += 1
        res.count(f"fail:{mode}:{raised}")
        res.nontrivial(("fail", mode, k))
        rep = solver.scenario_json(sc)
        rep["mode"] = mode
        if raised is None:
            res.violation(f"fail:{mode}:no_exception", "update with a failing/unsupported ingredient returned normally", rep)
            continue
        after_ids = [id(a) for a in m.orientations] + [id(a) for a in m.fractions]
        same = (after_ids == before_ids and all(np.array_equal(a, b) for a, b in zip(m.orientations, before_A))
                and all(np.array_equal(a, b) for a, b in zip(m.fractions, before_f)))
        if not same:
            res.violation(f"fail:{mode}:history_changed", f"failed update ({raised}) changed the stored history "
                          f"({len(before_A)} -> {len(m.orientations)} snapshots)", rep)
        if k < 3:
            res.sample({"failure_mode": mode, "raised": raised, "snapshots_before": len(before_A), "after": len(m.orientations)})


def replay(data):
    from .. import solver as _solver
    return _solver.replay_violations(data)
