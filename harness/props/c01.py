"""C01 — every stored texture snapshot is a valid texture, after any update history."""
from __future__ import annotations

import contextlib
import hashlib
import os
import subprocess
import sys

import numpy as np

from .. import common as C
from .. import hard
from .. import impl
from .. import robust
from .. import solver

PARTIAL = [
    "the orthonormality drift bound max|A.A^T - I| <= 5e-3 + 1e-3 (N + 2 strain), right-handedness and finiteness under finite L are "
    "properties of LSODA's error control acting on a flow that the theorems show conserves A.A^T exactly; they are evaluated on every "
    "recorded snapshot (validation, not proof)",
    "orthonormality of the random initial orientations comes from SciPy's Rotation.random (checked, not proved)",
]
ASSUMPTIONS = ["the solver output is unconstrained in the theorems (any vectors); only the code's own post-processing is relied on"]
JIT_TWIN = ('update', 'utils', 'large_update')   # groups of harness/jittwin.py: the numba-compiled code is run on the same battery and compared
PRE_LEAN = C.s2_trace_extract   # S2: utils.extract_vars re-traced on every run (two grains)
EXTRA_LEAN_MODULES = ("Bridge.Extract",)
TRUSTED = ["harness/solver.py scenario driver and LSODA recorder"]


def _valid_snapshot(res, m, s, N, strain, rep, regime):
    A, f = m.orientations[s], m.fractions[s]
    n = m.n_grains
    key = f"regime{regime}"
    if A.shape != (n, 3, 3) or f.shape != (n,):
        res.violation(f"shape:{key}", f"snapshot {s} has shapes {A.shape}, {f.shape} for n_grains={n}", rep)
        return
    if not (np.isfinite(A).all() and np.isfinite(f).all()):
        res.violation(f"finite:{key}", f"snapshot {s} has non-finite entries", rep)
        return
    if (f < 0).any() or abs(f.sum() - 1) > 1e-9:
        res.violation(f"simplex:{key}", f"snapshot {s}: min f = {f.min():.3e}, sum = {f.sum()!r}", rep)
    if np.abs(A).max() > 1:
        res.violation(f"entries:{key}", f"snapshot {s}: |entry| max {np.abs(A).max()!r} > 1", rep)
    tol = 5e-3 + 1e-3 * (N + 2 * strain)
    dev = np.abs(np.einsum("gij,gkj->gik", A, A) - np.eye(3)).max()
    if dev > tol:
        res.violation(f"orthonormal:{key}", f"snapshot {s}: max|A.A^T - I| = {dev:.3e} > {tol:.3e} (N={N}, strain={strain:.3f})", rep)
    elif np.linalg.det(A).min() <= 0:
        res.violation(f"righthanded:{key}", f"snapshot {s}: min det = {np.linalg.det(A).min():.3e}", rep)
    return dev


def run(ctx, res):
    rng = np.random.default_rng(ctx["seed"] + 101)
    # history- and representation-robustness scenarios (see harness/robust.py)
    robust.run(res, np.random.default_rng(ctx["seed"] + 77), ctx, "C01")
    # far time origins, SI units, reversed intervals, long and uneven partitions, L(t) equal at the sampled times (harness/hard.py)
    # (regime 1 is left to the main loop below: its orthonormality defect is the recorded finding orthonormal:regime1)
    hard.run(res, np.random.default_rng(ctx["seed"] + 1101), ctx, "C01", want=("count", "valid"), regimes=(0, 4, 6, 7))
    M = impl._minerals
    n_sc = 24 if not ctx["thorough"] else 168
    res.rule = ("update histories: (phase,fabric) x accepted regime {0,1,4,6,7} x L(t,x) family (incl. non-zero trace, vorticity, time/space "
                "dependence) x initial texture {random, clustered, girdle, single, non-uniform} x 1..4 (thorough up to 100) update calls x "
                "M* in [0,200], chi in [0,0.9], lambda*>=0, n in 2..16 (thorough ..200); every stored snapshot is checked; non-trivial = at "
                "least one completed update; distinct by seed")
    worst = {}
    for k in range(n_sc):
        many = ctx["thorough"] and k % 16 == 0
        sc = solver.make_scenario(rng, k, nmax=16 if not ctx["thorough"] else (200 if k % 7 == 0 else 40),
                                  regimes=solver.ACCEPTED_REGIMES, max_updates=4 if not many else 100,
                                  fields=solver.EDGE_FIELD_KINDS + solver.FIELD_KINDS,
                                  span=(0.2, 1.0) if not many else (1.0, 3.0))
        if many:
            sc["n_updates"] = int(rng.integers(30, 101))
        if sc["field_kind"] in solver.EDGE_FIELD_KINDS and k % 3 != 2:
            sc["regime"] = 4 if k % 2 else 6   # the degenerate forcings matter most where the kernel divides by the strain rate
        if sc["field_kind"] == "ends_vanish":
            sc["field"].w = float(np.pi * sc["n_updates"] / sc["span"])
        m = solver.build_mineral(sc)
        n_before = len(m.orientations)
        ts = solver.times_of(sc)
        params = solver.params_of(sc)
        F = np.array(sc["F0"], float)
        rep = solver.scenario_json(sc)
        rec_all = impl.Recorder()
        start_As = []
        with rec_all, (solver.debug_logging() if sc.get("debug_log") else contextlib.nullcontext()):
            for u, (a, b) in enumerate(zip(ts[:-1], ts[1:])):
                ids = [id(x) for x in m.orientations + m.fractions]
                copies = [x.copy() for x in m.orientations + m.fractions]
                start_As.append(m.orientations[-1].copy())
                F = m.update_orientations(params, F, sc["field"], (a, b, sc["field"].pos))
                res.evaluations += 1
                if len(m.orientations) != n_before + u + 1 or len(m.fractions) != n_before + u + 1:
                    res.violation("append:count", f"update {u} changed the snapshot count to {len(m.orientations)}", rep)
                now = m.orientations[:-1] + m.fractions[:-1]
                if [id(x) for x in now] != ids or not all(np.array_equal(x, y) for x, y in zip(now, copies)):
                    res.violation("append:earlier_snapshot_altered", f"update {u} altered an earlier snapshot", rep)
                strain = solver.accumulated_strain(sc, times=ts[: u + 2])
                dev = _valid_snapshot(res, m, len(m.orientations) - 1, u + 1, strain, rep, sc["regime"])
                if dev is not None:
                    worst[sc["regime"]] = max(worst.get(sc["regime"], 0.0), float(dev))
        res.nontrivial(("c01", k, sc["tex_seed"]))
        res.count(f"regime{sc['regime']}")
        res.count("tex:" + sc["tex"])
        res.count("field:" + sc["field_kind"])
        res.count("updates", sc["n_updates"])
        # correspondence: write-backs and stored snapshots through the model
        if k % 2 == 0 or not ctx["thorough"]:
            solver.check_poststeps(res, sc, rec_all, start_As)
            solver.check_rhs(res, sc, m, rec_all, max_points=2)
        if k < 3:
            res.sample({"phase": sc["phase"], "fabric": sc["fabric"], "regime": sc["regime"], "n": sc["n"], "updates": sc["n_updates"],
                        "texture": sc["tex"], "chi": sc["chi"], "M": sc["Mob"], "solver_steps": sum(len(r["raw"]) for r in rec_all.updates)})
    res.notes.append("largest max|A.A^T - I| per regime in this run: " + str({k: float(f"{v:.3e}") for k, v in sorted(worst.items())}))
    # negation witness of the totalised renormalisation, replayed on the real extract_vars: an all-non-positive fraction block gives 0/0
    from pydrex import utils as U
    y = np.concatenate([np.eye(3).ravel(), np.eye(3).ravel(), np.eye(3).ravel(), [-0.25, 0.0]])
    with np.errstate(all="ignore"):
        _, _, fbad = U.extract_vars(y.copy(), 2)
    res.count("extract_vars 0/0 witness reproduces NaN" if np.isnan(fbad).all() else "extract_vars 0/0 witness: finite")
    # default-constructed mineral: valid and reproducible from its seed (same process and a second process)
    for seed in ([0, 1, 12, 2**32 - 1] if not ctx["thorough"] else [0, 1, 2**32 - 1] + list(range(20, 30))):
        n = int(rng.integers(2, 60))
        a = M.Mineral(n_grains=n, seed=seed)
        b = M.Mineral(n_grains=n, seed=seed)
        res.evaluations += 1
        res.count("default_constructed")
        A0, f0 = a.orientations[0], a.fractions[0]
        if not (np.array_equal(A0, b.orientations[0]) and np.array_equal(f0, b.fractions[0])):
            res.violation("initial:not_reproducible", f"seed {seed} gives different initial snapshots", {"seed": seed, "n": n})
        if (A0.shape != (n, 3, 3) or abs(f0.sum() - 1) > 1e-12 or (f0 < 0).any()
                or np.abs(np.einsum("gij,gkj->gik", A0, A0) - np.eye(3)).max() > 1e-12 or np.linalg.det(A0).min() <= 0):
            res.violation("initial:invalid", f"default-constructed mineral (seed {seed}, n={n}) is not a valid texture", {"seed": seed, "n": n})
        code = ("import os; os.environ['NUMBA_DISABLE_JIT']='1'; import hashlib, numpy as np; from pydrex import minerals as M; "
                f"m = M.Mineral(n_grains={n}, seed={seed}); print(hashlib.sha256(m.orientations[0].tobytes() + m.fractions[0].tobytes()).hexdigest())")
        p = subprocess.run([sys.executable, "-c", code], capture_output=True, text=True, env=dict(os.environ), timeout=300)
        h = hashlib.sha256(A0.tobytes() + f0.tobytes()).hexdigest()
        if p.returncode != 0 or p.stdout.strip().splitlines()[-1] != h:
            res.violation("initial:not_reproducible_across_processes", f"seed {seed}: second process gives other bits", {"seed": seed, "n": n})


def replay(data):
    from .. import solver as _solver
    return _solver.replay_violations(data)
