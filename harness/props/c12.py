"""C12 — elastic symmetry decomposition (diagnostics.elasticity_components).

Proved (Lean, `Properties/C12.lean`): K, G are the Voigt invariants and are rotation invariant; the isotropic
vector is the orthogonal projection; percent anisotropy in [0, 100] and frame independent; Pythagoras over the
nested class projectors; orthorhombic-in-frame => monoclinic and triclinic parts vanish; the eigen-pairs of the
two contractions co-rotate; the pairing loop returns the d_ij eigenvector itself when the two eigenbases agree.
Runtime (LAPACK eigenvectors, arccos, the 10 degree threshold, which permutation wins): the model takes the
eigenvector matrices recorded from the real run and everything downstream is compared; the statement of C12
(frame independence, orthorhombic clauses) is evaluated on the real outputs.
"""
from __future__ import annotations

import json

import numpy as np

from .. import common as C
from .. import impl
from . import c10 as T10
from . import c11 as T11

PARTIAL = [
    "the eigenvectors of the two contractions come from LAPACK (scipy.linalg.eigh): the model takes the matrices the real run obtained; "
    "their specification (orthonormal eigenvectors, ascending eigenvalues) is measured on every call",
    "which of the three axis permutations wins and whether an eigenvector pair is within the 10 degree threshold are floating-point "
    "comparisons: cases within 1e-6 (relative) of a tie / 1e-3 degree of the threshold are excluded from the numeric comparison and counted",
    "frame independence of the class percentages and of the hexagonal axis is validated on the implementation for inputs whose "
    "dilatational and deviatoric eigenvalues are separated (relative gap > 1e-3, counted); proved in Lean: K, G, percent anisotropy and the "
    "co-rotation of the eigen-pairs",
    "floating-point rounding (theorems over the reals; correspondence within 1e-9 relative, 1e-7 on percentages downstream of arccos/eigh)",
]
ASSUMPTIONS = [
    "scipy.linalg.eigh returns orthonormal eigenvectors (columns) with ascending eigenvalues; residuals measured on every recorded call",
    "np.rad2deg(x) = x * (180/pi); np.sign, np.clip as in NumPy's documentation",
]
PRE_LEAN = C.s2_trace_tensors   # S2: tensors.py kernels re-traced on every run
EXTRA_LEAN_MODULES = ("Bridge.Tensors",)
JIT_TWIN = ('voigt',)   # groups of harness/jittwin.py: the numba-compiled code is run on the same battery and compared
TRUSTED = ["recording proxy placed on pydrex.diagnostics.la (forwards to scipy.linalg)",
           "numpy einsum + an independent Voigt table as reference for rotation, invariants and norms"]

GAP = 1e-3


class EighRecorder:
    def __init__(self):
        self.calls = []

    def __enter__(self):
        from pydrex import diagnostics as D

        self.D = D
        self.saved = D.la
        rec = self

        class Proxy:
            def __getattr__(self, name):
                return getattr(rec.saved, name)

            def eigh(self, a, *args, **kw):
                out = rec.saved.eigh(a, *args, **kw)
                rec.calls.append((np.array(a, dtype=float).copy(), np.array(out[0]).copy(), np.array(out[1]).copy()))
                return out

        D.la = Proxy()
        return self

    def __exit__(self, *exc):
        self.D.la = self.saved
        return False


def components(matrix):
    """the real function on one matrix, with the two eigh calls recorded"""
    from pydrex import diagnostics as D

    with EighRecorder() as rec:
        out = D.elasticity_components(np.asarray([matrix], dtype=float))
    res1 = {k: np.asarray(v)[0] for k, v in out.items()}
    _SEEN.append((np.asarray(matrix, dtype=float).copy(), res1))
    return res1, rec.calls


_SEEN = []   # every (matrix, single-call result) of this run: replayed as ONE series at the end of `run`


def check_series(res):
    """`elasticity_components` takes a series of matrices: every entry of the result for the series must be the result for that
    matrix alone (no state may leak from one matrix of the series to the next)."""
    from pydrex import diagnostics as D

    if len(_SEEN) < 2:
        return
    Ms = np.stack([m for m, _ in _SEEN])
    out = D.elasticity_components(Ms)
    res.evaluations += 1
    res.count("series_call_matrices", len(_SEEN))
    for k, v in out.items():
        v = np.asarray(v)
        for i, (_, single) in enumerate(_SEEN):
            a, b = np.asarray(v[i], dtype=float), np.asarray(single[k], dtype=float)
            if not np.allclose(a, b, rtol=1e-12, atol=1e-12, equal_nan=True):
                res.violation(f"series:{k}", f"elasticity_components on a series differs from the per-matrix result at index {i} for '{k}': "
                              f"{a.tolist()} vs {b.tolist()}", {"index": i, "matrix": _SEEN[i][0].tolist(), "first_matrix": _SEEN[0][0].tolist()})
                return


def rotate6(M, Q):
    return T10.to_voigt(np.einsum("ia,jb,kc,ld,abcd->ijkl", Q, Q, Q, Q, T10.to_tensor(M)))


W21 = None


def vec21(M):
    """independent 21-vector (Browaeys & Chevrot 2004, eq. 2.2)"""
    s = np.sqrt(2.0)
    return np.array([M[0, 0], M[1, 1], M[2, 2], s * M[1, 2], s * M[0, 2], s * M[0, 1], 2 * M[3, 3], 2 * M[4, 4], 2 * M[5, 5],
                     2 * M[0, 3], 2 * M[1, 4], 2 * M[2, 5], 2 * M[2, 3], 2 * M[0, 4], 2 * M[1, 5], 2 * M[1, 3], 2 * M[2, 4], 2 * M[0, 5],
                     2 * s * M[4, 5], 2 * s * M[3, 5], 2 * s * M[3, 4]])


def iso_matrix(K, G):
    M = np.zeros((6, 6))
    M[:3, :3] = K - 2 * G / 3
    M[np.arange(3), np.arange(3)] = K + 4 * G / 3
    M[np.arange(3, 6), np.arange(3, 6)] = G
    return M


def contractions(M):
    Tn = T10.to_tensor(M)
    return np.einsum("ijkk", Tn), np.einsum("ikjk", Tn)


def rel_gap(S):
    lam = np.linalg.eigvalsh((S + S.T) / 2)
    return float(np.diff(lam).min() / max(1e-300, np.abs(lam).max()))


def orthorhombic(rng):
    for _ in range(200):
        M = np.zeros((6, 6))
        d = rng.uniform(150, 350, 3)
        o = rng.uniform(40, 90, 3)
        sh = rng.uniform(40, 100, 3)
        M[0, 0], M[1, 1], M[2, 2] = d
        M[0, 1] = M[1, 0] = o[0]
        M[0, 2] = M[2, 0] = o[1]
        M[1, 2] = M[2, 1] = o[2]
        M[3, 3], M[4, 4], M[5, 5] = sh
        dm, vm = contractions(M)
        if np.linalg.eigvalsh(M).min() > 1 and rel_gap(dm) > 0.02 and rel_gap(vm) > 0.02:
            return M
    raise RuntimeError("no orthorhombic sample")


def random_texture_average(rng, n):
    """Voigt average of a random (clustered or uniform) olivine/enstatite texture, computed with einsum"""
    from pydrex.minerals import StiffnessTensors

    st = StiffnessTensors()
    kind = ["random", "clustered", "girdle", "nonuniform"][int(rng.integers(0, 4))]
    A, f = impl.initial_texture(kind, rng, n)
    x = float(rng.uniform(0.5, 1.0))
    out = np.zeros((3, 3, 3, 3))
    for S, phi in ((st.olivine, x), (st.enstatite, 1 - x)):
        R = A.transpose(0, 2, 1)
        out += phi * np.einsum("g,gia,gjb,gkc,gld,abcd->ijkl", f, R, R, R, R, T10.to_tensor(S))
        A, f = impl.initial_texture(kind, rng, n)
    return T10.to_voigt(out), kind


def evolved_texture_average(rng, n):
    """Voigt average of an olivine texture evolved by the real solver (simple/pure shear, strain ~0.4-1)"""
    from pydrex import minerals as M
    from pydrex.minerals import StiffnessTensors

    A0, f0 = impl.initial_texture("random", rng, n)
    fabric = impl.OLIVINE_FABRICS[int(rng.integers(0, len(impl.OLIVINE_FABRICS)))]
    m = M.Mineral(phase=impl._core.MineralPhase.olivine, fabric=fabric, regime=impl._core.DeformationRegime.matrix_dislocation,
                  n_grains=n, fractions_init=f0.copy(), orientations_init=A0.copy())
    L = impl.make_L(["simple_shear", "pure_shear", "general"][int(rng.integers(0, 3))], rng)
    params = impl.default_params(number_of_grains=n, gbs_threshold=float(rng.choice([0.0, 0.3])))
    t1 = float(rng.uniform(0.2, 0.5))
    m.update_orientations(params, np.eye(3), lambda t, x: L, (0.0, t1, lambda t: np.zeros(3)))
    A, f = np.asarray(m.orientations[-1]), np.asarray(m.fractions[-1])
    R = A.transpose(0, 2, 1)
    Tn = np.einsum("g,gia,gjb,gkc,gld,abcd->ijkl", f, R, R, R, R, T10.to_tensor(StiffnessTensors().olivine))
    return T10.to_voigt(Tn), f"evolved:{fabric.name}"


def special(kind, rng):
    from pydrex.minerals import StiffnessTensors

    if kind == "olivine":
        return StiffnessTensors().olivine.copy()
    if kind == "enstatite":
        return StiffnessTensors().enstatite.copy()
    if kind == "isotropic":
        return iso_matrix(130.0, 80.0)
    if kind == "cubic":
        M = iso_matrix(130.0, 80.0)
        M[3, 3] = M[4, 4] = M[5, 5] = 60.0
        return M
    if kind == "hexagonal":
        M = np.zeros((6, 6))
        a, c, f_, l, n_ = 200.0, 300.0, 70.0, 60.0, 50.0
        M[0, 0] = M[1, 1] = a
        M[2, 2] = c
        M[0, 1] = M[1, 0] = a - 2 * n_
        M[0, 2] = M[2, 0] = M[1, 2] = M[2, 1] = f_
        M[3, 3] = M[4, 4] = l
        M[5, 5] = n_
        return M
    if kind == "tetragonal":
        M = special("hexagonal", rng)
        M[5, 5] = 75.0
        return M
    if kind == "triclinic":
        return T11.sym6(rng, "spd") * 20
    raise ValueError(kind)


def angles_to_threshold(calls):
    """distance (degrees) of the eigenvector-pair angles from the 10 degree threshold and from each other"""
    from pydrex import diagnostics as D

    (_, _, ed), (_, _, ev) = calls
    worst = np.inf
    for i in range(3):
        ang = [float(D.smallest_angle(ed[:, i], ev[:, j])) for j in range(3)]
        worst = min(worst, min(abs(a - 10.0) for a in ang))
        s = sorted(ang)
        if s[0] < 10:
            worst = min(worst, s[1] - s[0])
    return worst


def eigh_spec_residual(calls):
    r = 0.0
    for a, w, v in calls:
        s = max(1.0, np.abs(a).max())
        r = max(r, np.abs(a @ v - v * w).max() / s, np.abs(v.T @ v - np.eye(3)).max(), float(max(0.0, -np.diff(w).min())) / s)
    return r


# ------------------------------------------------------------------ predicates
def check_scalars(res, M, out, tag):
    """K, G are the Voigt invariants; percent anisotropy is the norm distance to the isotropic tensor, in [0, 100]."""
    Ms = np.triu(M) + np.triu(M, 1).T
    rep = {"kind": "matrix", "M": np.asarray(M).tolist(), "case": tag}
    K, G = T10.KG(Ms)
    s = max(1.0, np.abs(Ms).max())
    if abs(out["bulk_modulus"] - K) > 1e-12 * s or abs(out["shear_modulus"] - G) > 1e-12 * s:
        res.violation("KG:voigt_invariants", f"K, G = {out['bulk_modulus']!r}, {out['shear_modulus']!r}; Voigt invariants {K!r}, {G!r}", rep)
    nv = np.sqrt((T10.to_tensor(Ms) ** 2).sum())
    if nv > 0:
        want = np.sqrt((T10.to_tensor(Ms - iso_matrix(K, G)) ** 2).sum()) / nv * 100
        a = out["percent_anisotropy"]
        if abs(a - want) > 1e-9 * 100:
            res.violation("anisotropy:definition", f"percent_anisotropy {a!r} != |C - C_iso| / |C| * 100 = {want!r}", rep)
        if not (-1e-9 <= a <= 100 + 1e-9):
            res.violation("anisotropy:range", f"percent_anisotropy {a!r} outside [0, 100]", rep)
    ax = out["hexagonal_axis"]
    if np.isfinite(ax).all() and abs(np.linalg.norm(ax) - 1) > 1e-9:
        res.violation("axis:unit", f"hexagonal axis has norm {np.linalg.norm(ax)!r}", rep)


CLASSES = ["percent_hexagonal", "percent_tetragonal", "percent_orthorhombic", "percent_monoclinic", "percent_triclinic"]


def check_frame(res, M, Q, out, out_q, tag, well_conditioned):
    rep = {"kind": "frame", "M": np.asarray(M).tolist(), "Q": Q.tolist(), "case": tag}
    s = max(1.0, np.abs(M).max())
    # always: scalars that are proved frame independent
    if abs(out["bulk_modulus"] - out_q["bulk_modulus"]) > 1e-10 * s or abs(out["shear_modulus"] - out_q["shear_modulus"]) > 1e-10 * s:
        res.violation("frame:KG", "bulk/shear modulus changed under a change of frame", rep)
    if abs(out["percent_anisotropy"] - out_q["percent_anisotropy"]) > 1e-8:
        res.violation("frame:anisotropy", "percent anisotropy changed under a change of frame", rep)
    if not well_conditioned:
        return
    worst = max(abs(out[k] - out_q[k]) for k in CLASSES)
    if worst > 1e-6:
        res.violation(f"frame:percentages:{tag.split('/')[0]}",
                      "class percentages changed under a change of frame: " + ", ".join(f"{k[8:]} {out[k]:.6f}->{out_q[k]:.6f}" for k in CLASSES), rep)
    a, b = Q @ out["hexagonal_axis"], out_q["hexagonal_axis"]
    if min(np.abs(a - b).max(), np.abs(a + b).max()) > 1e-6:
        res.violation(f"frame:axis:{tag.split('/')[0]}", f"hexagonal axis does not co-rotate up to sign: Q a = {a.tolist()}, found {b.tolist()}", rep)


def check_orthorhombic(res, M0, Q, out_q, tag):
    """`M0` is orthorhombic with distinct principal axes in the crystal frame; `out_q` is the result for rotate6(M0, Q)."""
    rep = {"kind": "frame", "M": np.asarray(M0).tolist(), "Q": Q.tolist(), "case": tag}
    if max(out_q["percent_monoclinic"], out_q["percent_triclinic"]) > 1e-7:
        res.violation("ortho:mono_tric_vanish", f"monoclinic/triclinic parts of an orthorhombic tensor: {out_q['percent_monoclinic']!r}, "
                      f"{out_q['percent_triclinic']!r}", rep)
    ss = out_q["percent_hexagonal"] ** 2 + out_q["percent_tetragonal"] ** 2 + out_q["percent_orthorhombic"] ** 2
    if abs(ss - out_q["percent_anisotropy"] ** 2) > 1e-7 * max(1.0, out_q["percent_anisotropy"] ** 2):
        res.violation("ortho:pythagoras", f"hex^2 + tetr^2 + ortho^2 = {ss!r} but anisotropy^2 = {out_q['percent_anisotropy'] ** 2!r}", rep)
    ax = out_q["hexagonal_axis"]
    # the axis must be (the image of) one of the crystal axes
    c = np.abs(Q.T @ ax)
    if abs(c.max() - 1) > 1e-7:
        res.violation("ortho:axis_is_crystal_axis", f"hexagonal axis {ax.tolist()} is not the image of a principal axis", rep)


# ------------------------------------------------------------------ run
def run(ctx, res):
    _SEEN.clear()
    from pydrex import diagnostics as D

    rng = np.random.default_rng(ctx["seed"] + 1212)
    thorough = ctx["thorough"]
    res.rule = ("built-in olivine/enstatite, random positive-definite orthorhombic tensors with separated eigenvalues, each in the crystal "
                "frame and in random rotated frames; Voigt averages of random/clustered/girdle/non-uniform two-phase textures in two frames; "
                "isotropic, cubic, hexagonal, tetragonal, triclinic and non-symmetric inputs (model correspondence only); exclusions by counted "
                f"rules: relative eigen-gap of either contraction <= {GAP}, eigenvector-pair angle within 1e-3 deg of the 10 deg threshold, two "
                "candidate distances within 1e-6 relative; non-trivial = anisotropic input; distinct by input bytes")
    lines, meta = [], []
    worst_eigh = 0.0

    def submit(M, tag):
        nonlocal worst_eigh
        out, calls = components(M)
        res.evaluations += 1
        if len(calls) != 2:
            res.mismatch("elasticity_components (eigh calls)", tag, len(calls), 2)
            return out, calls, None
        worst_eigh = max(worst_eigh, eigh_spec_residual(calls))
        idx = len(lines)
        lines.append("ec_comp " + C.fs2h(np.asarray(M).ravel()) + " " + C.fs2h(calls[0][2].ravel()) + " " + C.fs2h(calls[1][2].ravel()))
        lines.append("ec_eigin " + C.fs2h(np.asarray(M).ravel()))
        meta.append((tag, np.asarray(M), out, calls, idx))
        check_scalars(res, M, out, tag)
        return out, calls, idx

    def conditioned(M, calls):
        dm, vm = contractions(np.triu(M) + np.triu(M, 1).T)
        ok = True
        if min(rel_gap(dm), rel_gap(vm)) <= GAP:
            res.count("excluded:eigen_gap")
            ok = False
        elif angles_to_threshold(calls) < 1e-3:
            res.count("excluded:angle_threshold")
            ok = False
        return ok

    pending_frames = []  # (tag, M, Q, out, out_q, idx, idx_q, M0 or None, cond)

    # ---- built-in tensors and random orthorhombic tensors, crystal frame + rotated frames
    n_rot = 3 if not thorough else 25
    n_ortho = 8 if not thorough else 60
    bases = [("olivine", special("olivine", rng)), ("enstatite", special("enstatite", rng))]
    bases += [("orthorhombic", orthorhombic(rng)) for _ in range(n_ortho)]
    for name, M0 in bases:
        out0, calls0, idx0 = submit(M0, f"{name}/crystal_frame")
        res.count("input:" + name)
        res.nontrivial((name, M0.tobytes()))
        check_orthorhombic(res, M0, np.eye(3), out0, f"{name}/crystal_frame")
        reps = n_rot if name != "orthorhombic" else (2 if not thorough else 4)
        for r in range(reps):
            Q = T11.random_rotation(rng)
            if r == 1:
                Q = Q @ np.diag([1.0, 1.0, -1.0])  # improper
            Mq = rotate6(M0, Q)
            out_q, calls_q, idx_q = submit(Mq, f"{name}/rotated")
            res.count("input:" + name + ":rotated")
            res.nontrivial((name, "rot", Mq.tobytes()))
            cond = conditioned(M0, calls0) and conditioned(Mq, calls_q)
            pending_frames.append((f"{name}/rotated", M0, Q, out0, out_q, idx0, idx_q, M0, cond))
        if name in ("olivine",) or len(res.samples) < 3:
            res.sample({"case": name, "K": float(out0["bulk_modulus"]), "G": float(out0["shear_modulus"]),
                        "percent_anisotropy": float(out0["percent_anisotropy"]), "hex": float(out0["percent_hexagonal"]),
                        "tetr": float(out0["percent_tetragonal"]), "ortho": float(out0["percent_orthorhombic"]),
                        "axis": out0["hexagonal_axis"].tolist()})
    # ---- Voigt averages of textures, two frames
    n_tex = 10 if not thorough else 120
    n_evo = 2 if not thorough else 16
    for k in range(n_tex + n_evo):
        if k < n_tex:
            M0, kind = random_texture_average(rng, int(rng.integers(3, 40)))
        else:
            M0, kind = evolved_texture_average(rng, int(rng.integers(20, 60)))
        out0, calls0, idx0 = submit(M0, f"texture:{kind}/frame0")
        Q = T11.random_rotation(rng)
        Mq = rotate6(M0, Q)
        out_q, calls_q, idx_q = submit(Mq, f"texture:{kind}/rotated")
        res.count("input:texture:" + kind.split(":")[0])
        res.nontrivial(("tex", M0.tobytes()))
        cond = conditioned(M0, calls0) and conditioned(Mq, calls_q)
        pending_frames.append((f"texture/{kind}", M0, Q, out0, out_q, idx0, idx_q, None, cond))
    # ---- special symmetry classes, triclinic, non-symmetric input: correspondence + scalar clauses
    for kind in ["isotropic", "cubic", "hexagonal", "tetragonal", "triclinic", "triclinic", "hexagonal"] * (1 if not thorough else 6):
        M = special(kind, rng)
        Q = np.eye(3)
        if kind in ("hexagonal", "tetragonal") and rng.random() < 0.7:
            Q = T11.random_rotation(rng)
            M = rotate6(M, Q)
        out, _, _ = submit(M, f"special:{kind}")
        if kind == "hexagonal":
            # a transversely isotropic tensor: the reported axis is its symmetry axis (well conditioned: the axial
            # eigenvalue is simple) and hexagonal symmetry accounts for all of the anisotropy
            ax = out["hexagonal_axis"]
            if min(np.abs(ax - Q[:, 2]).max(), np.abs(ax + Q[:, 2]).max()) > 1e-6:
                res.violation("hex:axis", f"hexagonal axis {ax.tolist()} of a transversely isotropic tensor with axis {Q[:, 2].tolist()}",
                              {"kind": "matrix", "M": M.tolist(), "case": "hexagonal"})
    for k in range(3 if not thorough else 20):
        M = special("olivine", rng) + np.tril(rng.normal(size=(6, 6)) * 50, -1)  # junk below the diagonal is ignored
        out, _, _ = submit(M, "nonsymmetric_lower_junk")
        out_s, _, _ = submit(np.triu(M) + np.triu(M, 1).T, "nonsymmetric_lower_junk:symmetrised")
        res.count("input:nonsymmetric")
        if any(abs(out[k2] - out_s[k2]) > 1e-12 for k2 in CLASSES + ["percent_anisotropy", "bulk_modulus", "shear_modulus"]):
            res.violation("input:lower_triangle_used", "entries below the diagonal changed the result", {"kind": "matrix", "M": M.tolist()})

    # ---- correspondence with the model (given the recorded eigenvectors)
    outs = C.run_driver(lines)
    tie = {}
    stats = {"max_nonorth": 0.0, "max_pyth_gap": 0.0}
    for tag, M, out, calls, idx in meta:
        toks = outs[idx].split()
        vals = C.hs2f(toks[:15])
        K, G, an = vals[:3]
        deltas = vals[3:6]
        flag = toks[15]
        s = max(1.0, float(np.abs(M).max()))
        ok = C.close([K, G], [out["bulk_modulus"], out["shear_modulus"]], scale=s) and C.close(an, out["percent_anisotropy"], scale=100.0)
        # inputs handed to eigh
        ein = C.hs2f(outs[idx + 1].split())
        ok = ok and C.close(ein, list(calls[0][0].ravel()) + list(calls[1][0].ravel()), scale=s)
        S = np.array(vals[6:15]).reshape(3, 3)
        nonorth = float(np.abs(S.T @ S - np.eye(3)).max())
        if nonorth > 1e-6:
            res.count("observed:sccs_not_orthogonal")
            ss = sum(float(out[k]) ** 2 for k in CLASSES)
            gap = abs(np.sqrt(ss) - out["percent_anisotropy"])
            stats["max_nonorth"] = max(stats["max_nonorth"], nonorth)
            stats["max_pyth_gap"] = max(stats["max_pyth_gap"], float(gap))
        sd = sorted(deltas)
        is_tie = (sd[1] - sd[0]) <= 1e-6 * max(1.0, sd[0]) or angles_to_threshold(calls) < 1e-3
        tie[idx] = is_tie
        if flag == "0":
            res.count("model:no_permutation_improves")
            res.notes.append(f"{tag}: no axis permutation improves on |v| in the model (implementation leaves np.empty values)")
        elif is_tie:
            res.count("excluded:permutation_tie_or_threshold")
        else:
            best = C.hs2f(toks[16:25])
            want = [out["percent_triclinic"], out["percent_monoclinic"], out["percent_orthorhombic"], out["percent_tetragonal"],
                    out["percent_hexagonal"]]
            ok = ok and C.close(best[1:6], want, scale=100.0, rtol=1e-7) and C.close(best[6:9], list(out["hexagonal_axis"]), rtol=1e-7)
        if ok:
            res.traces += 1
        else:
            res.mismatch("elasticity_components vs model (recorded eigenvectors)", {"case": tag, "M": M.tolist()},
                         {k: np.asarray(v).tolist() for k, v in out.items()}, outs[idx][:400])
    # ---- the statement of C12 on the implementation
    for tag, M0, Q, out0, out_q, idx0, idx_q, Mortho, cond in pending_frames:
        res.evaluations += 1
        wc = cond and idx0 is not None and idx_q is not None and not tie.get(idx0, True) and not tie.get(idx_q, True)
        res.count("frame_pairs:checked" if wc else "frame_pairs:excluded")
        check_frame(res, M0, Q, out0, out_q, tag, wc)
        if Mortho is not None and wc:
            check_orthorhombic(res, Mortho, Q, out_q, tag)
    res.notes.append(f"largest eigh-specification residual seen (relative): {worst_eigh:.3e}")
    res.notes.append("observation (outside C12's quantifier, not a violation): the symmetry coordinate system built by the pairing loop is "
                     f"not orthogonal for non-orthorhombic inputs (max |S^T S - 1| = {stats['max_nonorth']:.3g}); there the class percentages do "
                     f"not add up in quadrature to the percent anisotropy (max gap {stats['max_pyth_gap']:.3g} percentage points)")
    if worst_eigh > 1e-9:
        res.mismatch("scipy.linalg.eigh specification", "assumed eigh spec not met", worst_eigh, 0.0)
    # smallest_angle kernel
    al, aw = [], []
    for k in range(40 if not thorough else 400):
        a = rng.normal(size=3)
        b = rng.normal(size=3) if k % 4 else (a * rng.choice([-2.0, 0.5, 1.0]) if k % 8 else np.cross(a, rng.normal(size=3)))
        al.append("ec_angle " + C.fs2h(a) + " " + C.fs2h(b))
        aw.append(float(D.smallest_angle(a, b)))
        res.evaluations += 1
    for line, want in zip(C.run_driver(al), aw):
        got = C.h2f(line.strip())
        if abs(got - want) <= 1e-5:  # degrees; arccos is ill-conditioned at 0 and 180 degrees (sqrt(2 eps) rad = 1.2e-6 deg)
            res.traces += 1
        else:
            res.mismatch("diagnostics.smallest_angle", "random vectors", want, got)
    check_series(res)
    # representation- and history-robustness of the public functions (harness/apirobust.py)
    from .. import apirobust_cases as _AC
    _AC.c12(res, np.random.default_rng(ctx["seed"] + 4242), ctx)


def replay(data):
    rc = 0
    for v in data.get("violations", []):
        r = v.get("replay", {})
        print("violation", v.get("key"), "-", v.get("what"))
        res = C.Result("C12")
        if r.get("kind") == "matrix":
            out, _ = components(np.array(r["M"]))
            check_scalars(res, np.array(r["M"]), out, "replay")
        elif r.get("kind") == "frame":
            M0, Q = np.array(r["M"]), np.array(r["Q"])
            out0, _ = components(M0)
            out_q, _ = components(rotate6(M0, Q))
            check_frame(res, M0, Q, out0, out_q, r.get("case", "replay"), True)
            print(" unrotated:", {k: float(out0[k]) for k in CLASSES}, out0["hexagonal_axis"].tolist())
            print(" rotated:  ", {k: float(out_q[k]) for k in CLASSES}, out_q["hexagonal_axis"].tolist())
        else:
            print(json.dumps(r)[:1500])
        for w in res.violations:
            print(" REPRODUCED", w["key"], "-", w["what"])
            rc = 1
    return rc
