"""C18 — analytic flows are self-consistent and pathlines follow them inside the domain.

Correspondence (K33-K35): `velocity.simple_shear_2d / cell_2d / corner_2d` callables,
`geometry.to_indices2d`, `utils.strain_increment`, `pathlines._is_inside` and the stateful terminal
event `_terminate` (captured from the real `get_pathline` closure) against ModelF.Flow / ModelD.Flow
(Lean driver, ops `flow_*`).

Property predicates on the REAL code (failing-input search):
  * grad_is_jacobian / trace_free by central differences on the real callables (every entry);
  * strain_increment = |dt| * spectral norm of sym(L) (independent LAPACK path);
  * every clause about pathlines on real `get_pathline` runs (solve_ivp is runtime: validation only).
"""
from __future__ import annotations

import types

import numpy as np

from .. import common as C
from .. import impl  # noqa: F401  (sets NUMBA_DISABLE_JIT, silences logging)

# S2: the velocity / velocity-gradient callables are re-traced from velocity.py on every run (harness/trace/tracer.py) and
# lean/Bridge/Flow.lean re-proves traced = model for all six axis assignments, including the domain test and the singular corner.
PRE_LEAN = C.s2_trace_velocity
EXTRA_LEAN_MODULES = ("Bridge.Flow", "Bridge.StrainIncrement")

PATHLINE_TIME_LIMIT_S = 30.0   # a returned pathline costs well under a second

PARTIAL = [
    "everything about scipy.integrate.solve_ivp (LSODA steps, dense output, event root finding) is runtime: the "
    "pathline clauses (returned, ends at the final location at t=0, increasing timestamps, dx/dt=u, containment, "
    "strain <= 1.25 max_strain) are validated on the implementation, not proved; proved is the bookkeeping of the "
    "terminal event (signed increments, history dependence, history independence for constant strain rate) and is_inside",
    "grad_is_jacobian / trace_free are proved for the corner flow only; for simple_shear_2d and cell_2d the theorems "
    "characterise exactly where the coded gradient differs from the Jacobian (known findings, pinned by doctests)",
    "np.linalg.eigvalsh is an external: the theorems assume its spec (roots of the characteristic polynomial), the "
    "harness checks the residual of that spec on every call it sees",
    "floating-point rounding (theorems over the reals; correspondence within 1e-9 relative)",
]
ASSUMPTIONS = [
    "str.upper() maps a string to 'X'/'Y'/'Z' only for the six ASCII letters (checked exhaustively over all code points "
    "and all two-character strings whose upper() has length 1 on every run)",
    "central differences with step 1e-6*scale resolve the Jacobian of the real callables to 1e-6 relative",
]
JIT_TWIN = ('velocity', 'utils')   # groups of harness/jittwin.py: the numba-compiled code is run on the same battery and compared
TRUSTED = [
    "capture of the real `_terminate` closure by substituting `pydrex.pathlines.si` during a get_pathline call",
    "pathline tolerances: end point 1e-12*box, containment overshoot 2e-3*box (100x rtol*box..), dx/dt residual 5e-2*max|u| (observed ceiling 0.9e-2) "
    "on solver segments that do not contain the terminal event, at points >= 1e-3*box away from the box faces, integral residual 1e-3*box",
]

AX = "XYZ"
PAIRS = [(a, b) for a in range(3) for b in range(3) if a != b]
YEAR = 365.25 * 8.64e4


def _enc(s: str) -> str:
    return "-" if s == "" else ",".join(str(ord(c)) for c in s)


# ------------------------------------------------------------------ to_indices2d
def _check_upper_assumption(res):
    bad = []
    for cp in range(0x110000):
        if 0xD800 <= cp <= 0xDFFF:
            continue
        c = chr(cp)
        if c.upper() in ("X", "Y", "Z") and c not in "xyzXYZ":
            bad.append(cp)
    # multi-character strings never upper-case to a single character (upper() never shortens)
    for s in ("xx", "x ", " x", "ß", "ŉ", "ǰ", "ΐ", "ﬃ", "ẋ", "̇x"):
        if len(s) > 1 and s.upper() in ("X", "Y", "Z"):
            bad.append(s)
    res.evaluations += 1
    res.count("upper_assumption_scan")
    if bad:
        res.mismatch("str.upper assumption", bad[:10], "upper() gives X/Y/Z", "model: only xyzXYZ")


def _indices(res, rng, thorough):
    from pydrex import geometry as G
    from pydrex import velocity as V

    letters = list("xyzXYZ")
    junk = ["", "XY", "xx", " x", "x ", "1", "w", "ß", "ｘ", "Χ", "х", "K", "xyz", "0", "Y\n", "\tz"]
    cases = [(h, v) for h in letters for v in letters]
    cases += [(h, v) for h in junk for v in ("x", "Z")] + [(h, v) for h in ("y", "X") for v in junk]
    cases += [(junk[i], junk[j]) for i, j in rng.integers(0, len(junk), size=(12, 2))]
    lines, want = [], []

    def call(f, *a):
        try:
            r = f(*a)
            return "ok %d %d" % (r[0], r[1]) if isinstance(r, tuple) and len(r) == 2 and all(
                isinstance(q, (int, np.integer)) for q in r) else ("ok-callables", r)
        except ValueError:
            return "ValueError"
        except Exception as e:  # any other class is a disagreement with the model
            return type(e).__name__

    for h, v in cases:
        res.evaluations += 1
        res.count("to_indices2d:" + ("letters" if h in letters and v in letters else "junk"))
        w = call(G.to_indices2d, h, v)
        lines.append(f"flow_idx raw {_enc(h)} {_enc(v)}")
        want.append(("to_indices2d", (h, v), w))
        if isinstance(w, str) and w.startswith("ok"):
            res.nontrivial(("idx", h.upper(), v.upper()))
            i, j = int(w.split()[1]), int(w.split()[2])
            if not (0 <= i < 3 and 0 <= j < 3 and i != j and AX[i] == h.upper() and AX[j] == v.upper()):
                res.violation("to_indices2d:table", f"to_indices2d({h!r},{v!r}) = {(i, j)}", {"h": h, "v": v})
        # the constructors: indices are bound into the partials
        for kind, ctor, args in (("flow", V.simple_shear_2d, (1.0,)), ("flow", V.corner_2d, (1.0,)),
                                 ("cell0", V.cell_2d, (1.0, 2.0)), ("cell1", V.cell_2d, (1.0, -2.0)),
                                 ("cell0", V.cell_2d, (1.0, 0.0))):
            r = call(ctor, h, v, *args)
            if isinstance(r, tuple):
                kw = r[1][0].keywords
                names = [k for k in kw if k in ("direction", "horizontal")] + [k for k in kw if k in ("deformation_plane", "vertical")]
                kw2 = r[1][1].keywords
                if [kw[n] for n in names] != [kw2[n] for n in names]:
                    res.violation("constructor:index_pairing", "velocity and gradient partials carry different indices",
                                  {"h": h, "v": v, "ctor": ctor.__name__})
                r = "ok %d %d" % (kw[names[0]], kw[names[1]])
            res.evaluations += 1
            lines.append(f"flow_idx {kind} {_enc(h)} {_enc(v)}")
            want.append((ctor.__name__ + ":" + kind, (h, v), r))
    for d in (-1.0, -0.0, 0.0, 1.0, float("inf"), -1e-300):
        lines.append(f"flow_cellcheck {C.f2h(d)}")
        try:
            V.cell_2d("X", "Z", 1.0, d)
            w = "ok"
        except ValueError:
            w = "ValueError"
        want.append(("cell_2d:edge_length", d, w))
        res.evaluations += 1
    outs = C.run_driver(lines)
    for (kern, inp, w), got in zip(want, outs):
        if got == w:
            res.traces += 1
        else:
            res.mismatch("K33 " + kern, inp, w, got)


# ------------------------------------------------------------------ flow kernels
def _make_flow(V, flow, a, b, prm):
    if flow == "simple_shear_2d":
        return V.simple_shear_2d(AX[a], AX[b], prm[0])
    if flow == "cell_2d":
        return V.cell_2d(AX[a], AX[b], prm[0], prm[1])
    return V.corner_2d(AX[a], AX[b], prm[0])


def _flow_line(flow, a, b, prm, x):
    if flow == "simple_shear_2d":
        return f"flow_shear {a} {b} {C.f2h(prm[0])} {C.fs2h(x)}"
    if flow == "cell_2d":
        return f"flow_cell {a} {b} {C.f2h(prm[0])} {C.f2h(prm[1])} {C.fs2h(x)}"
    return f"flow_corner {a} {b} {C.f2h(prm[0])} {C.fs2h(x)}"


def _call_flow(u, L, x):
    try:
        uv = u(np.nan, x)
        Lv = L(np.nan, x)
    except ValueError:
        return "ValueError"
    uv = np.asarray(uv, dtype=float)
    Lv = np.asarray(Lv, dtype=float)
    if np.isnan(uv).all() and np.isnan(Lv).all():
        return "nan"
    return np.concatenate([uv, Lv.ravel()])


def _flow_points(rng, flow, k):
    """(params, point, scale, kind)"""
    if flow == "simple_shear_2d":
        sr = float(rng.choice([1e-15, 1e-5, 1e-4, 1.0, -2.5, 0.0, rng.normal()]))
        s = float(rng.choice([1.0, 2e5]))
        x = rng.uniform(-s, s, 3)
        if k % 7 == 0:
            x = np.zeros(3)
        return (sr,), x, s, "generic"
    if flow == "cell_2d":
        U = float(rng.choice([1.0, 6.3e-10, -1.0, rng.uniform(0.1, 3)]))
        d = float(rng.choice([2.0, 1.0, 1e5, rng.uniform(0.5, 10)]))
        kind = ["interior", "interior", "interior", "boundary", "outside", "origin", "just_outside"][k % 7]
        x = rng.uniform(-0.45, 0.45, 3) * d
        if kind == "boundary":
            x[rng.integers(0, 3)] = d / 2 * rng.choice([-1, 1])
            x = np.clip(x, -d / 2, d / 2)
        elif kind == "outside":
            x[rng.integers(0, 3)] = d * rng.choice([-1, 1]) * rng.uniform(0.5, 3)
        elif kind == "just_outside":
            x[rng.integers(0, 3)] = np.nextafter(d / 2, np.inf) * rng.choice([-1, 1])
        elif kind == "origin":
            x = np.zeros(3)
        return (U, d), x, d, kind
    U = float(rng.choice([1.0, 2.0 / 100 / YEAR, -1.0, rng.uniform(0.1, 3)]))
    s = float(rng.choice([1.0, 2e5]))
    kind = ["below", "below", "below", "surface", "above", "corner", "near_corner", "cut"][k % 8]
    x = rng.uniform(-1, 1, 3) * s
    if kind == "below":
        x = np.array([rng.uniform(-1, 1), rng.uniform(-1, 1), rng.uniform(-1, 1)]) * s
    return (U,), x, s, kind


def _corner_fix(x, a, b, kind, rng, s):
    x = x.copy()
    if kind == "below":
        x[b] = -abs(x[b]) - 1e-3 * s
    elif kind == "surface":
        x[b] = 0.0
        x[a] = (abs(x[a]) + 1e-2 * s) * rng.choice([-1, 1])
    elif kind == "above":
        x[b] = abs(x[b]) + 1e-3 * s
        x[a] = (abs(x[a]) + 1e-2 * s) * rng.choice([-1, 1])
    elif kind == "corner":
        x[a] = float(rng.choice([0.0, 1e-16, -9.9e-16]))
        x[b] = float(rng.choice([0.0, -1e-16, 9.9e-16]))
    elif kind == "near_corner":
        x[a] = float(rng.choice([1e-15, 2e-15, 0.0]))
        x[b] = float(rng.choice([-1e-15, -3e-15, 1e-15]))
    elif kind == "cut":
        x[a] = 0.0
        x[b] = abs(x[b]) + 1e-3 * s
    return x


def _fd_jacobian(u, x, h):
    J = np.zeros((3, 3))
    for j in range(3):
        e = np.zeros(3)
        e[j] = h
        J[:, j] = (np.asarray(u(np.nan, x + e), float) - np.asarray(u(np.nan, x - e), float)) / (2 * h)
    return J


def _entry_name(flow, a, b, i, j):
    nm = {a: "h", b: "v"} if flow != "simple_shear_2d" else {a: "direction", b: "plane"}
    return "[%s,%s]" % (nm.get(i, "other"), nm.get(j, "other"))


def _kernels(res, rng, thorough):
    from pydrex import velocity as V

    N = 80 if not thorough else 1000
    lines, want = [], []
    for flow in ("simple_shear_2d", "cell_2d", "corner_2d"):
        for (a, b) in PAIRS:
            for k in range(N):
                prm, x, scale, kind = _flow_points(rng, flow, k)
                if flow == "corner_2d":
                    x = _corner_fix(x, a, b, kind, rng, scale)
                u, L = _make_flow(V, flow, a, b, prm)
                out = _call_flow(u, L, x)
                res.evaluations += 1
                res.count(f"{flow}:{kind}")
                res.count(f"axes:{AX[a]}{AX[b]}")
                lines.append(_flow_line(flow, a, b, prm, x))
                want.append((flow, a, b, prm, x, kind, out))
                if isinstance(out, str):
                    continue
                if len(res.samples) < 3 and k == 1:
                    res.sample({"kernel": flow, "axes": AX[a] + AX[b], "params": prm, "x": x.tolist(), "u": out[:3].tolist()})
                # ---- property: gradient == Jacobian of the velocity (central differences), trace-free
                if flow == "cell_2d" and kind != "interior":
                    continue
                if flow == "corner_2d":
                    r = np.hypot(x[a], x[b])
                    if kind in ("corner", "near_corner", "cut") or (x[b] >= 0 and abs(x[a]) < 1e-3 * r):
                        res.count("fd_excluded:on_or_near_branch_cut")
                        continue
                    h = 1e-6 * r
                else:
                    h = 1e-6 * scale
                J = _fd_jacobian(u, x, h)
                Lv = out[3:].reshape(3, 3)
                sc = max(np.abs(J).max(), np.abs(Lv).max())
                res.nontrivial((flow, a, b, prm, x.tobytes()))
                if sc == 0:
                    continue
                for i in range(3):
                    for j in range(3):
                        if abs(J[i, j] - Lv[i, j]) > 1e-6 * sc:
                            res.violation(f"grad_is_jacobian:{flow}:{_entry_name(flow, a, b, i, j)}",
                                          f"{flow}({AX[a]},{AX[b]}) params {prm}: gradient callable entry [{i},{j}] = {Lv[i, j]!r} "
                                          f"but d u_{i}/d x_{j} = {J[i, j]!r} (central differences) at x = {x.tolist()}",
                                          {"flow": flow, "axes": AX[a] + AX[b], "params": prm, "x": x.tolist(), "entry": [i, j],
                                           "grad": Lv.tolist(), "jacobian_fd": J.tolist()})
                if abs(np.trace(Lv)) > 1e-9 * sc:
                    res.violation(f"trace_free:{flow}", f"{flow}({AX[a]},{AX[b]}) params {prm}: trace of the gradient callable = "
                                  f"{np.trace(Lv)!r} at x = {x.tolist()}",
                                  {"flow": flow, "axes": AX[a] + AX[b], "params": prm, "x": x.tolist(), "grad": Lv.tolist()})
    outs = C.run_driver(lines)
    for (flow, a, b, prm, x, kind, w), got in zip(want, outs):
        if isinstance(w, str):
            ok = got == w
            g = got
        else:
            g = C.hs2f(got.split()) if got not in ("ValueError", "nan") else got
            ok = (not isinstance(g, str)) and C.close(g, w, scale=float(np.abs(w).max()))
        if ok:
            res.traces += 1
        else:
            res.mismatch(f"K33 {flow}", {"axes": AX[a] + AX[b], "params": prm, "x": x.tolist(), "kind": kind},
                         w if isinstance(w, str) else w.tolist(), g if isinstance(g, str) else list(g))
    # replay of the Lean negation witnesses on the real callables
    u, L = V.simple_shear_2d("X", "Z", 1.0)
    x0 = np.array([0.3, -0.2, 0.7])
    J = _fd_jacobian(u, x0, 1e-6)
    res.evaluations += 1
    if abs(L(np.nan, x0)[0, 2] - J[0, 2]) > 1e-6:
        res.violation("grad_is_jacobian:simple_shear_2d:[direction,plane]",
                      f"witness: simple_shear_2d('X','Z',1): L[0,2] = {L(np.nan, x0)[0, 2]!r}, d u_0/d x_2 = {J[0, 2]!r}",
                      {"flow": "simple_shear_2d", "axes": "XZ", "params": [1.0], "x": x0.tolist()})
    u, L = V.cell_2d("X", "Z", 1.0, 2.0)
    x0 = np.zeros(3)
    res.evaluations += 1
    if abs(np.trace(L(np.nan, x0))) > 1e-9:
        res.violation("trace_free:cell_2d", f"witness: cell_2d('X','Z',1,2) at the origin: trace L = {np.trace(L(np.nan, x0))!r} (= -pi/2)",
                      {"flow": "cell_2d", "axes": "XZ", "params": [1.0, 2.0], "x": [0, 0, 0]})


# ------------------------------------------------------------------ strain increment
def _strain(res, rng, thorough):
    from pydrex import utils as U

    N = 400 if not thorough else 8000
    lines, want = [], []
    fams = ["general", "symmetric", "skew", "simple_shear", "zero", "diag_degenerate", "tiny", "huge"]
    for k in range(N):
        fam = fams[k % len(fams)]
        L = impl.make_L("general_trace", rng)
        if fam == "symmetric":
            L = (L + L.T) / 2
        elif fam == "skew":
            L = (L - L.T) / 2
        elif fam == "simple_shear":
            L = np.zeros((3, 3))
            a, b = PAIRS[k % 6]
            L[a, b] = float(rng.choice([2e-4, 2.0, -1.0]))
        elif fam == "zero":
            L = np.zeros((3, 3))
        elif fam == "diag_degenerate":
            L = np.diag([1.0, 1.0, -2.0]) * rng.uniform(0.1, 2)
        elif fam == "tiny":
            L = L * 1e-15
        elif fam == "huge":
            L = L * 1e12
        dt = float(rng.choice([1.0, -1.0, 0.0, 1e6, -3.5e13, rng.normal()]))
        S = (L + L.T) / 2
        w = np.linalg.eigvalsh(S)
        got = float(U.strain_increment(dt, L))
        res.evaluations += 1
        res.count("strain_increment:" + fam)
        res.nontrivial(("strain", fam, dt, L.tobytes()))
        lines.append(f"flow_strain {C.f2h(dt)} {C.fs2h(L.ravel())} {C.fs2h(w)}")
        want.append((dt, L, w, got, fam))
        # property: |dt| * largest |principal strain rate| ; independent route: spectral norm via SVD
        ref = abs(dt) * np.linalg.norm(S, 2)
        if not C.close(got, ref, rtol=1e-9, atol=1e-300):
            res.violation("strain_increment:def", f"strain_increment({dt!r}, L) = {got!r} but |dt|*||sym L||_2 = {ref!r}",
                          {"dt": dt, "L": L.tolist()})
        if got < 0:
            res.violation("strain_increment:negative", f"strain_increment = {got!r} < 0", {"dt": dt, "L": L.tolist()})
        if k < 2:
            res.sample({"kernel": "strain_increment", "dt": dt, "L": L.tolist(), "value": got})
    outs = C.run_driver(lines)
    for (dt, L, w, got, fam), line in zip(want, outs):
        m = C.hs2f(line.split())
        sc = max(np.abs(L).max(), 1e-300)
        if not C.close(m[0], got, rtol=1e-9, atol=1e-300):
            res.mismatch("K34 strain_increment", {"dt": dt, "L": L.tolist()}, got, m[0])
            continue
        # residual of the eigvalsh spec (external): char. polynomial at each value, trace
        if max(abs(m[1]), abs(m[2]), abs(m[3])) > 1e-9 * sc ** 3 or abs(m[4]) > 1e-12 * sc:
            res.mismatch("external eigvalsh spec residual", {"L": L.tolist(), "w": w.tolist()}, "roots of det(S - tI)", m[1:])
            continue
        res.traces += 1


# ------------------------------------------------------------------ is_inside and the terminal event
def _inside(res, rng, thorough):
    from pydrex import pathlines as P

    f = getattr(P, "_is_inside", None)
    if f is None:
        res.count("skipped:_is_inside_absent")
        return
    N = 350 if not thorough else 6000
    lines, want = [], []
    for k in range(N):
        n = int(rng.choice([2, 3, 3, 1]))
        lo = rng.uniform(-2, 0, n)
        hi = lo + rng.uniform(0, 3, n)
        p = rng.uniform(-2.5, 3.5, n)
        kind = ["random", "inside", "on_lo", "on_hi", "degenerate_box", "mismatch", "nan"][k % 7]
        if kind in ("inside", "on_lo", "on_hi", "nan"):
            p = lo + rng.uniform(0, 1, n) * (hi - lo)
        if kind == "on_lo":
            p[rng.integers(0, n)] = lo[rng.integers(0, n)] if n == 1 else lo[0]
            p[0] = lo[0]
        elif kind == "on_hi":
            p[-1] = hi[-1]
        elif kind == "degenerate_box":
            hi = lo.copy()
            p = lo.copy() if k % 2 else p
        elif kind == "nan":
            p[0] = np.nan
        plen, lolen, hilen = n, n, n
        if kind == "mismatch":
            which = k % 3
            if which == 0:
                p = np.append(p, 0.0)
            elif which == 1:
                lo = lo[:-1] if n > 1 else np.append(lo, 0.0)
            else:
                hi = np.append(hi, 9.0)
        try:
            w = "1" if f(p, lo, hi) else "0"
        except AssertionError:
            w = "AssertionError"
        except Exception as e:
            w = type(e).__name__
        res.evaluations += 1
        res.count("is_inside:" + kind)
        res.nontrivial(("inside", kind, p.tobytes(), lo.tobytes(), hi.tobytes()))
        lines.append(f"flow_inside {len(p)} {len(lo)} {len(hi)} {C.fs2h(p)} {C.fs2h(lo)} {C.fs2h(hi)}".rstrip())
        want.append((p, lo, hi, w, kind))
        # property (is_inside_iff)
        if w in ("0", "1") and not np.isnan(p).any():
            exp = bool(np.all(lo <= p) and np.all(p <= hi))
            if exp != (w == "1"):
                res.violation("is_inside:iff", f"_is_inside({p.tolist()}, {lo.tolist()}, {hi.tolist()}) = {w}", {"p": p.tolist(), "lo": lo.tolist(), "hi": hi.tolist()})
    outs = C.run_driver(lines)
    for (p, lo, hi, w, kind), got in zip(want, outs):
        if got == w:
            res.traces += 1
        else:
            res.mismatch("K35 _is_inside", {"p": p.tolist(), "lo": lo.tolist(), "hi": hi.tolist(), "kind": kind}, w, got)
    # _ivp_func / _ivp_jac: the velocity (gradient) inside the box, zeros of the same shape outside
    fi, fj = getattr(P, "_ivp_func", None), getattr(P, "_ivp_jac", None)
    if fi is None or fj is None:
        res.count("skipped:_ivp_func_absent")
        return
    lines, want = [], []
    for k in range(40 if not thorough else 600):
        n = int(rng.choice([2, 3]))
        lo = rng.uniform(-2, 0, n)
        hi = lo + rng.uniform(0.1, 3, n)
        p = lo + rng.uniform(-0.3, 1.3, n) * (hi - lo)
        vel = rng.normal(size=n)
        jac = rng.normal(size=(n, n))
        ins = bool(f(p, lo, hi))
        got = np.asarray(fi(0.0, p, lambda t, x: vel, lambda t, x: jac, lo, hi), float)
        gj = np.asarray(fj(0.0, p, lambda t, x: vel, lambda t, x: jac, lo, hi), float)
        res.evaluations += 1
        res.count("ivp_func:" + ("inside" if ins else "outside"))
        lines.append(f"flow_ivp {'1' if ins else '0'} {C.fs2h(vel)}")
        want.append((p, lo, hi, vel, got))
        exp_j = jac if ins else np.zeros((n, n))
        if gj.shape != (n, n) or not np.array_equal(gj, exp_j):
            res.violation("ivp_jac:spec", "_ivp_jac is not the gradient inside / zeros outside the box",
                          {"p": p.tolist(), "lo": lo.tolist(), "hi": hi.tolist()})
        if not np.array_equal(got, vel if ins else np.zeros(n)):
            res.violation("ivp_func:spec", "_ivp_func is not the velocity inside / zeros outside the box",
                          {"p": p.tolist(), "lo": lo.tolist(), "hi": hi.tolist()})
    for (p, lo, hi, vel, got), line in zip(want, C.run_driver(lines)):
        if C.close(C.hs2f(line.split()), got):
            res.traces += 1
        else:
            res.mismatch("K35 _ivp_func", {"p": p.tolist(), "lo": lo.tolist(), "hi": hi.tolist(), "vel": vel.tolist()}, got.tolist(), line)


class _Captured(Exception):
    pass


def _capture_terminate(P, p, u, L, lo, hi, ms):
    """Run the real get_pathline up to its solve_ivp call and hand back the real event closure."""
    box = {}

    def fake(fun, span, y0, **kw):
        box.update(events=kw.get("events"), args=kw.get("args"), fun=fun, jac=kw.get("jac"), span=span, y0=y0, kw=kw)
        raise _Captured()

    saved = P.si
    P.si = types.SimpleNamespace(solve_ivp=fake)
    try:
        P.get_pathline(p, u, L, lo, hi, ms)
    except _Captured:
        pass
    finally:
        P.si = saved
    return box


def _rate(L, x):
    Lv = np.asarray(L(np.nan, x), float)
    return float(np.abs(np.linalg.eigvalsh((Lv + Lv.T) / 2)).max())


def _event(res, rng, thorough):
    from pydrex import pathlines as P
    from pydrex import velocity as V

    if getattr(P, "si", None) is None or getattr(P, "_is_inside", None) is None:
        res.count("skipped:pathlines_internals_absent")
        return
    N = 90 if not thorough else 1500
    lines, want = [], []
    seen_dependent = 0
    for k in range(N):
        flow = ["cell_2d", "corner_2d", "simple_shear_2d"][k % 3]
        a, b = PAIRS[k % 6]
        if flow == "cell_2d":
            prm = (float(rng.uniform(0.5, 2)), 2.0)
            lo3, hi3 = -0.8, 0.8
        elif flow == "corner_2d":
            prm = (1.0,)
            lo3, hi3 = -1.0, -0.05
        else:
            prm = (float(rng.uniform(0.5, 2)),)
            lo3, hi3 = -1.0, 1.0
        u, L = _make_flow(V, flow, a, b, prm)
        lo = np.zeros(3)
        hi = np.zeros(3)
        lo[[a, b]] = lo3
        hi[[a, b]] = hi3
        if flow == "corner_2d":
            lo[a], hi[a] = 0.05, 1.5
        p = lo + rng.uniform(0.1, 0.9, 3) * (hi - lo)
        ms = float(rng.choice([0.5, 1.0, 3.0]))
        box = _capture_terminate(P, p, u, L, lo, hi, ms)
        ev = (box.get("events") or [None])[0]
        if ev is None or box.get("args") is None:
            res.mismatch("K35 capture of _terminate", flow, "closure captured", "no events passed to solve_ivp")
            continue
        if not getattr(ev, "terminal", False):
            res.violation("event:not_terminal", "the event handed to solve_ivp is not terminal", {"flow": flow})
        # an arbitrary evaluation history: non-monotone times, points inside and outside the box, repeats
        m = int(rng.integers(3, 14))
        ts = -np.cumsum(rng.uniform(0.01, 0.5, m))
        order = np.arange(m)
        for _ in range(int(rng.integers(0, 4))):
            i, j = rng.integers(0, m, 2)
            order[i], order[j] = order[j], order[i]
        pts = []
        for i in range(m):
            q = lo + rng.uniform(0.02, 0.98, 3) * (hi - lo)
            if rng.uniform() < 0.2:
                q[b] = hi[b] + 0.1 if flow != "cell_2d" else hi[b] + 0.05
            pts.append(q)
        seq = [(float(ts[i]), pts[i]) for i in order]
        if m >= 4:  # re-evaluate two earlier (t, x) pairs: same arguments, later in the history
            seq += [seq[0], seq[1]]
        vals, toks = [], []
        first_val = {}
        for (t, q) in seq:
            ins = bool(P._is_inside(q, lo, hi))
            r = _rate(L, q) if ins else 0.0
            v = float(ev(t, q, *box["args"]))
            vals.append(v)
            toks.append(f"{C.f2h(t)} {'1' if ins else '0'} {C.f2h(r)}")
            key = (t, q.tobytes())
            if ins and key in first_val and abs(first_val[key] - v) > 1e-9:
                seen_dependent += 1
            first_val.setdefault(key, v)
        res.evaluations += 1
        res.count("event_history:" + flow)
        res.nontrivial(("event", flow, a, b, ms, tuple(t for t, _ in seq)))
        lines.append(f"flow_event {C.f2h(ms)} {len(seq)} " + " ".join(toks))
        want.append((flow, ms, [t for t, _ in seq], vals))
        if k < 2:
            res.sample({"kernel": "_terminate (real closure, synthetic history)", "flow": flow, "max_strain": ms,
                        "times": [t for t, _ in seq][:8], "values": vals[:8]})
    res.count("event_value_history_dependent_observed", seen_dependent)
    outs = C.run_driver(lines)
    for (flow, ms, ts, vals), line in zip(want, outs):
        got = C.hs2f(line.split())[: len(vals)]
        if C.close(got, vals, scale=max(1.0, ms)):
            res.traces += 1
        else:
            res.mismatch("K35 _terminate state machine", {"flow": flow, "max_strain": ms, "times": ts}, vals, got)


# ------------------------------------------------------------------ pathlines (runtime validation)
def _pathline_case(rng, V, flow, k):
    a, b = PAIRS[int(rng.integers(0, 6))]
    lo = np.zeros(3)
    hi = np.zeros(3)
    if flow == "simple_shear_2d":
        phys = bool(k % 3 == 0)
        sr = 1e-15 if phys else float(rng.choice([1e-4, 1.0, 3.0]))
        prm = (sr,)
        s = 2e5 if phys else float(rng.choice([1.0, 2.0, 5.0]))
        lo[[a, b]] = -s
        hi[[a, b]] = s
    elif flow == "cell_2d":
        d = float(rng.choice([2.0, 1.0, 1e5, rng.uniform(0.5, 10)]))
        U = float(rng.choice([1.0, 6.3e-10, rng.uniform(0.1, 3)]))
        prm = (U, d)
        if k % 2 == 0:  # the whole cell
            lo[[a, b]] = -d / 2
            hi[[a, b]] = d / 2
        else:           # a sub-box of the cell
            c = rng.uniform(-0.2, 0.2, 2) * d
            w = rng.uniform(0.1, 0.28, 2) * d
            lo[[a, b]] = c - w
            hi[[a, b]] = c + w
    else:
        phys = bool(k % 3 == 0)
        U = 2.0 / 100 / YEAR if phys else float(rng.choice([1.0, 0.3, 2.5]))
        prm = (U,)
        s = 2e5 if phys else float(rng.choice([1.0, 2.0]))
        side = 1.0 if k % 5 else -1.0
        if side > 0:
            lo[a], hi[a] = 0.0, 2 * s
        else:
            lo[a], hi[a] = -2 * s, 0.0
        lo[b], hi[b] = -s, 0.0
    u, L = _make_flow(V, flow, a, b, prm)
    p = lo + rng.uniform(0.03, 0.97, 3) * (hi - lo)
    if flow == "corner_2d":
        p[b] = min(p[b], -0.02 * (hi[b] - lo[b]))
    ms = float(rng.choice([0.1, 0.5, 1.0, 2.0, 5.0, 10.0]))
    steps = None if k % 2 else int(rng.choice([1, 5, 10, 40]))
    return a, b, prm, u, L, lo, hi, p, ms, steps


def _check_pathline(res, flow, a, b, prm, u, L, lo, hi, p, ms, steps, ts, sol):
    rep = {"flow": flow, "axes": AX[a] + AX[b], "params": prm, "min_coords": lo.tolist(), "max_coords": hi.tolist(),
           "final_location": p.tolist(), "max_strain": ms, "regular_steps": steps}
    ts = np.asarray(ts, float)
    scale = float(np.max(hi - lo))
    # ends at the requested location at t = 0
    if ts[-1] != 0.0:
        res.violation(f"pathline:last_time_not_zero:{flow}", f"last timestamp {ts[-1]!r} != 0", rep)
    if steps is not None and len(ts) != steps + 1:
        res.violation(f"pathline:regular_steps_count:{flow}", f"{len(ts)} timestamps for regular_steps={steps}", rep)
    x0 = np.asarray(sol(0.0), float)
    if np.abs(x0 - p).max() > 1e-12 * scale:
        res.violation(f"pathline:end_point:{flow}", f"position at t=0 is {x0.tolist()} not the final location", rep)
    # strictly increasing timestamps (a pathline that starts and ends at t=0 has no extent: allowed only if
    # the event fires immediately, which needs max_strain = 0)
    if len(ts) < 2 or not (np.diff(ts) > 0).all():
        res.violation(f"pathline:timestamps_not_increasing:{flow}", f"timestamps {ts[:5].tolist()}..{ts[-3:].tolist()}", rep)
        return
    knots = np.asarray(sol.ts, float)[::-1]          # solver's own steps, increasing, ending at 0
    t_first = ts[0]
    if abs(t_first - knots[0]) > 1e-9 * abs(knots[0]):
        res.violation(f"pathline:start_time:{flow}", f"first timestamp {t_first!r} is not the event time {knots[0]!r}", rep)
    inside = lambda q, tol=0.0: bool(np.all(q >= lo - tol) and np.all(q <= hi + tol))  # noqa: E731
    umax = 0.0
    worst_d = 0.0
    worst_out = 0.0
    strain = 0.0
    integ = np.zeros(3)
    worst_int = 0.0
    pos_prev = np.asarray(sol(knots[-1]), float)
    nseg = len(knots) - 1
    for s in range(nseg - 1, -1, -1):               # from t=0 backwards
        t0, t1 = knots[s], knots[s + 1]
        tt = np.linspace(t1, t0, 9)
        X = np.array([np.asarray(sol(t), float) for t in tt])
        for q in X:
            worst_out = max(worst_out, float(np.max(np.maximum(lo - q, q - hi))))
        Xc = np.clip(X, lo, hi)
        try:
            Uv = np.array([np.asarray(u(np.nan, q), float) for q in Xc])
            R = np.array([_rate(L, q) for q in Xc])
        except ValueError:
            return  # clipped point outside the flow's own domain: cannot happen for boxes inside the domain
        umax = max(umax, float(np.abs(Uv).max()))
        # composite Simpson on 8 sub-intervals (tt decreasing: dt negative, strain accumulates with |dt|)
        hh = (t0 - t1) / 8
        wts = np.array([1, 4, 2, 4, 2, 4, 2, 4, 1]) * hh / 3
        strain += float(np.sum(wts * R)) * (-1)
        integ += (wts[:, None] * Uv).sum(axis=0)
        pos_here = X[-1]
        worst_int = max(worst_int, float(np.abs((pos_here - pos_prev) - (wts[:, None] * Uv).sum(axis=0)).max()))
        pos_prev = pos_here
        if s >= 1:                                    # derivative check on segments that do not contain the event
            hstep = (t1 - t0) * 1e-3
            for fr in (0.1, 0.25, 0.5, 0.75, 0.9):
                t = t0 + fr * (t1 - t0)
                q = np.asarray(sol(t), float)
                # the right-hand side jumps to zero at the box faces; steps whose stages touch a face carry that
                # jump in their interpolant, so the pointwise clause is evaluated at least 1e-3*box away from the faces
                if min(float((q - lo)[[a, b]].min()), float((hi - q)[[a, b]].min())) < 1e-3 * scale:
                    res.count("dxdt_points_excluded_near_box_face")
                    continue
                res.count("dxdt_points_checked")
                dx = (np.asarray(sol(t + hstep), float) - np.asarray(sol(t - hstep), float)) / (2 * hstep)
                worst_d = max(worst_d, float(np.abs(dx - np.asarray(u(np.nan, q), float)).max()))
    strain = abs(strain)
    res.count("pathline_segments", nseg)
    if umax > 0 and worst_d > 5e-2 * umax:
        res.violation(f"pathline:dxdt:{flow}", f"max |dx/dt - u(x)| = {worst_d!r} vs max|u| = {umax!r} along the dense interpolant", rep)
    if worst_int > 1e-3 * scale:
        res.violation(f"pathline:integral_form:{flow}", f"x(t1)-x(t0) differs from the integral of u by {worst_int!r} (box {scale!r})", rep)
    if worst_out > 2e-3 * scale:
        res.violation(f"pathline:leaves_box:{flow}", f"pathline is {worst_out!r} outside the box (box size {scale!r})", rep)
    if strain > 1.25 * ms * (1 + 1e-6):
        res.violation(f"pathline:strain_exceeds:{flow}", f"accumulated strain {strain!r} > 1.25 * max_strain = {1.25 * ms!r}", rep)
    return {"strain_ratio": strain / ms, "overshoot": worst_out / scale, "dxdt": (worst_d / umax if umax else 0.0),
            "integral": worst_int / scale, "n": nseg}


# witnesses of the known pathline findings: (a, b, params, min_coords, max_coords, final_location, max_strain, regular_steps)
_CORPUS = {
    "cell_2d": [(1, 0, (6.3e-10, 2.0), [-1.0, -1.0, 0.0], [1.0, 1.0, 0.0],
                 [-0.7942716774888656, 0.25556151321564524, 0.0], 1.0, 10)],
    "corner_2d": [(0, 2, (2.5,), [0.0, 0.0, -2.0], [4.0, 0.0, 0.0],
                   [0.6395651222717779, 0.0, -0.08795381221231424], 2.0, 40)],
}


def _pathlines(res, rng, thorough):
    from pydrex import pathlines as P
    from pydrex import velocity as V
    import scipy.integrate as si

    N = 160 if not thorough else 6000
    stats = {}
    hl, hw = [], []
    for flow in ("simple_shear_2d", "cell_2d", "corner_2d"):
        worst = {"strain_ratio": 0.0, "overshoot": 0.0, "dxdt": 0.0, "integral": 0.0}
        for k in range(-len(_CORPUS.get(flow, [])), N):
            if k < 0:   # fixed witnesses first (inputs of the known findings)
                a, b, prm, lo, hi, p, ms, steps = _CORPUS[flow][k]
                lo, hi, p = np.array(lo, float), np.array(hi, float), np.array(p, float)
                u, L = _make_flow(V, flow, a, b, prm)
            else:
                a, b, prm, u, L, lo, hi, p, ms, steps = _pathline_case(rng, V, flow, k)
            res.evaluations += 1
            res.count(f"pathline:{flow}")
            # record the real evaluation history of the real event while the real solve_ivp runs
            log = []
            real = si.solve_ivp

            def recording(fun, span, y0, _log=log, **kw):
                ev = kw["events"][0]

                def rec(t, y, *args):
                    v = ev(t, y, *args)
                    _log.append((float(t), np.array(y, float), float(v)))
                    return v

                rec.terminal = getattr(ev, "terminal", False)
                kw["events"] = [rec]
                return real(fun, span, y0, **kw)

            saved = getattr(P, "si", None)
            if saved is not None:
                P.si = types.SimpleNamespace(solve_ivp=recording)
            exc = None
            if res.dist.get(f"pathline_timeout:{flow}", 0) >= 2:
                res.count(f"pathline_skipped_after_timeouts:{flow}")   # already reported; do not spend 30 s on every further one
                continue

            class _PathlineTimeout(Exception):
                pass

            def _on_alarm(signum, frame):
                raise _PathlineTimeout(f"no pathline after {PATHLINE_TIME_LIMIT_S} s")

            import signal as _signal
            old_handler = _signal.signal(_signal.SIGALRM, _on_alarm)
            _signal.setitimer(_signal.ITIMER_REAL, PATHLINE_TIME_LIMIT_S)
            try:
                ts, sol = P.get_pathline(p, u, L, lo, hi, ms, regular_steps=steps)
            except _PathlineTimeout as e:
                # "for every final location inside the box a pathline is returned": a pathline that is still being integrated
                # after a time limit hundreds of times the normal cost (normal: < 0.1 s) is reported as not returned
                exc = e
            except Exception as e:  # noqa: BLE001
                exc = e
            finally:
                _signal.setitimer(_signal.ITIMER_REAL, 0)
                _signal.signal(_signal.SIGALRM, old_handler)
                if saved is not None:
                    P.si = saved
            # model of the event on the recorded history (also for runs that raised)
            if log and getattr(P, "_is_inside", None) is not None and (k % 3 == 0 or exc is not None):
                toks = []
                for (t, y, v) in log:
                    ins = bool(P._is_inside(y, lo, hi))
                    toks.append(f"{C.f2h(t)} {'1' if ins else '0'} {C.f2h(_rate(L, y) if ins else 0.0)}")
                hl.append(f"flow_event {C.f2h(ms)} {len(log)} " + " ".join(toks))
                hw.append((flow, ms, [v for (_, _, v) in log]))
                nonmono = int(np.sum(np.diff([t for (t, _, _) in log]) > 0))
                res.count("event_probes_backwards_in_history", nonmono)
            if exc is not None:
                msg = str(exc).split("\n")[0][:60]
                key = f"pathline_raises:{flow}:{type(exc).__name__}:{msg}"
                if type(exc).__name__ == "_PathlineTimeout":
                    key = f"pathline_not_returned:{flow}:timeout"
                    res.count(f"pathline_timeout:{flow}")
                tail = [(t, v) for (t, _, v) in log[-4:]]
                res.violation(key, f"get_pathline raised {type(exc).__name__}: {msg} for a final location inside the box "
                              f"({flow}, axes {AX[a]}{AX[b]}, params {prm}, final {p.tolist()}, max_strain {ms}); last event "
                              f"evaluations (t, value): {tail}",
                              {"flow": flow, "axes": AX[a] + AX[b], "params": prm, "min_coords": lo.tolist(),
                               "max_coords": hi.tolist(), "final_location": p.tolist(), "max_strain": ms, "regular_steps": steps})
                res.count(f"pathline_raised:{flow}")
                continue
            res.nontrivial(("path", flow, a, b, prm, p.tobytes(), ms, steps))
            st = _check_pathline(res, flow, a, b, prm, u, L, lo, hi, p, ms, steps, ts, sol)
            if st:
                for q in worst:
                    worst[q] = max(worst[q], st[q])
                if k < 1:
                    res.sample({"pathline": flow, "axes": AX[a] + AX[b], "params": prm, "final_location": p.tolist(),
                                "max_strain": ms, "regular_steps": steps, "n_timestamps": len(ts), "t_start": float(ts[0]),
                                "strain_ratio": st["strain_ratio"]})
        stats[flow] = worst
    res.notes.append({"pathline_worst_observed": stats})
    outs = C.run_driver(hl)
    for (flow, ms, vals), line in zip(hw, outs):
        got = C.hs2f(line.split())[: len(vals)]
        if C.close(got, vals, scale=max(1.0, ms)):
            res.traces += 1
        else:
            res.mismatch("K35 _terminate on a recorded solve_ivp history", {"flow": flow, "max_strain": ms, "n": len(vals)},
                         vals[:20], got[:20])


def run(ctx, res):
    rng = np.random.default_rng(ctx["seed"] + 1818)
    th = ctx["thorough"]
    res.rule = ("flows: 3 families x 6 axis pairs x parameter/point families (interior, boundary, outside, corner, branch cut); "
                "strain increments over 8 matrix families; is_inside over 7 families; terminal-event histories (synthetic, "
                "non-monotone, with repeats; and recorded from real solve_ivp runs); pathlines over flows x boxes x final "
                "locations x strain limits x regular_steps. Non-trivial = a case on which a property predicate was actually "
                "evaluated (finite outputs, not excluded by the branch-cut rule); distinct by input hash")
    _check_upper_assumption(res)
    _indices(res, rng, th)
    _kernels(res, rng, th)
    _strain(res, rng, th)
    _inside(res, rng, th)
    _event(res, rng, th)
    _pathlines(res, rng, th)
    # representation- and history-robustness of the public functions (harness/apirobust.py)
    from .. import apirobust_cases as _AC
    _AC.c18(res, np.random.default_rng(ctx["seed"] + 4242), ctx)


def replay(data):
    """Re-run the failing inputs stored in a replay file on the real code."""
    import json

    from pydrex import pathlines as P
    from pydrex import velocity as V

    rc = 0
    for v in data.get("violations", []):
        r = v.get("replay", {})
        print("violation:", v.get("key"), "-", v.get("what"))
        flow = r.get("flow")
        if flow and "final_location" in r:
            a, b = AX.index(r["axes"][0]), AX.index(r["axes"][1])
            u, L = _make_flow(V, flow, a, b, tuple(r["params"]))
            try:
                ts, _ = P.get_pathline(np.array(r["final_location"]), u, L, np.array(r["min_coords"]), np.array(r["max_coords"]),
                                       r["max_strain"], regular_steps=r.get("regular_steps"))
                print("  get_pathline returned", len(ts), "timestamps")
            except Exception as e:  # noqa: BLE001
                print("  get_pathline raised", type(e).__name__, str(e)[:100])
                rc = 1
        elif flow and "x" in r:
            a, b = AX.index(r["axes"][0]), AX.index(r["axes"][1])
            u, L = _make_flow(V, flow, a, b, tuple(r["params"]))
            x = np.array(r["x"], float)
            print("  gradient callable:\n", np.asarray(L(np.nan, x)))
            print("  central differences:\n", _fd_jacobian(u, x, 1e-6 * max(1.0, np.abs(x).max())))
            rc = 1
        else:
            print(json.dumps(r)[:2000])
    return rc
