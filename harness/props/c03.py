"""C03 — rates conserve the texture manifold (skew spins, zero net volume change, totality)."""
from __future__ import annotations

import numpy as np

from .. import common as C
from .. import impl  # noqa: F401
from .. import drex

# S2: the arithmetic kernels of core.py are re-traced from the source on every run and the bridge theorems
# (lean/Bridge/Drex.lean: traced_f = ModelR.f) are re-checked by the Lean kernel.
PRE_LEAN = C.s2_trace_core
EXTRA_LEAN_MODULES = ("Bridge.Drex",)

PARTIAL = ["floating-point rounding and numba fastmath reassociation (theorems are over the reals; the compiled and "
           "interpreted code paths are both compared with the model within 1e-9 relative)"]
ASSUMPTIONS = ["np.argsort on four keys is a stable sort (checked by the correspondence, including exact ties)"]
TRUSTED = ["harness/drex.py generators and the counted exclusion rule: grains whose slip keys have a relative gap in (0, 1e-6) "
           "or invariants in (0, 1e-9) are not compared numerically (rounding decides the branch); the property predicates are still evaluated on them"]


def _energy_scale(case):
    """M * phi * sum f_i |E_i|: the conditioning of the zero-sum clause (each rate is M phi f_i (mean - E_i), formed by subtracting
    energies that may agree to many digits); needs the private per-grain kernel, 0.0 when it is absent"""
    from pydrex import core

    rs = getattr(core, "_get_rotation_and_strain", None)
    if rs is None:
        return 0.0
    try:
        with np.errstate(all="ignore"):
            E = np.array([rs(case["phase"], case["fabric"], case["A"][g], case["D"], case["L"], case["p"], case["nexp"], case["lam"])[1]
                          for g in range(case["n"])])
        v = float(case["M"] * case["phi"] * (case["f"] * np.abs(E)).sum())
        return v if np.isfinite(v) else 0.0
    except Exception:  # noqa: BLE001
        return 0.0


def _predicates(res, case, out, tag, extreme=False):
    rep = {k: (v.tolist() if hasattr(v, "tolist") else v) for k, v in case.items()}
    rep["path"] = tag
    if out[0] != "ok":
        res.violation(f"total:raises:{out[1]}", f"derivatives raised {out[1]}: {out[2]} ({tag})", rep)
        return
    Ad, fd = out[1], out[2]
    if not (np.isfinite(Ad).all() and np.isfinite(fd).all()):
        if extreme and np.abs(case["L"]).max() > 1e150 and case["lam"] == 0:
            # |L| > 1e150 with nucleation efficiency exactly 0: the SQUARE of the dislocation density overflows and exp(-0 * inf) is NaN
            res.violation("total:nonfinite:squared_density_overflow(|L|>1e150,lambda=0)", f"derivatives returned non-finite values ({tag}): "
                          "rho**2 overflows for |L| > ~1e154 and exp(-0*inf) = NaN", rep)
        else:
            res.violation("total:nonfinite", f"derivatives returned non-finite values ({tag})", rep)
        return
    A, f = case["A"], case["f"]
    for g in range(case["n"]):
        if abs(np.linalg.det(A[g])) > 0.2:
            Om = np.linalg.solve(A[g], Ad[g])
            sc = max(1.0, np.abs(Om).max())
            if np.abs(Om + Om.T).max() > 1e-9 * sc * np.linalg.cond(A[g]):
                res.violation("skew:spin_not_skew", f"A^-1.Adot is not skew for grain {g} ({tag})", rep)
                break
    s = np.abs(fd).sum()
    # tolerance: relative to sum|rates| and to the natural scale M phi sum f|E| of the subtraction (extreme magnitudes: energies ~1e66)
    if abs(f.sum() - 1) < 1e-12 and abs(fd.sum()) > 1e-9 * max(s, 1e-300) + 1e-13 + (1e-12 * _energy_scale(case) if extreme else 0.0):
        res.violation("volume:sum_nonzero", f"sum of fraction rates {fd.sum()!r} (|.|sum {s!r}) ({tag})", rep)
    if np.any(fd[f == 0] != 0):
        res.violation("volume:dead_grain_grows", f"zero-volume grain has non-zero rate ({tag})", rep)
    if case["M"] == 0 and np.any(fd != 0):
        res.violation("volume:zero_mobility", f"M = 0 but fraction rates non-zero ({tag})", rep)


def run(ctx, res):
    from pydrex import core

    rng = np.random.default_rng(ctx["seed"] + 303)
    N = 240 if not ctx["thorough"] else 6000
    nmax = 10 if not ctx["thorough"] else 60
    res.rule = ("core.derivatives on generated (phase, fabric) x regime {4,6} x orientation family {random, axis-aligned, mixed, "
                "about-axis, non-orthonormal} x volume family {uniform, dirichlet, zeros, dominant} x L family x parameters; "
                "non-trivial = at least one grain with a resolved slip system; distinct by input hash; both code paths")
    cases = [drex.make_case(rng, k, nmax=nmax) for k in range(N)]
    # targeted: the unresolved-slip witnesses (only the infinite-CRSS system is resolved)
    for fab, (i, j) in [(2, (1, 2)), (2, (2, 1)), (0, (0, 2)), (1, (0, 2)), (3, (2, 0)), (4, (0, 2))]:
        c = drex.make_case(rng, 0, nmax=3)
        L = np.zeros((3, 3))
        L[i, j] = 2.0
        c.update(phase=0, fabric=fab, n=2, A=np.stack([np.eye(3), drex.signed_perm(rng)]), f=np.array([0.5, 0.5]),
                 L=L, D=(L + L.T) / 2, kinds=("witness", "uniform", "simple"))
        cases.append(c)
    if ctx["thorough"]:
        big = drex.make_case(rng, 1, nmax=3)
        n = 100000
        big.update(n=n, A=np.ascontiguousarray(drex.rotations(rng, n, "mixed")), f=np.full(n, 1.0 / n))
    # grain counts at and around power-of-two block boundaries (blocked/pairwise summation, vectorised tails)
    for n in ([127, 128, 129, 1024, 4096, 8192] if not ctx["thorough"] else [255, 256, 257, 2048, 8191, 8192, 8193, 16384, 32768, 65536]):
        c = drex.make_case(rng, 1 + n % 5, nmax=3)
        c.update(n=n, A=np.ascontiguousarray(drex.rotations(rng, n, "random")), f=rng.dirichlet(np.ones(n)), regime=4 if n % 2 else 6,
                 kinds=("random", f"n={n}", c["kinds"][2]))
        cases.append(c)
    # extreme magnitudes of the velocity gradient ("all finite velocity gradients"): the rates only involve activity RATIOS, so
    # nothing may under- or overflow on the way; predicates only (the Float model is not asked to reproduce overflow behaviour)
    extreme = []
    rng_x = np.random.default_rng(ctx["seed"] + 3030)
    for k in range(16 if not ctx["thorough"] else 200):
        c = drex.make_case(rng_x, k, nmax=4)
        if c["kinds"][0] == "nonorth":
            c["A"] = np.ascontiguousarray(drex.rotations(rng_x, c["n"], "random"))
        sgn = 1 if k % 2 else -1
        s_ = float(10.0 ** (sgn * rng_x.uniform(85, 290)))
        c.update(L=c["L"] * s_, D=c["D"] * s_, kinds=(c["kinds"][0], c["kinds"][1], f"{c['kinds'][2]}*1e{int(np.log10(s_))}"))
        extreme.append(c)
    # fixed witness of the recorded finding (known_findings/C03.json): lambda* = 0 and |L| = 1e160
    cw = drex.make_case(np.random.default_rng(3031), 3, nmax=1)
    cw.update(A=np.ascontiguousarray(drex.rotations(np.random.default_rng(3032), cw["n"], "random")), lam=0.0, p=2.0, nexp=2.0)
    cw.update(L=cw["L"] * 1e160, D=cw["D"] * 1e160, kinds=("random", cw["kinds"][1], "witness*1e160"))
    extreme.insert(0, cw)
    drex.variant_checks(res, rng, ctx, "total")
    outs_int = [drex.call_derivatives(c) for c in cases]
    outs_jit = drex.run_jit(cases + extreme + ([big] if ctx["thorough"] else []))
    if ctx["thorough"]:
        ob_big = outs_jit.pop()
    outs_x = outs_jit[len(cases):]
    outs_jit = outs_jit[:len(cases)]
    if ctx["thorough"]:
        outs_jit.append(ob_big)
    for c, oj_ in zip(extreme, outs_x):
        res.evaluations += 1
        res.count("extreme_magnitude:1e%+d" % (100 * int(np.sign(np.log10(np.abs(c["L"]).max())))))
        res.nontrivial(("extreme", c["A"].tobytes(), c["L"].tobytes()))
        if np.isfinite(c["L"]).all():
            with np.errstate(all="ignore"):
                _predicates(res, c, drex.call_derivatives(c), "interpreted,extreme magnitude", extreme=True)
            _predicates(res, c, oj_, "jit,extreme magnitude", extreme=True)
    if ctx["thorough"]:
        ob = outs_jit.pop()
        res.evaluations += 1
        res.count("n=1e5 (compiled path only)")
        _predicates(res, big, ob, "jit")
    lines = [drex.case_line(c) for c in cases]
    model = C.run_driver(lines)
    for k, (c, oi, oj, ml) in enumerate(zip(cases, outs_int, outs_jit, model)):
        res.evaluations += 1
        cond = drex.conditioning(c)
        res.count(f"phase{c['phase']}fabric{c['fabric']}")
        res.count("regime%d" % c["regime"])
        res.count("A:" + c["kinds"][0])
        res.count("f:" + c["kinds"][1])
        res.count("unresolved_grains", cond["unresolved"])
        if cond["unresolved"] < c["n"]:
            res.nontrivial((c["A"].tobytes(), c["f"].tobytes(), c["L"].tobytes(), c["phase"], c["fabric"], c["regime"]))
        _predicates(res, c, oi, "interpreted")
        _predicates(res, c, oj, "jit")
        if k < 3:
            res.sample({"phase": c["phase"], "fabric": c["fabric"], "regime": c["regime"], "n": c["n"], "kinds": c["kinds"],
                        "L": c["L"].tolist(), "p": c["p"], "n_exp": c["nexp"], "lambda": c["lam"], "M": c["M"], "phi": c["phi"]})
        # linearity in M and phi, on the implementation
        if oi[0] == "ok" and k % 4 == 0:
            c2 = dict(c, M=2 * c["M"], phi=c["phi"] / 2)
            o2 = drex.call_derivatives(c2)
            if o2[0] != "ok" or not np.allclose(o2[2], oi[2], rtol=1e-12, atol=1e-300) or not np.array_equal(o2[1], oi[1]):
                res.violation("volume:not_linear_in_M_phi", "doubling M and halving phi changed the rates",
                              {"case": {kk: (v.tolist() if hasattr(v, "tolist") else v) for kk, v in c.items()}})
        # grows iff energy below mean (needs the private per-grain kernel; skipped if it is renamed)
        rs = getattr(core, "_get_rotation_and_strain", None)
        if rs is None:
            res.count("skipped:private _get_rotation_and_strain absent")
        elif oi[0] == "ok" and k % 4 == 1 and c["M"] > 0:
            E = np.array([rs(c["phase"], c["fabric"], c["A"][g], c["D"], c["L"], c["p"], c["nexp"], c["lam"])[1] for g in range(c["n"])])
            mean = float((c["f"] * E).sum())
            for g in range(c["n"]):
                if c["f"][g] > 0 and abs(mean - E[g]) > 1e-9 * max(1.0, abs(mean)):
                    if (oi[2][g] > 0) != (E[g] < mean):
                        res.violation("volume:growth_sign", "a grain grows although its energy is above the mean (or vice versa)",
                                      {"grain": g, "E": E.tolist(), "mean": mean, "fdot": oi[2].tolist()})
        # correspondence with the model
        if cond["near_tie"] or cond["near_guard"]:
            res.count("excluded_from_numeric_comparison(near tie/guard)")
            continue
        toks = ml.split()
        for tag, o in (("interpreted", oi), ("jit", oj)):
            if o[0] == "ok" and toks[0] == "ok":
                want = np.concatenate([o[1].ravel(), o[2]])
                got = C.hs2f(toks[1:])
                if C.close(got, want, scale=max(1.0, float(np.abs(want).max()) if want.size else 1.0)):
                    res.traces += 1
                else:
                    res.mismatch(f"K9 core.derivatives ({tag})", {"case": k, "kinds": c["kinds"], "phase": c["phase"], "fabric": c["fabric"],
                                                                  "regime": c["regime"], "A": c["A"].tolist(), "f": c["f"].tolist(), "L": c["L"].tolist(),
                                                                  "params": [c["p"], c["nexp"], c["lam"], c["M"], c["phi"]]},
                                 want.tolist()[:30], got[:30], note=f"maxdiff={C.maxdiff(got, want)}")
            elif o[0] == "err" and toks[0] == "err":
                res.traces += 1
            else:
                res.mismatch(f"K9 core.derivatives ({tag})", {"case": k}, str(o[:2]), ml[:80], note="ok/err disagreement")


def replay(data):
    return drex.replay_violations(data)
