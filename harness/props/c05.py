"""C05 — texture depends on the strain path, not on the strain rate."""
from __future__ import annotations

import numpy as np

from .. import common as C
from .. import impl
from .. import solver

EXTRA_LEAN_MODULES = ("Properties.C05Time",)

PARTIAL = [
    "LSODA's own scale covariance (tolerances relative to y0, first step relative to the span, internal step selection) is a "
    "runtime fact: validated by paired real runs for k in [1e-16, 1e3], not proved; the theorems give degree-one homogeneity of "
    "eval_rhs and rate invariance of every explicit one-step scheme (Euler and arbitrary explicit Runge-Kutta tableaux, autonomous and time-dependent histories)",
]
ASSUMPTIONS = ["max |eig| of the strain rate is homogeneous of degree one (external eigvalsh; checked on every rhs evaluation compared)"]
JIT_TWIN = ('update', 'large_update')   # groups of harness/jittwin.py: the numba-compiled code is run on the same battery and compared
TRUSTED = ["harness/solver.py scenario driver"]

# paired real runs must agree within the accumulated solver tolerance of the property; on the present code they agree to ~1e-9,
# which is recorded in the evidence (max_pair_diff) but not demanded.
def _tol(N, strain):
    return 5e-3 + 1e-3 * (N + 2 * strain)


def run(ctx, res):
    rng = np.random.default_rng(ctx["seed"] + 505)
    n_sc = 10 if not ctx["thorough"] else 100
    res.rule = ("paired real runs: a scenario (phase, fabric, regime 4/6, L(t,x) family, texture, parameters, 1..4 update calls) and the "
                "same scenario with L multiplied by k and the time axis divided by k, k log-uniform in [1e-16, 1e3]; plus direct "
                "evaluation of the captured eval_rhs closures at (t, y) and (t/k, y); every pair is non-trivial (k != 1) and distinct")
    worst = 0.0
    for i in range(n_sc):
        sc = solver.make_scenario(rng, i, nmax=14 if not ctx["thorough"] else 40, regimes=(4, 6))
        k = float(10 ** rng.uniform(-16, 3))
        if i % 5 == 0:
            k = float(rng.choice([1e-16, 1e-15, 1e-4, 1e3, 2.0, 0.5]))
        sck = dict(sc)
        sck["field"] = sc["field"].scaled(k)
        ts = solver.times_of(sc)
        m1, F1, rec1 = solver.run_scenario(sc)
        m2, F2, rec2 = solver.run_scenario(sck, times=ts / k)
        res.evaluations += 1
        res.nontrivial(("c05", i, k))
        res.count("k:1e%d" % int(np.floor(np.log10(k))))
        res.count(f"regime{sc['regime']}")
        strain = solver.accumulated_strain(sc)
        tol = _tol(sc["n_updates"], strain)
        rep = dict(solver.scenario_json(sc), k=k)
        dA = max(float(np.abs(a - b).max()) for a, b in zip(m1.orientations, m2.orientations))
        df = max(float(np.abs(a - b).max()) for a, b in zip(m1.fractions, m2.fractions))
        dF = float(np.abs(F1[-1] - F2[-1]).max() / max(1.0, np.abs(F1[-1]).max()))
        worst = max(worst, dA, df, dF)
        if len(m1.orientations) != len(m2.orientations):
            res.violation("rate_invariance:snapshot_count", "different number of snapshots", rep)
        if not (np.isfinite(m2.orientations[-1]).all() and np.isfinite(F2[-1]).all()):
            res.violation("rate_invariance:nonfinite", f"non-finite result for k={k:g}", rep)
        elif dA > tol or df > tol or dF > tol:
            res.violation("rate_invariance:texture_or_F_differs", f"k={k:g}: max|dA|={dA:.3e} max|df|={df:.3e} rel dF={dF:.3e} > {tol:.3e}", rep)
        # direct homogeneity of the real right-hand side: rhs_k(t/k, y) = k * rhs(t, y)
        r1, r2 = rec1.updates[0], rec2.updates[0]
        for (t, y) in [(r1["t0"], r1["y0"])] + list(zip(r1["t"], r1["post"]))[:2]:
            a = np.asarray(r1["rhs"](t, np.array(y)), float)
            b = np.asarray(r2["rhs"](t / k, np.array(y)), float)
            res.evaluations += 1
            sca = max(1e-300, float(np.abs(a).max()))
            if not np.allclose(b, k * a, rtol=1e-9, atol=1e-9 * k * sca):
                res.violation("rhs_not_homogeneous", f"eval_rhs(kL)(t/k, y) != k eval_rhs(L)(t, y) for k={k:g}; max rel diff "
                              f"{float(np.abs(b - k * a).max() / (k * sca)):.3e}", rep)
        # model-vs-implementation for both members of the pair
        solver.check_rhs(res, sc, m1, rec1, max_points=2)
        solver.check_rhs(res, sck, m2, rec2, max_points=2, tag="K12 eval_rhs (scaled history)")
        if i < 3:
            res.sample({"k": k, "phase": sc["phase"], "fabric": sc["fabric"], "regime": sc["regime"], "n": sc["n"], "updates": sc["n_updates"],
                        "max|dA|": dA, "max|df|": df, "rel dF": dF})
    # ---- further ways of posing the same strain path
    M = impl._minerals
    for i in range(4 if not ctx["thorough"] else 24):
        sc = solver.make_scenario(rng, i, nmax=8, regimes=(4, 6), fields=["const"])
        strain = solver.accumulated_strain(sc)
        tol = _tol(sc["n_updates"], strain)
        rep = solver.scenario_json(sc)
        # (a) a velocity-gradient callable that returns an INTEGER-typed array, against the same path at another rate (a float array)
        Li = np.zeros((3, 3), dtype=int)
        a_, b_ = rng.choice(3, 2, replace=False)
        Li[a_, b_] = int(rng.choice([1, 3, -1]))
        sci = dict(sc, field=solver.LField(Li.astype(float)))
        k = float(rng.choice([0.5, 1e-3, 7.0]))
        m_int = solver.build_mineral(sci)
        F_int = np.eye(3)
        ts = solver.times_of(sci)
        for u in range(sci["n_updates"]):
            F_int = m_int.update_orientations(solver.params_of(sci), F_int, lambda t, x, Li=Li: Li, (ts[u], ts[u + 1], lambda t: np.zeros(3)))
        sck = dict(sci, field=sci["field"].scaled(k), F0=np.eye(3))
        m_k, F_k, _ = solver.run_scenario(sck, times=ts / k, record=False)
        res.evaluations += 2
        res.count("integer_typed_velocity_gradient")
        res.nontrivial(("c05int", i))
        d = max(float(np.abs(x - y).max()) for x, y in zip(m_int.orientations + m_int.fractions, m_k.orientations + m_k.fractions))
        dF = float(np.abs(np.asarray(F_int, float) - F_k[-1]).max())
        tol_i = _tol(sci["n_updates"], solver.accumulated_strain(sci))
        if d > tol_i or dF > tol_i * max(1.0, np.abs(F_k[-1]).max()):
            res.violation("rate_invariance:integer_typed_L", f"L returned as an integer array vs the same path at rate k={k:g} (float array): "
                          f"textures differ by {d:.3e}, F by {dF:.3e}", dict(rep, L=Li.tolist(), k=k))
        # (b) the bulk driver update_all at laboratory, geological and fast rates
        for kk in (1e-15, 1e-8, 1e3):
            sck = dict(sc, field=sc["field"].scaled(kk))
            ms1, ms2 = [solver.build_mineral(sc)], [solver.build_mineral(sck)]
            F1, F2 = np.array(sc["F0"], float), np.array(sc["F0"], float)
            ts = solver.times_of(sc)
            for u in range(sc["n_updates"]):
                F1 = M.update_all(ms1, solver.params_of(sc), F1, sc["field"], (ts[u], ts[u + 1], sc["field"].pos))
                F2 = M.update_all(ms2, solver.params_of(sck), F2, sck["field"], (ts[u] / kk, ts[u + 1] / kk, sck["field"].pos))
            res.evaluations += 2
            res.count(f"update_all:k={kk:g}")
            d = max(float(np.abs(x - y).max()) for x, y in zip(ms1[0].orientations + ms1[0].fractions, ms2[0].orientations + ms2[0].fractions))
            dF = float(np.abs(F1 - F2).max() / max(1.0, np.abs(F1).max()))
            if len(ms1[0].fractions) != len(ms2[0].fractions) or d > tol or dF > tol:
                res.violation("rate_invariance:update_all", f"update_all at k={kk:g}: textures differ by {d:.3e}, F by {dF:.3e}", dict(rep, k=kk))
        # (c) a fine partition at a fast rate: update calls spanning ~1e-8 time units still carry their strain
        scf = dict(sc, n_updates=6, span=6e-5, t0=0.0)
        kk = 1e3
        m1, F1s, _ = solver.run_scenario(scf, record=False)
        sck = dict(scf, field=scf["field"].scaled(kk))
        m2, F2s, _ = solver.run_scenario(sck, times=solver.times_of(scf) / kk, record=False)
        res.evaluations += 2
        res.count("fine_partition_fast_rate(dt=1e-8)")
        d = max(float(np.abs(x - y).max()) for x, y in zip(m1.orientations + m1.fractions, m2.orientations + m2.fractions))
        dF = float(np.abs(F1s[-1] - F2s[-1]).max())
        moved = float(np.abs(F1s[-1] - np.asarray(scf["F0"], float)).max())
        if d > 1e-9 + 1e-3 * moved or dF > 1e-3 * moved + 1e-12:
            res.violation("rate_invariance:fine_partition", f"six update calls of 1e-8 time units at k=1e3 vs 1e-5 at k=1: textures differ by {d:.3e}, "
                          f"F by {dF:.3e} (F moved by {moved:.3e})", rep)
    res.notes.append(f"largest pair difference observed in this run: {worst:.3e} (property allows the accumulated solver tolerance)")


def replay(data):
    from .. import solver as _solver
    return _solver.replay_violations(data)
