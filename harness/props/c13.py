"""C13 — eigenvalue-based texture and strain diagnostics are objective.

Correspondence K21–K24: `stats._scatter_matrix`, `diagnostics.symmetry_pgr`, `coaxial_index`,
`bingham_average`, `finite_strain`, `utils.angle_fse_simpleshear` against ModelF.Diag.* (Lean driver).
LAPACK is an external of the model: every `eigh`/`eigvalsh` call the real functions make is recorded
(proxy for the module attribute `pydrex.diagnostics.la`), checked against the assumed spec
(`IsEigen`: orthonormal columns, S v = w v on the LOWER-triangle symmetric completion, ascending),
and its recorded result is what the model is given.
The statement of C13 is evaluated directly on the real outputs (ranges, sums, principal-axis test
against an independently built scatter matrix, paired calls for permutation / symmetry relabelling /
frame rotation, SVD characterisation of the finite strain, closed-form simple-shear angle).
"""
from __future__ import annotations

import numpy as np

from .. import common as C
from .. import impl

PARTIAL = [
    "LAPACK (scipy.linalg.eigh / eigvalsh) is an external: its spec is a hypothesis of the theorems and is "
    "validated on every recorded call, not proved; eigenvector conditioning for near-degenerate spectra is a LAPACK fact "
    "(axis co-rotation is only asserted when the top eigenvalue gap exceeds 1e-6 of the trace; counted)",
    "floating-point rounding (theorems over the reals; comparisons within 1e-9 relative): e.g. R = -1e-18 for a "
    "single-orientation texture is rounding of an exact 0",
]
ASSUMPTIONS = [
    "IsEigen spec of scipy.linalg.eigh/eigvalsh on 3x3 symmetric input (lower triangle read)",
    "numpy pairwise summation vs sequential summation differ only at rounding level",
    "angle_fse_simpleshear(strain) refers to F = I + 2*strain e_y (x) e_x with strain > 0 "
    "(the convention of tests/test_simple_shear_2d.py: gradient 2*strain_rate, strain = strain_rate*t); "
    "strain < 0 is outside the helper's domain (it then returns the short axis; replayed and counted, not alarmed)",
]
JIT_TWIN = ('diag',)   # groups of harness/jittwin.py: the numba-compiled code is run on the same battery and compared
PRE_LEAN = C.s2_trace_diag   # S2: the diagnostics kernels around the LAPACK calls are re-traced on every run
EXTRA_LEAN_MODULES = ("Bridge.Diag",)
TRUSTED = ["recording proxy substituted for the module attribute pydrex.diagnostics.la at run time"]

TOL = 1e-9
GAP = 1e-6


# ------------------------------------------------------------------ recording LAPACK
class _LaProxy:
    def __init__(self, real, log):
        self._real = real
        self._log = log

    def __getattr__(self, name):
        return getattr(self._real, name)

    def eigh(self, a, *args, **kw):
        a0 = np.array(a, dtype=float, copy=True)
        r = self._real.eigh(a, *args, **kw)
        self._log.append(("eigh", a0, np.array(r[0], copy=True), np.array(r[1], copy=True)))
        return r

    def eigvalsh(self, a, *args, **kw):
        a0 = np.array(a, dtype=float, copy=True)
        r = self._real.eigvalsh(a, *args, **kw)
        self._log.append(("eigvalsh", a0, np.array(r, copy=True), None))
        return r


class LaRecorder:
    def __init__(self, module):
        self.module = module
        self.log = []
        self.active = False

    def __enter__(self):
        real = getattr(self.module, "la", None)
        if real is not None and hasattr(real, "eigh") and hasattr(real, "eigvalsh"):
            self._saved = real
            self.module.la = _LaProxy(real, self.log)
            self.active = True
        return self

    def __exit__(self, *exc):
        if self.active:
            self.module.la = self._saved
        return False


def sym_lower(a):
    return np.tril(a) + np.tril(a, -1).T


def check_eigen_spec(res, kind, a, w, V, tag):
    """The assumed behaviour of the external, on one recorded call."""
    S = sym_lower(a)
    scale = max(1.0, float(np.abs(S).max()))
    ok = bool(np.all(np.isfinite(w))) and w[0] <= w[1] <= w[2]
    if V is not None:
        ok = ok and np.abs(V.T @ V - np.eye(3)).max() <= 1e-10
        ok = ok and np.abs(S @ V - V * w[None, :]).max() <= 1e-10 * scale
    else:
        # eigenvalues only: the three invariants of the characteristic polynomial
        i1 = np.trace(S)
        i2 = 0.5 * (i1 ** 2 - np.sum(S * S))
        i3 = np.linalg.det(S)
        ok = ok and abs(w.sum() - i1) <= 1e-10 * scale
        ok = ok and abs(w[0] * w[1] + w[1] * w[2] + w[0] * w[2] - i2) <= 1e-10 * scale ** 2
        ok = ok and abs(w[0] * w[1] * w[2] - i3) <= 1e-9 * scale ** 3
    res.count("lapack_spec_checked:" + kind)
    if not ok:
        res.mismatch("LAPACK spec (IsEigen) on a recorded call", {"call": kind, "matrix": a.tolist(), "case": tag},
                     {"w": w.tolist(), "V": None if V is None else V.tolist()}, "spec violated")
    return ok


# ------------------------------------------------------------------ inputs
def orientation_set(rng, kind, n):
    from scipy.spatial.transform import Rotation

    if kind in ("random", "clustered", "girdle", "single"):
        A, _ = impl.initial_texture(kind, rng, n)
        return A
    if kind == "clustered_tight":
        base = Rotation.random(random_state=int(rng.integers(0, 2**31)))
        pert = Rotation.from_rotvec(rng.normal(scale=1e-3, size=(n, 3)))
        return np.ascontiguousarray((pert * base).as_matrix())
    if kind == "axis_perms":
        # exactly representable: signed permutation matrices (scatter may be exactly isotropic)
        perms = [np.eye(3)[list(p)] for p in ((0, 1, 2), (1, 2, 0), (2, 0, 1), (0, 2, 1), (2, 1, 0), (1, 0, 2))]
        idx = rng.integers(0, 6, n) if rng.random() < 0.5 else np.arange(n) % 3
        A = np.array([perms[i] for i in idx])
        sg = rng.choice([-1.0, 1.0], size=(n, 3, 1))
        return np.ascontiguousarray(A * sg)
    if kind == "near_uniform":
        # the 24 proper rotations of the cube, each perturbed by ~1e-6 rad: scatter matrices isotropic up to 1e-6, NOT exactly
        import itertools
        grp = []
        for perm in itertools.permutations(range(3)):
            for sg in itertools.product([1.0, -1.0], repeat=3):
                P = np.eye(3)[list(perm)] * np.array(sg)[:, None]
                if np.linalg.det(P) > 0:
                    grp.append(P)
        A = np.array([grp[i_ % 24] for i_ in range(n)])     # exactly n grains; isotropic up to the perturbation when 24 | n
        pert = Rotation.from_rotvec(rng.normal(scale=float(10 ** rng.uniform(-8, -4)), size=(len(A), 3))).as_matrix()
        return np.ascontiguousarray(np.einsum("gij,gjk->gik", pert, A))
    if kind == "two_clusters":
        b1 = Rotation.random(random_state=int(rng.integers(0, 2**31)))
        b2 = Rotation.random(random_state=int(rng.integers(0, 2**31)))
        k = n // 2
        p1 = Rotation.from_rotvec(rng.normal(scale=0.1, size=(k, 3)))
        p2 = Rotation.from_rotvec(rng.normal(scale=0.1, size=(n - k, 3)))
        parts = [(p1 * b1).as_matrix()] if k else []
        parts.append((p2 * b2).as_matrix())
        return np.ascontiguousarray(np.concatenate(parts))
    raise ValueError(kind)


KINDS = ["random", "clustered", "girdle", "single", "clustered_tight", "axis_perms", "two_clusters", "near_uniform"]
AXES = ["a", "b", "c"]
BAD_AXES = ["", "A", "x", "ab", "a ", "d", "abc", "0"]
TWOFOLDS = [np.diag(d) for d in ([1.0, 1, 1], [1, -1, -1], [-1, 1, -1], [-1, -1, 1])]


def enc(s: str) -> str:
    return ",".join(str(ord(c)) for c in s) if s else "-"


def full_scatter(A, row):
    r = A[:, row, :]
    return r.T @ r


def call(fn, *a, **k):
    try:
        return ("ok", fn(*a, **k))
    except Exception as e:  # noqa: BLE001
        return (type(e).__name__, None)


# ------------------------------------------------------------------ the property on the real outputs
def check_texture_statement(res, D, A, kind, rng, rep):
    """ranges / sums / principal axis / invariances, evaluated on the real functions"""
    n = len(A)
    out = {}
    for ax_i, ax in enumerate(AXES):
        P, G, R = (float(x) for x in D.symmetry_pgr(A, axis=ax))
        res.evaluations += 1
        S = full_scatter(A, ax_i)
        wref = np.linalg.eigvalsh(S)
        for name, val in (("P", P), ("G", G), ("R", R)):
            if not (-TOL <= val <= 1 + TOL):
                res.violation(f"pgr:range:{name}", f"{name}={val!r} outside [0,1] (axis {ax}, {kind}, n={n})", dict(rep, axis=ax))
        if not abs(P + G + R - 1) <= TOL:
            res.violation("pgr:sum", f"P+G+R={P + G + R!r} != 1 (axis {ax}, {kind}, n={n})", dict(rep, axis=ax))
        # the documented formulas against an independent eigen-decomposition
        N = wref.sum()
        want = ((wref[2] - wref[1]) / N, 2 * (wref[1] - wref[0]) / N, 3 * wref[0] / N)
        if not C.close([P, G, R], want, rtol=1e-8, atol=1e-10):
            res.violation("pgr:formula", f"(P,G,R)={(P, G, R)!r} differs from the eigenvalue formulas {want!r} of the axis scatter matrix "
                          f"(axis {ax}, {kind}, n={n})", dict(rep, axis=ax))
        u = np.asarray(D.bingham_average(A, axis=ax), dtype=float)
        res.evaluations += 1
        if abs(np.linalg.norm(u) - 1) > 1e-12:
            res.violation("bingham:unit", f"|mean axis| = {np.linalg.norm(u)!r}", dict(rep, axis=ax))
        ray = float(u @ S @ u)
        if np.abs(S @ u - ray * u).max() > 1e-9 * max(1.0, N) or ray < wref[2] - 1e-9 * max(1.0, N):
            res.violation("bingham:principal", f"mean axis is not the principal eigenvector of the {ax}-axis scatter matrix "
                          f"(Rayleigh {ray!r}, largest eigenvalue {wref[2]!r}; {kind}, n={n})", dict(rep, axis=ax))
        out[ax] = (P, G, R, u, wref)
    # coaxial index, both orders of two axis pairs
    for a1, a2 in (("b", "a"), ("c", "b"), ("a", "a")):
        P1, G1, _, _, w1 = out[a1]
        P2, G2, _, _, w2 = out[a2]
        iso = (w1[2] - w1[0]) <= 1e-9 * w1.sum() or (w2[2] - w2[0]) <= 1e-9 * w2.sum()
        with np.errstate(all="ignore"):
            ba = float(D.coaxial_index(A, axis1=a1, axis2=a2))
        res.evaluations += 1
        if iso:
            res.count("coax:isotropic_excluded")
            res.count("coax:isotropic_excluded:nan" if np.isnan(ba) else "coax:isotropic_excluded:finite")
            continue
        if not (-TOL <= ba <= 1 + TOL):
            res.violation("coax:range", f"BA={ba!r} outside [0,1] (axes {a1},{a2}; {kind}, n={n})", dict(rep, axis1=a1, axis2=a2))
        want = 0.5 * (2 - P1 / (G1 + P1) - G2 / (G2 + P2))
        if not C.close(ba, want, rtol=1e-8, atol=1e-10):
            res.violation("coax:formula", f"BA={ba!r} != {want!r}", dict(rep, axis1=a1, axis2=a2))
    iso_ba = any((out[x][4][2] - out[x][4][0]) <= 1e-9 * out[x][4].sum() for x in ("a", "b"))
    out["ba"] = None if iso_ba else float(D.coaxial_index(A))

    # ---- paired calls: permutation, symmetry relabelling, frame rotation
    Q = impl.random_rotations(rng, 1)[0]
    variants = {
        "perm": A[rng.permutation(n)],
        "twofold": np.einsum("gij,gjk->gik", np.array([TWOFOLDS[i] for i in rng.integers(0, 4, n)]), A),
        "frame": A @ Q.T,
    }
    for vname, B in variants.items():
        B = np.ascontiguousarray(B)
        for ax in AXES:
            P, G, R, u, wref = out[ax]
            P2, G2, R2 = (float(x) for x in D.symmetry_pgr(B, axis=ax))
            u2 = np.asarray(D.bingham_average(B, axis=ax), dtype=float)
            res.evaluations += 2
            if not C.close([P2, G2, R2], [P, G, R], rtol=1e-8, atol=1e-9):
                res.violation(f"invariance:{vname}:pgr", f"P,G,R change under {vname}: {(P, G, R)!r} -> {(P2, G2, R2)!r} (axis {ax}, {kind}, n={n})",
                              dict(rep, axis=ax, variant=vname, Q=Q.tolist()))
            gap = (wref[2] - wref[1]) / max(wref.sum(), 1e-300)
            if gap < GAP:
                res.count("bingham:degenerate_top_eigenvalue_excluded")
                continue
            target = Q @ u if vname == "frame" else u
            if abs(abs(float(u2 @ target)) - 1) > 1e-9:
                res.violation(f"invariance:{vname}:bingham", f"mean axis does not {'co-rotate' if vname == 'frame' else 'stay'} up to sign under {vname} "
                              f"(|cos|={abs(float(u2 @ target))!r}, gap={gap:.3g}; axis {ax}, {kind}, n={n})",
                              dict(rep, axis=ax, variant=vname, Q=Q.tolist()))
        if out["ba"] is not None:
            ba2 = float(D.coaxial_index(B))
            res.evaluations += 1
            pg_min = min(out["a"][0] + out["a"][1], out["b"][0] + out["b"][1])
            if not C.close(ba2, out["ba"], rtol=1e-9, atol=1e-9 + 1e-13 / pg_min):
                res.violation(f"invariance:{vname}:coax", f"BA changes under {vname}: {out['ba']!r} -> {ba2!r} ({kind}, n={n})",
                              dict(rep, variant=vname, Q=Q.tolist()))
    return out


def make_F(rng, kind):
    if kind == "general":
        F = rng.normal(size=(3, 3))
    elif kind == "near_identity":
        F = np.eye(3) + 0.05 * rng.normal(size=(3, 3))
    elif kind == "stretch":
        Q = impl.random_rotations(rng, 2)
        F = Q[0] @ np.diag(np.exp(rng.normal(size=3))) @ Q[1].T
    elif kind == "simple_shear":
        F = np.eye(3)
        i, j = rng.choice(3, 2, replace=False)
        F[i, j] = rng.uniform(-3, 3)
    elif kind == "axisym":  # repeated largest stretch: axis not unique
        Q = impl.random_rotations(rng, 1)[0]
        F = Q @ np.diag([2.0, 2.0, 0.25]) @ Q.T
    elif kind == "extreme_stretch":  # stretch ratios of 1e8 ... 1e12 (F F^T numerically singular): very large finite strains
        Q = impl.random_rotations(rng, 2)
        e_ = float(rng.uniform(9, 14))
        F = Q[0] @ np.diag([np.exp(e_), float(rng.uniform(0.5, 2)), np.exp(-e_)]) @ Q[1].T
    elif kind == "extreme_shear":
        F = np.eye(3)
        i, j = rng.choice(3, 2, replace=False)
        F[i, j] = float(10 ** rng.uniform(4, 7)) * rng.choice([-1, 1])
    elif kind == "rotation":  # pure rotation: B = I
        F = impl.random_rotations(rng, 1)[0]
    else:
        raise ValueError(kind)
    if abs(np.linalg.det(F)) < 1e-3:
        F = F + np.eye(3)
    return np.ascontiguousarray(F)


F_KINDS = ["general", "near_identity", "stretch", "simple_shear", "axisym", "rotation", "extreme_stretch", "extreme_shear"]


def check_fse_statement(res, D, F, kind, rng):
    rep = {"F": F.tolist(), "kind": kind}
    s, v = D.finite_strain(F)
    s = float(s)
    v = np.asarray(v, dtype=float)
    res.evaluations += 1
    U, sv, _ = np.linalg.svd(F)
    if not C.close(s, sv[0] - 1, rtol=1e-9, atol=1e-10):
        res.violation("fse:stretch", f"returned {s!r}, largest principal stretch minus one is {sv[0] - 1!r}", rep)
    gap = (sv[0] ** 2 - sv[1] ** 2) / (sv ** 2).sum()
    if abs(np.linalg.norm(v) - 1) > 1e-12:
        res.violation("fse:axis_unit", f"|axis| = {np.linalg.norm(v)!r}", rep)
    B = F @ F.T
    if np.abs(B @ v - (v @ B @ v) * v).max() > 1e-9 * np.abs(B).max() or (v @ B @ v) < sv[0] ** 2 * (1 - 1e-9):
        res.violation("fse:axis_principal", "returned axis is not the eigenvector of F F^T for its largest eigenvalue", rep)
    Q = impl.random_rotations(rng, 1)[0]
    s1, v1 = D.finite_strain(F @ Q)
    s2, v2 = D.finite_strain(Q @ F)
    res.evaluations += 2
    if not C.close(float(s1), s, rtol=1e-9, atol=1e-10):
        res.violation("fse:right_invariance:stretch", f"stretch changes under F -> F.Q: {s!r} -> {float(s1)!r}", dict(rep, Q=Q.tolist()))
    if not C.close(float(s2), s, rtol=1e-9, atol=1e-10):
        res.violation("fse:left_covariance:stretch", f"stretch changes under F -> Q.F: {s!r} -> {float(s2)!r}", dict(rep, Q=Q.tolist()))
    if gap < GAP:
        res.count("fse:degenerate_top_stretch_excluded")
    else:
        tol = 1e-9
        if abs(abs(float(v1 @ v)) - 1) > tol:
            res.violation("fse:right_invariance:axis", f"axis changes under F -> F.Q (|cos|={abs(float(v1 @ v))!r})", dict(rep, Q=Q.tolist()))
        if abs(abs(float(v2 @ (Q @ v))) - 1) > tol:
            res.violation("fse:left_covariance:axis", f"axis does not co-rotate under F -> Q.F (|cos|={abs(float(v2 @ (Q @ v)))!r})", dict(rep, Q=Q.tolist()))
    return s, v


def run(ctx, res):
    from pydrex import diagnostics as D
    from pydrex import stats as S
    from pydrex import utils as U

    rng = np.random.default_rng(ctx["seed"] + 1313)
    thorough = ctx["thorough"]
    res.rule = ("orientation sets from families {random, clustered, girdle, single, tight cluster, signed axis permutations, two clusters} "
                "with n in 1..1e4, all three axes, random Q, permutations, per-grain two-fold relabellings; deformation gradients from "
                "{general, near identity, stretch, simple shear, axisymmetric, rotation}; simple-shear strains 0.01..5; "
                "a case is non-trivial when n >= 2 and the scatter matrix is not a multiple of the identity (textures) / F is not a rotation (strain); "
                "distinct by input hash")
    scatter_fn = getattr(S, "_scatter_matrix", None)
    if scatter_fn is None:
        res.count("skipped:_scatter_matrix_absent")
        res.notes.append("stats._scatter_matrix not found: K21 compared through the recorded LAPACK argument only")

    sizes_quick = [1, 2, 3, 5, 17, 100, 1000, 10000]
    n_sets = 40 if not thorough else 1000
    lines, cases = [], []

    def add(line, kernel, inp, want):
        lines.append(line)
        cases.append([(kernel, inp, want)])

    def also(kernel, inp, want):
        """a second expected value for the response of the line added last"""
        cases[-1].append((kernel, inp, want))

    def flush():
        outs = C.run_driver(lines)
        for group, line in zip(cases, outs):
            for kernel, inp, want in group:
                compare(res, kernel, inp, want, line)
        lines.clear()
        cases.clear()

    for k in range(n_sets):
        kind = KINDS[k % len(KINDS)]
        if thorough:
            n = int(rng.choice([1, 2, 3, 5, 17, 100, 1000, 3000, 10000], p=[.08, .08, .08, .1, .16, .2, .15, .1, .05]))
        else:
            n = sizes_quick[k % len(sizes_quick)] if k < 16 else int(rng.choice([1, 2, 3, 7, 50, 300]))
        if kind == "near_uniform":
            n = max(24, 24 * (n // 24))       # whole orbits of the cube group: isotropic scatter up to the perturbation
        A = orientation_set(rng, kind, n)
        res.count("texture:" + kind)
        res.count("n:" + ("1" if n == 1 else "2-9" if n < 10 else "10-99" if n < 100 else "100-999" if n < 1000 else ">=1000"))
        rep = {"kind": kind, "n": n, "orientations": A.tolist() if n <= 20 else None, "seed": ctx["seed"], "set_index": k}
        hexA = C.fs2h(A.ravel())
        nontrivial = False
        # ---- K21 scatter + K22 pgr/bingham/coax with recorded LAPACK calls
        for row, ax in enumerate(AXES):
            have_scatter_line = False
            if scatter_fn is not None:
                sc = np.asarray(scatter_fn(A, row), dtype=float)
                add(f"diag_scatter {row} {n} {hexA}", "K21 _scatter_matrix (lower triangle)", {"kind": kind, "n": n, "row": row}, np.tril(sc).ravel())
                have_scatter_line = True
                if np.abs(np.triu(sc, 1)).max() != 0:
                    res.count("note:_scatter_matrix_fills_upper_triangle")
            with LaRecorder(D) as rec:
                pgr = D.symmetry_pgr(A, axis=ax)
            res.evaluations += 1
            if rec.active and len(rec.log) == 1 and rec.log[0][0] == "eigvalsh":
                _, a0, w, _ = rec.log[0]
                check_eigen_spec(res, "eigvalsh", a0, w, None, kind)
                # the matrix handed to LAPACK is the model's scatterLower (lower triangle)
                if have_scatter_line:
                    also("K21 matrix passed to eigvalsh (lower triangle)", {"kind": kind, "n": n, "row": row}, np.tril(a0).ravel())
                else:
                    add(f"diag_scatter {row} {n} {hexA}", "K21 matrix passed to eigvalsh (lower triangle)", {"kind": kind, "n": n, "row": row},
                        np.tril(a0).ravel())
                add(f"diag_pgr {enc(ax)} {C.fs2h(w)}", "K22 symmetry_pgr", {"kind": kind, "n": n, "axis": ax, "w": w.tolist()},
                    ("ok", [float(x) for x in pgr]))
                if w[2] - w[0] > 1e-9 * max(w.sum(), 1e-300) and n >= 2:
                    nontrivial = True
            else:
                res.count("skipped:lapack_call_not_recorded")
            with LaRecorder(D) as rec:
                u = D.bingham_average(A, axis=ax)
            res.evaluations += 1
            if rec.active and len(rec.log) == 1 and rec.log[0][0] == "eigh":
                _, a0, w, V = rec.log[0]
                check_eigen_spec(res, "eigh", a0, w, V, kind)
                add(f"diag_bingham {enc(ax)} {C.fs2h(V.ravel())}", "K23 bingham_average", {"kind": kind, "n": n, "axis": ax}, ("ok", list(map(float, u))))
            else:
                res.count("skipped:lapack_call_not_recorded")
        for a1, a2 in ((("b", "a"), ("a", "c"), ("c", "c")) if n <= 1000 else (("b", "a"),)):
            with LaRecorder(D) as rec, np.errstate(all="ignore"):
                ba = float(D.coaxial_index(A, axis1=a1, axis2=a2))
            res.evaluations += 1
            if rec.active and len(rec.log) == 2 and all(r[0] == "eigvalsh" for r in rec.log):
                w1, w2 = rec.log[0][2], rec.log[1][2]
                check_eigen_spec(res, "eigvalsh", rec.log[0][1], w1, None, kind)
                check_eigen_spec(res, "eigvalsh", rec.log[1][1], w2, None, kind)
                add(f"diag_coax {enc(a1)} {enc(a2)} {n} {hexA} {C.fs2h(w1)} {C.fs2h(w2)}", "K22 coaxial_index",
                    {"kind": kind, "n": n, "axes": [a1, a2], "w1": w1.tolist(), "w2": w2.tolist()}, ("ok", [ba]))
            else:
                res.count("skipped:lapack_call_not_recorded")
        # ---- the statement on the real outputs
        check_texture_statement(res, D, A, kind, rng, rep)
        if nontrivial:
            res.nontrivial((kind, n, A.tobytes()))
        if sum(map(len, lines)) > 30_000_000:
            flush()
        if k < 3:
            res.sample({"kernel": "texture diagnostics", "family": kind, "n": n,
                        "pgr_a": [float(x) for x in D.symmetry_pgr(A, axis="a")]})

    # ---- malformed axis arguments (exception class and agreement with the model)
    A = orientation_set(rng, "random", 5)
    for bad in BAD_AXES + AXES:
        st, val = call(D.symmetry_pgr, A, axis=bad)
        res.evaluations += 1
        res.count("axis_arg:" + ("valid" if bad in AXES else "invalid"))
        add(f"diag_axis {enc(bad)}", "K22 axis argument", {"axis": bad}, ("raw", str(AXES.index(bad)) if st == "ok" else st))
        if (bad in AXES) != (st == "ok") or (bad not in AXES and st != "ValueError"):
            res.violation("axis:validation", f"axis={bad!r} gave {st}", {"axis": bad})
        st2, _ = call(D.bingham_average, A, axis=bad)
        st3, _ = call(D.coaxial_index, A, axis1=bad, axis2="a")
        st4, _ = call(D.coaxial_index, A, axis1="b", axis2=bad)
        res.evaluations += 3
        add(f"diag_bingham {enc(bad)} {C.fs2h(np.eye(3).ravel())}", "K23 bingham axis argument", {"axis": bad},
            ("status", "ok" if st2 == "ok" else st2))
        hexA = C.fs2h(A.ravel())
        w = C.fs2h([0.0, 1.0, 4.0])
        add(f"diag_coax {enc(bad)} {enc('a')} 5 {hexA} {w} {w}", "K22 coaxial axis1 argument", {"axis1": bad}, ("status", "ok" if st3 == "ok" else st3))
        add(f"diag_coax {enc('b')} {enc(bad)} 5 {hexA} {w} {w}", "K22 coaxial axis2 argument", {"axis2": bad}, ("status", "ok" if st4 == "ok" else st4))

    # ---- K24 finite strain
    n_F = 60 if not thorough else 3000
    for k in range(n_F):
        kind = F_KINDS[k % len(F_KINDS)]
        F = make_F(rng, kind)
        res.count("F:" + kind)
        with LaRecorder(D) as rec:
            s, v = D.finite_strain(F)
        res.evaluations += 1
        if rec.active and len(rec.log) == 1 and rec.log[0][0] == "eigh":
            _, a0, w, V = rec.log[0]
            check_eigen_spec(res, "eigh", a0, w, V, kind)
            add(f"diag_leftcg {C.fs2h(F.ravel())}", "K24 F.F^T passed to eigh", {"F": F.tolist()}, a0.ravel())
            add(f"diag_fse {C.fs2h(F.ravel())} {C.fs2h(w)} {C.fs2h(V.ravel())}", "K24 finite_strain", {"F": F.tolist()},
                [float(s)] + list(map(float, v)))
        else:
            res.count("skipped:lapack_call_not_recorded")
        check_fse_statement(res, D, F, kind, rng)
        if kind != "rotation":
            res.nontrivial(("F", F.tobytes()))
        if k < 2:
            res.sample({"kernel": "finite_strain", "family": kind, "F": F.tolist(), "stretch": float(s), "axis": list(map(float, v))})

    # ---- simple shear: closed-form helper vs finite_strain
    strains = [0.01, 0.1, 0.25, 0.5, 0.75, 1.0, 2.0, 5.0, 50.0, 5e3, 1e5] + list(rng.uniform(0.0, 5.0, 12 if not thorough else 300))
    for eps in strains + [0.0, -0.5, -2.0]:
        eps = float(eps)
        F = np.eye(3)
        F[1, 0] = 2 * eps
        helper = float(U.angle_fse_simpleshear(eps))
        res.evaluations += 1
        add(f"diag_angle {C.f2h(eps)}", "K24 angle_fse_simpleshear", {"strain": eps}, [helper])
        add(f"diag_shearF {C.f2h(2 * eps)}", "K24 simple-shear F (model convention)", {"gamma": 2 * eps}, F.ravel())
        s, v = D.finite_strain(F)
        if eps == 0.0:
            res.count("shear:zero_strain_excluded(B=I, axis not unique)")
            continue
        ang = float(np.rad2deg(np.arctan(v[1] / v[0]))) if v[0] != 0 else 90.0
        if eps < 0:
            # outside the helper's domain: replayed, recorded, never alarmed
            res.count("shear:negative_strain_excluded")
            res.count("shear:negative_strain:helper_is_short_axis" if abs(abs(ang - helper) - 90) < 1e-6 else "shear:negative_strain:other")
            continue
        res.count("shear:positive_strain")
        res.nontrivial(("shear", eps))
        t = eps + np.sqrt(eps * eps + 1)
        if abs(ang - helper) > 1e-7 or abs(v[2]) > 1e-12:
            res.violation("shear:helper_vs_fse", f"strain {eps!r}: finite_strain axis at {ang!r} deg from x, helper says {helper!r}", {"strain": eps})
        if not C.close(float(s), t - 1, rtol=1e-9, atol=1e-10):
            res.violation("shear:stretch", f"strain {eps!r}: stretch {float(s)!r}, closed form {t - 1!r}", {"strain": eps})
        if not C.close(helper, float(np.degrees(np.arctan(t))), rtol=1e-12, atol=1e-12):
            res.violation("shear:helper_formula", f"helper({eps!r}) = {helper!r}, arctan(eps+sqrt(eps^2+1)) = {np.degrees(np.arctan(t))!r}", {"strain": eps})
    # consistency of the convention with velocity.simple_shear_2d (observation only; K33 belongs to C18)
    try:
        from pydrex import velocity as V

        L = np.asarray(V.simple_shear_2d("Y", "X", 1.0)[1](np.nan, np.zeros(3)))
        res.count("shear:velocity_gradient_is_2x_strain_rate" if L[1, 0] == 2.0 else "shear:velocity_gradient_other")
    except Exception:  # noqa: BLE001
        res.count("shear:velocity_probe_failed")

    flush()
    # representation- and history-robustness of the public functions (harness/apirobust.py)
    from .. import apirobust_cases as _AC
    _AC.c13(res, np.random.default_rng(ctx["seed"] + 4242), ctx)


def compare(res, kernel, inp, want, line):
    toks = line.split()
    if isinstance(want, tuple):
        tag, val = want
        if tag == "raw":
            ok = line.strip() == val
            got = line.strip()
        elif tag == "status":
            got = "ok" if toks and toks[0] == "ok" else line.strip()
            ok = got == val
        else:
            got = C.hs2f(toks[1:]) if toks and toks[0] == "ok" else line.strip()
            ok = bool(toks) and toks[0] == "ok" and C.close(got, val)
        want_show = val
    else:
        got = C.hs2f(toks)
        n_scale = max(1.0, float(np.abs(np.asarray(want)).max())) if len(want) else 1.0
        ok = C.close(got, list(want), scale=n_scale)
        want_show = np.asarray(want).tolist()
    if ok:
        res.traces += 1
    else:
        res.mismatch(kernel, inp, want_show, got)


def replay(data):
    """Re-run the failing input of a recorded violation on the real code."""
    import json

    from pydrex import diagnostics as D

    for v in data.get("violations", []):
        r = v.get("replay", {})
        print("violation:", v.get("key"), "-", v.get("what"))
        if r.get("orientations"):
            A = np.array(r["orientations"])
            for ax in AXES:
                print(" symmetry_pgr", ax, D.symmetry_pgr(A, axis=ax), "bingham", D.bingham_average(A, axis=ax))
            print(" coaxial_index", D.coaxial_index(A))
        elif "F" in r:
            print(" finite_strain", D.finite_strain(np.array(r["F"])))
        else:
            print(json.dumps(r)[:2000])
    return 0
