"""C06 — the returned deformation gradient is the solution of dF/dt = L.F."""
from __future__ import annotations

import numpy as np

from .. import common as C
from .. import hard
from .. import impl
from .. import solver
from .. import robust

PARTIAL = [
    "accuracy of LSODA (relative error <= 5e-3 + 1e-3 (N + 2 strain)) and the coupling of the F block to the texture blocks through "
    "LSODA's global step/error control are runtime facts: validated against an independent RK4 reference on generated scenarios, not proved",
    "for time/position dependent L: existence/uniqueness of the exact solution and split == whole are proved for constant and piecewise "
    "constant L only (matrix exponential, Properties/C06Analytic.lean); the determinant clause det F = exp(int tr L) det F0 is proved for "
    "any time-dependent L with continuous trace (det_solution_timedep); the rest is validated numerically",
]
ASSUMPTIONS = ["reference solution: classical RK4 with 4000 substeps in float64 (independent of SciPy)"]
JIT_TWIN = ('update', 'large_update')   # groups of harness/jittwin.py: the numba-compiled code is run on the same battery and compared
TRUSTED = ["harness/solver.py scenario driver, RK4 reference integrator, LSODA recorder"]
EXTRA_LEAN_MODULES = ("Properties.C06Analytic",)


def _tol(N, strain):
    return 5e-3 + 1e-3 * (N + 2 * strain)


def run(ctx, res):
    rng = np.random.default_rng(ctx["seed"] + 606)
    robust.run(res, np.random.default_rng(ctx["seed"] + 78), ctx, "C06", n_sc=(3 if not ctx["thorough"] else 12))
    # one LONG update call (hundreds of solver steps): strain ~ 20 in a single call, and a rapidly oscillating L(t)
    for name, fld, span in (("simple_shear_strain_50", solver.LField(np.array([[0, 0, 2.0], [0, 0, 0], [0, 0, 0]])), 50.0),
                            ("oscillating", solver.LField(np.zeros((3, 3)), L2=np.array([[0.5, 1.0, 0], [0, -0.5, 0.3], [0, 0, 0]]), w=80.0), 8.0)):
        scl = solver.make_scenario(rng, 0, nmax=3, regimes=(4,))
        scl.update(field=fld, field_kind=name, t0=0.0, span=span, n_updates=1, n=6, F0=np.eye(3), chi=0.3, Mob=200.0)
        with impl.Recorder() as recl:
            ml, Fl, _ = solver.run_scenario(scl, record=False)
        Fref = solver.reference_F(scl, sub=100000)
        rel = float(np.abs(Fl[-1] - Fref).max() / max(1.0, np.abs(Fref).max()))
        strain = solver.accumulated_strain(scl, sub=4000)
        res.evaluations += 1
        res.count(f"long_update:{name}:solver_steps>={min(len(recl.updates[0]['raw']) // 100 * 100, 1000)}")
        if rel > _tol(1, strain):
            res.violation(f"F_solution:long_update:{name}", f"one update call over [0, {span}] ({len(recl.updates[0]['raw'])} solver steps): "
                          f"F relative error {rel:.3e} > {_tol(1, strain):.3e}", solver.scenario_json(scl))
    # far time origins, SI units, reversed intervals, long and uneven partitions, L(t) equal at the sampled times (harness/hard.py)
    hard.run(res, np.random.default_rng(ctx["seed"] + 1606), ctx, "C06", want=("count", "F"), regimes=solver.ACCEPTED_REGIMES,
             per_family=(2 if not ctx["thorough"] else 8))
    M = impl._minerals
    core = impl._core
    n_sc = 21 if not ctx["thorough"] else 126
    res.rule = ("scenarios: (phase,fabric) x accepted regime {0,1,4,6,7} x L(t,x) family {const,time,space,both} x F0 (identity / random "
                "with det>0) x 1..4 (thorough: 1..50) update calls x n in 2..16 (thorough 2..64); each is non-trivial (non-commuting L, F0) "
                "and distinct by seed; returned F compared with an RK4 reference; F block of eval_rhs compared with the model")
    for k in range(n_sc):
        sc = solver.make_scenario(rng, k, nmax=16 if not ctx["thorough"] else 64, regimes=solver.ACCEPTED_REGIMES,
                                  max_updates=4 if not ctx["thorough"] else (50 if k % 10 == 0 else 6),
                                  fields=solver.EDGE_FIELD_KINDS + solver.FIELD_KINDS)
        # phase fractions on the simplex, including a phase with zero volume fraction
        pf = [(0.7, 0.3), (1.0, 0.0), (0.0, 1.0), (0.5, 0.5), (0.3, 0.7)][(k // 2) % 5]
        sc["phase_fractions"] = pf
        res.count("field:" + sc["field_kind"])
        res.count(f"phase_fraction_of_mineral={pf[sc['phase']]}")
        m, Fs, rec = solver.run_scenario(sc)
        res.evaluations += 1
        res.nontrivial(("c06", k, sc["tex_seed"]))
        res.count(f"regime{sc['regime']}")
        res.count("field:" + ("const" if sc["field"].is_constant() else "varying"))
        rep = solver.scenario_json(sc)
        ts = solver.times_of(sc)
        strain = solver.accumulated_strain(sc)
        Fref = solver.reference_F(sc)
        rel = float(np.abs(Fs[-1] - Fref).max() / max(1.0, np.abs(Fref).max()))
        tol = _tol(sc["n_updates"], strain)
        if not np.isfinite(Fs[-1]).all() or rel > tol:
            res.violation(f"F_solution:regime{sc['regime']}", f"returned F differs from the ODE solution: rel err {rel:.3e} > {tol:.3e}", rep)
        # det F = det F0 * exp(int tr L)
        tt = np.linspace(ts[0], ts[-1], 2001)
        itr = float(np.trapezoid([np.trace(sc["field"](t, sc["field"].pos(t))) for t in tt], tt))
        dref = np.linalg.det(sc["F0"]) * np.exp(itr)
        if abs(np.linalg.det(Fs[-1]) - dref) > 3 * tol * max(1.0, abs(dref)) * 3:
            res.violation("F_solution:det", f"det F {np.linalg.det(Fs[-1]):.6e} vs exp(int tr L) {dref:.6e}", rep)
        # correspondence: rhs (incl. F block) and write-backs
        solver.check_rhs(res, sc, m, rec, max_points=2)
        # split == whole (same scenario in one call)
        if sc["n_updates"] > 1 and k % 2 == 0:
            m1, F1, _ = solver.run_scenario(sc, record=False, times=np.array([ts[0], ts[-1]]))
            rel2 = float(np.abs(F1[-1] - Fs[-1]).max() / max(1.0, np.abs(Fref).max()))
            res.count("split_vs_whole")
            if rel2 > tol + _tol(1, strain):
                res.violation("F_solution:split_vs_whole", f"split interval differs from whole: {rel2:.3e}", rep)
        # independence of the mineral: other phase/fabric/regime/n/texture/parameters
        if k % 2 == 1:
            sc2 = dict(sc)
            alt = solver.make_scenario(rng, k + 3, nmax=24, regimes=solver.ACCEPTED_REGIMES)
            for key in ("phase", "fabric", "regime", "n", "tex", "tex_seed", "chi", "Mob", "lam", "p", "nexp"):
                sc2[key] = alt[key]
            m2, F2, _ = solver.run_scenario(sc2, record=False)
            rel3 = float(np.abs(F2[-1] - Fs[-1]).max() / max(1.0, np.abs(Fref).max()))
            res.count("independence_pair")
            if rel3 > 2 * tol:
                rep2 = dict(rep, other=solver.scenario_json(sc2))
                res.violation("F_independent_of_mineral", f"F depends on the mineral: {rel3:.3e}", rep2)
        if k < 3:
            res.sample({"regime": sc["regime"], "phase": sc["phase"], "fabric": sc["fabric"], "n": sc["n"], "updates": sc["n_updates"],
                        "strain": strain, "rel_err_vs_RK4": rel, "tolerance": tol})
    # ---- bulk update returns the same F as a single-phase update
    n_b = 4 if not ctx["thorough"] else 24
    for k in range(n_b):
        sc = solver.make_scenario(rng, k, nmax=12, regimes=(4,))
        sc["phase_fractions"] = [(0.7, 0.3), (1.0, 0.0), (0.0, 1.0), (0.4, 0.6)][k % 4]
        scs = []
        for (ph, fa) in [(0, int(rng.integers(0, 5))), (1, 5)]:
            s2 = dict(sc)
            s2.update(phase=ph, fabric=fa, tex_seed=int(rng.integers(0, 2**31)))
            scs.append(s2)
        if k % 2:
            scs.reverse()
        minerals = [solver.build_mineral(s) for s in scs]
        params = solver.params_of(sc)
        ts = solver.times_of(sc)
        F = np.array(sc["F0"], float)
        for a, b in zip(ts[:-1], ts[1:]):
            F = M.update_all(minerals, params, F, sc["field"], (a, b, sc["field"].pos))
        _, Fsingle, _ = solver.run_scenario(scs[0], record=False)
        res.evaluations += 1
        res.count("bulk_vs_single")
        res.nontrivial(("bulk", k))
        strain = solver.accumulated_strain(sc)
        tol = _tol(sc["n_updates"], strain)
        rel = float(np.abs(F - Fsingle[-1]).max() / max(1.0, np.abs(F).max()))
        if rel > 2 * tol:
            res.violation("F_bulk_vs_single", f"update_all F differs from single-phase F: {rel:.3e}", solver.scenario_json(sc))
        Fref = solver.reference_F(sc)
        rel = float(np.abs(F - Fref).max() / max(1.0, np.abs(Fref).max()))
        if rel > tol:
            res.violation("F_solution:update_all", f"update_all F differs from the ODE solution: {rel:.3e}", solver.scenario_json(sc))


def replay(data):
    from .. import solver as _solver
    return _solver.replay_violations(data)
