"""C02 — solver rates equal the published D-Rex equations for every fabric and input."""
from __future__ import annotations

import numpy as np

from .. import common as C
from .. import impl  # noqa: F401
from .. import drex

# S2: the arithmetic kernels of core.py are re-traced from the source on every run and the bridge theorems
# (lean/Bridge/Drex.lean: traced_f = ModelR.f) are re-checked by the Lean kernel.
PRE_LEAN = C.s2_trace_core
EXTRA_LEAN_MODULES = ("Bridge.Drex", "Bridge.DrexSlipRates")

PARTIAL = ["'to floating-point accuracy' is the correspondence tolerance (1e-9 relative); IEEE rounding and numba fastmath "
           "reassociation are not modelled (the refinement theorems are over the reals)"]
ASSUMPTIONS = ["np.argsort on four distinct keys returns their ranking (proved for the model's argsort4; compared on every case)"]
TRUSTED = ["the specification Proofs/SpecDrex.lean is a faithful transcription of the published equations (it is short and meant to be read)",
           "harness/drex.py generators; the property's own exclusions (exact/near ties in slip activity, max|I/tau| < 1e-9) are counted"]


def _spec_python(c, g):
    """Independent textbook-form evaluation of one grain (float64), transcribed from Proofs/SpecDrex.lean."""
    A, D, L = c["A"][g], c["D"], c["L"]
    tau = np.array(drex.CRSS[(c["phase"], c["fabric"])], float)
    sl = [(0, 1), (0, 2), (2, 1), (2, 0)]
    I = np.array([A[l] @ D @ A[n_] for l, n_ in sl])
    q = I / tau
    if c["phase"] == 0:
        order = np.argsort(np.abs(q), kind="stable")
        beta = np.zeros(4)
        beta[order[3]] = 1.0
        for s in (order[1], order[2]):
            r = q[s] / q[order[3]]
            beta[s] = r * abs(r) ** (c["nexp"] - 1)
    else:
        beta = np.array([0, 0, 0, 1.0 if abs(I[3]) > 1e-15 else 0.0])
    G = 2 * sum(beta[s] * np.outer(A[l], A[n_]) for s, (l, n_) in enumerate(sl))
    S = (G + G.T) / 2
    den = 2 * (S * S).sum()
    g0 = 0.0 if -1e-15 < den < 1e-15 else (S * D).sum() / (S * S).sum()
    X = L - g0 * G
    rot = A @ ((X - X.T) / 2).T
    E = 0.0
    for s in range(3):
        rho = (1 / tau[s]) ** (c["nexp"] - c["p"]) * abs(beta[s] * g0) ** (c["p"] / c["nexp"])
        E += rho * np.exp(-c["lam"] * rho**2)
    return rot, E


def run(ctx, res):
    from pydrex import core

    rng = np.random.default_rng(ctx["seed"] + 202)
    N = 300 if not ctx["thorough"] else 8000
    nmax = 8 if not ctx["thorough"] else 40
    res.rule = ("core.derivatives for all six (phase, fabric) pairs, regimes 4/6, generic and axis-aligned orientations, L normalised to "
                "unit max principal strain rate, f on the simplex, p in [1,2], n in [2,5], lambda in [0,10], M in [0,200], phi in (0,1]; "
                "compiled path, interpreted path, the Lean model (Float) and an independent textbook-form evaluation are compared pairwise; "
                "cases with an activity gap < 1e-6 or max|I/tau| < 1e-9 are excluded as the property says (counted); distinct by hash")
    cases = []
    for k in range(N):
        c = drex.make_case(rng, k, nmax=nmax)
        if c["kinds"][0] == "nonorth":
            c["A"] = np.ascontiguousarray(drex.rotations(rng, c["n"], "random"))
        D = c["D"]
        m = np.abs(np.linalg.eigvalsh(D)).max()
        if m > 0:
            c["L"], c["D"] = c["L"] / m, D / m
        cases.append(c)
    drex.variant_checks(res, rng, ctx, "published_equations")
    oi = [drex.call_derivatives(c) for c in cases]
    band = _guard_band_cases(ctx, np.random.default_rng(ctx["seed"] + 2020))
    oj_all = drex.run_jit(cases + [c for c, _ in band])      # one compiled worker for both batches
    oj, oj_band = oj_all[:len(cases)], oj_all[len(cases):]
    ml = C.run_driver([drex.case_line(c) for c in cases])
    # K1 table (public function), exact
    for ph in (0, 1, 2, -1):
        for fa in range(-1, 8):
            res.evaluations += 1
            try:
                got = ("ok", [float(x) for x in core.get_crss(ph, fa)])
            except ValueError as e:
                got = ("err", "badPhase" if "phase must be" in str(e) else "badFabric")
            line = C.run_driver([f"drex_crss {ph} {fa}"])[0].split()
            mod = ("ok", C.hs2f(line[1:])) if line[0] == "ok" else ("err", line[1])
            if got == mod:
                res.traces += 1
            else:
                res.mismatch("K1 get_crss", {"phase": ph, "fabric": fa}, got, mod)
            if got[0] == "ok" and (ph, fa) in drex.CRSS and got[1] != [float(x) for x in drex.CRSS[(ph, fa)]]:
                res.violation(f"crss_table:{ph}:{fa}", f"CRSS row {got[1]} differs from the documented table", {"phase": ph, "fabric": fa})
    rs = getattr(core, "_get_rotation_and_strain", None)
    for k, (c, a, b, m) in enumerate(zip(cases, oi, oj, ml)):
        res.evaluations += 1
        cond = drex.conditioning(c)
        res.count(f"phase{c['phase']}fabric{c['fabric']}")
        res.count("regime%d" % c["regime"])
        if cond["near_tie"] or cond["near_guard"] or cond["unresolved"] > 0:
            # exact ties (keys bit-identical, e.g. axis-aligned grains) are ambiguous in the published model too
            res.count("excluded(property's exclusions: tie / unresolved)")
            continue
        keys = np.array(cond["keys"])
        if c["phase"] == 0 and any(len(set(np.round(kk, 15))) < 4 for kk in keys):
            res.count("excluded(exact tie in slip activity)")
            continue
        res.nontrivial((c["A"].tobytes(), c["L"].tobytes(), c["phase"], c["fabric"], c["regime"], c["p"], c["nexp"]))
        rep = {"phase": c["phase"], "fabric": c["fabric"], "regime": c["regime"], "A": c["A"].tolist(), "f": c["f"].tolist(),
               "L": c["L"].tolist(), "params": [c["p"], c["nexp"], c["lam"], c["M"], c["phi"]]}
        if a[0] != "ok" or b[0] != "ok":
            res.violation("raised", f"derivatives raised {a[:2]} / {b[:2]} on a well-conditioned input", rep)
            continue
        wa = np.concatenate([a[1].ravel(), a[2]])
        wb = np.concatenate([b[1].ravel(), b[2]])
        sc = max(1.0, float(np.abs(wa).max()))
        if not C.close(wb, wa, scale=sc):
            res.violation("jit_vs_interpreted", f"compiled and interpreted results differ by {C.maxdiff(wa, wb):.3e}", rep)
        # the published equations, evaluated independently
        damp = 1.0 if c["regime"] == 4 else 0.3
        rots, Es = zip(*[_spec_python(c, g) for g in range(c["n"])])
        Ebar = float((c["f"] * np.array(Es)).sum())
        spec = np.concatenate([np.array([damp * r for r in rots]).ravel(), c["phi"] * c["M"] * c["f"] * damp * (Ebar - np.array(Es))])
        if not C.close(spec, wa, scale=sc, rtol=1e-8):
            res.violation("differs_from_published_equations", f"implementation differs from the textbook-form evaluation by {C.maxdiff(spec, wa):.3e}", rep)
        toks = m.split()
        got = C.hs2f(toks[1:]) if toks[0] == "ok" else None
        for tag, w in (("interpreted", wa), ("jit", wb)):
            if got is not None and C.close(got, w, scale=sc):
                res.traces += 1
            else:
                res.mismatch(f"K9 core.derivatives ({tag})", rep, w.tolist()[:20], (got or [])[:20], note=f"maxdiff={C.maxdiff(got or [], w)}")
        # per-grain kernel (private; skipped if renamed)
        if rs is not None and k % 3 == 0:
            g = 0
            r_, e_ = rs(c["phase"], c["fabric"], c["A"][g], c["D"], c["L"], c["p"], c["nexp"], c["lam"])
            line = "drex_rot %d %d %s %s %s %s" % (c["phase"], c["fabric"], C.fs2h(c["A"][g].ravel()), C.fs2h(c["D"].ravel()),
                                                   C.fs2h(c["L"].ravel()), C.fs2h([c["p"], c["nexp"], c["lam"]]))
            t2 = C.run_driver([line])[0].split()
            w = np.concatenate([np.asarray(r_).ravel(), [e_]])
            if t2[0] == "ok" and C.close(C.hs2f(t2[1:]), w, scale=max(1.0, float(np.abs(w).max()))):
                res.traces += 1
            else:
                res.mismatch("K2-K8 _get_rotation_and_strain", rep, w.tolist(), t2[:12])
        elif rs is None:
            res.count("skipped:private kernel absent")
        if k < 3:
            res.sample({"phase": c["phase"], "fabric": c["fabric"], "regime": c["regime"], "n": c["n"], "kinds": c["kinds"],
                        "p": c["p"], "n_exp": c["nexp"], "lambda": c["lam"], "M": c["M"], "phi": c["phi"],
                        "max|impl - published|": C.maxdiff(spec, wa)})
    _guard_band(res, band, oj_band)


def _guard_band_cases(ctx, rng):
    """inputs just INSIDE the domain of C02: grains tilted 1e-9 ... 1e-3 rad off a symmetry position of an axis-aligned strain
    rate, so that the largest slip activity max|I_s/tau_s| lies between 1e-9 (the property's boundary) and 1e-3. The published
    equations only involve activity RATIOS, so they are as well conditioned there as anywhere; a guard that is wider than the
    documented one (an absolute tolerance, an isclose) silently zeroes these grains."""
    from scipy.spatial.transform import Rotation

    cases = []
    for k in range(40 if not ctx["thorough"] else 400):
        c = drex.make_case(rng, k, nmax=1)
        d = rng.normal(size=3)
        d -= d.mean() * float(rng.random() < 0.7)          # mostly trace-free
        D = np.diag(d / np.abs(d).max())
        W = rng.normal(size=(3, 3)) * float(rng.random() < 0.7)
        L = D + (W - W.T) / 2
        delta = float(10 ** rng.uniform(-9, -3))
        tilt = Rotation.from_rotvec(delta * rng.normal(size=3) * 3).as_matrix()
        A = drex.signed_perm(rng) @ tilt
        others = drex.rotations(rng, 2, "random")
        c.update(n=3, A=np.ascontiguousarray(np.concatenate([A[None], others])), f=rng.dirichlet(np.ones(3)), D=D, L=L,
                 M=float(rng.choice([50.0, 125.0, 200.0])))
        cases.append((c, delta))
    return cases


def _guard_band(res, cases, oj):
    oi = [drex.call_derivatives(c) for c, _ in cases]
    for (c, delta), a, b in zip(cases, oi, oj):
        cond = drex.conditioning(c)
        keys = np.sort(np.array(cond["keys"][0]))
        top = keys[-1]
        res.evaluations += 1
        if top < 2e-9 or top > 1e-2:
            res.count("guard_band:outside_band")
            continue
        if c["phase"] == 0 and any(np.any(np.diff(np.sort(kk)) < 1e-6 * np.max(kk)) for kk in cond["keys"]):
            res.count("guard_band:excluded(tie in slip activity)")
            continue
        if c["phase"] == 1 and any(abs(kk[3]) < 1e-12 for kk in cond["keys"]):
            res.count("guard_band:excluded(enstatite system below its documented 1e-15 guard)")
            continue
        res.count("guard_band:max_activity:1e%d" % int(np.floor(np.log10(top))))
        res.nontrivial(("guard_band", c["A"].tobytes(), c["L"].tobytes(), c["fabric"]))
        rep = {"phase": c["phase"], "fabric": c["fabric"], "regime": c["regime"], "A": c["A"].tolist(), "f": c["f"].tolist(), "L": c["L"].tolist(),
               "params": [c["p"], c["nexp"], c["lam"], c["M"], c["phi"]], "tilt_rad": delta, "max_activity_of_grain_0": float(top)}
        damp = 1.0 if c["regime"] == 4 else 0.3
        rots, Es = zip(*[_spec_python(c, g) for g in range(c["n"])])
        Ebar = float((c["f"] * np.array(Es)).sum())
        spec = np.concatenate([np.array([damp * r for r in rots]).ravel(), c["phi"] * c["M"] * c["f"] * damp * (Ebar - np.array(Es))])
        for tag, o in (("interpreted", a), ("jit", b)):
            if o[0] != "ok":
                res.violation("guard_band:raised", f"derivatives ({tag}) raised {o[1]} for a grain with max activity {top:.2e}", rep)
                continue
            w = np.concatenate([np.asarray(o[1]).ravel(), np.asarray(o[2])])
            if not np.allclose(w, spec, rtol=1e-7, atol=1e-7 * max(1.0, float(np.abs(spec).max()))):
                res.violation("guard_band:differs_from_published_equations",
                              f"({tag}) grain 0 tilted {delta:.1e} rad off a symmetry position (max slip activity {top:.2e} >= 1e-9, inside the "
                              f"property's domain): rates differ from the published equations by {float(np.abs(w - spec).max()):.3e}", rep)


def replay(data):
    return drex.replay_violations(data)
