"""C08 — multiphase: each phase evolves independently with its own volume factor."""
from __future__ import annotations

import hashlib
import os
import pickle
import subprocess
import sys
import tempfile

import numpy as np

from .. import common as C
from .. import impl
from .. import robust
from .. import solver

PARTIAL = [
    "absence of hidden shared state in CPython/numba/SciPy objects is a fact about the implementation, not the model: decided by "
    "bit-identical twins (same process and across two processes), interleavings and list orders on the real code; the theorems give the "
    "lookup's permutation invariance, 'phi enters only through phi*M', and pointwise independence of the bulk update in the model",
]
ASSUMPTIONS = ["bitwise reproducibility of LSODA/LAPACK for identical inputs on the same machine"]
EXTRA_LEAN_MODULES = ("Properties.C08Interleave",)
JIT_TWIN = ('update',)   # groups of harness/jittwin.py: the numba-compiled code is run on the same battery and compared
TRUSTED = ["harness/solver.py scenario driver"]


def _digest(m, F):
    h = hashlib.sha256()
    for a in m.orientations:
        h.update(np.ascontiguousarray(a).tobytes())
    for a in m.fractions:
        h.update(np.ascontiguousarray(a).tobytes())
    h.update(np.ascontiguousarray(F).tobytes())
    return h.hexdigest()


def _run_pair_in_subprocess(sc):
    with tempfile.TemporaryDirectory(prefix="pydrex_verif_") as td:
        pin, pout = os.path.join(td, "in.pkl"), os.path.join(td, "out.pkl")
        with open(pin, "wb") as fh:
            pickle.dump(sc, fh)
        p = subprocess.run([sys.executable, "-m", "harness.props.c08", pin, pout], capture_output=True, text=True,
                           timeout=600, cwd=str(C.VERIF), env=dict(os.environ))
        if p.returncode != 0:
            raise RuntimeError("twin worker failed: " + p.stderr[-600:])
        with open(pout, "rb") as fh:
            return pickle.load(fh)


def run(ctx, res):
    rng = np.random.default_rng(ctx["seed"] + 808)
    # history- and representation-robustness scenarios (see harness/robust.py)
    robust.run(res, np.random.default_rng(ctx["seed"] + 77), ctx, "C08")
    M = impl._minerals
    core = impl._core
    n_sc = 8 if not ctx["thorough"] else 60
    res.rule = ("scenarios over both phases, all fabrics, regimes 4/6, L(t,x) families, fraction pairs on the simplex; per scenario: "
                "(i) multiphase vs single-phase with M*phi (rhs at 1e-12, integrated within tolerance), (ii) assemblage+fractions permuted "
                "(bitwise), (iii) update_all list order and interleaved vs sequential updates across 2-4 minerals (bitwise), (iv) twins in "
                "the same process and in a second process (bitwise), (v) module-level state probes; distinct by seed, all non-trivial")
    defaults_before = repr(core.DefaultParams())
    st_before = M.StiffnessTensors()
    for k in range(n_sc):
        sc = solver.make_scenario(rng, k, nmax=12 if not ctx["thorough"] else 32, regimes=(4, 6))
        phi_ol = float([0.7, 1.0, 0.0, 0.5, 0.9, rng.uniform(0.05, 0.95)][k % 6])   # incl. a phase with zero volume fraction
        sc["phase_fractions"] = (phi_ol, 1.0 - phi_ol)
        phi = sc["phase_fractions"][sc["phase"]]
        rep = solver.scenario_json(sc)
        res.count(f"phase{sc['phase']}fabric{sc['fabric']}")
        # (i) single-phase with scaled mobility
        sc1 = dict(sc, two_phase=False, Mob=phi * sc["Mob"])
        m_multi, F_multi, rec_multi = solver.run_scenario(sc)
        m_single, F_single, rec_single = solver.run_scenario(sc1)
        res.evaluations += 2
        res.nontrivial(("c08", k))
        r1, r2 = rec_multi.updates[0], rec_single.updates[0]
        for (t, y) in [(r1["t0"], r1["y0"])] + list(zip(r1["t"], r1["post"]))[:2]:
            a = np.asarray(r1["rhs"](t, np.array(y)), float)
            b = np.asarray(r2["rhs"](t, np.array(y)), float)
            res.evaluations += 1
            if not np.allclose(a, b, rtol=1e-12, atol=1e-14 * max(1.0, np.abs(a).max())):
                res.violation("own_fraction:rhs_differs_from_scaled_mobility",
                              f"multiphase rhs != single-phase rhs with M*phi (phi={phi}); max diff {np.abs(a - b).max():.3e}", rep)
        strain = solver.accumulated_strain(sc)
        tol = 5e-3 + 1e-3 * (sc["n_updates"] + 2 * strain)
        d = max(float(np.abs(a - b).max()) for a, b in zip(m_multi.fractions + m_multi.orientations, m_single.fractions + m_single.orientations))
        if d > tol:
            res.violation("own_fraction:integrated_differs", f"integrated multiphase vs scaled single-phase differ by {d:.3e}", rep)
        # (i') the regime is declared by the `get_regime` callable while the mineral object was BUILT in another regime (one without
        # boundary migration): the mineral's own phase fraction must enter exactly as for the mineral built in that regime
        stored = int([1, 0, 7][k % 3])
        gr = lambda t, x, r_=core.DeformationRegime(sc["regime"]): r_  # noqa: E731
        gr.desc = f"constant regime {sc['regime']} declared by get_regime; mineral built with regime {stored}"
        sc_cb = dict(sc, get_regime=gr)
        m_cb = solver.build_mineral(dict(sc, regime=stored))
        try:
            m_cb, F_cb, _ = solver.run_scenario(sc_cb, mineral=m_cb, record=False)
            res.evaluations += 1
            res.count("regime declared by get_regime on a mineral built in another regime")
            d_cb = max(float(np.abs(np.asarray(a) - np.asarray(b)).max())
                       for a, b in zip(m_multi.fractions + m_multi.orientations + [F_multi[-1]], m_cb.fractions + m_cb.orientations + [F_cb[-1]]))
            if not d_cb <= 1e-9:
                res.violation("own_fraction:regime_from_get_regime", f"a mineral built in regime {stored} and driven with get_regime -> regime {sc['regime']} "
                              f"differs by {d_cb:.3e} from the same mineral built in regime {sc['regime']} (phase fraction {phi}): the mineral's own "
                              "volume fraction is not applied when the regime comes from the callable", dict(rep, get_regime=gr.desc))
        except Exception as e:  # noqa: BLE001
            res.violation("own_fraction:regime_from_get_regime:raises", f"update with get_regime on a mineral built in regime {stored} raised "
                          f"{type(e).__name__}: {str(e)[:160]}", dict(rep, get_regime=gr.desc))
        solver.check_rhs(res, sc, m_multi, rec_multi, max_points=2)
        solver.check_rhs(res, sc1, m_single, rec_single, max_points=2, tag="K12 eval_rhs (single phase)")
        # (ii) permuted assemblage + fractions
        params = solver.params_of(sc)
        params_p = dict(params, phase_assemblage=tuple(reversed(params["phase_assemblage"])),
                        phase_fractions=tuple(reversed(params["phase_fractions"])))
        ts = solver.times_of(sc)
        mp_ = solver.build_mineral(sc)
        F = np.array(sc["F0"], float)
        for a_, b_ in zip(ts[:-1], ts[1:]):
            F = mp_.update_orientations(params_p, F, sc["field"], (a_, b_, sc["field"].pos))
        res.evaluations += 1
        if _digest(mp_, F) != _digest(m_multi, F_multi[-1]):
            res.violation("order:assemblage_permutation", "permuting phase list and fraction list together changed the result", rep)
        # wrong pairing must matter (sanity of the check itself: the fraction really is used) -- counted only
        # (iii) update_all order and interleaving
        nm = int(rng.integers(2, 5))
        scs = []
        for j in range(nm):
            ph, fa = impl.PHASE_FABRICS[int(rng.integers(0, 6))]
            scs.append(dict(sc, phase=int(ph), fabric=int(fa), tex_seed=int(rng.integers(0, 2**31))))
        seq = [solver.build_mineral(s) for s in scs]
        Fseq = []
        for mnr in seq:  # sequential: each mineral through all its updates
            F = np.array(sc["F0"], float)
            for a_, b_ in zip(ts[:-1], ts[1:]):
                F = mnr.update_orientations(params, F, sc["field"], (a_, b_, sc["field"].pos))
            Fseq.append(F)
        inter = [solver.build_mineral(s) for s in scs]
        Fi = [np.array(sc["F0"], float) for _ in scs]
        if rng.random() < 0.5:   # round-robin with a fresh order in every round
            order = [(j, u) for u in range(len(ts) - 1) for j in rng.permutation(nm)]
            res.count("interleavings: round-robin")
        else:                    # ANY merge of the per-mineral call sequences (Properties/C08Interleave.interleave_independent:
            calls = [j for j in range(nm) for _ in range(len(ts) - 1)]   # the own-call lists are all that matters)
            rng.shuffle(calls)
            nxt = [0] * nm
            order = []
            for j in calls:
                order.append((int(j), nxt[j]))
                nxt[j] += 1
            res.count("interleavings: arbitrary merge")
        tainted = set()
        for j, u in order:  # interleaved across minerals (per-mineral order of intervals preserved)
            if rng.random() < 0.25:
                # a FAILED call on another mineral in between (a `none` operation of the model: the collection is unchanged):
                # the caller's mistake (unsupported regime), the call raises, the caller restores the regime
                k_ = int((j + 1 + rng.integers(0, nm - 1)) % nm)
                keep = inter[k_].regime
                inter[k_].regime = core.DeformationRegime.sliding_dislocation
                try:
                    inter[k_].update_orientations(params, Fi[k_].copy(), sc["field"], (ts[u], ts[u + 1], sc["field"].pos))
                    tainted.add(k_)      # it did not raise: that is C07's subject, not an interference between minerals
                except Exception:  # noqa: BLE001
                    pass
                inter[k_].regime = keep
                res.count("interleavings: failed call on another mineral in between")
            Fi[j] = inter[j].update_orientations(params, Fi[j], sc["field"], (ts[u], ts[u + 1], sc["field"].pos))
        res.evaluations += 2 * nm
        res.count("interleavings")
        for j in range(nm):
            if j in tainted:
                continue
            if _digest(seq[j], Fseq[j]) != _digest(inter[j], Fi[j]):
                res.violation("independence:interleaving", f"mineral {j} differs between sequential and interleaved updates", rep)
        bulk = [solver.build_mineral(s) for s in scs]
        perm = list(rng.permutation(nm))
        bulk_p = [solver.build_mineral(scs[j]) for j in perm]
        Fb = np.array(sc["F0"], float)
        Fbp = np.array(sc["F0"], float)
        for a_, b_ in zip(ts[:-1], ts[1:]):
            Fb = M.update_all(bulk, params, Fb, sc["field"], (a_, b_, sc["field"].pos))
            Fbp = M.update_all(bulk_p, params, Fbp, sc["field"], (a_, b_, sc["field"].pos))
        res.count("update_all_orders")
        def _cmp(ma, mb, what, key):
            # the first interval starts from the same F for every mineral: bitwise; later intervals start from the F returned by a
            # different mineral (equal only within solver tolerance), which feeds LSODA's step control: within tolerance
            if not (np.array_equal(ma.orientations[1], mb.orientations[1]) and np.array_equal(ma.fractions[1], mb.fractions[1])):
                res.violation(key + ":first_interval_bits", what + " (first interval, expected bit-identical)", rep)
            dd = max(float(np.abs(x - y).max()) for x, y in zip(ma.orientations + ma.fractions, mb.orientations + mb.fractions))
            if dd > tol:
                res.violation(key, what + f" by {dd:.3e} > {tol:.3e}", rep)

        for pos, j in enumerate(perm):
            _cmp(bulk[j], bulk_p[pos], f"mineral {j} differs when the mineral list is reordered", "independence:update_all_order")
            _cmp(bulk[j], seq[j], f"mineral {j} differs between update_all and individual updates", "independence:update_all_vs_single")
        tolF = 2 * tol
        if np.abs(Fb - Fbp).max() > tolF * max(1.0, np.abs(Fb).max()):
            res.violation("independence:update_all_F_order", "update_all F depends on the mineral order beyond tolerance", rep)
        # (iv) twins
        t1, Ft1, _ = solver.run_scenario(sc, record=False)
        t2, Ft2, _ = solver.run_scenario(sc, record=False)
        res.evaluations += 2
        if _digest(t1, Ft1[-1]) != _digest(t2, Ft2[-1]) or _digest(t1, Ft1[-1]) != _digest(m_multi, F_multi[-1]):
            res.violation("twins:same_process", "identically built and driven minerals are not bit-identical", rep)
        if k < (2 if not ctx["thorough"] else 6):
            other = _run_pair_in_subprocess(sc)
            res.evaluations += 1
            res.count("twins:two_processes")
            if other != _digest(t1, Ft1[-1]):
                res.violation("twins:two_processes", "identical scenario gives different bits in a second process", rep)
        if k < 3:
            res.sample({"phase": sc["phase"], "fabric": sc["fabric"], "regime": sc["regime"], "phi": phi, "M": sc["Mob"], "n": sc["n"],
                        "minerals_in_bulk": nm, "multi_vs_scaled_single_maxdiff": d})
    _bulk_histories(ctx, res, rng)
    # (v) module-level state
    if repr(core.DefaultParams()) != defaults_before:
        res.violation("hidden_state:DefaultParams", "DefaultParams defaults changed during the run", {})
    st_after = M.StiffnessTensors()
    if not (np.array_equal(st_before.olivine, st_after.olivine) and np.array_equal(st_before.enstatite, st_after.enstatite)):
        res.violation("hidden_state:StiffnessTensors", "StiffnessTensors defaults changed during the run", {})


def _bulk_histories(ctx, res, rng):
    """histories of the bulk driver that ordinary use rarely produces: the minerals handed over as a one-shot iterable, a bulk
    update that fails half-way and is retried after the caller has repaired the cause, model times far from the origin. In each
    case every mineral must end up exactly like an identical mineral driven alone through the calls it actually received
    (same inputs, same code: bit-identical)."""
    M = impl._minerals
    core = impl._core

    def twins(sc, nm):
        scs = []
        for j in range(nm):
            ph, fa = impl.PHASE_FABRICS[int(rng.integers(0, 6))]
            scs.append(dict(sc, phase=int(ph), fabric=int(fa), tex_seed=int(rng.integers(0, 2**31)), regime=4))
        return [solver.build_mineral(s_) for s_ in scs], [solver.build_mineral(s_) for s_ in scs]

    def same(a, b):
        return (len(a.fractions) == len(b.fractions) and all(np.array_equal(x, y) for x, y in zip(a.orientations + a.fractions, b.orientations + b.fractions)))

    for k in range(6 if not ctx["thorough"] else 30):
        mode = ["reversed_iterator", "generator", "failed_then_retried", "far_time_origin", "filter_object", "failed_then_retried"][k % 6]
        sc = solver.make_scenario(rng, k, nmax=8, regimes=(4,), fields=["const", "time"])
        sc["debug_log"] = False
        nm = int(rng.integers(2, 5))
        bulk, alone = twins(sc, nm)
        params = solver.params_of(sc)
        fld = sc["field"]
        rep = dict(solver.scenario_json(sc), mode=mode, minerals=nm)
        res.evaluations += 1
        res.count("bulk_history:" + mode)
        res.nontrivial(("bulk_history", mode, k, sc["tex_seed"]))
        if mode == "far_time_origin":
            T0 = float(rng.choice([5e3, -3e4, 1e6]))
            fld.torig = T0
            ts = T0 + float(rng.choice([0.02, 0.5])) * np.arange(sc["n_updates"] + 1)
        else:
            ts = solver.times_of(sc)
        F = np.array(sc["F0"], float)
        fail_at = int(rng.integers(1, nm)) if mode == "failed_then_retried" else None
        for u, (a_, b_) in enumerate(zip(ts[:-1], ts[1:])):
            Fin = F.copy()
            handed = {"reversed_iterator": lambda: reversed(bulk[::-1]), "generator": lambda: (m_ for m_ in bulk),
                      "filter_object": lambda: filter(None, bulk)}.get(mode, lambda: bulk)()
            if fail_at is not None and u == len(ts) - 2:
                # the caller's mistake: one mineral sits in a regime that is not supported; the call raises, the caller repairs and retries
                bulk[fail_at].regime = core.DeformationRegime.sliding_dislocation
                try:
                    M.update_all(bulk, params, Fin.copy(), fld, (a_, b_, fld.pos))
                    res.violation("bulk_history:failed_update_returned", "update_all with a mineral in an unsupported regime returned normally", rep)
                except ValueError:
                    pass
                for j in range(fail_at):        # the minerals before the failing one received this interval once already
                    alone[j].update_orientations(params, Fin.copy(), fld, (a_, b_, fld.pos))
                bulk[fail_at].regime = core.DeformationRegime.matrix_dislocation
            F = np.array(M.update_all(handed, params, Fin.copy(), fld, (a_, b_, fld.pos)))
            for m_ in alone:
                Fa = m_.update_orientations(params, Fin.copy(), fld, (a_, b_, fld.pos))
            if not np.array_equal(F, np.asarray(Fa)):
                res.violation(f"bulk_history:{mode}:F", f"update_all returned another deformation gradient than the last mineral driven alone (update {u}): "
                              f"max diff {float(np.abs(F - np.asarray(Fa)).max()):.3e}", rep)
                break
        for j, (a, b) in enumerate(zip(bulk, alone)):
            if not same(a, b):
                res.violation(f"bulk_history:{mode}:mineral_differs_from_one_driven_alone",
                              f"mineral {j} of {nm} after the bulk history has {len(a.fractions)} snapshots / other values than the identical mineral driven "
                              f"alone through the same calls ({len(b.fractions)} snapshots)", rep)
                break


def replay(data):
    from .. import solver as _solver
    return _solver.replay_violations(data)


if __name__ == "__main__":
    with open(sys.argv[1], "rb") as fh:
        sc_ = pickle.load(fh)
    m_, F_, _ = solver.run_scenario(sc_, record=False)
    with open(sys.argv[2], "wb") as fh:
        pickle.dump(_digest(m_, F_[-1]), fh)
