"""C09 — grain-boundary sliding floor.

Correspondence K11/K10/K13: `utils.apply_gbs`, `utils.extract_vars` and the write-back of
`perform_step` against ModelF.applyGbs / extractVars / postStep (Lean driver).
Property predicates are evaluated on the real outputs (failing-input search).
"""
from __future__ import annotations

import numpy as np

from .. import common as C
from .. import impl
from .. import robust

PARTIAL = [
    "whether LSODA's internal history honours the vector written back after each step is a SciPy/ODEPACK internal; "
    "the theorems therefore speak about apply_gbs/extract_vars at each step and about the stored snapshot, "
    "and the recorded histories validate that the stored snapshot is extract_vars of the last written-back vector",
    "floating-point rounding (theorems over the reals; correspondence within 1e-9 relative)",
]
ASSUMPTIONS = ["numpy pairwise summation vs sequential summation differ only at rounding level"]
JIT_TWIN = ('utils', 'update')   # groups of harness/jittwin.py: the numba-compiled code is run on the same battery and compared
PRE_LEAN = C.s2_trace_gbs   # S2: utils.apply_gbs (2 and 3 grains) and utils.extract_vars (2 grains) re-traced on every run
EXTRA_LEAN_MODULES = ("Bridge.Gbs", "Bridge.Extract")
TRUSTED = ["history recorder: subclass of scipy.integrate.LSODA substituted for pydrex.minerals.LSODA at run time"]


def _gbs_case(rng, kind, n):
    A = impl.random_rotations(rng, n) if n > 0 else np.zeros((0, 3, 3))
    prev = impl.random_rotations(rng, n)
    if kind == "dyadic_ties":
        # exactly representable: chi = k/8, n power of two -> chi/n exact, some f exactly on it
        n = int(2 ** rng.integers(1, 6))
        A = impl.random_rotations(rng, n)
        prev = impl.random_rotations(rng, n)
        chi = float(rng.integers(1, 8)) / 8.0
        thr = chi / n
        f = rng.choice([thr, thr / 2, thr * 2, thr * 1.5, 0.0], size=n)
        if f.sum() == 0:
            f[0] = 1.0
    else:
        chi = float(rng.choice([0.0, 0.1, 0.3, 0.5, 0.9, rng.uniform(0, 0.99)]))
        if kind == "none_below":
            f = np.full(n, 1.0 / n) * rng.uniform(0.999, 1.001, n)
            f = np.maximum(f, chi / n * 1.01)
        elif kind == "all_below":
            f = rng.uniform(0, 1, n) * chi / n * 0.9
            if chi == 0:
                f = rng.uniform(0.1, 1, n)
        elif kind == "many_below":
            f = rng.dirichlet(np.full(n, 0.2))
        elif kind == "one_dominant":
            f = np.full(n, 1e-9)
            f[rng.integers(0, n)] = 1.0
        else:
            f = rng.dirichlet(np.ones(n))
        f = f / f.sum() if kind not in ("all_below",) else f
    return chi, n, np.ascontiguousarray(prev), np.ascontiguousarray(A), np.ascontiguousarray(f, dtype=float)


def _check_gbs_predicates(res, chi, n, prev, A, f, A2, f2, tag):
    """The statement of C09 on the real outputs of apply_gbs."""
    thr = chi / n
    mask = f < thr
    rep = {"chi": chi, "n": n, "f": f.tolist(), "case": tag}
    if mask.any() and not np.array_equal(A2[mask], prev[mask]):
        res.violation("gbs:masked_not_frozen", "a grain below chi/n did not get exactly the reference orientation", rep)
    if (~mask).any() and not np.array_equal(A2[~mask], A[~mask]):
        res.violation("gbs:unmasked_rotated", "a grain at/above chi/n lost its integrated orientation", rep)
    floored = np.where(mask, thr, f)
    s = floored.sum()
    if s > 0:
        if abs(f2.sum() - 1) > 1e-12:
            res.violation("gbs:not_normalised", f"sum of fractions {f2.sum()!r} != 1", rep)
        if not np.allclose(f2 * s, floored, rtol=1e-12, atol=0):
            res.violation("gbs:floor_or_ratio", "fractions are not floor/ratio-preserving before renormalisation", rep)
        if abs(f.sum() - 1) < 1e-9 and (f >= 0).all():
            if f2.min() < chi / (n * (1 + chi)) * (1 - 1e-12):
                res.violation("gbs:floor_bound", f"min fraction {f2.min()!r} < chi/(n(1+chi))", rep)
        order = np.argsort(f, kind="stable")
        if (np.diff(f2[order]) < -1e-15).any():
            res.violation("gbs:order", "volume ordering not preserved", rep)
    if chi == 0 and (f >= 0).all() and mask.any():
        res.violation("gbs:chi0_masked", "chi = 0 froze a grain", rep)


def run(ctx, res):
    from pydrex import utils as U
    from pydrex import minerals as M

    rng = np.random.default_rng(ctx["seed"] + 909)
    # history- and representation-robustness scenarios (see harness/robust.py)
    robust.run(res, np.random.default_rng(ctx["seed"] + 77), ctx, "C09")
    N = 300 if not ctx["thorough"] else 6000
    res.rule = ("apply_gbs/extract_vars cases from families {generic, many/none/all below, one dominant, exact dyadic ties}; "
                "update histories recorded through an LSODA proxy; a case is non-trivial when at least one grain is masked "
                "or a tie occurs (K11) / when at least one solver step was recorded (histories); distinct by input hash")
    kinds = ["generic", "many_below", "none_below", "all_below", "one_dominant", "dyadic_ties"]
    lines, cases = [], []
    for k in range(N):
        kind = kinds[k % len(kinds)]
        n = int(rng.integers(1, 40 if not ctx["thorough"] else 400))
        chi, n, prev, A, f = _gbs_case(rng, kind, n)
        A2, f2 = U.apply_gbs(A.copy(), f.copy(), chi, prev, n)
        res.evaluations += 1
        res.count("gbs:" + kind)
        nm = int((f < chi / n).sum())
        res.count("gbs:masked>0" if nm else "gbs:masked=0")
        if nm or kind == "dyadic_ties":
            res.nontrivial((kind, chi, n, f.tobytes()))
        _check_gbs_predicates(res, chi, n, prev, A, f, A2, f2, kind)
        lines.append(f"gbs {C.f2h(chi)} {n} {C.fs2h(prev.ravel())} {C.fs2h(A.ravel())} {C.fs2h(f)}")
        cases.append(("gbs", kind, chi, n, f, np.concatenate([A2.ravel(), f2])))
        if k < 3:
            res.sample({"kernel": "apply_gbs", "case": kind, "chi": chi, "n": n, "f": f.tolist()[:8], "masked": nm})
        # extract_vars
        y = np.concatenate([rng.normal(size=9), (A + rng.normal(scale=0.2, size=A.shape)).ravel(),
                            f + rng.normal(scale=0.5 / n, size=n)])
        if (np.clip(y[9 * n + 9:], 0, None)).sum() <= 0:
            y[-1] = 1.0
        F3, A3, f3 = U.extract_vars(y.copy(), n)
        res.evaluations += 1
        res.count("extract_vars")
        lines.append(f"extract {n} {C.fs2h(y)}")
        cases.append(("extract", kind, None, n, y, np.concatenate([F3.ravel(), A3.ravel(), f3])))
        if abs(f3.sum() - 1) > 1e-12 or (f3 < 0).any() or np.abs(A3).max() > 1:
            res.violation("extract:not_simplex", "extract_vars output not clipped/normalised", {"n": n, "y": y.tolist()})
    outs = C.run_driver(lines)
    for (kern, kind, chi, n, inp, want), line in zip(cases, outs):
        got = C.hs2f(line.split())
        if C.close(got, want):
            res.traces += 1
        else:
            res.mismatch("K11 apply_gbs" if kern == "gbs" else "K10 extract_vars",
                         {"kind": kind, "chi": chi, "n": n, "input": np.asarray(inp).tolist()[:60]},
                         np.asarray(want).tolist()[:40], got[:40], note=f"maxdiff={C.maxdiff(got, want)}")

    # ---- recorded update histories -------------------------------------------------
    n_hist = 10 if not ctx["thorough"] else 60
    hl, hc = [], []
    for h in range(n_hist):
        n = int(rng.integers(4, 24 if not ctx["thorough"] else 120))
        chi = float(rng.choice([0.0, 0.3, 0.6, 0.9]))
        phase, fabric = impl.PHASE_FABRICS[h % len(impl.PHASE_FABRICS)]
        A0, f0 = impl.initial_texture(impl.TEX_KINDS[h % len(impl.TEX_KINDS)] if h < 4 or h % 6 < 2 else "nonuniform", rng, n)
        if h >= 4 and h % 6 >= 2:
            chi = float(rng.choice([0.3, 0.6, 0.9]))      # the variants below need grains under the threshold
        if h % 6 == 1:
            # sliding switched OFF (chi = 0, a falsy number) on a texture with very small grains: nothing is floored, nothing frozen
            chi = 0.0
            A0, f0 = impl.initial_texture("nonuniform", rng, n)
            res.count("history:chi_zero_with_tiny_grains")
        m = M.Mineral(phase=phase, fabric=fabric, regime=impl._core.DeformationRegime.matrix_dislocation,
                      n_grains=n, fractions_init=f0.copy(), orientations_init=A0.copy())
        L = impl.make_L(impl.L_KINDS[h % len(impl.L_KINDS)], rng)
        params = impl.two_phase_params(gbs_threshold=chi, gbm_mobility=float(rng.choice([50, 125, 200])),
                                       number_of_grains=(n if h % 2 == 0 else 3500))  # the mineral's own n_grains is what counts
        F = np.eye(3)
        n_upd = int(rng.integers(1, 4))
        ts = np.linspace(0, rng.uniform(0.3, 1.0), n_upd + 1)
        # the floor applies to every update, whatever the time direction and whichever way the regime is declared
        variant = ["plain", "plain", "reversed_time", "regime_callable_null", "far_time_origin", "regime_callable_switch"][h % 6] if h >= 4 else "plain"
        get_regime = None
        if variant == "reversed_time":
            ts = ts[::-1].copy()
        elif variant == "far_time_origin":
            ts = ts + float(rng.choice([5e3, -1e6]))
        elif variant == "regime_callable_null":
            r_ = impl._core.DeformationRegime(int(rng.choice([0, 1, 7])))
            get_regime = lambda t, x, r_=r_: r_  # noqa: E731
        elif variant == "regime_callable_switch":
            tm = float(ts[0] + 0.6 * (ts[1] - ts[0]))
            r_ = impl._core.DeformationRegime(int(rng.choice([0, 7])))
            get_regime = lambda t, x, r_=r_, tm=tm: impl._core.DeformationRegime.matrix_dislocation if t < tm else r_  # noqa: E731
        res.count("history:variant:" + variant)
        for u in range(n_upd):
            start_A = m.orientations[-1].copy()
            with impl.Recorder() as rec:
                F = m.update_orientations(params, F, lambda t, x: L, (ts[u], ts[u + 1], lambda t: np.zeros(3)), get_regime=get_regime)
            r = rec.updates[0]
            res.evaluations += 1
            res.count(f"history:chi={chi}")
            res.count("history:steps", len(r["raw"]))
            res.nontrivial(("hist", h, u, len(r["raw"])))
            for raw, post in zip(r["raw"], r["post"]):
                hl.append(f"poststep {C.f2h(chi)} {n} {C.fs2h(start_A.ravel())} {C.fs2h(raw)}")
                hc.append(("poststep", h, u, post))
            last = r["post"][-1]
            hl.append(f"extract {n} {C.fs2h(last)}")
            hc.append(("stored", h, u, np.concatenate([F.ravel(), m.orientations[-1].ravel(), m.fractions[-1]])))
            # property on the stored snapshot
            fS, AS = m.fractions[-1], m.orientations[-1]
            bound = chi / (n * (1 + chi))
            if fS.min() < bound * (1 - 1e-9):
                res.violation("stored:floor_bound", f"stored fraction {fS.min()!r} below chi/(n(1+chi))={bound!r}",
                              {"n": n, "chi": chi, "phase": int(phase), "fabric": int(fabric), "L": L.tolist()})
            # grains masked at the final step end with exactly the start-of-update orientation
            _, _, f_last_raw = U.extract_vars(r["raw"][-1].copy(), n)
            masked = f_last_raw < chi / n
            res.count("history:masked_final", int(masked.sum()))
            if masked.any() and not np.array_equal(AS[masked], np.clip(start_A[masked], -1, 1)):
                res.violation("stored:masked_not_start_orientation",
                              "grain masked at the last step does not end with its start-of-update orientation",
                              {"n": n, "chi": chi, "phase": int(phase), "fabric": int(fabric), "L": L.tolist()})
        if h < 2:
            res.sample({"history": h, "n": n, "chi": chi, "phase": int(phase), "fabric": int(fabric),
                        "updates": n_upd, "solver_steps_last_update": len(r["raw"])})
    outs = C.run_driver(hl)
    for (kern, h, u, want), line in zip(hc, outs):
        got = C.hs2f(line.split())
        if C.close(got, want):
            res.traces += 1
        else:
            res.mismatch("K13 perform_step write-back" if kern == "poststep" else "K13 stored snapshot = extract_vars(last y)",
                         {"history": h, "update": u}, np.asarray(want).tolist()[:30], got[:30],
                         note=f"maxdiff={C.maxdiff(got, want)}")


def replay(data):
    from .. import solver as _solver
    return _solver.replay_violations(data)
