"""./check Cxx --tier quick|thorough [--replay FILE]

Protocol (DESIGN.md section 1.4):
 1. regenerate the model instances, `lake build`, forbidden-construct grep, `#print axioms`
    on every theorem of Properties/Cxx.lean  -> proof obligations
 2. correspondence: the model's executable definitions and the real pydrex functions on the
    same generated inputs / histories
 3. property predicates evaluated directly on the real implementation (failing-input search)
 4. outcome: exit 0 | KNOWN-FINDING lines | VIOLATION line (exit 1) | tool failure (exit 2)
 5. evidence/Cxx.json
"""
from __future__ import annotations

import argparse
import importlib
import json
import os
import sys
import time
import traceback

from . import common as C


def main():
    ap = argparse.ArgumentParser()
    ap.add_argument("prop")
    ap.add_argument("--tier", default=os.environ.get("VERIF_TIER", "quick"), choices=["quick", "thorough"])
    ap.add_argument("--replay", default=None)
    ap.add_argument("--no-lean", action="store_true", help="(development only) skip the Lean step")
    ap.add_argument("--child", action="store_true", help="(internal) implementation-side search only; print the violations as JSON")
    args = ap.parse_args()
    prop = args.prop
    seed = int(os.environ.get("VERIF_SEED", "0") or 0)
    t0 = time.time()
    C.EVIDENCE.mkdir(exist_ok=True)
    C.REPLAYS.mkdir(exist_ok=True)

    try:
        mod = importlib.import_module(f"harness.props.{prop.lower()}")
    except ModuleNotFoundError as e:
        print(f"no check module for {prop}: {e}")
        sys.exit(2)

    if args.replay:
        rc = mod.replay(json.loads(open(args.replay).read()))
        sys.exit(rc)

    # 1. proof obligations
    if args.no_lean or args.child:
        lean = {"ok": True, "obligations": ["(skipped)"], "discharged": ["(skipped)"], "problems": [], "checker_cmd": "skipped", "axioms": {}}
    else:
        try:
            lean = C.lean_obligations(prop, extra_modules=getattr(mod, "EXTRA_LEAN_MODULES", ()), thorough=(args.tier == "thorough"),
                                      pre=getattr(mod, "PRE_LEAN", None))
        except Exception as e:  # tool failure
            print("lean step failed:", repr(e))
            traceback.print_exc()
            sys.exit(2)

    # 2./3. correspondence + property predicates on the implementation
    res = C.Result(prop)
    ctx = {"tier": args.tier, "seed": seed, "thorough": args.tier == "thorough", "prop": prop}
    opt_child = None
    if getattr(mod, "OPTIMIZED_TWIN", False) and not args.child:
        # the same implementation-side search under `python -O` (PYTHONOPTIMIZE: `assert` statements and `if __debug__:` blocks
        # are compiled away): validation that lives in an assert is no validation for a user running in optimised mode
        import subprocess
        opt_child = subprocess.Popen([sys.executable, "-O", "-m", "harness.run_check", prop, "--tier", args.tier, "--child"], cwd=str(C.VERIF),
                                     env=dict(os.environ, VERIF_SEED=str(seed)), stdout=subprocess.PIPE, stderr=subprocess.PIPE, text=True)
    twin_groups = tuple(getattr(mod, "JIT_TWIN", ())) if not args.child else ()
    twin = None
    if twin_groups:
        from . import jittwin
        twin = jittwin.start(twin_groups, ctx)     # the numba-compiled twin runs alongside (harness/jittwin.py)
    try:
        mod.run(ctx, res)
    except C.DriverError as e:
        if twin is not None:
            twin.kill()
        print("driver failure:", e)
        sys.exit(2)
    except Exception as e:
        # The harness could not drive the implementation (e.g. a function it calls was renamed
        # or now raises). That is a broken correspondence, not a tool failure.
        traceback.print_exc()
        res.mismatch("harness", "exception while driving the implementation", repr(e), "", note=traceback.format_exc()[-1500:])

    if twin is not None:
        try:
            jittwin.finish(twin, twin_groups, ctx, res, prop)
        except Exception as e:  # noqa: BLE001
            res.mismatch("numba-compiled vs interpreted", {"groups": list(twin_groups)}, "", "", note="twin comparison failed: " + repr(e))

    if args.child:
        print("CHILD-RESULT " + json.dumps(C.jsonable({"violations": res.violations, "mismatches": res.corr_mismatch[:10], "evaluations": res.evaluations})))
        sys.exit(0)
    if opt_child is not None:
        try:
            so, se = opt_child.communicate(timeout=3000)
            line = [l for l in so.splitlines() if l.startswith("CHILD-RESULT ")]
            if opt_child.returncode != 0 or not line:
                res.mismatch("python -O twin", {}, "", "", note="the optimised-mode run of the implementation-side search failed: " + se[-500:])
            else:
                cr = json.loads(line[0][13:])
                res.evaluations += cr["evaluations"]
                res.count("python -O twin: evaluations", cr["evaluations"])
                seen = {v["key"] for v in res.violations}
                for v in cr["violations"]:
                    if v["key"] not in seen:     # the same finding is not reported twice; one seen only in optimised mode says so
                        res.violation(v["key"], "[only under python -O] " + v["what"], v.get("replay"))
                for m_ in cr["mismatches"]:
                    res.corr_mismatch.append(m_)
        except Exception as e:  # noqa: BLE001
            res.mismatch("python -O twin", {}, "", "", note="optimised-mode run failed: " + repr(e))

    # Escalation: a proof obligation or the correspondence is broken but no failing input has been seen yet:
    # search further (other seeds, same budget) on the implementation before giving up.
    if (not lean["ok"] or res.corr_mismatch) and not res.violations:
        for extra in range(1, 4):
            res2 = C.Result(prop)
            try:
                mod.run({"tier": args.tier, "seed": seed + 7919 * extra, "thorough": args.tier == "thorough"}, res2)
            except Exception:  # noqa: BLE001
                continue
            res.evaluations += res2.evaluations
            res.nontrivial_keys |= res2.nontrivial_keys
            res.notes.append(f"escalated search with seed {seed + 7919 * extra}: {len(res2.violations)} failing inputs")
            if res2.violations:
                res.violations = res2.violations
                break

    known = C.load_known(prop)
    kfind = [k for k in known.get("findings", []) if k["property"] == prop]

    def known_match(v):
        for k in kfind:
            if v["key"] == k["key"]:
                return k
        return None

    new_viol = []
    known_hits = {}
    for v in res.violations:
        k = known_match(v)
        if k is not None:
            known_hits[k["key"]] = k
        else:
            new_viol.append(v)

    exit_code = 0
    replay_path = None
    lines = []
    for k in known_hits.values():
        lines.append(f"KNOWN-FINDING: property={prop} {k['key']}: {k['what']}")
    # a listed finding that no longer reproduces is reported (informational), never an alarm
    for k in kfind:
        if k["key"] not in known_hits:
            lines.append(f"note: known finding {k['key']} did not reproduce in this run")

    broken = []
    if not lean["ok"]:
        broken.append({"kind": "proof-obligation", "problems": lean["problems"]})
    if res.corr_mismatch:
        broken.append({"kind": "correspondence", "mismatches": res.corr_mismatch[:10]})

    if new_viol:
        exit_code = 1
        replay_path = C.REPLAYS / f"{prop}-{args.tier}-{seed}.json"
        replay_path.write_text(json.dumps(C.jsonable({"property": prop, "seed": seed, "tier": args.tier,
                                                       "violations": new_viol, "broken": broken}), indent=1))
        lines.append(f"VIOLATION property={prop} replay={replay_path.relative_to(C.VERIF)}")
    elif broken:
        exit_code = 1
        replay_path = C.REPLAYS / f"{prop}-{args.tier}-{seed}.json"
        replay_path.write_text(json.dumps(C.jsonable({"property": prop, "seed": seed, "tier": args.tier,
                                                       "no_failing_input_found": True,
                                                       "unchecked": broken}), indent=1))
        lines.append(f"VIOLATION property={prop} replay={replay_path.relative_to(C.VERIF)} no-failing-input-found")

    wall = time.time() - t0
    n_obl = len(lean["obligations"])
    n_dis = len(lean["discharged"])
    coverage = {
        "obligations": max(n_obl, 0),
        "discharged": n_dis,
        "checker_cmd": lean["checker_cmd"],
        "trusted_base": [
            "Lean 4.33.0 kernel" + (" + leanchecker re-check" if args.tier == "thorough" else ""),
            "axioms: propext, Classical.choice, Quot.sound only (audited by #print axioms on every property theorem)",
            "Mathlib v4.33.0 lemmas",
            "gen_instances.py (textual instantiation of tmpl/ as ModelF/ModelR; checked byte-for-byte on every run)",
            "correspondence harness (harness/props/%s.py) and its tolerance policy" % prop.lower(),
        ] + list(getattr(mod, "TRUSTED", [])),
        "theorems": lean["obligations"],
        "axioms_by_theorem": {k: v for k, v in lean.get("axioms", {}).items() if k in set(lean["obligations"])},
        "lean_problems": lean["problems"],
        "evaluations": res.evaluations,
        "distinct_nontrivial": len(res.nontrivial_keys),
        "rule": res.rule,
        "samples": res.samples[:6] if res.samples else [{"theorems": lean["obligations"][:5]}],
        "traces_validated_against_impl": res.traces,
        "correspondence_mismatches": len(res.corr_mismatch),
        "input_distribution": res.dist,
        "known_findings_hit": sorted(known_hits),
        "partial": list(getattr(mod, "PARTIAL", [])) + res.partial,
        "notes": res.notes,
    }
    ev = {
        "property_id": prop,
        "tier": args.tier,
        "seed": seed,
        "level": "proof",
        "coverage": coverage,
        "assumptions": list(getattr(mod, "ASSUMPTIONS", [])) + res.assumptions,
        "wall_s": round(wall, 2),
        "violations": len(new_viol) + (1 if (broken and not new_viol) else 0),
    }
    (C.EVIDENCE / f"{prop}.json").write_text(json.dumps(C.jsonable(ev), indent=1))
    print(f"[{prop} {args.tier} seed={seed}] obligations {n_dis}/{n_obl}; evaluations {res.evaluations}; "
          f"model-vs-impl traces {res.traces}; mismatches {len(res.corr_mismatch)}; "
          f"impl violations new={len(new_viol)} known={len(known_hits)}; {wall:.1f}s")
    for p in lean["problems"]:
        print("  lean:", p)
    for m in res.corr_mismatch[:5]:
        print("  corr-mismatch:", json.dumps(C.jsonable(m))[:600])
    for v in new_viol[:8]:
        print("  violation:", v["key"], "-", v["what"][:300])
    for l in lines:
        print(l)
    sys.stdout.flush()
    sys.exit(exit_code)


if __name__ == "__main__":
    main()
