"""Scenarios driving the REAL `Mineral.update_orientations` / `update_all`, with recorded solver
histories, and the K12 (`eval_rhs`) correspondence."""
from __future__ import annotations

import contextlib

import numpy as np

from . import common as C
from . import impl

core = impl._core
M = impl._minerals


class LField:
    """L(t, x) = L0 + t*L1 + sum_i x_i*Mi + sin(w t)*L2 and pathline x(t) = x0 + v t.
    Serialisable (all coefficients are arrays) so a failing scenario can be replayed."""

    def __init__(self, L0, L1=None, Mx=None, L2=None, w=0.0, x0=None, v=None, scale=1.0, tscale=1.0, torig=0.0, pulse_P=0.0, L3=None,
                 orb_a=None, orb_b=None, orb_w=0.0):
        z = np.zeros((3, 3))
        self.L0, self.L1, self.L2 = np.array(L0, float), np.array(z if L1 is None else L1, float), np.array(z if L2 is None else L2, float)
        self.Mx = np.zeros((3, 3, 3)) if Mx is None else np.array(Mx, float)
        self.w = float(w)
        self.x0 = np.zeros(3) if x0 is None else np.array(x0, float)
        self.v = np.zeros(3) if v is None else np.array(v, float)
        self.scale = float(scale)    # multiplies L (C05)
        self.tscale = float(tscale)  # time compression: L(t) evaluated at t*tscale (C05)
        self.pulse_P = float(pulse_P)  # period of the bump term 4u(1-u) L3, u = (t/P) mod 1: EXACTLY zero at multiples of P (aligned_pulse)
        self.L3 = np.zeros((3, 3)) if L3 is None else np.array(L3, float)
        self.torig = float(torig)    # time origin of the history (model time at which the L1 / L2 / pathline terms start), in compressed time
        # closed-orbit part of the pathline: x(t) = x0 + v t + a (1 - cos(W t)) + b sin(W t); with v = 0 the particle is back at x0
        # after every period 2 pi / W although it moves in between (hard.py family closed_orbit)
        self.orb_a = np.zeros(3) if orb_a is None else np.array(orb_a, float)
        self.orb_b = np.zeros(3) if orb_b is None else np.array(orb_b, float)
        self.orb_w = float(orb_w)

    def pos(self, t):
        tt = (t - self.torig) * self.tscale
        x = self.x0 + self.v * tt
        if self.orb_w:
            x = x + self.orb_a * (1.0 - np.cos(self.orb_w * tt)) + self.orb_b * np.sin(self.orb_w * tt)
        return x

    def __call__(self, t, x):
        tt = (t - self.torig) * self.tscale
        L = self.L0 + tt * self.L1 + np.einsum("i,ijk->jk", np.asarray(x, float), self.Mx) + np.sin(self.w * tt) * self.L2
        if self.pulse_P:
            u = (tt / self.pulse_P) % 1.0
            L = L + (4.0 * u * (1.0 - u)) * self.L3
        return self.scale * L

    def scaled(self, k):
        return LField(self.L0, self.L1, self.Mx, self.L2, self.w, self.x0, self.v, scale=self.scale * k, tscale=self.tscale * k,
                      torig=self.torig / k, pulse_P=self.pulse_P, L3=self.L3, orb_a=self.orb_a, orb_b=self.orb_b, orb_w=self.orb_w)

    def rotated(self, Q):
        r = lambda X: Q @ X @ Q.T  # noqa: E731
        Mx = np.einsum("ia,ajk->ijk", Q, np.stack([r(self.Mx[a]) for a in range(3)]))  # x' = Q x
        return LField(r(self.L0), r(self.L1), Mx, r(self.L2), self.w, Q @ self.x0, Q @ self.v, self.scale, self.tscale, self.torig, self.pulse_P, r(self.L3),
                      orb_a=Q @ self.orb_a, orb_b=Q @ self.orb_b, orb_w=self.orb_w)

    def to_json(self):
        return {k: (getattr(self, k).tolist() if hasattr(getattr(self, k), "tolist") else getattr(self, k))
                for k in ("L0", "L1", "Mx", "L2", "w", "x0", "v", "scale", "tscale", "torig", "pulse_P", "L3", "orb_a", "orb_b", "orb_w")}

    def is_constant(self):
        return not (self.L1.any() or self.L2.any() or self.Mx.any() or (self.pulse_P and self.L3.any()))


def make_field(rng, kind):
    L0 = impl.make_L(rng.choice(impl.L_KINDS) if kind != "zero" else "general", rng)
    if kind == "zero":
        return LField(np.zeros((3, 3)))
    if kind == "const":
        return LField(L0)
    if kind == "rigid":  # rigid-body rotation: antisymmetric L, zero strain rate, L != 0
        X = rng.normal(size=(3, 3))
        return LField(X - X.T)
    if kind == "ends_vanish":  # L(t) = sin(w t) L2: vanishes at t = k pi / w (make_scenario aligns the partition with the zeros)
        return LField(np.zeros((3, 3)), L2=L0, w=1.0)
    if kind == "time":
        return LField(L0, L1=0.5 * impl.make_L("general", rng), L2=0.3 * impl.make_L("general_trace", rng), w=float(rng.uniform(1, 6)))
    if kind == "space":
        return LField(L0, Mx=0.3 * rng.normal(size=(3, 3, 3)), x0=rng.normal(size=3), v=rng.normal(size=3))
    if kind == "both":
        return LField(L0, L1=0.4 * impl.make_L("general", rng), Mx=0.2 * rng.normal(size=(3, 3, 3)),
                      L2=0.3 * impl.make_L("vortical", rng), w=float(rng.uniform(1, 6)), x0=rng.normal(size=3), v=rng.normal(size=3))
    raise ValueError(kind)


FIELD_KINDS = ["const", "time", "space", "both"]
EDGE_FIELD_KINDS = ["zero", "rigid", "ends_vanish"]
ACCEPTED_REGIMES = [0, 1, 4, 6, 7]


def make_scenario(rng, k, nmax=16, regimes=(4, 6), two_phase=True, fields=FIELD_KINDS, max_updates=4, span=(0.2, 1.0)):
    phase, fabric = impl.PHASE_FABRICS[k % len(impl.PHASE_FABRICS)]
    n = int(rng.integers(2, nmax + 1))
    sc = dict(
        phase=int(phase), fabric=int(fabric), regime=int(regimes[k % len(regimes)]), n=n,
        tex=impl.TEX_KINDS[(k // 2) % len(impl.TEX_KINDS)], tex_seed=int(rng.integers(0, 2**31)),
        field=make_field(rng, fields[(k // 3) % len(fields)]),
        chi=float(rng.choice([0.0, 0.3, 0.6, 0.9])), Mob=float(rng.choice([0.0, 10.0, 50.0, 125.0, 200.0])),
        lam=float(rng.choice([0.0, 5.0, 10.0])), p=float(rng.choice([1.0, 1.5, 2.0])), nexp=float(rng.choice([2.5, 3.5, 5.0])),
        n_updates=int(rng.integers(1, max_updates + 1)), t0=float(rng.uniform(-0.5, 0.5)), span=float(rng.uniform(*span)),
        F0=np.eye(3) + (0.2 * rng.normal(size=(3, 3)) if k % 2 else 0.0),
        two_phase=two_phase, phase_fractions=(0.7, 0.3),
    )
    if np.linalg.det(sc["F0"]) <= 0.1:
        sc["F0"] = np.eye(3)
    sc["field_kind"] = fields[(k // 3) % len(fields)]
    sc["debug_log"] = (k % 5 == 3)      # run with a DEBUG-level log handler attached (see debug_logging)
    sc["persistent_L"] = (k % 2 == 1)   # steady flows are posed with one persistent array object returned on every call (run_scenario)
    if sc["persistent_L"] and sc["field"].is_constant() and sc["field"].L0.any():
        D0 = (sc["field"].L0 + sc["field"].L0.T) / 2
        if abs(np.abs(np.linalg.eigvalsh(D0)).max() - 1.0) < 1e-9:
            sc["field"] = LField(1.7 * sc["field"].L0)      # not already scaled to unit strain rate (a rescaled array would go unnoticed)
    # params["number_of_grains"] need not equal the mineral's own grain count (a Mineral built with n_grains=... and driven with
    # the default parameter record): the mineral's n_grains is what counts
    sc["params_n"] = sc["n"] if k % 2 == 0 else 3500
    if sc["field_kind"] == "ends_vanish":
        # every partition point is a zero of sin(w t): the velocity gradient vanishes at both ends of every update interval
        sc["t0"] = 0.0
        sc["field"].w = float(np.pi * sc["n_updates"] / sc["span"])
    return sc


def scenario_json(sc):
    d = {k: (v.tolist() if hasattr(v, "tolist") else v) for k, v in sc.items() if k not in ("field", "get_regime")}
    if sc.get("get_regime") is not None:
        d["get_regime"] = getattr(sc["get_regime"], "desc", "callable")
    d["field"] = sc["field"].to_json()
    return d


def params_of(sc):
    if sc["two_phase"]:
        asm = (core.MineralPhase.olivine, core.MineralPhase.enstatite)
        fr = tuple(sc["phase_fractions"])
    else:
        asm = (core.MineralPhase(sc["phase"]),)
        fr = (1.0,)
    return impl.default_params(phase_assemblage=asm, phase_fractions=fr, stress_exponent=sc["p"], deformation_exponent=sc["nexp"],
                               gbm_mobility=sc["Mob"], gbs_threshold=sc["chi"], nucleation_efficiency=sc["lam"],
                               number_of_grains=sc.get("params_n", sc["n"]))


def build_mineral(sc):
    rng = np.random.default_rng(sc["tex_seed"])
    A0, f0 = impl.initial_texture(sc["tex"], rng, sc["n"])
    return M.Mineral(phase=core.MineralPhase(sc["phase"]), fabric=core.MineralFabric(sc["fabric"]),
                     regime=core.DeformationRegime(sc["regime"]), n_grains=sc["n"],
                     fractions_init=f0.copy(), orientations_init=A0.copy())


def times_of(sc):
    if sc.get("times") is not None:     # explicit partition (far time origins, reversed intervals, uneven partitions)
        return np.array(sc["times"], float)
    return np.linspace(sc["t0"], sc["t0"] + sc["span"], sc["n_updates"] + 1)


def run_scenario(sc, mineral=None, record=True, times=None, **kw):
    """Drive the real update_orientations over the scenario's partition. Returns (mineral, [F after each update], recorder)."""
    m = build_mineral(sc) if mineral is None else mineral
    params = params_of(sc)
    fld = sc["field"]
    ts = times_of(sc) if times is None else times
    F = np.array(sc["F0"], float)
    Fs = []
    rec = impl.Recorder()
    if record:
        rec.__enter__()
    log_ctx = debug_logging() if sc.get("debug_log") else contextlib.nullcontext()
    getL = fld
    if sc.get("persistent_L") and hasattr(fld, "is_constant") and fld.is_constant():
        # the way a user poses a steady flow: `lambda t, x: L` with ONE array object that lives as long as the callable; the code
        # must not scale or otherwise modify the array it is handed (it is the caller's)
        Lp = np.array(fld(ts[0], fld.pos(ts[0])), float)
        getL = lambda t, x: Lp  # noqa: E731
    try:
        with log_ctx:
            for a, b in zip(ts[:-1], ts[1:]):
                F = m.update_orientations(params, F, getL, (a, b, fld.pos), get_regime=sc.get("get_regime"), **kw)
                Fs.append(np.array(F))
    finally:
        if record:
            rec.__exit__(None, None, None)
    return m, Fs, rec


@contextlib.contextmanager
def debug_logging():
    """PyDRex's own default logger configuration (logger level DEBUG; the harness otherwise silences it) plus a DEBUG-level
    handler attached the documented way (pydrex.io.logfile_enable), writing to memory: the properties hold whatever the
    logging configuration is, so a share of all scenarios runs like this"""
    import io as _io
    import logging

    from pydrex import io as pio
    from pydrex import logger as plog

    old = plog.LOGGER.level
    plog.LOGGER.setLevel(logging.DEBUG)
    try:
        with pio.logfile_enable(_io.StringIO()):
            yield
    finally:
        plog.LOGGER.setLevel(old)


def accumulated_strain(sc, times=None, sub=400):
    """integral of the max |principal strain rate| along the path (tensorial strain), summed over the intervals of the partition
    (so that reversed and forward-then-back partitions accumulate what they traverse)"""
    ts = np.asarray(times_of(sc) if times is None else times, float)
    fld = sc["field"]
    monotone = np.all(np.diff(ts) >= 0) or np.all(np.diff(ts) <= 0)
    pieces = [(ts[0], ts[-1])] if monotone else list(zip(ts[:-1], ts[1:]))
    total = 0.0
    for a, b in pieces:
        tt = np.linspace(a, b, (sub if monotone else max(20, sub // len(pieces))) + 1)
        vals = []
        for t in tt:
            L = fld(t, fld.pos(t))
            vals.append(np.abs(np.linalg.eigvalsh((L + L.T) / 2)).max())
        total += abs(float(np.trapezoid(vals, tt)))
    return total


def reference_F(sc, t_end=None, sub=4000):
    """RK4 reference solution of dF/dt = L(t, x(t)) F from F0 over the scenario span."""
    ts = times_of(sc)
    a, b = ts[0], (ts[-1] if t_end is None else t_end)
    fld = sc["field"]
    F = np.array(sc["F0"], float)
    h = (b - a) / sub
    f = lambda t, X: fld(t, fld.pos(t)) @ X  # noqa: E731
    t = a
    for _ in range(sub):
        k1 = f(t, F)
        k2 = f(t + h / 2, F + h / 2 * k1)
        k3 = f(t + h / 2, F + h / 2 * k2)
        k4 = f(t + h, F + h * k3)
        F = F + h / 6 * (k1 + 2 * k2 + 2 * k3 + k4)
        t += h
    return F


# ------------------------------------------------------------------ K12 correspondence
def rhs_line(sc, m, params, t, y):
    """request line for ModelF.evalRhs with the externals computed the way the code computes them"""
    from scipy import linalg as la
    from pydrex import tensors as T

    fld = sc["field"]
    L = np.asarray(fld(t, fld.pos(t)), float)
    D = (L + L.T) / 2
    emax = float(np.abs(la.eigvalsh(D)).max())
    F = np.asarray(y[:9], float).reshape(3, 3)
    spin = T.polar_decompose(L @ F)[1]
    asm = [int(p) for p in params["phase_assemblage"]]
    fr = [float(x) for x in params["phase_fractions"]]
    return ("solver_rhs %d %d %d %d %s %s %s %s %s %s %d %s" % (
        int(m.phase), int(m.fabric), m.n_grains, len(asm), " ".join(str(a) for a in asm), C.fs2h(fr),
        C.fs2h([params["stress_exponent"], params["deformation_exponent"], params["nucleation_efficiency"],
                params["gbm_mobility"], params["gbs_threshold"]]),
        C.fs2h(L.ravel()), C.f2h(emax), C.fs2h(np.asarray(spin).ravel()), int(m.regime), C.fs2h(y))), emax, D


def check_rhs(res, sc, m, rec, max_points=3, tag="K12 eval_rhs"):
    """Compare the real rhs closure with ModelF.evalRhs at recorded solver states."""
    params = params_of(sc)
    lines, wants = [], []
    for r in rec.updates:
        pts = [(r["t0"], r["y0"])] + list(zip(r["t"], r["post"]))[:max_points - 1]
        for (t, y) in pts:
            try:
                want = np.asarray(r["rhs"](t, np.array(y, float)), float)
            except Exception as e:  # noqa: BLE001
                want = ("err", type(e).__name__)
            line, emax, D = rhs_line(sc, m, params, t, y)
            # external spec: emax is the largest |eigenvalue| of D  (det(D - s*emax*I) ~ 0 for s = +1 or -1)
            sc_ = max(emax, 1e-300)
            d1 = abs(np.linalg.det(D / sc_ - np.eye(3)))
            d2 = abs(np.linalg.det(D / sc_ + np.eye(3)))
            if emax > 0 and min(d1, d2) > 1e-9:
                res.mismatch("external eigvalsh spec", {"D": D.tolist()}, emax, "", note="emax is not an eigenvalue magnitude")
            lines.append(line)
            wants.append(want)
    outs = C.run_driver(lines)
    for want, line in zip(wants, outs):
        toks = line.split()
        res.evaluations += 1
        if isinstance(want, tuple):
            if toks[0] == "err":
                res.traces += 1
            else:
                res.mismatch(tag, scenario_json(sc), str(want), line[:80], note="impl raised, model returned")
        elif toks[0] != "ok":
            res.mismatch(tag, scenario_json(sc), want.tolist()[:20], line[:80], note="model raised, impl returned")
        else:
            got = C.hs2f(toks[1:])
            scale = max(1.0, float(np.abs(want).max()))
            if C.close(got, want, scale=scale):
                res.traces += 1
            else:
                res.mismatch(tag, scenario_json(sc), want.tolist()[:30], got[:30], note=f"maxdiff={C.maxdiff(got, want)}")


def check_poststeps(res, sc, rec, start_As, tag="K13"):
    """Replay every write-back and the stored snapshot through ModelF.postStep / extractVars."""
    lines, wants = [], []
    for r, A0 in zip(rec.updates, start_As):
        n = sc["n"]
        for raw, post in zip(r["raw"], r["post"]):
            lines.append(f"poststep {C.f2h(sc['chi'])} {n} {C.fs2h(np.asarray(A0).ravel())} {C.fs2h(raw)}")
            wants.append(post)
    outs = C.run_driver(lines)
    for want, line in zip(wants, outs):
        got = C.hs2f(line.split())
        res.evaluations += 1
        if C.close(got, want):
            res.traces += 1
        else:
            res.mismatch(tag + " perform_step write-back", scenario_json(sc), np.asarray(want).tolist()[:30], got[:30],
                         note=f"maxdiff={C.maxdiff(got, want)}")


def scenario_from_json(d):
    f = d["field"]
    fld = LField(np.array(f["L0"]), np.array(f["L1"]), np.array(f["Mx"]), np.array(f["L2"]), f["w"], np.array(f["x0"]), np.array(f["v"]),
                 f.get("scale", 1.0), f.get("tscale", 1.0), f.get("torig", 0.0), f.get("pulse_P", 0.0),
                 np.array(f["L3"]) if f.get("L3") is not None else None,
                 orb_a=f.get("orb_a"), orb_b=f.get("orb_b"), orb_w=f.get("orb_w", 0.0))
    sc = {k: v for k, v in d.items() if k not in ("field", "get_regime", "mode", "other", "k", "Q", "subset", "twofold", "variant", "loader",
                                                   "chis", "kwargs", "minerals", "L")}
    sc["field"] = fld
    sc["F0"] = np.array(sc["F0"], float)
    sc["phase_fractions"] = tuple(sc.get("phase_fractions", (0.7, 0.3)))
    return sc


def replay_violations(data):
    """`./check Cxx --replay FILE` for the solver-level properties: rebuild every recorded scenario, drive the REAL
    update_orientations over it again and print what the stored history looks like now."""
    import json as _json

    for v in data.get("violations", []):
        print("violation:", v.get("key"), "-", str(v.get("what"))[:300])
        r = v.get("replay", {})
        if not (isinstance(r, dict) and "field" in r and "tex_seed" in r):
            print("  recorded input:", _json.dumps(r)[:1500])
            continue
        sc = scenario_from_json(r)
        try:
            m, Fs, _ = run_scenario(sc, record=False)
        except Exception as e:  # noqa: BLE001
            print("  re-running the scenario raises:", type(e).__name__, str(e)[:200])
            continue
        A, f = m.orientations[-1], m.fractions[-1]
        dev = float(np.abs(np.einsum("gij,gkj->gik", A, A) - np.eye(3)).max())
        Fref = reference_F(sc)
        print(f"  re-run: {len(m.fractions)} snapshots; last snapshot finite={bool(np.isfinite(A).all() and np.isfinite(f).all())} "
              f"sum f={f.sum()!r} min f={f.min():.3e} max|A.A^T-I|={dev:.3e}; F rel. err vs RK4 reference="
              f"{float(np.abs(Fs[-1] - Fref).max() / max(1.0, np.abs(Fref).max())):.3e}")
    for b in data.get("unchecked", []):
        print("unchecked obligation / correspondence:", _json.dumps(b)[:1500])
    return 0
