"""History- and representation-robustness scenarios for the update API (used by C01, C06, C08, C09).

The properties quantify over "all minerals", "all update histories", "all parameter sets"; the plain
scenario generator (`solver.make_scenario`) always used fresh C-ordered float64 inputs, one fixed
parameter record per history and uninterrupted histories. The seeded changes of round 2 showed what
that misses: behaviour that depends on memory layout or dtype of caller arrays, on state cached on
the instance or the module between calls, on caller-owned arrays being modified in place, on a
mineral being restored from file in the middle of a history, on pass-through solver options, on the
number of solver steps, and on several minerals of the same phase in one bulk update.

Every sub-check compares the real implementation with ITSELF on an equivalent, canonical way of
posing the same problem (same numbers, other representation / other call pattern) and evaluates the
property predicates on the results; the expected relation is stated next to each check.
"""
from __future__ import annotations

import copy
import os
import tempfile

import numpy as np

from . import impl, solver

core = impl._core
M = impl._minerals


def _digest(m):
    return [a.copy() for a in m.orientations], [a.copy() for a in m.fractions]


def _same(m1, m2, tol=0.0):
    if len(m1.orientations) != len(m2.orientations) or len(m1.fractions) != len(m2.fractions):
        return False, "different number of snapshots"
    for a, b in zip(m1.orientations + m1.fractions, m2.orientations + m2.fractions):
        a, b = np.asarray(a, float), np.asarray(b, float)
        if a.shape != b.shape:
            return False, f"shape {a.shape} vs {b.shape}"
        if tol == 0.0:
            if not np.array_equal(a, b, equal_nan=True):
                return False, f"max abs difference {np.nanmax(np.abs(a - b)):.3e}"
        elif not np.allclose(a, b, rtol=0, atol=tol, equal_nan=True):
            return False, f"max abs difference {np.nanmax(np.abs(a - b)):.3e} > {tol:.1e}"
    return True, ""


def _valid(m, N, strain):
    """C01 predicates on every stored snapshot; returns a problem string or None"""
    tol = 5e-3 + 1e-3 * (N + 2 * strain)
    n = m.n_grains
    for s, (A, f) in enumerate(zip(m.orientations, m.fractions)):
        A, f = np.asarray(A), np.asarray(f)
        if A.shape != (n, 3, 3) or f.shape != (n,):
            return f"snapshot {s}: shapes {A.shape}, {f.shape}"
        if not (np.isfinite(A).all() and np.isfinite(f).all()):
            return f"snapshot {s}: non-finite entries"
        if (f < 0).any() or abs(f.sum() - 1) > 1e-9:
            return f"snapshot {s}: fractions not on the simplex (min {f.min():.3e}, sum {f.sum()!r})"
        dev = np.abs(np.einsum("gij,gkj->gik", A, A) - np.eye(3)).max()
        if dev > tol:
            return f"snapshot {s}: max|A.A^T - I| = {dev:.3e} > {tol:.3e}"
        if np.linalg.det(A).min() <= 0:
            return f"snapshot {s}: not right-handed"
    return None


def _drive(sc, mineral, F0, params_for_update=None, restart_after=(), lsoda_kw=None, loader="from_file"):
    """Drive the real update_orientations over the scenario's partition.
    params_for_update(u) -> params dict for update u; restart_after: update indices after which the mineral is saved to an
    NPZ file and restored (from_file or load) before the history continues."""
    ts = solver.times_of(sc)
    fld = sc["field"]
    F = F0
    m = mineral
    Fs = []
    for u, (a, b) in enumerate(zip(ts[:-1], ts[1:])):
        params = params_for_update(u) if params_for_update else solver.params_of(sc)
        F = m.update_orientations(params, F, fld, (a, b, fld.pos), **(lsoda_kw or {}))
        Fs.append(np.array(F, float))
        if u in restart_after:
            with tempfile.TemporaryDirectory(prefix="pydrex_verif_") as td:
                fn = os.path.join(td, "m.npz")
                m.save(fn)
                if loader == "from_file":
                    m = M.Mineral.from_file(fn)
                else:
                    m2 = M.Mineral(phase=m.phase, fabric=m.fabric, regime=m.regime, n_grains=m.n_grains)
                    m2.load(fn)
                    m = m2
    return m, Fs


def _mk(sc, A0, f0):
    return M.Mineral(phase=core.MineralPhase(sc["phase"]), fabric=core.MineralFabric(sc["fabric"]),
                     regime=core.DeformationRegime(sc["regime"]), n_grains=sc["n"], fractions_init=f0, orientations_init=A0)


def _canonical_inputs(sc, axis_aligned=False):
    rng = np.random.default_rng(sc["tex_seed"])
    A0, f0 = impl.initial_texture(sc["tex"], rng, sc["n"])
    if axis_aligned:
        from . import drex
        A0 = np.stack([drex.signed_perm(rng) for _ in range(sc["n"])])
    return np.ascontiguousarray(A0, dtype=float), np.ascontiguousarray(f0, dtype=float)


def run(res, rng, ctx, prop, n_sc=None):
    """All sub-checks; `prop` only prefixes the violation keys so that each property reports its own clause."""
    thorough = ctx["thorough"]
    n_sc = n_sc or (4 if not thorough else 24)
    for k in range(n_sc):
        sc = solver.make_scenario(rng, k, nmax=8 if not thorough else 24, regimes=(4, 6), max_updates=3)
        sc["n_updates"] = max(2, sc["n_updates"])
        sc["chi"] = float([0.3, 0.6, 0.9, 0.2][k % 4])
        sc["Mob"] = float([125.0, 200.0, 50.0][k % 3])
        rep = solver.scenario_json(sc)
        strain = solver.accumulated_strain(sc)
        tol = 5e-3 + 1e-3 * (sc["n_updates"] + 2 * strain)
        A0, f0 = _canonical_inputs(sc)
        F0 = np.ascontiguousarray(sc["F0"], dtype=float)
        base, Fb = _drive(sc, _mk(sc, A0.copy(), f0.copy()), F0.copy())
        res.evaluations += 1
        res.nontrivial(("robust", prop, k))

        # ---- (1) memory layout / container type of caller arrays: same numbers => same results, valid snapshots
        variants = {
            "fortran_order": (np.asfortranarray(A0), f0.copy(), np.asfortranarray(F0)),
            "transposed_view": (np.ascontiguousarray(A0.transpose(2, 1, 0)).transpose(2, 1, 0), f0.copy(), np.ascontiguousarray(F0.T).T),
            "strided_view": (np.repeat(A0, 2, axis=0)[::2], np.repeat(f0, 2)[::2], np.repeat(np.repeat(F0, 2, axis=0), 2, axis=1)[::2, ::2]),
        }
        for name, (Av, fv, Fv) in variants.items():
            assert np.array_equal(Av, A0) and np.array_equal(fv, f0) and np.array_equal(Fv, F0)
            res.count(f"representation:{name}")
            try:
                mv, Fv_out = _drive(sc, _mk(sc, Av, fv), Fv)
            except Exception as e:  # noqa: BLE001
                res.violation(f"{prop}:representation:{name}:raises", f"update with {name} inputs raised {type(e).__name__}: {e}", dict(rep, variant=name))
                continue
            res.evaluations += 1
            ok, why = _same(base, mv)
            bad = _valid(mv, sc["n_updates"], strain)
            dF = float(np.abs(Fv_out[-1] - Fb[-1]).max())
            if bad:
                res.violation(f"{prop}:representation:{name}:invalid_snapshot", f"{name} inputs: {bad}", dict(rep, variant=name))
            elif not ok or dF > 0:
                res.violation(f"{prop}:representation:{name}:differs", f"{name} inputs give another result than the same numbers in C order: {why}; "
                              f"max|dF|={dF:.3e}", dict(rep, variant=name))
        # integer-typed inputs (axis-aligned grains written with integer literals, integer identity F)
        Ai, fi = _canonical_inputs(sc, axis_aligned=True)
        Fi = np.eye(3)
        res.count("representation:integer_dtype")
        try:
            m_f, F_f = _drive(sc, _mk(sc, Ai.copy(), fi.copy()), Fi.copy())
            m_i, F_i = _drive(sc, _mk(sc, Ai.astype(int), fi.copy()), np.eye(3, dtype=int))
            res.evaluations += 2
            ok, why = _same(m_f, m_i)
            bad = _valid(m_i, sc["n_updates"], strain)
            if bad:
                res.violation(f"{prop}:representation:integer_dtype:invalid_snapshot", f"integer-typed orientations/F: {bad}", rep)
            elif not ok or np.abs(np.asarray(F_i[-1], float) - F_f[-1]).max() > 0:
                res.violation(f"{prop}:representation:integer_dtype:differs", f"integer-typed inputs give another result than the same numbers as floats: {why}; "
                              f"F: {np.asarray(F_i[-1]).tolist()} vs {F_f[-1].tolist()}", rep)
        except Exception as e:  # noqa: BLE001
            res.violation(f"{prop}:representation:integer_dtype:raises", f"integer-typed inputs raised {type(e).__name__}: {e}", rep)

        # ---- (2) caller-owned objects are not modified (params given as arrays, F0, initial texture)
        params = solver.params_of(sc)
        params["phase_fractions"] = np.array(params["phase_fractions"], dtype=float)
        params["phase_assemblage"] = list(params["phase_assemblage"])
        frozen = copy.deepcopy(params)
        A_in, f_in, F_in = A0.copy(), f0.copy(), F0.copy()
        m2, F2 = _drive(sc, _mk(sc, A_in, f_in), F_in, params_for_update=lambda u: params)
        res.evaluations += 1
        res.count("caller_objects_unchanged")
        changed = [kk for kk in frozen if not np.array_equal(np.asarray(frozen[kk], dtype=object), np.asarray(params[kk], dtype=object))]
        if changed:
            res.violation(f"{prop}:inputs_mutated:params", f"update_orientations modified the caller's params entries {changed}", rep)
        if not np.array_equal(F_in, F0):
            res.violation(f"{prop}:inputs_mutated:F0", "update_orientations modified the caller's deformation gradient", rep)
        ok, why = _same(base, m2)
        if not ok:
            res.violation(f"{prop}:params_as_arrays:differs", f"params given as ndarray/list instead of tuples change the result: {why}", rep)

        # ---- (3) history interrupted by save + from_file / load: continues exactly as the uninterrupted history
        for loader in ("from_file", "load"):
            res.count(f"restart:{loader}")
            try:
                mr, Fr = _drive(sc, _mk(sc, A0.copy(), f0.copy()), F0.copy(), restart_after={0}, loader=loader)
                res.evaluations += 1
                ok, why = _same(base, mr)
                if not ok:
                    res.violation(f"{prop}:restart:{loader}:differs", f"saving and restoring the mineral ({loader}) after the first update changes the "
                                  f"rest of the history: {why}", dict(rep, loader=loader))
            except Exception as e:  # noqa: BLE001
                res.violation(f"{prop}:restart:{loader}:raises", f"continuing a history after {loader} raised {type(e).__name__}: {e}", dict(rep, loader=loader))

        # ---- (4) parameters that change between the updates of one mineral: each update uses the record it is given
        chis = [sc["chi"], 0.0, 0.45, 0.8][: sc["n_updates"]] + [0.1] * max(0, sc["n_updates"] - 4)
        asm = (core.MineralPhase.olivine, core.MineralPhase.enstatite)

        def sched(u, chis=chis):
            p = solver.params_of(sc)
            p["gbs_threshold"] = chis[u]
            if u % 2 == 1:   # permute phase list and fraction list together on every other update
                p["phase_assemblage"] = tuple(reversed(asm))
                p["phase_fractions"] = tuple(reversed(sc["phase_fractions"]))
            else:
                p["phase_assemblage"] = asm
                p["phase_fractions"] = tuple(sc["phase_fractions"])
            return p

        ms, Fs_ = _drive(sc, _mk(sc, A0.copy(), f0.copy()), F0.copy(), params_for_update=sched)
        # reference: a FRESH mineral object per update, started from the stored state, with that update's record
        ref_ok = True
        why = ""
        ts = solver.times_of(sc)
        cur_A, cur_f, cur_F = A0.copy(), f0.copy(), F0.copy()
        for u in range(sc["n_updates"]):
            fresh = _mk(sc, cur_A.copy(), cur_f.copy())
            cur_F = fresh.update_orientations(sched(u), cur_F, sc["field"], (ts[u], ts[u + 1], sc["field"].pos))
            cur_A, cur_f = fresh.orientations[-1], fresh.fractions[-1]
            if not (np.array_equal(cur_A, ms.orientations[u + 1]) and np.array_equal(cur_f, ms.fractions[u + 1])):
                ref_ok, why = False, f"update {u}: max|df| = {np.abs(cur_f - ms.fractions[u + 1]).max():.3e}"
                break
            n = sc["n"]
            bound = chis[u] / (n * (1 + chis[u]))
            if ms.fractions[u + 1].min() < bound * (1 - 1e-9):
                res.violation(f"{prop}:param_schedule:floor_uses_stale_threshold", f"update {u} with chi={chis[u]}: stored fraction "
                              f"{ms.fractions[u + 1].min():.3e} below chi/(n(1+chi)) = {bound:.3e}", dict(rep, chis=chis))
        res.evaluations += 1
        res.count("param_schedule")
        if not ref_ok:
            res.violation(f"{prop}:param_schedule:differs", "a mineral updated with a parameter record that changes between updates (chi, permuted "
                          f"assemblage) differs from fresh minerals given the same records: {why}", dict(rep, chis=chis))

        # ---- (4b) ONE params dict object mutated in place between updates (mobility set to zero for the second update):
        #           identical to handing over a fresh dict with the same contents
        shared = solver.params_of(sc)

        def inplace(u, shared=shared):
            shared["gbm_mobility"] = sc["Mob"] if u == 0 else 0.0
            return shared

        def fresh_(u):
            p = solver.params_of(sc)
            p["gbm_mobility"] = sc["Mob"] if u == 0 else 0.0
            return p

        m_in, _ = _drive(sc, _mk(sc, A0.copy(), f0.copy()), F0.copy(), params_for_update=inplace)
        m_fr, _ = _drive(sc, _mk(sc, A0.copy(), f0.copy()), F0.copy(), params_for_update=fresh_)
        res.evaluations += 2
        res.count("params_dict_mutated_in_place")
        ok, why = _same(m_in, m_fr)
        if not ok:
            res.violation(f"{prop}:params_dict_identity:differs", "a params dict modified in place between updates (M* set to 0) gives another result "
                          f"than a fresh dict with the same contents: {why}", rep)
        elif sc["chi"] == 0 or not any((f < sc["chi"] / sc["n"]).any() for f in m_in.fractions[1:-1]):
            # zero mobility leaves the fractions unchanged (where the sliding floor is inactive)
            if np.abs(m_in.fractions[-1] - m_in.fractions[1]).max() > 1e-12 and sc["n_updates"] >= 2:
                res.violation(f"{prop}:params_dict_identity:zero_mobility_ignored", "fractions changed during updates with M* = 0", rep)

        # ---- (5) pass-through solver options: a single solver step / tight tolerances still post-process and append once
        for name, kw in (("first_step=interval", None), ("tight_tolerances", {"rtol": 1e-9})):
            sc1 = dict(sc, n_updates=1, span=1e-3 if kw is None else sc["span"] / sc["n_updates"])
            kw1 = {"first_step": sc1["span"]} if kw is None else kw
            m5 = _mk(sc1, A0.copy(), f0.copy())
            with impl.Recorder() as rec:
                try:
                    m5, _ = _drive(sc1, m5, F0.copy(), lsoda_kw=kw1)
                except Exception as e:  # noqa: BLE001
                    res.violation(f"{prop}:solver_options:{name}:raises", f"update with {kw1} raised {type(e).__name__}: {e}", dict(rep, kwargs=str(kw1)))
                    continue
            res.evaluations += 1
            res.count(f"solver_options:{name}:steps={min(len(rec.updates[0]['raw']), 3)}+")
            if len(m5.fractions) != 2:
                res.violation(f"{prop}:solver_options:{name}:snapshot_count", f"{len(m5.fractions) - 1} snapshots appended", dict(rep, kwargs=str(kw1)))
                continue
            chi, n = sc["chi"], sc["n"]
            if m5.fractions[-1].min() < chi / (n * (1 + chi)) * (1 - 1e-9):
                res.violation(f"{prop}:solver_options:{name}:floor_not_applied", f"{len(rec.updates[0]['raw'])} solver step(s): stored fraction "
                              f"{m5.fractions[-1].min():.3e} below chi/(n(1+chi))", dict(rep, kwargs=str(kw1)))
            bad = _valid(m5, 1, solver.accumulated_strain(sc1))
            if bad:
                res.violation(f"{prop}:solver_options:{name}:invalid_snapshot", bad, dict(rep, kwargs=str(kw1)))

    # ---- (7) ONE velocity-gradient callable object whose state is changed between two runs (e.g. an interpolator updated in place,
    #          a flow object switched to another frame): the second run must see the new values at every evaluation
    for k in range(2 if not thorough else 8):
        sc = solver.make_scenario(rng, k, nmax=6, regimes=(4, 6), fields=["const"], max_updates=2)
        rep = solver.scenario_json(sc)
        A0, f0 = _canonical_inputs(sc)
        L1 = sc["field"].L0.copy()
        Qk = __import__("scipy.spatial.transform", fromlist=["Rotation"]).Rotation.random(random_state=int(rng.integers(0, 2**31))).as_matrix()
        L2 = Qk @ L1 @ Qk.T
        zero = np.zeros(3)

        class Flow:
            def __init__(self, L):
                self.L = np.array(L)

            def __call__(self, t, x):
                return self.L

        pos = lambda t: zero  # noqa: E731
        ts = solver.times_of(sc)

        def drive(flow, A, f):
            m = _mk(sc, A.copy(), f.copy())
            F = np.eye(3)
            for a, b in zip(ts[:-1], ts[1:]):
                F = m.update_orientations(solver.params_of(sc), F, flow, (a, b, pos))
            return m, F

        shared = Flow(L1)
        drive(shared, A0, f0)                    # first use of the object
        shared.L = np.array(L2)                  # its state changes in place
        m_reused, F_reused = drive(shared, A0, f0)
        m_fresh, F_fresh = drive(Flow(L2), A0, f0)
        res.evaluations += 3
        res.count("callable_object_reused_with_new_state")
        ok, why = _same(m_reused, m_fresh)
        if not ok or not np.array_equal(F_reused, F_fresh):
            res.violation(f"{prop}:callable_reuse:stale_velocity_gradient", "a velocity-gradient callable object whose state was changed between two runs "
                          f"gives another result than a new callable with the same values: {why}; max|dF| = {np.abs(F_reused - F_fresh).max():.3e}", rep)

    # ---- (6) bulk update with several minerals of the same phase and with equal-valued minerals
    for k in range(2 if not thorough else 8):
        sc = solver.make_scenario(rng, k, nmax=8, regimes=(4,), max_updates=3)
        sc["n_updates"] = 2
        rep = solver.scenario_json(sc)
        A0, f0 = _canonical_inputs(sc)
        specs = [(0, k % 5), (0, (k + 2) % 5), (1, 5), (0, k % 5)]   # two olivine fabrics, enstatite, and a twin of the first
        mk = lambda ph, fa: M.Mineral(phase=core.MineralPhase(ph), fabric=core.MineralFabric(fa), regime=core.DeformationRegime(4),  # noqa: E731
                                      n_grains=sc["n"], fractions_init=f0.copy(), orientations_init=A0.copy())
        bulk = [mk(ph, fa) for ph, fa in specs]
        single = [mk(ph, fa) for ph, fa in specs]
        params = solver.params_of(sc)
        ts = solver.times_of(sc)
        F = np.array(sc["F0"], float)
        Fsingle = [np.array(sc["F0"], float) for _ in specs]
        try:
            for a, b in zip(ts[:-1], ts[1:]):
                F = M.update_all(bulk, params, F, sc["field"], (a, b, sc["field"].pos))
                for j, mj in enumerate(single):
                    Fsingle[j] = mj.update_orientations(params, Fsingle[j], sc["field"], (a, b, sc["field"].pos))
        except Exception as e:  # noqa: BLE001
            res.violation(f"{prop}:bulk_same_phase:raises", f"update_all with two minerals of one phase raised {type(e).__name__}: {e}", rep)
            continue
        res.evaluations += 1
        res.count("bulk_same_phase_and_twins")
        for j, (mb, ms_) in enumerate(zip(bulk, single)):
            if len(mb.fractions) != len(ts):
                res.violation(f"{prop}:bulk_same_phase:snapshot_count", f"mineral {j} of the bulk update has {len(mb.fractions) - 1} new snapshots after "
                              f"{len(ts) - 1} calls", dict(rep, minerals=specs))
                break
            if not (np.array_equal(mb.orientations[1], ms_.orientations[1]) and np.array_equal(mb.fractions[1], ms_.fractions[1])):
                res.violation(f"{prop}:bulk_same_phase:differs", f"mineral {j} differs between update_all and its own update (first interval)",
                              dict(rep, minerals=specs))
                break
