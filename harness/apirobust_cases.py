"""Adapters: which public functions `apirobust.check_function` is applied to, per property.

Variants that the code of the pinned commit does not support (e.g. nested lists for functions that
index with `a[i, j]`) are listed in `skip_variants` next to the call; they were determined on the
unchanged tree and are not part of any property."""
from __future__ import annotations

import numpy as np

from . import apirobust as R
from . import impl  # noqa: F401


def _rot(rng, n=None):
    from scipy.spatial.transform import Rotation

    if n is None:
        return Rotation.random(random_state=int(rng.integers(0, 2**31))).as_matrix()
    return Rotation.random(n, random_state=int(rng.integers(0, 2**31))).as_matrix()


def _sym6(rng, integral=False):
    M = rng.integers(-40, 300, size=(6, 6)).astype(float) if integral else rng.normal(scale=50, size=(6, 6))
    return np.ascontiguousarray((M + M.T) / (1 if integral else 2))


def _axis_rot(rng):
    from . import drex
    return np.ascontiguousarray(drex.signed_perm(rng))


# ------------------------------------------------------------------ C11
def c11(res, rng, ctx):
    from pydrex import tensors as T

    n = 2 if not ctx["thorough"] else 8
    for k in range(n):
        integral = (k % 2 == 0)
        M = _sym6(rng, integral)
        M2 = _sym6(rng, integral)
        Q = _rot(rng)
        ten = T.voigt_to_elastic_tensor(M)
        ten2 = T.voigt_to_elastic_tensor(M2)
        v = T.voigt_matrix_to_vector(M)
        v2 = T.voigt_matrix_to_vector(M2)
        if integral:
            v, v2 = np.round(v), np.round(v2)
        A3 = rng.integers(-5, 6, size=(3, 3)).astype(float) if integral else rng.normal(size=(3, 3))
        B3 = rng.normal(size=(3, 3))
        no_list = ("nested_list",)
        R.check_function(res, "C11", "voigt_to_elastic_tensor", T.voigt_to_elastic_tensor, (M,), other_args=(M2,), skip_variants=no_list)
        R.check_function(res, "C11", "elastic_tensor_to_voigt", T.elastic_tensor_to_voigt, (ten,), other_args=(ten2,), skip_variants=no_list)
        R.check_function(res, "C11", "voigt_matrix_to_vector", T.voigt_matrix_to_vector, (M,), other_args=(M2,), skip_variants=no_list)
        R.check_function(res, "C11", "voigt_vector_to_matrix", T.voigt_vector_to_matrix, (v,), other_args=(v2,), skip_variants=no_list)
        R.check_function(res, "C11", "voigt_decompose", T.voigt_decompose, (M,), other_args=(M2,), skip_variants=no_list)
        R.check_function(res, "C11", "rotate", T.rotate, (ten, Q), other_args=(ten2, Q), skip_variants=no_list)
        # the composition that the diagnostics use: Voigt matrix -> tensor -> rotate -> Voigt matrix
        R.check_function(res, "C11", "rotate_voigt_chain", lambda m, q: T.elastic_tensor_to_voigt(T.rotate(T.voigt_to_elastic_tensor(m), q)),
                         (M, Q), other_args=(M2, Q), skip_variants=no_list)
        for nm in ("mono_project", "ortho_project", "tetr_project", "hex_project"):
            R.check_function(res, "C11", nm, getattr(T, nm), (v,), other_args=(v2,), skip_variants=no_list)
        R.check_function(res, "C11", "polar_decompose_left", lambda m: T.polar_decompose(m, True), (A3,), other_args=(B3,), skip_variants=no_list,
                         rtol=1e-9, atol=1e-9)
        R.check_function(res, "C11", "polar_decompose_right", lambda m: T.polar_decompose(m, False), (A3,), other_args=(B3,), skip_variants=no_list,
                         rtol=1e-9, atol=1e-9)
        R.check_function(res, "C11", "invariants_second_order", T.invariants_second_order, (A3,), other_args=(B3,), skip_variants=no_list,
                         rtol=1e-10, atol=1e-10)


# ------------------------------------------------------------------ C12
def c12(res, rng, ctx):
    from pydrex import diagnostics as D
    from pydrex import minerals as M
    from pydrex import tensors as T

    st = M.StiffnessTensors()

    def comp(ms):
        return D.elasticity_components(ms)

    n = 2 if not ctx["thorough"] else 6
    for k in range(n):
        # an integer-valued orthorhombic tensor that stays integer valued after a 45-degree rotation about z is hard to build;
        # use integer-valued generic symmetric positive matrices in a generic (non-principal) frame instead
        Mi = np.diag(rng.integers(150, 300, size=6)).astype(float)
        off = rng.integers(-20, 60, size=(6, 6)).astype(float)
        Mi = Mi + np.triu(off, 1) + np.triu(off, 1).T
        Mf = T.elastic_tensor_to_voigt(T.rotate(T.voigt_to_elastic_tensor(st.olivine), _rot(rng)))
        Mg = T.elastic_tensor_to_voigt(T.rotate(T.voigt_to_elastic_tensor(st.enstatite), _rot(rng)))
        R.check_function(res, "C12", "elasticity_components", comp, (np.stack([Mi]),), other_args=(np.stack([Mf]),), rtol=1e-9, atol=1e-9)
        R.check_function(res, "C12", "elasticity_components", comp, (np.stack([Mf, Mg, Mi]),), other_args=(np.stack([Mg, Mi, Mf]),), rtol=1e-9, atol=1e-9,
                         dtypes=False)
        # a series given as a list/tuple of matrices of mixed dtype, in both orders, equals the per-matrix results
        for order in ((Mi.astype(np.int64), Mf), (Mf, Mi.astype(np.int64)), (Mi.astype(np.int64), Mg, Mf)):
            try:
                got = comp(list(order))
            except Exception as e:  # noqa: BLE001
                res.violation(f"C12:api:elasticity_components:mixed_series:raises:{type(e).__name__}", f"list of matrices of mixed dtype raised {e}", {})
                continue
            res.evaluations += 1
            res.count("apirobust:elasticity_components:mixed_dtype_list")
            for j, m in enumerate(order):
                single = comp(np.stack([np.asarray(m, float)]))
                for key in single:
                    ok, why = R.same(np.asarray(single[key])[0], np.asarray(got[key])[j], 1e-9, 1e-9)
                    if not ok:
                        res.violation(f"C12:api:elasticity_components:mixed_dtype_series:{key}",
                                      f"list of matrices with dtypes {[np.asarray(x).dtype.name for x in order]}: entry {j} of '{key}' differs from the "
                                      f"per-matrix result: {why}", {"order": [np.asarray(x).tolist() for x in order]})
                        break
        # same dilatational part, different shear part: A, B, B again and B rotated (call-history / cache keyed on part of the input)
        A = Mf.copy()
        B = Mf.copy()
        tA = T.voigt_to_elastic_tensor(A)
        B[3, 3] += 7.0
        B[4, 4] -= 3.0
        B[5, 5] += 1.5
        B2 = B.copy()
        first = comp(np.stack([B2]))
        comp(np.stack([A]))
        again = comp(np.stack([B]))
        ok, why = R.same(first, again, 1e-9, 1e-9)
        res.evaluations += 3
        res.count("apirobust:elasticity_components:same_dilatational_part")
        if not ok:
            res.violation("C12:api:elasticity_components:call_history_dependent", f"result for a tensor changes after analysing another tensor with the "
                          f"same dilatational part: {why}", {"A": A.tolist(), "B": B.tolist()})
        del tA


# ------------------------------------------------------------------ C13
def c13(res, rng, ctx):
    from pydrex import diagnostics as D
    from pydrex import stats as S

    n = 2 if not ctx["thorough"] else 8
    for k in range(n):
        ng = int(rng.integers(2, 40))
        O = np.ascontiguousarray(_rot(rng, ng))
        O2 = np.ascontiguousarray(_rot(rng, ng))
        Oi = np.stack([_axis_rot(rng) for _ in range(ng)])
        no_list = ()
        for ax in "abc":
            R.check_function(res, "C13", f"symmetry_pgr[{ax}]", lambda o, ax=ax: D.symmetry_pgr(np.asarray(o), axis=ax), (O,), other_args=(O2,),
                             rtol=1e-9, atol=1e-9, skip_variants=no_list)
            R.check_function(res, "C13", f"bingham_average[{ax}]", lambda o, ax=ax: np.abs(D.bingham_average(o, axis=ax)), (O,), other_args=(O2,),
                             rtol=1e-7, atol=1e-7)
        R.check_function(res, "C13", "coaxial_index", lambda o: D.coaxial_index(np.asarray(o)), (O,), other_args=(O2,), rtol=1e-9, atol=1e-9)
        R.check_function(res, "C13", "symmetry_pgr[int grains]", lambda o: D.symmetry_pgr(np.asarray(o), axis="b"), (Oi,), rtol=1e-9, atol=1e-9)
        sm = getattr(S, "_scatter_matrix", None)
        if sm is not None:
            R.check_function(res, "C13", "_scatter_matrix", lambda o: sm(np.asarray(o), 1), (O,), other_args=(O2,))
        F = np.eye(3) + rng.normal(scale=0.4, size=(3, 3))
        F2 = np.eye(3) + rng.normal(scale=0.4, size=(3, 3))
        Fi = np.eye(3)
        Fi[0, 1] = float(rng.integers(1, 4))
        # every LAPACK driver that scipy offers for the symmetric eigenproblem gives the same strain and the same axis (up to sign)
        ref = D.finite_strain(F)
        for drv in ("ev", "evd", "evr", "evx"):
            R.check_function(res, "C13", f"finite_strain[{drv}]", lambda f, drv=drv: (D.finite_strain(np.asarray(f, float), driver=drv)[0],
                                                                                       np.abs(D.finite_strain(np.asarray(f, float), driver=drv)[1])),
                             (F,), other_args=(F2,), rtol=1e-8, atol=1e-8)
            out = D.finite_strain(F, driver=drv)
            res.evaluations += 1
            if abs(out[0] - ref[0]) > 1e-9 * max(1, abs(ref[0])) or min(np.abs(out[1] - ref[1]).max(), np.abs(out[1] + ref[1]).max()) > 1e-7:
                res.violation(f"C13:api:finite_strain:driver:{drv}", f"finite_strain(F, driver='{drv}') = {out[0]!r}, {np.asarray(out[1]).tolist()} differs "
                              f"from the default driver's {ref[0]!r}, {np.asarray(ref[1]).tolist()}", {"F": F.tolist(), "driver": drv})
        R.check_function(res, "C13", "finite_strain[int F]", lambda f: (D.finite_strain(np.asarray(f))[0], np.abs(D.finite_strain(np.asarray(f))[1])),
                         (Fi,), rtol=1e-9, atol=1e-9)


# ------------------------------------------------------------------ C14
def c14(res, rng, ctx):
    from pydrex import diagnostics as D
    from pydrex import geometry as G

    tri = G.LatticeSystem.triclinic
    ort = G.LatticeSystem.orthorhombic
    n = 1 if not ctx["thorough"] else 3
    for k in range(n):
        ng = int(rng.integers(6, 14))
        O = np.ascontiguousarray(_rot(rng, ng))
        O2 = np.repeat(_rot(rng)[None], ng, axis=0).copy()     # single-orientation texture (M ~ 1) as the "other" contents
        for sysm, nm in ((tri, "triclinic"), (ort, "orthorhombic")):
            R.check_function(res, "C14", f"misorientation_index[{nm}]", lambda o, sysm=sysm: D.misorientation_index(np.asarray(o, float), sysm),
                             (O,), other_args=(O2,), rtol=1e-9, atol=1e-9, skip_variants=("float32",))
        # batched variant on stacks of other dtypes: exactly the per-snapshot values
        Oi = np.stack([np.stack([_axis_rot(rng) for _ in range(6)]) for _ in range(2)] + [np.repeat(np.eye(3)[None], 6, axis=0)])
        for tag, stack in (("float64", Oi), ("int64", Oi.astype(np.int64)), ("float32", Oi.astype(np.float32))):
            seq = np.array([D.misorientation_index(np.asarray(s, float), tri) for s in stack])
            try:
                got = np.asarray(D.misorientation_indices(stack, tri, ncpus=2))
            except Exception as e:  # noqa: BLE001
                res.violation(f"C14:api:misorientation_indices:{tag}:raises:{type(e).__name__}", f"batched M-index on a {tag} stack raised {e}", {})
                continue
            res.evaluations += 1
            res.count(f"apirobust:misorientation_indices:{tag}_stack")
            if got.shape != seq.shape or not np.array_equal(np.asarray(got, float), seq):
                res.violation(f"C14:api:misorientation_indices:{tag}:differs", f"batched M-index on a {tag} stack = {np.asarray(got).tolist()} is not exactly the "
                              f"per-snapshot values {seq.tolist()}", {"dtype": tag})
    if ctx["thorough"]:
        # grain counts beyond 2**20 pairs (1449+ grains): grain order must not matter
        ng = 1460
        base = _rot(rng, ng)
        cluster = np.repeat(_rot(rng)[None], 180, axis=0)
        tex = np.concatenate([base[:-180], cluster])
        m1 = D.misorientation_index(tex, tri)
        m2 = D.misorientation_index(tex[::-1].copy(), tri)
        res.evaluations += 2
        res.count("apirobust:misorientation_index:1460_grains_reordered")
        if abs(m1 - m2) > 1e-9:
            res.violation("C14:api:misorientation_index:grain_order_large_n", f"1460 grains: M = {m1!r} vs {m2!r} after reversing the grain order", {})


# ------------------------------------------------------------------ C10
def c10(res, rng, ctx):
    from pydrex import core
    from pydrex import minerals as M
    from pydrex import tensors as T

    def run(orient, frac, st_ol, st_en, phases=(0, 1)):
        ms = []
        for ph in phases:
            m = M.Mineral(phase=core.MineralPhase(ph), fabric=core.MineralFabric(0 if ph == 0 else 5), n_grains=len(frac),
                          fractions_init=np.asarray(frac, float).copy(), orientations_init=np.asarray(orient, float).copy())
            ms.append(m)
        st = M.StiffnessTensors()
        st.olivine, st.enstatite = st_ol, st_en
        return M.voigt_averages(ms, [core.MineralPhase.olivine, core.MineralPhase.enstatite], [0.6, 0.4], st)

    n = 2 if not ctx["thorough"] else 6
    for k in range(n):
        ng = int(rng.integers(2, 7))
        O = np.ascontiguousarray(_rot(rng, ng))
        f = rng.dirichlet(np.ones(ng))
        # integer-valued custom stiffness matrices (e.g. typed without decimal points)
        S1 = np.diag(rng.integers(150, 320, size=6)).astype(float)
        o1 = rng.integers(30, 90, size=(3, 3)).astype(float)
        S1[:3, :3] += np.triu(o1, 1) + np.triu(o1, 1).T
        S2 = S1 + np.diag(rng.integers(1, 30, size=6)).astype(float)
        R.check_function(res, "C10", "voigt_averages", run, (O, f, S1, S2), array_args=(2, 3), rtol=1e-9, atol=1e-9, layouts=True, dtypes=True,
                         history=False, skip_variants=("nested_list",))
        R.check_function(res, "C10", "voigt_averages[orientations]", run, (O, f, S1, S2), array_args=(0, 1), rtol=1e-9, atol=1e-9, dtypes=False,
                         history=False)
    # ONE StiffnessTensors instance used for several calls, its matrices edited IN PLACE between the calls (the documented way to
    # supply custom stiffness: "modify the attributes of a StiffnessTensors instance"): every call must average the tensors the
    # instance holds at the time of the call (A-B-A: edit, then restore)
    for k in range(2 if not ctx["thorough"] else 6):
        ng = int(rng.integers(2, 5))
        O = np.ascontiguousarray(_rot(rng, ng))
        f = rng.dirichlet(np.ones(ng))
        ms = [M.Mineral(phase=core.MineralPhase(ph), fabric=core.MineralFabric(0 if ph == 0 else 5), n_grains=ng,
                        fractions_init=f.copy(), orientations_init=O.copy()) for ph in (0, 1)]
        asm = [core.MineralPhase.olivine, core.MineralPhase.enstatite]
        shared = M.StiffnessTensors()
        original = (np.array(shared.olivine, float).copy(), np.array(shared.enstatite, float).copy())
        steps = []
        for step in ("as_built", "olivine_block_scaled_in_place", "enstatite_entry_set_in_place", "restored_in_place"):
            if step == "olivine_block_scaled_in_place":
                shared.olivine[3:, 3:] *= float(rng.uniform(1.1, 1.4))
            elif step == "enstatite_entry_set_in_place":
                shared.enstatite[0, 0] = float(shared.enstatite[0, 0]) + float(rng.uniform(5, 40))
            elif step == "restored_in_place":
                shared.olivine[...] = original[0]
                shared.enstatite[...] = original[1]
            fresh = M.StiffnessTensors()
            fresh.olivine, fresh.enstatite = np.array(shared.olivine, float).copy(), np.array(shared.enstatite, float).copy()
            try:
                got = np.asarray(M.voigt_averages(ms, asm, [0.6, 0.4], shared))
                want = np.asarray(M.voigt_averages(ms, asm, [0.6, 0.4], fresh))
            except Exception as e:  # noqa: BLE001
                res.violation("C10:api:voigt_averages:shared_stiffness_instance:raises", f"voigt_averages raised {type(e).__name__} at step {step} of a "
                              "call sequence sharing one StiffnessTensors instance", {"steps": steps + [step]})
                break
            res.evaluations += 2
            res.count("C10:api:shared StiffnessTensors instance edited in place between calls")
            steps.append(step)
            if got.shape != want.shape or not np.allclose(got, want, rtol=1e-9, atol=1e-9):
                res.violation("C10:api:voigt_averages:shared_stiffness_instance:stale",
                              f"voigt_averages with a StiffnessTensors instance that was used before and then edited in place (step '{step}') does not "
                              f"average the tensors the instance holds now: max diff {float(np.abs(got - want).max()):.3e} GPa vs a fresh instance "
                              "holding the same matrices", {"steps": steps, "n_grains": ng, "orientations": O.tolist(), "fractions": f.tolist(),
                                                             "olivine": np.asarray(shared.olivine).tolist(), "enstatite": np.asarray(shared.enstatite).tolist()})
                break
    # grain counts around block sizes: evaluated on the compiled path in a fresh process (the interpreted 8-fold rotation loop costs
    # ~6 ms per grain)
    import json
    import os
    import subprocess
    import sys

    sizes = [4097, 5000] if not ctx["thorough"] else [4095, 4096, 4097, 5000, 8192, 8193, 12289]
    code = (
        "import json, sys, numpy as np\n"
        "from scipy.spatial.transform import Rotation\n"
        "from pydrex import core, minerals as M, tensors as T\n"
        "out = {}\n"
        "for ng in json.loads(sys.argv[1]):\n"
        "    rng = np.random.default_rng(ng)\n"
        "    O = Rotation.random(ng, random_state=ng).as_matrix(); f = rng.dirichlet(np.ones(ng))\n"
        "    st = M.StiffnessTensors()\n"
        "    m = M.Mineral(phase=core.MineralPhase.olivine, fabric=core.MineralFabric.olivine_A, n_grains=ng, fractions_init=f.copy(), orientations_init=O.copy())\n"
        "    got = M.voigt_averages([m], [core.MineralPhase.olivine], [1.0], st)[0]\n"
        "    ten = T.voigt_to_elastic_tensor(st.olivine)\n"
        "    want = T.elastic_tensor_to_voigt(np.einsum('g,gai,gbj,gck,gdl,abcd->ijkl', f, O, O, O, O, ten))\n"
        "    out[str(ng)] = float(np.abs(got - want).max())\n"
        "print('RESULT', json.dumps(out))\n")
    env = dict(os.environ)
    env.pop("NUMBA_DISABLE_JIT", None)
    p = subprocess.run([sys.executable, "-c", code, json.dumps(sizes)], capture_output=True, text=True, env=env, timeout=1200)
    line = [l for l in p.stdout.splitlines() if l.startswith("RESULT ")]
    if p.returncode != 0 or not line:
        res.violation("C10:api:voigt_averages:grain_count_threshold:raises", "voigt_averages failed for aggregates of 4095..12289 grains: "
                      + p.stderr[-300:], {"sizes": sizes})
        return
    for ng, d in json.loads(line[0][7:]).items():
        res.evaluations += 1
        res.count(f"apirobust:voigt_averages:n_grains={ng}")
        if d > 1e-8:
            res.violation("C10:api:voigt_averages:grain_count_threshold", f"{ng} grains: Voigt average differs from the weighted sum by {d:.3e} GPa",
                          {"n_grains": int(ng)})


# ------------------------------------------------------------------ C15
def c15(res, rng, ctx):
    from pydrex import stats as S

    n = 3 if not ctx["thorough"] else 12
    for k in range(n):
        N, Mg = int(rng.integers(1, 4)), int(rng.integers(2, 9))
        O = np.ascontiguousarray(_rot(rng, N * Mg).reshape(N, Mg, 3, 3))
        O2 = np.ascontiguousarray(_rot(rng, N * Mg).reshape(N, Mg, 3, 3))
        if k % 2 == 0:
            F = np.zeros((N, Mg))       # one-hot volumes (exact in integer dtypes); zero-volume grains must never be drawn
            F[np.arange(N), rng.integers(0, Mg, size=N)] = 1.0
        else:
            F = rng.dirichlet(np.ones(Mg), size=N)
        F2 = rng.dirichlet(np.ones(Mg), size=N)
        ns = [None, 1, int(rng.integers(1, 3 * Mg))][k % 3]
        seed = [0, 7, np.int64(3), 2**32 - 1][k % 4]
        R.check_function(res, "C15", "resample_orientations", lambda o, f, ns=ns, seed=seed: S.resample_orientations(o, f, n_samples=ns, seed=seed),
                         (O, F), other_args=(O2, F2), rtol=0, atol=0, f32_rtol=1e-6)
        # keyword vs positional spelling
        a = S.resample_orientations(O, F, ns, 11)
        b = S.resample_orientations(orientations=O, fractions=F, n_samples=ns, seed=11)
        res.evaluations += 2
        ok, why = R.same(a, b, 0, 0)
        if not ok:
            res.violation("C15:api:resample_orientations:positional_vs_keyword", f"positional and keyword spelling differ: {why}", {})


# ------------------------------------------------------------------ C20
def c20(res, rng, ctx):
    from pydrex import geometry as G
    from pydrex import stats as S

    n = 2 if not ctx["thorough"] else 8
    for k in range(n):
        m = int(rng.integers(2, 30))
        P = rng.normal(size=(m, 3))
        P2 = rng.normal(size=(m, 3))
        Pi = rng.integers(-4, 5, size=(m, 3)).astype(float)
        if k % 2 == 1:
            Pi = rng.integers(-90000, 90001, size=(m, 3)).astype(float)     # e.g. mesh coordinates in metres: squares overflow int32
        Pi[np.all(Pi == 0, axis=1)] = [1.0, 0.0, 0.0]
        for nm, pts, pts2 in (("float", P, P2), ("integral", Pi, P)):
            x, y, z = (np.ascontiguousarray(pts[:, i]) for i in range(3))
            x2, y2, z2 = (np.ascontiguousarray(pts2[:, i]) for i in range(3))
            R.check_function(res, "C20", f"to_spherical[{nm}]", G.to_spherical, (x, y, z), other_args=(x2, y2, z2), rtol=1e-12, atol=1e-12, f32_rtol=1e-6)
            r_, ph, th = G.to_spherical(x, y, z)
            R.check_function(res, "C20", f"to_cartesian[{nm}]", G.to_cartesian, (np.ascontiguousarray(ph), np.ascontiguousarray(th), np.ascontiguousarray(r_)),
                             rtol=1e-12, atol=1e-12, f32_rtol=1e-5)
            U = pts / np.linalg.norm(pts, axis=1)[:, None]
            ux, uy, uz = (np.ascontiguousarray(U[:, i]) for i in range(3))
            R.check_function(res, "C20", f"lambert_equal_area[{nm}]", G.lambert_equal_area, (ux, uy, uz), rtol=1e-12, atol=1e-12, f32_rtol=1e-4)
        O = np.ascontiguousarray(_rot(rng, m))
        O2 = np.ascontiguousarray(_rot(rng, m))
        Oi = np.stack([_axis_rot(rng) for _ in range(m)])
        for ref in ("xz", "zx", "yx", "zy"):
            hkl = [[1, 0, 0], [0, 1, 0], [1, 1, 0], [1, 2, 3]][k % 4]
            R.check_function(res, "C20", f"poles[{ref}]", lambda o, ref=ref, hkl=hkl: G.poles(np.asarray(o), ref_axes=ref, hkl=hkl), (O,), other_args=(O2,),
                             skip_variants=("nested_list",), f32_rtol=1e-5)
            R.check_function(res, "C20", f"poles[{ref},int grains]", lambda o, ref=ref, hkl=hkl: G.poles(np.asarray(o), ref_axes=ref, hkl=hkl), (Oi,),
                             skip_variants=("nested_list",), f32_rtol=1e-5)
        # density: same data in other representations, weights given as list/array/scalar, repeated calls
        d = rng.normal(size=(int(rng.integers(20, 60)), 3))
        d /= np.linalg.norm(d, axis=1)[:, None]
        d2 = rng.normal(size=d.shape)
        d2 /= np.linalg.norm(d2, axis=1)[:, None]
        gs = int(rng.choice([5, 9, 12]))
        for kern in (("linear_inverse_kamb", "kamb_count") if not ctx["thorough"] else tuple(S.SPHERICAL_COUNTING_KERNELS)):
            kw = {} if kern == "schmidt_count" else {"σ": 3}
            R.check_function(res, "C20", f"point_density[{kern}]",
                             lambda x, y, z, kern=kern, kw=kw: S.point_density(x, y, z, gridsteps=gs, kernel=kern, **kw),
                             (np.ascontiguousarray(d[:, 0]), np.ascontiguousarray(d[:, 1]), np.ascontiguousarray(d[:, 2])),
                             other_args=(np.ascontiguousarray(d2[:, 0]), np.ascontiguousarray(d2[:, 1]), np.ascontiguousarray(d2[:, 2])),
                             rtol=1e-9, atol=1e-9, f32_rtol=1e-3, dtypes=False)
            # axial data given with the flag spelled as a numpy bool or an int (truthy): the density is still independent of the sign
            # of each datum (the property's clause; equality with the literal `True` is NOT demanded: `_kamb_radius` distinguishes them)
            sg = rng.choice([-1.0, 1.0], size=d.shape[0])
            for nm_, flag in (("True", True), ("np.True_", np.True_), ("1", 1)):
                o1 = S.point_density(d[:, 0], d[:, 1], d[:, 2], gridsteps=gs, kernel=kern, axial=flag, **kw)
                o2 = S.point_density(sg * d[:, 0], sg * d[:, 1], sg * d[:, 2], gridsteps=gs, kernel=kern, axial=flag, **kw)
                res.evaluations += 2
                res.count("apirobust:point_density:axial_flag=" + nm_)
                ok, why = R.same(o1, o2, 1e-9, 1e-9)
                if not ok:
                    res.violation(f"C20:api:point_density[{kern}]:axial_sign_dependence:flag={nm_}", f"axial={nm_}: the density changes when the sign of "
                                  f"some data is flipped: {why}", {"kernel": kern})
                    break


def c20_many_data(res, rng, ctx):
    """pole-figure densities of LARGE data sets (10^4.6 ... 10^5.3 directions, a small counting grid): finite, non-negative, mean one
    over the grid, and independent of the sign of each datum for axial data - whatever internal path large problems take"""
    from pydrex import stats as S

    for n in ([40000, 170000] if not ctx["thorough"] else [7000, 40000, 80000, 170000, 400000]):
        d = rng.normal(size=(n, 3)) * np.array([1.0, 0.6, 0.3])      # a girdle-ish, clearly non-uniform distribution
        d /= np.linalg.norm(d, axis=1)[:, None]
        sg = rng.choice([-1.0, 1.0], size=n)
        gs = 21 if n > 50000 else 31
        for kern in (("exponential_kamb", "linear_inverse_kamb") if not ctx["thorough"] else tuple(S.SPHERICAL_COUNTING_KERNELS)):
            for kw in (({}, {"σ": 3}) if kern != "schmidt_count" else ({},)):
                rep = {"n_data": n, "gridsteps": gs, "kernel": kern, "kwargs": {k: v for k, v in kw.items()}}
                try:
                    with np.errstate(all="ignore"):
                        _, _, o1 = S.point_density(d[:, 0], d[:, 1], d[:, 2], gridsteps=gs, kernel=kern, **kw)
                        _, _, o2 = S.point_density(sg * d[:, 0], sg * d[:, 1], sg * d[:, 2], gridsteps=gs, kernel=kern, **kw)
                except Exception as e:  # noqa: BLE001
                    res.violation(f"C20:api:point_density[{kern}]:many_data:raises:{type(e).__name__}", f"{n} data: point_density raised {type(e).__name__}: {str(e)[:100]}", rep)
                    continue
                res.evaluations += 2
                res.count(f"apirobust:point_density:n_data={n}")
                o1, o2 = np.asarray(o1, float), np.asarray(o2, float)
                if not np.isfinite(o1).all() or (o1 < -1e-12).any():
                    res.violation(f"C20:api:point_density[{kern}]:many_data:not_finite_nonnegative", f"{n} data: the density grid has non-finite or negative "
                                  f"entries ({int((~np.isfinite(o1)).sum())} non-finite)", rep)
                    continue
                m_ = float(o1.mean())      # normalised to mean 1 BEFORE negative estimates are clipped to 0: >= 1 after, == 1 when nothing was clipped
                if m_ < 1 - 1e-6 or (o1.min() > 0 and abs(m_ - 1) > 1e-6):
                    res.violation(f"C20:api:point_density[{kern}]:many_data:mean", f"{n} data: mean of the density grid {m_!r} (min {float(o1.min())!r})", rep)
                if not np.allclose(o1, o2, rtol=1e-7, atol=1e-7):
                    res.violation(f"C20:api:point_density[{kern}]:many_data:axial_sign_dependence", f"{n} axial data: flipping the sign of some data changes "
                                  f"the density by {float(np.abs(o1 - o2).max()):.3e}", rep)


def c15_sizes(res, rng, ctx):
    """sample counts at and around 2**16 blocks: every output pair is an input pair, exactly as an independent emulation predicts"""
    from pydrex import stats as S

    for ns in ([65535, 65536, 65537] if not ctx["thorough"] else [65535, 65536, 65537, 131072, 196608, 10**6]):
        Mg = int(rng.integers(3, 9))
        O = np.ascontiguousarray(_rot(rng, Mg).reshape(1, Mg, 3, 3))
        F = rng.dirichlet(np.ones(Mg), size=1)
        seed = int(rng.integers(0, 2**31))
        o, f = S.resample_orientations(O, F, n_samples=ns, seed=seed)
        order = np.argsort(F[0], kind="stable")
        cum = F[0][order].cumsum()
        cum[-1] = 1.0
        idx = np.searchsorted(cum, np.random.default_rng(seed).random(ns))
        res.evaluations += 1
        res.count(f"apirobust:resample_orientations:n_samples={ns}")
        if o.shape != (1, ns, 3, 3) or f.shape != (1, ns) or not np.array_equal(f[0], F[0][order][idx]) or not np.array_equal(o[0], O[0][order][idx]):
            bad = int(np.argmax(f[0] != F[0][order][idx])) if f.shape == (1, ns) else -1
            res.violation("C15:api:resample_orientations:sample_count_threshold", f"n_samples={ns}: output differs from the volume-weighted draw "
                          f"(first bad sample index {bad})", {"n_samples": ns, "fractions": F.tolist(), "seed": seed})


    # the DEFAULT sample count is the grain count, however large the aggregate (just above 2**19, and 10**6 in the thorough tier)
    for Mg in ([2**19 + 1] if not ctx["thorough"] else [2**19 + 1, 600000, 10**6]):
        O = np.ascontiguousarray(_rot(rng, 64)[rng.integers(0, 64, size=Mg)].reshape(1, Mg, 3, 3))
        F = rng.dirichlet(np.ones(Mg), size=1)
        seed = int(rng.integers(0, 2**31))
        o, f = S.resample_orientations(O, F, seed=seed)
        res.evaluations += 1
        res.count(f"apirobust:resample_orientations:default_n_samples:grains={Mg}")
        if o.shape != (1, Mg, 3, 3) or f.shape != (1, Mg):
            res.violation("C15:api:resample_orientations:default_sample_count", f"{Mg} grains, n_samples omitted: output shapes {o.shape}, {f.shape} "
                          f"instead of one sample per grain", {"n_grains": Mg, "seed": seed})
        else:
            o2, f2 = S.resample_orientations(O, F, n_samples=Mg, seed=seed)
            if not (np.array_equal(o, o2) and np.array_equal(f, f2)):
                res.violation("C15:api:resample_orientations:default_sample_count", f"{Mg} grains: omitting n_samples differs from n_samples={Mg}",
                              {"n_grains": Mg, "seed": seed})
        del O, o, f


# ------------------------------------------------------------------ C18
def c18(res, rng, ctx):
    from pydrex import pathlines as P
    from pydrex import utils as U
    from pydrex import velocity as V

    for k in range(3 if not ctx["thorough"] else 10):
        L = rng.normal(size=(3, 3))
        L2 = 10.0 * rng.normal(size=(3, 3))
        Li = rng.integers(-3, 4, size=(3, 3)).astype(float)
        dt = float(rng.choice([0.5, -0.25, 2.0]))
        R.check_function(res, "C18", "strain_increment", lambda l, dt=dt: U.strain_increment(dt, np.asarray(l, float)), (L,), other_args=(L2,),
                         rtol=1e-12, atol=1e-12)
        R.check_function(res, "C18", "strain_increment[int L]", lambda l, dt=dt: U.strain_increment(dt, np.asarray(l, float)), (Li,), rtol=1e-12, atol=1e-12)
        # flows: positions in other representations
        x = rng.uniform(-0.9, 0.9, size=3)
        x2 = rng.uniform(-0.9, 0.9, size=3)
        for nm, (u, g) in (("simple_shear", V.simple_shear_2d("X", "Z", 1.5)), ("cell", V.cell_2d("X", "Z", 1.0)), ("corner", V.corner_2d("X", "Z", 1.0))):
            xx = x.copy()
            if nm == "corner":
                xx[2] = -abs(xx[2]) - 0.1
            R.check_function(res, "C18", f"{nm}:velocity", lambda p, u=u: u(np.nan, np.asarray(p, float)), (xx,), other_args=(x2 if nm != "corner" else xx * 0.5,),
                             skip_variants=("nested_list",), f32_rtol=1e-5)
            R.check_function(res, "C18", f"{nm}:gradient", lambda p, g=g: g(np.nan, np.asarray(p, float)), (xx,), other_args=(x2 if nm != "corner" else xx * 0.5,),
                             skip_variants=("nested_list",), f32_rtol=1e-5)
    # pathlines: a default call gives the same pathline before and after a call with solver keyword arguments, and after an aborted call
    u, g = V.cell_2d("X", "Z", 1.0)
    lo, hi = np.array([-1.0, -1.0, -1.0]), np.array([1.0, 1.0, 1.0])

    def path(p, **kw):
        ts, sol = P.get_pathline(np.array(p, float), u, g, lo, hi, 2.0, regular_steps=10, **kw)
        return np.asarray(ts), np.asarray([sol(t) for t in ts])

    cands = [[0.3, 0.0, -0.4], [-0.2, 0.0, 0.5], [0.5, 0.0, 0.2], [0.1, 0.0, 0.7], [-0.6, 0.0, -0.3]]
    done = 0
    for p in cands:
        try:
            first = path(p)
        except ValueError:
            continue   # the stateful terminal event sometimes fails in the cell flow (known finding); pick another point
        try:
            path(p, rtol=0.2, atol=0.05)
        except Exception:  # noqa: BLE001
            pass

        class Boom(Exception):
            pass

        calls = {"n": 0}

        def u_fail(t, x_):
            calls["n"] += 1
            if calls["n"] > 60:
                raise Boom()
            return u(t, x_)

        try:
            P.get_pathline(np.array(p, float), u_fail, g, lo, hi, 2.0)
        except Boom:
            pass
        except Exception:  # noqa: BLE001
            pass
        try:
            again = path(p)
        except Exception as e:  # noqa: BLE001
            res.violation("C18:api:get_pathline:call_history:raises", f"default get_pathline raised {type(e).__name__} after calls with solver options / "
                          "an aborted call, although the same call succeeded before", {"final_location": p})
            done += 1
            continue
        res.evaluations += 4
        res.count("apirobust:get_pathline:default_call_repeated_after_other_calls")
        ok, why = R.same(first, again, 0, 0)
        if not ok:
            res.violation("C18:api:get_pathline:call_history_dependent", "a default get_pathline call gives another pathline after a call with solver "
                          f"keyword arguments and an aborted call: {why}", {"final_location": p})
        done += 1
        if done >= (2 if not ctx["thorough"] else 5):
            break


# ------------------------------------------------------------------ C19
def c19(res, rng, ctx):
    import os
    import tempfile

    from pydrex import core
    from pydrex import io as IO

    defaults = core.DefaultParams().as_dict()
    with tempfile.TemporaryDirectory(prefix="pydrex_verif_c19_") as td:
        body = '[input]\ntimestep = 1.0\npaths = []\n'
        a = os.path.join(td, "a")
        b = os.path.join(td, "b")
        os.makedirs(a)
        os.makedirs(b)
        with open(os.path.join(a, "config.toml"), "w") as fh:
            fh.write('name = "in_a"\n' + body)
        with open(os.path.join(b, "config.toml"), "w") as fh:
            fh.write('name = "in_b"\n[parameters]\ngbm_mobility = 10\n' + body)
        cwd = os.getcwd()
        try:
            # (1) call history: the dictionaries returned by one parse are the caller's; editing them must not change later parses
            c1 = IO.parse_config(os.path.join(a, "config.toml"))
            for key in list(c1["parameters"]):
                c1["parameters"][key] = "poisoned"
            c1["parameters"]["phase_fractions"] = [0.5, 0.1]
            try:
                c2 = IO.parse_config(os.path.join(a, "config.toml"))
            except Exception as e:  # noqa: BLE001
                res.violation("C19:api:parse_config:call_history:raises", f"a valid file is rejected ({type(e).__name__}) after the caller edited the "
                              "dictionary returned by an earlier parse", {})
                c2 = None
            res.evaluations += 2
            res.count("apirobust:parse_config:returned_dict_edited_then_reparsed")
            if c2 is not None:
                for key, val in defaults.items():
                    got = c2["parameters"].get(key)
                    if key in ("phase_assemblage", "initial_olivine_fabric", "disl_coefficients"):
                        continue
                    if got != val:
                        res.violation("C19:api:parse_config:call_history_dependent", f"omitted parameter '{key}' parsed as {got!r} instead of its documented "
                                      f"default {val!r} after the caller edited an earlier result", {"key": key})
                        break
            # (2) environment: a relative path is resolved against the CURRENT working directory
            for d, want in ((a, "in_a"), (b, "in_b"), (a, "in_a")):
                os.chdir(d)
                try:
                    c = IO.parse_config("config.toml")
                    got = c.get("name")
                except Exception as e:  # noqa: BLE001
                    got = f"raised {type(e).__name__}"
                res.evaluations += 1
                res.count("apirobust:parse_config:relative_path_after_chdir")
                if got != want:
                    res.violation("C19:api:parse_config:relative_path_wrong_directory", f"parse_config('config.toml') in {os.path.basename(d)} returned "
                                  f"{got!r} instead of the file of the current directory ({want!r})", {})
                    break
        finally:
            os.chdir(cwd)


# ------------------------------------------------------------------ C16
def c16(res, rng, ctx):
    import io as _io
    import os
    import tempfile

    from pydrex import exceptions as E
    from pydrex import io as IO

    schema = {"delimiter": ",", "missing": "-", "fields": [
        {"name": "a", "type": "float", "fill": "NaN"}, {"name": "b", "type": "complex", "fill": "NaN"},
        {"name": "c", "type": "integer", "fill": "0"}, {"name": "d", "type": "string", "fill": "z"}, {"name": "e", "type": "boolean"}]}
    with tempfile.TemporaryDirectory(prefix="pydrex_verif_c16_") as td:
        # (1) columns given as numpy arrays (numpy scalars as cells) round-trip like lists of Python scalars
        n = 7
        fa = rng.normal(size=n)
        cb = rng.normal(size=n) + 1j * rng.normal(size=n)
        ic = rng.integers(-50, 50, size=n)
        sd = [f"s{i}" for i in range(n)]
        be = (rng.random(n) < 0.5)
        f1, f2 = os.path.join(td, "np.scsv"), os.path.join(td, "py.scsv")
        try:
            IO.save_scsv(f1, schema, [fa, cb, ic, np.array(sd), be])
            IO.save_scsv(f2, schema, [fa.tolist(), cb.tolist(), ic.tolist(), sd, be.tolist()])
            r1, r2 = IO.read_scsv(f1), IO.read_scsv(f2)
            res.evaluations += 2
            res.count("apirobust:save_scsv:numpy_array_columns")
            if open(f1).read() != open(f2).read() or tuple(r1) != tuple(r2):
                res.violation("C16:api:save_scsv:numpy_columns:differs", "columns given as numpy arrays are written/read differently from the same "
                              "values given as Python lists", {"first_lines": open(f1).read().splitlines()[-3:]})
            elif list(r1.a) != fa.tolist() or list(r1.b) != cb.tolist() or list(r1.c) != ic.tolist():
                res.violation("C16:api:save_scsv:numpy_columns:roundtrip", "numpy-array columns do not round-trip", {})
        except Exception as e:  # noqa: BLE001
            res.violation(f"C16:api:save_scsv:numpy_columns:raises:{type(e).__name__}", f"round trip of numpy-array columns raised {type(e).__name__}: {e}", {})
        # (2) the same path written, read, overwritten and read again (small and large tables)
        for rows in ((5, 9), (2500, 2100)) if not ctx["thorough"] else ((5, 9), (2048, 2049), (5000, 300), (2500, 2100)):
            fn = os.path.join(td, f"same_{rows[0]}.scsv")
            s2 = {"delimiter": ",", "missing": "-", "fields": [{"name": "x", "type": "integer", "fill": "999999"}]}
            IO.save_scsv(fn, s2, [list(range(rows[0]))])
            first = IO.read_scsv(fn)
            IO.save_scsv(fn, s2, [list(range(100, 100 + rows[1]))])
            second = IO.read_scsv(fn)
            res.evaluations += 2
            res.count("apirobust:read_scsv:same_path_overwritten")
            if len(first.x) != rows[0] or list(second.x) != list(range(100, 100 + rows[1])):
                res.violation("C16:api:read_scsv:stale_after_overwrite", f"a file of {rows[0]} rows overwritten with {rows[1]} rows is read back with "
                              f"{len(second.x)} rows starting at {second.x[0]}", {"rows": rows})
        # (3) the public header writer refuses invalid schemas itself
        bad = [("no_fields", {"delimiter": ",", "missing": "-", "fields": []}),
               ("non_identifier", {"delimiter": ",", "missing": "-", "fields": [{"name": "not valid", "type": "string"}]}),
               ("numeric_without_fill", {"delimiter": ",", "missing": "-", "fields": [{"name": "a", "type": "float"}]}),
               ("delimiter_in_missing", {"delimiter": ",", "missing": "a,b", "fields": [{"name": "a", "type": "string"}]}),
               ("missing_key", {"delimiter": ",", "fields": [{"name": "a", "type": "string"}]})]
        for nm, sch in bad:
            buf = _io.StringIO()
            try:
                IO.write_scsv_header(buf, sch, comments=["c"])
                out = "returned"
            except E.SCSVError:
                out = "SCSVError"
            except Exception as e:  # noqa: BLE001
                out = type(e).__name__
            res.evaluations += 1
            res.count("apirobust:write_scsv_header:invalid_schema")
            if out != "SCSVError":
                res.violation(f"C16:api:write_scsv_header:{nm}", f"write_scsv_header with an invalid schema ({nm}): {out} instead of SCSVError", {"schema": sch})
