"""Representation- and history-robustness of array-taking public functions (metamorphic checks).

The properties quantify over "all inputs"; mathematically an input is its VALUES. The generators of
the per-property harnesses hand those values over as fresh C-contiguous float64 arrays, once.
Round 2 of the seeded changes showed the blind spot: code whose result depends on how the same
values are laid out (Fortran order, transposed/strided views), typed (integer or float32 arrays
holding exactly representable values, lists/tuples), on what was computed before (caches keyed on
object identity, module- or instance-level memo tables, reused scratch buffers), or that writes into
the caller's arrays. `check_function` poses the same problem in those other ways and demands the
same answer as the canonical call; every discrepancy is a concrete failing input for the property
whose clause the canonical answer satisfies.
"""
from __future__ import annotations

import copy

import numpy as np


def _canon(x):
    """results -> nested structure of float arrays / plain values"""
    if isinstance(x, dict):
        return {k: _canon(v) for k, v in sorted(x.items())}
    if isinstance(x, (tuple, list)):
        return [_canon(v) for v in x]
    if hasattr(x, "_fields"):
        return [_canon(v) for v in x]
    try:
        return np.asarray(x, dtype=float)
    except (TypeError, ValueError):
        return x


def same(a, b, rtol=1e-12, atol=1e-12):
    a, b = _canon(a), _canon(b)
    if isinstance(a, dict):
        if not isinstance(b, dict) or a.keys() != b.keys():
            return False, "different keys"
        for k in a:
            ok, why = same(a[k], b[k], rtol, atol)
            if not ok:
                return False, f"[{k!r}] {why}"
        return True, ""
    if isinstance(a, list):
        if not isinstance(b, list) or len(a) != len(b):
            return False, "different structure"
        for i, (x, y) in enumerate(zip(a, b)):
            ok, why = same(x, y, rtol, atol)
            if not ok:
                return False, f"[{i}] {why}"
        return True, ""
    if isinstance(a, np.ndarray):
        if not isinstance(b, np.ndarray) or a.shape != b.shape:
            return False, f"shape {getattr(a, 'shape', None)} vs {getattr(b, 'shape', None)}"
        if not np.allclose(a, b, rtol=rtol, atol=atol, equal_nan=True):
            with np.errstate(all="ignore"):
                return False, f"max abs difference {np.nanmax(np.abs(a - b)):.3e}"
        return True, ""
    return (a == b), f"{a!r} vs {b!r}"


def _is_arr(x):
    return isinstance(x, np.ndarray) and x.dtype.kind == "f" and x.ndim >= 1


def layout_variants(a):
    """the same values in other memory layouts / containers"""
    out = {}
    if a.ndim >= 2:
        out["fortran_order"] = np.asfortranarray(a)
        axes = tuple(reversed(range(a.ndim)))
        out["transposed_view"] = np.ascontiguousarray(a.transpose(axes)).transpose(axes)
        if a.ndim >= 3:
            sw = list(range(a.ndim))
            sw[-1], sw[-2] = sw[-2], sw[-1]
            out["swapped_last_axes_view"] = np.ascontiguousarray(a.transpose(sw)).transpose(sw)
    out["strided_view"] = np.repeat(a, 2, axis=0)[::2]
    out["nested_list"] = a.tolist()
    return out


def dtype_variants(a):
    """the same values in other dtypes, only where they are exactly representable"""
    out = {}
    if np.array_equal(a, np.round(a)) and np.abs(a).max(initial=0) < 2**31:
        out["int64"] = a.astype(np.int64)
        out["int32"] = a.astype(np.int32)
    if np.array_equal(a.astype(np.float32).astype(np.float64), a):
        out["float32"] = a.astype(np.float32)
    return out


def check_function(res, prop, name, fn, args, kwargs=None, array_args=None, rtol=1e-12, atol=1e-12, f32_rtol=2e-5,
                   rep=None, layouts=True, dtypes=True, history=True, mutation=True, skip_variants=(), other_args=None):
    """`args`: canonical positional arguments (float64 C-contiguous arrays and plain values).
    array_args: indices of the array arguments to vary (default: every float ndarray argument).
    other_args: a second, different canonical argument tuple used for the call-history checks."""
    kwargs = kwargs or {}
    rep = dict(rep or {}, function=name)
    idx = [i for i, a in enumerate(args) if _is_arr(a)] if array_args is None else list(array_args)
    frozen = copy.deepcopy(args)
    try:
        base = copy.deepcopy(fn(*copy.deepcopy(args), **kwargs))
    except Exception as e:  # noqa: BLE001  (the canonical call itself is the per-property harness's business)
        res.count(f"apirobust:{name}:canonical_call_raised:{type(e).__name__}")
        return None
    res.evaluations += 1

    def run_variant(tag, vargs, tol_r=rtol, tol_a=atol):
        if tag.split(":")[-1] in skip_variants:
            return
        res.count(f"apirobust:{name}:{tag.split(':')[-1]}")
        res.evaluations += 1
        try:
            out = fn(*vargs, **kwargs)
        except Exception as e:  # noqa: BLE001
            res.violation(f"{prop}:api:{name}:{tag}:raises:{type(e).__name__}",
                          f"{name} raised {type(e).__name__} ({str(e)[:120]}) for the same values given as {tag}", dict(rep, variant=tag))
            return
        ok, why = same(base, out, tol_r, tol_a)
        if not ok:
            res.violation(f"{prop}:api:{name}:{tag}:differs", f"{name}: same values given as {tag} give another result: {why}", dict(rep, variant=tag))

    for i in idx:
        a = args[i]
        if layouts:
            for tag, v in layout_variants(a).items():
                vargs = list(copy.deepcopy(args))
                vargs[i] = v
                run_variant(f"arg{i}:{tag}", vargs)
        if dtypes:
            for tag, v in dtype_variants(a).items():
                vargs = list(copy.deepcopy(args))
                vargs[i] = v
                r_, a_ = (f32_rtol, f32_rtol) if tag == "float32" else (rtol, atol)
                run_variant(f"arg{i}:{tag}", vargs, r_, a_)
    if dtypes and len(idx) > 1:
        # all array arguments integer-typed together (cooperating allocation sites)
        vs = [dtype_variants(args[i]).get("int64") for i in idx]
        if all(v is not None for v in vs):
            vargs = list(copy.deepcopy(args))
            for i, v in zip(idx, vs):
                vargs[i] = v
            run_variant("all:int64", vargs)

    # the numbers do not depend on the logging configuration: the same call with PyDRex's default logger level and a DEBUG-level
    # handler attached the documented way (pydrex.io.logfile_enable)
    try:
        from . import solver as _solver

        with _solver.debug_logging():
            out = fn(*copy.deepcopy(args), **kwargs)
        res.evaluations += 1
        res.count(f"apirobust:{name}:debug_logging_active")
        ok, why = same(base, out, rtol, atol)
        if not ok:
            res.violation(f"{prop}:api:{name}:debug_logging:differs", f"{name}: the same call with a DEBUG-level log handler attached gives another result: {why}", rep)
    except Exception as e:  # noqa: BLE001
        res.violation(f"{prop}:api:{name}:debug_logging:raises:{type(e).__name__}", f"{name} raised {type(e).__name__} ({str(e)[:120]}) with a DEBUG-level log handler attached", rep)

    if mutation:
        # the caller's arrays are left as they were
        margs = copy.deepcopy(args)
        fn(*margs, **kwargs)
        for i in idx:
            if not np.array_equal(np.asarray(margs[i]), np.asarray(frozen[i]), equal_nan=True):
                res.violation(f"{prop}:api:{name}:arg{i}:caller_array_modified", f"{name} modified its argument {i} in place", rep)
        res.count(f"apirobust:{name}:caller_arrays_unchanged")

    # the returned arrays are the caller's: modifying them must not affect later calls (no shared cached result objects)
    try:
        first = fn(*copy.deepcopy(args), **kwargs)

        def poison(x):
            if isinstance(x, dict):
                for v in x.values():
                    poison(v)
            elif isinstance(x, (list, tuple)):
                for v in x:
                    poison(v)
            elif isinstance(x, np.ndarray) and x.dtype.kind == "f" and x.flags.writeable:
                x[...] = -12345.0

        poison(first)
        again = fn(*copy.deepcopy(args), **kwargs)
        res.evaluations += 2
        res.count(f"apirobust:{name}:returned_arrays_modified_by_caller")
        ok, why = same(base, again, rtol, atol)
        if not ok:
            res.violation(f"{prop}:api:{name}:returned_array_is_shared_state",
                          f"{name}: after the caller modified the arrays returned by one call in place, the next call returns other values: {why}", rep)
    except Exception as e:  # noqa: BLE001
        res.count(f"apirobust:{name}:alias_check_raised:{type(e).__name__}")

    if history and idx:
        # (a) the same array OBJECT refilled in place with other values and passed again: the answer must be that of the new values
        i = idx[0]
        other = None
        if other_args is not None and _is_arr(other_args[i]) and other_args[i].shape == args[i].shape:
            other = other_args
        elif args[i].shape[0] > 1:
            perm = np.roll(np.arange(args[i].shape[0]), 1)
            o = list(copy.deepcopy(args))
            o[i] = np.ascontiguousarray(args[i][perm] * 1.0)
            other = tuple(o)
        if other is not None:
            try:
                want = copy.deepcopy(fn(*copy.deepcopy(other), **kwargs))
                buf = list(copy.deepcopy(args))
                fn(*buf, **kwargs)                      # first call with the buffer holding `args`
                for j in idx:                            # refill the very same objects
                    if _is_arr(other[j]) and other[j].shape == buf[j].shape:
                        buf[j][...] = other[j]
                got = fn(*buf, **kwargs)                 # second call, same objects, new contents
                res.evaluations += 2
                res.count(f"apirobust:{name}:buffer_refilled_in_place")
                ok, why = same(want, got, rtol, atol)
                if not ok:
                    res.violation(f"{prop}:api:{name}:stale_result_for_refilled_buffer",
                                  f"{name}: an array object refilled in place and passed again gives the result of its OLD contents: {why}", rep)
                # (b) A, B, A: the third call equals the first
                again = fn(*copy.deepcopy(args), **kwargs)
                ok, why = same(base, again, rtol, atol)
                if not ok:
                    res.violation(f"{prop}:api:{name}:call_history_dependent", f"{name}: the same call gives another result after an intervening call: {why}", rep)
            except Exception as e:  # noqa: BLE001
                res.count(f"apirobust:{name}:history_check_raised:{type(e).__name__}")
    return base
