"""Shared machinery for the per-property checks.

* bit-exact float exchange with the Lean driver (line protocol)
* Lean build + axiom audit (proof obligations)
* known-findings handling, evidence writing, VIOLATION protocol
"""
from __future__ import annotations

import fcntl
import hashlib
import json
import math
import os
import pathlib
import re
import struct
import subprocess
import sys
import time

VERIF = pathlib.Path(__file__).resolve().parent.parent
LEAN = VERIF / "lean"
DRIVER = LEAN / ".lake" / "build" / "bin" / "driver"
EVIDENCE = VERIF / "evidence"
REPLAYS = VERIF / "replays"
KNOWN = VERIF / "known_findings"
ALLOWED_AXIOMS = {"propext", "Classical.choice", "Quot.sound"}
FORBIDDEN = re.compile(
    r"\bsorry\b|\badmit\b|^\s*axiom\s|native_decide|bv_decide|implemented_by|\bunsafe\s|maxHeartbeats\s+0\b",
    re.M,
)


# ---------------------------------------------------------------- floats
def f2h(x) -> str:
    return struct.pack(">d", float(x)).hex()


def h2f(s: str) -> float:
    return struct.unpack(">d", bytes.fromhex(s))[0]


def fs2h(xs) -> str:
    return " ".join(struct.pack(">d", float(x)).hex() for x in xs)


def hs2f(toks):
    return [struct.unpack(">d", bytes.fromhex(t))[0] for t in toks]


# ---------------------------------------------------------------- driver
class DriverError(RuntimeError):
    pass


def run_driver(lines: list[str], timeout=600) -> list[str]:
    """Send request lines to the Lean driver (compiled ModelF/ModelD), one response per line."""
    if not DRIVER.exists():
        raise DriverError(f"driver not built: {DRIVER}")
    if not lines:
        return []
    inp = ("\n".join(lines) + "\n").encode()
    p = subprocess.run([str(DRIVER)], input=inp, capture_output=True, timeout=timeout)
    if p.returncode != 0:
        raise DriverError(f"driver exit {p.returncode}: {p.stderr.decode()[:500]}")
    out = p.stdout.decode().split("\n")
    if out and out[-1] == "":
        out.pop()
    if len(out) != len(lines):
        raise DriverError(f"driver returned {len(out)} lines for {len(lines)} requests; stderr={p.stderr.decode()[:300]}")
    return out


def close(a, b, scale=1.0, rtol=1e-9, atol=1e-12) -> bool:
    """Numeric comparison policy (the only place floats are compared)."""
    if isinstance(a, (list, tuple)) or hasattr(a, "__len__"):
        a = list(a)
        b = list(b)
        if len(a) != len(b):
            return False
        return all(close(x, y, scale, rtol, atol) for x, y in zip(a, b))
    a = float(a)
    b = float(b)
    if math.isnan(a) or math.isnan(b):
        return math.isnan(a) and math.isnan(b)
    if math.isinf(a) or math.isinf(b):
        return a == b
    return abs(a - b) <= rtol * max(scale, abs(a), abs(b)) + atol


def maxdiff(a, b):
    m = 0.0
    for x, y in zip(a, b):
        x = float(x)
        y = float(y)
        if math.isnan(x) and math.isnan(y):
            continue
        if x == y:
            continue
        d = abs(x - y)
        if math.isnan(d):
            return float("inf")
        m = max(m, d)
    return m


# ---------------------------------------------------------------- lean
_THEOREM_RE = re.compile(r"^\s*(?:@\[[^\]]*\]\s*)?(?:private\s+|protected\s+)?theorem\s+([A-Za-z_][\w.'?!]*)", re.M)
_NAMESPACE_RE = re.compile(r"^\s*namespace\s+([\w.]+)", re.M)


def strip_comments(src: str) -> str:
    # remove /- ... -/ (nested) and -- ... comments
    out = []
    i = 0
    depth = 0
    n = len(src)
    while i < n:
        if src.startswith("/-", i):
            depth += 1
            i += 2
            continue
        if depth and src.startswith("-/", i):
            depth -= 1
            i += 2
            continue
        if depth:
            i += 1
            continue
        if src.startswith("--", i):
            j = src.find("\n", i)
            i = n if j < 0 else j
            continue
        out.append(src[i])
        i += 1
    return "".join(out)


def theorems_of(path: pathlib.Path) -> list[str]:
    """Fully qualified theorem names declared in a Properties file (simple single-namespace files)."""
    src = strip_comments(path.read_text())
    ns = _NAMESPACE_RE.findall(src)
    prefix = (ns[0] + ".") if ns else ""
    return [prefix + t for t in _THEOREM_RE.findall(src)]


def lean_sources():
    for sub in ("tmpl", "ModelF", "ModelR", "ModelD", "Proofs", "Properties", "Witness", "Driver"):
        d = LEAN / sub
        if d.exists():
            yield from sorted(d.rglob("*.lean"))
            yield from sorted(d.rglob("*.tmpl"))


def _lean_obligations_locked(prop: str, extra_modules=(), thorough=False, pre=None) -> dict:
    """Regenerate model instances, build, grep for forbidden constructs and audit axioms.

    Returns dict(ok, obligations=[names], discharged=[names], problems=[str], checker_cmd).
    """
    res = {"ok": False, "obligations": [], "discharged": [], "problems": [], "axioms": {},
           "checker_cmd": "cd lean && python3 gen_instances.py --check && lake build Properties.%s Witness.%s driver && lake env lean .audit/%s.lean  (#print axioms on every theorem of Properties/%s.lean%s)" % (prop, prop, prop, prop, "; lake env leanchecker" if thorough else "")}
    if True:
        if pre is not None:
            # S2: regenerate Lean definitions from /repo's current source (translator), under the build lock
            try:
                msg = pre()
            except Exception as e:  # the translator could not process the source: the tie is broken
                msg = f"translator failed: {type(e).__name__}: {e}"
            if msg:
                res["problems"].append("S2 " + msg)
        p = subprocess.run([sys.executable, "gen_instances.py"], cwd=LEAN, capture_output=True, text=True)
        if p.returncode != 0:
            res["problems"].append("gen_instances failed: " + p.stdout[-400:] + p.stderr[-400:])
            return res
        p = subprocess.run([sys.executable, "gen_instances.py", "--check"], cwd=LEAN, capture_output=True, text=True)
        if p.returncode != 0:
            res["problems"].append("gen_instances --check: " + p.stdout[-400:])
            return res
        targets = [f"Properties.{prop}", "driver"] + list(extra_modules)
        if (LEAN / "Witness" / f"{prop}.lean").exists():
            targets.append(f"Witness.{prop}")
        p = subprocess.run(["lake", "build"] + targets, cwd=LEAN, capture_output=True, text=True, timeout=3000)
        if p.returncode != 0:
            errs = [l for l in (p.stdout + p.stderr).splitlines() if "error" in l.lower()]
            res["problems"].append("lake build failed: " + " | ".join(errs[:8]))
            return res
    # forbidden constructs anywhere in the Lean sources (comments stripped)
    for src in lean_sources():
        m = FORBIDDEN.search(strip_comments(src.read_text()))
        if m:
            res["problems"].append(f"forbidden construct {m.group(0)!r} in {src.relative_to(LEAN)}")
    propfile = LEAN / "Properties" / f"{prop}.lean"
    if not propfile.exists():
        res["problems"].append(f"missing {propfile}")
        return res
    names = theorems_of(propfile)
    mods = [f"Properties.{prop}"] + list(extra_modules)
    for m in extra_modules:
        names += theorems_of(LEAN / (m.replace(".", "/") + ".lean"))
    res["obligations"] = names
    audit_dir = LEAN / ".audit"
    audit_dir.mkdir(exist_ok=True)
    audit = audit_dir / f"{prop}.lean"
    audit.write_text("".join(f"import {m}\n" for m in mods) + "".join(f"#print axioms {n}\n" for n in names))
    p = subprocess.run(["lake", "env", "lean", str(audit)], cwd=LEAN, capture_output=True, text=True, timeout=1200)
    out = p.stdout + p.stderr
    if p.returncode != 0:
        res["problems"].append("audit failed: " + out[-600:])
        return res
    # parse "'X' depends on axioms: [a, b]" / "'X' does not depend on any axioms"
    for m in re.finditer(r"'(\S+)' depends on axioms: \[([^\]]*)\]", out.replace("\n", " ")):
        res["axioms"][m.group(1)] = [a.strip() for a in m.group(2).split(",") if a.strip()]
    for m in re.finditer(r"'(\S+)' does not depend on any axioms", out):
        res["axioms"][m.group(1)] = []
    for nme in names:
        ax = res["axioms"].get(nme)
        if ax is None:
            res["problems"].append(f"no axiom report for {nme}")
        elif set(ax) - ALLOWED_AXIOMS:
            res["problems"].append(f"{nme} depends on non-standard axioms {sorted(set(ax) - ALLOWED_AXIOMS)}")
        else:
            res["discharged"].append(nme)
    if thorough:
        p = subprocess.run(["lake", "env", "leanchecker"] + mods, cwd=LEAN, capture_output=True, text=True, timeout=3000)
        if p.returncode != 0:
            res["problems"].append("leanchecker failed: " + (p.stdout + p.stderr)[-400:])
    res["ok"] = not res["problems"] and len(res["discharged"]) == len(names) and len(names) > 0
    return res


def lean_obligations(prop: str, extra_modules=(), thorough=False, pre=None) -> dict:
    """Regenerate model instances and translated definitions, build, grep for forbidden constructs, audit axioms - all under one
    lock on the Lean project, so that checks running concurrently (possibly against different source trees, whose translated
    definitions differ) never see each other's half-built object files."""
    lock = open(LEAN / ".lock", "w")
    fcntl.flock(lock, fcntl.LOCK_EX)
    try:
        return _lean_obligations_locked(prop, extra_modules=extra_modules, thorough=thorough, pre=pre)
    finally:
        fcntl.flock(lock, fcntl.LOCK_UN)
        lock.close()


def s2_trace_core():
    """PRE_LEAN hook of the properties that rest on the D-Rex kernels: run the symbolic tracer on the
    current source and rewrite lean/Generated/TracedDrex.lean. Returns a problem string or None."""
    from .trace import tracer

    traced = tracer.trace_core()
    tracer.emit_lean(traced)
    bad = tracer.selfcheck(traced)
    if bad:
        return f"tracer self-check failed for {bad} (printed expression != what the Python function computes)"
    return None


# ---------------------------------------------------------------- result
class Result:
    """What a property module reports back."""

    def __init__(self, prop):
        self.prop = prop
        self.evaluations = 0
        self.nontrivial_keys = set()
        self.rule = ""
        self.samples = []
        self.traces = 0            # model-vs-implementation comparisons that agreed
        self.corr_mismatch = []    # [{kernel, input, impl, model}]
        self.violations = []       # [{key, what, replay}]
        self.dist = {}             # input distribution histogram
        self.notes = []
        self.assumptions = []
        self.partial = []

    def count(self, key, n=1):
        self.dist[key] = self.dist.get(key, 0) + n

    def nontrivial(self, obj):
        self.nontrivial_keys.add(hashlib.sha1(repr(obj).encode()).hexdigest()[:16])

    def sample(self, obj, cap=6):
        if len(self.samples) < cap:
            self.samples.append(obj)

    def mismatch(self, kernel, inp, impl, model, note=""):
        if len(self.corr_mismatch) < 20:
            self.corr_mismatch.append({"kernel": kernel, "input": inp, "impl": impl, "model": model, "note": note})
        self.count(f"corr_mismatch:{kernel}")

    def violation(self, key, what, replay):
        """A concrete failing input on the REAL code. `key` identifies the class of failure."""
        for v in self.violations:
            if v["key"] == key:
                v["count"] = v.get("count", 1) + 1
                return
        self.violations.append({"key": key, "what": what, "replay": replay, "count": 1})


def load_known(prop=None):
    """known_findings/Cxx.json: {"findings": [{"property","key","what",...}], "fixed": ["fixed: property=.. <commit> <what>"]}"""
    out = {"findings": [], "fixed": []}
    for p in sorted(KNOWN.glob("C*.json")):
        if prop is not None and p.stem != prop:
            continue
        d = json.loads(p.read_text())
        out["findings"] += d.get("findings", [])
        out["fixed"] += d.get("fixed", [])
    return out


def jsonable(o):
    try:
        import numpy as np
    except Exception:  # pragma: no cover
        np = None
    if isinstance(o, dict):
        return {str(k): jsonable(v) for k, v in o.items()}
    if isinstance(o, (list, tuple, set)):
        return [jsonable(v) for v in o]
    if np is not None:
        if isinstance(o, np.ndarray):
            return jsonable(o.tolist())
        if isinstance(o, np.generic):
            return jsonable(o.item())
    if isinstance(o, float):
        if math.isnan(o):
            return "NaN"
        if math.isinf(o):
            return "inf" if o > 0 else "-inf"
        return o
    if isinstance(o, (int, str, bool)) or o is None:
        return o
    if isinstance(o, complex):
        return repr(o)
    if isinstance(o, bytes):
        return o.hex()
    return repr(o)


def s2_trace_velocity():
    """PRE_LEAN hook of C18: re-trace the six flow callables of velocity.py for the six axis assignments and rewrite
    lean/Generated/TracedFlow.lean (bridge theorems: lean/Bridge/Flow.lean)."""
    from .trace import tracer

    traced = tracer.trace_velocity()
    tracer.emit_velocity(traced)
    bad = tracer.selfcheck_velocity(traced)
    if bad:
        return f"tracer self-check failed for {bad} (printed expression != what the Python function computes)"
    # utils.strain_increment around a symbolic eigvalsh (lean/Generated/TracedStrainIncrement.lean, lean/Bridge/StrainIncrement.lean)
    t2 = tracer.trace_strain_increment()
    tracer.emit_strain_increment(t2)
    bad = tracer.selfcheck_strain_increment(t2)
    if bad:
        return f"tracer self-check failed for {bad}"
    return None


def s2_trace_tensors():
    """PRE_LEAN hook of C10/C11/C12: re-trace the straight-line kernels of tensors.py (index conversions, Voigt vector/matrix maps,
    voigt_decompose, rotate, the four symmetry projectors) on symbolic arrays and rewrite lean/Generated/TracedTensors.lean
    (bridge theorems: lean/Bridge/Tensors.lean, lean/Bridge/TensorsRotate.lean)."""
    from .trace import tracer

    traced = tracer.trace_tensors()
    tracer.emit_tensors(traced)
    bad = tracer.selfcheck_tensors(traced, n=4)
    if bad:
        return f"tracer self-check failed for {bad} (printed expression != what the Python function computes)"
    return None


def s2_trace_gbs():
    """PRE_LEAN hook of C09: re-trace utils.apply_gbs on symbolic textures of 2 and 3 grains (every outcome of the mask comparisons)
    and rewrite lean/Generated/TracedGbs.lean (bridge theorems: lean/Bridge/Gbs.lean)."""
    from .trace import tracer

    traced = tracer.trace_gbs()
    tracer.emit_gbs(traced)
    bad = tracer.selfcheck_gbs(traced)
    if bad:
        return f"tracer self-check failed for n = {bad} (printed expression != what the Python function computes)"
    return s2_trace_extract()


def s2_trace_extract():
    """PRE_LEAN hook of C01 (and, through s2_trace_gbs, C09): re-trace utils.extract_vars on a symbolic 29-vector (two grains) and
    rewrite lean/Generated/TracedExtract.lean (bridge theorem: lean/Bridge/Extract.lean)."""
    from .trace import tracer

    traced = tracer.trace_extract(2)
    tracer.emit_extract(traced)
    bad = tracer.selfcheck_extract(traced)
    if bad:
        return f"tracer self-check failed for {bad} (printed expression != what the Python function computes)"
    return None


def s2_trace_diag():
    """PRE_LEAN hook of C13: re-trace stats._scatter_matrix (two grains, three axes), symmetry_pgr, coaxial_index, bingham_average and
    finite_strain with the LAPACK calls replaced by a recording shim that returns symbolic eigen-data, and rewrite
    lean/Generated/TracedDiag.lean (bridge theorems: lean/Bridge/Diag.lean)."""
    from .trace import tracer

    traced = tracer.trace_diag()
    tracer.emit_diag(traced)
    bad = tracer.selfcheck_diag(traced)
    if bad:
        return f"tracer self-check failed for {bad} (printed expression != what the Python function computes)"
    return None


def s2_trace_quat():
    """PRE_LEAN hook of C14: re-trace utils.quat_product and rewrite lean/Generated/TracedQuat.lean (bridge: lean/Bridge/Quat.lean)."""
    from .trace import tracer

    traced = tracer.trace_quat()
    tracer.emit_quat(traced)
    bad = tracer.selfcheck_quat(traced)
    if bad:
        return f"tracer self-check failed for {bad}"
    return None


def s2_trace_geom():
    """PRE_LEAN hook of C20: re-trace geometry.to_cartesian / to_spherical / poles (one symbolic orientation, six strings) and rewrite lean/Generated/TracedGeom.lean
    (bridge: lean/Bridge/Geom.lean)."""
    from .trace import tracer

    traced = tracer.trace_geom()
    tracer.emit_geom(traced)
    bad = tracer.selfcheck_geom(traced)
    if bad:
        return f"tracer self-check failed for {bad}"
    # the five counting kernels of stats.py on two symbolic cosines (bridge: lean/Bridge/Kernels.lean)
    tk = tracer.trace_kernels()
    tracer.emit_kernels(tk)
    bad = tracer.selfcheck_kernels(tk)
    if bad:
        return f"tracer self-check failed for {bad}"
    return None
