"""Hard regimes of update histories.

The scenario generator of harness/solver.py draws histories near the time origin, forward in time,
with 1-4 evenly spaced update calls. The properties quantify over ALL intervals, partitions and
velocity-gradient histories; round 3 of the seeded changes hid regressions exactly where that
generator never goes. The families below go there; each yields an ordinary scenario dict (with an
explicit `times` partition) so that solver.run_scenario / reference_F / scenario_json / replay work.

  far_origin     model time 5e3 ... 1e9 away from zero (also negative), update length 0.02 ... 1
  si_units       the same history in SI-like units: |L| ~ 1e-15 1/s, times ~ 1e15 s, origin 1e4 update lengths away
  reversed       descending partition (time_end < time_start) with a time/position dependent L
  aligned_pulse  L(t) coincides at the start, the midpoint and the end of every update interval but varies in between
  long_history   10-16 short update calls
  uneven         random partition including one interval 1e-6 of the span
  round_trip     forward over the partition and back again (F must return to the supplied one)
  closed_orbit   position-dependent L along a pathline that is back at its starting point at the end of EVERY update interval
                 (one full orbit per update) although the particle moves in between
"""
from __future__ import annotations

import numpy as np

from . import impl
from . import solver

FAMILIES = ["far_origin", "si_units", "reversed", "aligned_pulse", "long_history", "uneven", "round_trip", "closed_orbit"]


def make(rng, k, family, nmax=8, regimes=(4, 6)):
    kind = ["time", "both", "const", "space"][k % 4]
    sc = solver.make_scenario(rng, k, nmax=nmax, regimes=regimes, fields=[kind])
    sc["family"] = family
    n = sc["n_updates"]
    if family == "far_origin":
        T0 = float(rng.choice([5e3, -3e4, 1e6, -1e6, 1e9]))
        dt = float(rng.choice([0.02, 0.5, 1.0])) if abs(T0) < 1e8 else 1.0
        sc["times"] = (T0 + dt * np.arange(n + 1)).tolist()
        sc["field"].torig = T0
    elif family == "si_units":
        k_ = 3e-15
        dt = float(rng.choice([0.05, 0.3]))
        base = 1e4 * dt + dt * np.arange(n + 1)         # origin 1e4 update lengths away (100 Myr with 10 kyr updates)
        sc["field"].torig = float(base[0])
        sc["field"] = sc["field"].scaled(k_)
        sc["times"] = (base / k_).tolist()
    elif family == "reversed":
        sc["times"] = solver.times_of(sc)[::-1].tolist()
    elif family == "round_trip":
        # forward over the partition and back again: the deformation gradient returns to the supplied one
        # (Properties/C06Analytic.backward_undoes_forward; for L(t, x) by reversibility of the ODE)
        ts_ = solver.times_of(sc)
        sc["times"] = list(ts_) + list(ts_[::-1][1:])
    elif family == "aligned_pulse":
        # L(t) = L0 + 4u(1-u) L3 with u = (t/P) mod 1 and P a power of two: at the start, the midpoint and the end of every update
        # interval [2Pj, 2P(j+1)] the bump is EXACTLY zero (the three sampled gradients are bit-identical), in between it is not
        P = float(rng.choice([0.125, 0.25]))
        L0 = impl.make_L("general_trace", rng)
        sc["t0"] = 0.0
        sc["field"] = solver.LField(L0, pulse_P=P, L3=float(rng.uniform(1.0, 2.0)) * impl.make_L("general", rng))
        sc["times"] = (2 * P * np.arange(n + 1)).tolist()
    elif family == "closed_orbit":
        # x(t) = x0 + a (1 - cos(W t)) + b sin(W t), v = 0: get_position(time_start) == get_position(time_end) for every update
        # interval [jT, (j+1)T], T = 2 pi / W, while L(x(t)) varies by O(1) along the orbit
        n = min(n, 2)
        T = float(rng.uniform(0.3, 0.8))
        f0 = sc["field"]
        sc["t0"] = 0.0
        sc["field"] = solver.LField(f0.L0, Mx=0.6 * rng.normal(size=(3, 3, 3)), x0=rng.normal(size=3), v=np.zeros(3),
                                    orb_a=rng.normal(size=3), orb_b=rng.normal(size=3), orb_w=2 * np.pi / T)
        sc["times"] = (T * np.arange(n + 1)).tolist()
    elif family == "long_history":
        n = int(rng.integers(10, 17))
        sc["n_updates"] = n
        sc["span"] = float(n * rng.uniform(0.03, 0.1))
        sc["times"] = solver.times_of(sc).tolist()
    elif family == "uneven":
        n = max(n, 3)
        sc["n_updates"] = n
        cuts = np.sort(rng.uniform(0, 1, size=n - 1))
        cuts[0] = 1e-6                                   # one very short interval
        ts = sc["t0"] + sc["span"] * np.concatenate([[0.0], np.sort(cuts), [1.0]])
        sc["times"] = ts.tolist()
    else:
        raise ValueError(family)
    sc["n_updates"] = len(sc["times"]) - 1
    sc["field_kind"] = f"{family}:{kind}"
    return sc


def tol_of(sc):
    return 5e-3 + 1e-3 * (sc["n_updates"] + 2 * solver.accumulated_strain(sc))


def check_history(res, prop, sc, want=("count", "valid", "F")):
    """drive the real update_orientations over the scenario and evaluate the clauses of C01 / C06 that hold for every history"""
    m = solver.build_mineral(sc)
    params = solver.params_of(sc)
    fld = sc["field"]
    ts = solver.times_of(sc)
    F = np.array(sc["F0"], float)
    rep = solver.scenario_json(sc)
    fam = sc.get("family", "history")
    n0 = len(m.orientations)
    res.count(f"hard:{fam}")
    for u, (a, b) in enumerate(zip(ts[:-1], ts[1:])):
        before = [x.copy() for x in m.orientations + m.fractions]
        try:
            F = np.array(m.update_orientations(params, F, fld, (a, b, fld.pos)))
        except Exception as e:  # noqa: BLE001
            res.violation(f"hard:{fam}:raises:{type(e).__name__}", f"update {u} over [{a!r}, {b!r}] raised {type(e).__name__}: {str(e)[:160]}", rep)
            return None
        res.evaluations += 1
        if "count" in want:
            if len(m.orientations) != n0 + u + 1 or len(m.fractions) != n0 + u + 1:
                res.violation(f"hard:{fam}:append:count", f"update {u} over [{a!r}, {b!r}] left {len(m.orientations)} snapshots instead of {n0 + u + 1}", rep)
                return None
            now = m.orientations[:-1] + m.fractions[:-1]
            if len(now) != len(before) or not all(np.array_equal(x, y) for x, y in zip(now, before)):
                res.violation(f"hard:{fam}:append:earlier_snapshot_altered", f"update {u} altered an earlier snapshot", rep)
        if "valid" in want:
            A, f = m.orientations[-1], m.fractions[-1]
            strain = solver.accumulated_strain(sc, times=ts[: u + 2])
            tol = 5e-3 + 1e-3 * (u + 1 + 2 * strain)
            if not (np.isfinite(A).all() and np.isfinite(f).all()):
                res.violation(f"hard:{fam}:finite", f"snapshot after update {u} has non-finite entries", rep)
                return None
            if (f < 0).any() or abs(f.sum() - 1) > 1e-9 or np.abs(A).max() > 1:
                res.violation(f"hard:{fam}:simplex_or_entries", f"snapshot after update {u}: min f {f.min():.3e}, sum {f.sum()!r}, max|A| {np.abs(A).max()!r}", rep)
            dev = float(np.abs(np.einsum("gij,gkj->gik", A, A) - np.eye(3)).max())
            if dev > tol:
                res.violation(f"hard:{fam}:orthonormal", f"snapshot after update {u}: max|A.A^T - I| = {dev:.3e} > {tol:.3e}", rep)
    if "F" in want:
        Fref = solver.reference_F(sc)
        rel = float(np.abs(F - Fref).max() / max(1.0, np.abs(Fref).max()))
        tol = tol_of(sc)
        if not np.isfinite(F).all() or rel > tol:
            res.violation(f"hard:{fam}:F_solution", f"returned F differs from the solution of dF/dt = L F over the partition "
                          f"[{ts[0]!r} ... {ts[-1]!r}] ({len(ts) - 1} updates): rel err {rel:.3e} > {tol:.3e}", rep)
    return m, F


def run(res, rng, ctx, prop, want=("count", "valid", "F"), families=FAMILIES, per_family=None, regimes=(4, 6)):
    per_family = per_family or (1 if not ctx["thorough"] else 5)
    k = int(rng.integers(0, 1000))
    for fam in families:
        for _ in range(per_family):
            sc = make(rng, k, fam, regimes=regimes)
            k += 1
            res.nontrivial((prop, "hard", fam, sc["tex_seed"]))
            check_history(res, prop, sc, want)


def check_logging_invariance(res, prop, sc):
    """the numbers do not depend on the logging configuration: the same history with a DEBUG-level handler attached
    (pydrex.io.logfile_enable, the documented way to get a log file) gives bit-identical snapshots and F"""
    import io as _io

    from pydrex import io as pio

    m1, F1, _ = solver.run_scenario(sc, record=False)
    buf = _io.StringIO()
    with pio.logfile_enable(buf):
        m2, F2, _ = solver.run_scenario(sc, record=False)
    res.evaluations += 2
    res.count("hard:debug_logging_twin")
    rep = solver.scenario_json(sc)
    same = (len(m1.orientations) == len(m2.orientations)
            and all(np.array_equal(a, b, equal_nan=True) for a, b in zip(m1.orientations + m1.fractions, m2.orientations + m2.fractions))
            and all(np.array_equal(a, b, equal_nan=True) for a, b in zip(F1, F2)))
    if not same:
        d = max((float(np.abs(a - b).max()) for a, b in zip(m1.orientations + m1.fractions, m2.orientations + m2.fractions) if a.shape == b.shape), default=float("nan"))
        res.violation("hard:debug_logging:results_differ", f"the same history with a DEBUG-level log handler attached gives other snapshots (max diff {d:.3e}); "
                      "logging must not change the numbers", rep)
    return m2
