"""S2 — translator: symbolic tracer of the straight-line arithmetic kernels of `pydrex.core`.

With NUMBA_DISABLE_JIT=1 the `@njit` kernels are plain Python functions. They are called UNMODIFIED
on object-dtype numpy arrays of `Expr` leaves; the module-global `np` of `pydrex.core` is replaced
(for the duration of the trace) by a shim whose `empty/zeros/abs/exp/...` build symbolic values.
Constant-bound loops unroll by execution; a data-dependent comparison forks the trace (every
outcome is enumerated), so the result is a finite tree `if c then e1 else e2` of arithmetic
expressions in the inputs. The tree is printed as Lean definitions over the reals
(`lean/Generated/TracedDrex.lean`); `lean/Bridge/Drex.lean` proves `traced_f = ModelR.f`.
The tracer is trusted only as far as "the printed expression is what the Python function computes";
`selfcheck()` evaluates the traced expressions and the real functions on random floats.
"""
from __future__ import annotations

import math
import os
import pathlib

os.environ.setdefault("NUMBA_DISABLE_JIT", "1")

import re

import numpy as np

GEN = pathlib.Path(__file__).resolve().parent.parent.parent / "lean" / "Generated"


class Oracle:
    def __init__(self, prefix):
        self.prefix = list(prefix)
        self.taken = []
        self.conds = []

    def decide(self, cond):
        i = len(self.taken)
        d = self.prefix[i] if i < len(self.prefix) else True
        self.taken.append(d)
        self.conds.append(cond)
        return d


_ORACLE = None


def lit(x):
    x = float(x)
    if math.isinf(x) or math.isnan(x):
        raise ValueError("non-finite literal in trace")
    if x == int(x) and abs(x) < 1e15:
        s = str(int(x))
    else:
        s = repr(x)
    return f"({s})" if s.startswith("-") else s


class Expr:
    __array_ufunc__ = None  # numpy scalars defer to our reflected operators
    __slots__ = ("s", "v", "parts", "islit")

    def __init__(self, s, v=None, parts=None, islit=False):
        self.s = s   # Lean text
        self.v = v   # callable env -> float  (for the self check)
        self.parts = parts  # for conditions: (lhs Expr, op, rhs Expr)
        self.islit = islit

    @staticmethod
    def of(x):
        if isinstance(x, np.ndarray) and x.ndim == 0:
            x = x.item()
        if isinstance(x, Expr):
            return x
        c = float(x)
        return Expr(lit(c), lambda env, c=c: c, islit=True)

    def _bin(self, o, op, f, swap=False):
        if isinstance(o, np.ndarray):   # scalar (op) array: elementwise, as numpy would broadcast
            flat = [self._bin(e, op, f, swap) for e in o.ravel()]
            out = np.empty(len(flat), dtype=object)
            out[:] = flat
            return out.reshape(o.shape)
        o = Expr.of(o)
        a, b = (o, self) if swap else (self, o)
        return Expr(f"({a.s} {op} {b.s})", lambda env, a=a, b=b: f(a.v(env), b.v(env)))

    def __add__(self, o): return self._bin(o, "+", lambda x, y: x + y)
    def __radd__(self, o): return self._bin(o, "+", lambda x, y: x + y, True)
    def __sub__(self, o): return self._bin(o, "-", lambda x, y: x - y)
    def __rsub__(self, o): return self._bin(o, "-", lambda x, y: x - y, True)
    def __mul__(self, o): return self._bin(o, "*", lambda x, y: x * y)
    def __rmul__(self, o): return self._bin(o, "*", lambda x, y: x * y, True)
    def __truediv__(self, o): return self._bin(o, "/", lambda x, y: x / y)
    def __rtruediv__(self, o): return self._bin(o, "/", lambda x, y: x / y, True)
    def __neg__(self): return Expr(f"(-{self.s})", lambda env, a=self: -a.v(env))

    def __pow__(self, o):
        if isinstance(o, (int, np.integer)) and int(o) == 2:
            return Expr(f"({self.s} * {self.s})", lambda env, a=self: a.v(env) * a.v(env))
        if isinstance(o, (int, np.integer)) and int(o) == 3:
            return Expr(f"(({self.s} * {self.s}) * {self.s})", lambda env, a=self: a.v(env) ** 3)
        o = Expr.of(o)
        return Expr(f"(Rpow {self.s} {o.s})", lambda env, a=self, b=o: a.v(env) ** b.v(env))

    def __rpow__(self, o):
        o = Expr.of(o)
        return Expr(f"(Rpow {o.s} {self.s})", lambda env, a=o, b=self: a.v(env) ** b.v(env))

    def _cmp(self, o, op, f, swap=False):
        if isinstance(o, np.ndarray) and o.ndim > 0:     # scalar (cmp) array: elementwise, each element forks on its own
            return np.array([self._cmp(e, op, f, swap) for e in o.ravel()], dtype=bool).reshape(o.shape)
        o = Expr.of(o)
        a, b = (o, self) if swap else (self, o)
        cond = Expr(f"({a.s} {op} {b.s})", lambda env, a=a, b=b: f(a.v(env), b.v(env)), parts=(a, op, b))
        return _ORACLE.decide(cond)

    def __lt__(self, o): return self._cmp(o, "<", lambda x, y: x < y)
    def __gt__(self, o): return self._cmp(o, "<", lambda x, y: x < y, True)   # self > o  <=>  o < self
    def __le__(self, o): return self._cmp(o, "≤", lambda x, y: x <= y)
    def __ge__(self, o): return self._cmp(o, "≤", lambda x, y: x <= y, True)

    def __bool__(self):
        raise TypeError("symbolic value used as a truth value")


def sabs(x):
    if isinstance(x, np.ndarray):
        return np.array([sabs(t) for t in x.ravel()], dtype=object).reshape(x.shape)
    if isinstance(x, Expr):
        return Expr(f"(Rabs {x.s})", lambda env, a=x: abs(a.v(env)))
    return np.abs(x)


def sexp(x):
    if isinstance(x, np.ndarray) and x.dtype == object:
        return np.array([sexp(t) for t in x.ravel()], dtype=object).reshape(x.shape).view(SymArray)
    if isinstance(x, Expr):
        return Expr(f"(Rexp {x.s})", lambda env, a=x: math.exp(a.v(env)))
    return np.exp(x)


class _NanResult:
    """`np.full(shape, np.nan)`: the callable returns an all-NaN array (modelled as `none`)"""


NAN_RESULT = _NanResult()


class NpShim:
    """stands in for the module-global `np` of the traced module"""

    def __init__(self, real):
        self._real = real

    def __getattr__(self, name):
        return getattr(self._real, name)

    def empty(self, shape, *a, **k):
        return self._real.empty(shape, dtype=object)

    def zeros(self, shape, *a, **k):
        z = self._real.empty(shape, dtype=object)
        z[...] = 0.0
        return z

    def abs(self, x):
        return sabs(x)

    def exp(self, x):
        return sexp(x)

    def _elementwise(self, f, *arrs):
        a0 = self._real.asarray(arrs[0], dtype=object)
        out = self._real.empty(a0.shape, dtype=object).view(SymArray)
        others = [self._real.broadcast_to(self._real.asarray(a, dtype=object), a0.shape) for a in arrs[1:]]
        for idx in self._real.ndindex(a0.shape):
            out[idx] = f(a0[idx], *[o[idx] for o in others])
        return out

    def cos(self, x):
        if isinstance(x, self._real.ndarray) and x.dtype == object:
            return self._elementwise(self.cos, x)
        return Expr(f"(Rcos {x.s})", lambda env, a=x: math.cos(a.v(env))) if isinstance(x, Expr) else self._real.cos(x)

    def sin(self, x):
        if isinstance(x, self._real.ndarray) and x.dtype == object:
            return self._elementwise(self.sin, x)
        return Expr(f"(Rsin {x.s})", lambda env, a=x: math.sin(a.v(env))) if isinstance(x, Expr) else self._real.sin(x)

    def arccos(self, x):
        if isinstance(x, self._real.ndarray) and x.dtype == object:
            return self._elementwise(self.arccos, x)
        return Expr(f"(Racos {x.s})", lambda env, a=x: math.acos(a.v(env))) if isinstance(x, Expr) else self._real.arccos(x)

    def arctan2(self, y, x):
        if isinstance(y, self._real.ndarray) and y.dtype == object:
            return self._elementwise(self.arctan2, y, x)
        y, x = Expr.of(y), Expr.of(x)
        return Expr(f"(Ratan2 {y.s} {x.s})", lambda env, a=y, b=x: math.atan2(a.v(env), b.v(env)))

    def sqrt(self, x):
        if isinstance(x, self._real.ndarray) and x.dtype == object:
            return self._elementwise(self.sqrt, x)
        if isinstance(x, Expr):
            return Expr(f"(Rsqrt {x.s})", lambda env, a=x: math.sqrt(a.v(env)))
        if isinstance(x, (int, float)) and float(x) == 2.0:
            return Expr("sqrt2", lambda env: math.sqrt(2.0))    # the model's name for `np.sqrt(2)`
        return self._real.sqrt(x)

    def where(self, c, a, b):
        """elementwise `np.where(c, a, b)` with symbolic truthiness: an entry is falsy iff it is zero"""
        c, a, b = self._real.asarray(c, dtype=object), self._real.asarray(a, dtype=object), self._real.asarray(b, dtype=object)
        out = self._real.empty(c.shape, dtype=object)
        for idx in self._real.ndindex(c.shape):
            ci = c[idx]
            if isinstance(ci, Expr):
                ai, bi = Expr.of(a[idx]), Expr.of(b[idx])
                out[idx] = Expr(f"(if (({ci.s} ≤ 0) ∧ (0 ≤ {ci.s})) then {bi.s} else {ai.s})",
                                lambda env, ci=ci, ai=ai, bi=bi: (bi.v(env) if ci.v(env) == 0 else ai.v(env)))
            else:
                out[idx] = a[idx] if ci else b[idx]
        return out

    def triu(self, m, k=0):
        m = self._real.asarray(m, dtype=object)
        out = self._real.empty(m.shape, dtype=object)
        for i in range(m.shape[0]):
            for j in range(m.shape[1]):
                out[i, j] = m[i, j] if j - i >= k else 0.0
        return out

    @property
    def pi(self):
        return Expr("Rpi", lambda env: math.pi)

    def full(self, shape, val, *a, **k):
        if isinstance(val, float) and math.isnan(val):
            return NAN_RESULT
        return self._real.full(shape, val, *a, **k)


def sym_matrix(name):
    M = np.empty((3, 3), dtype=object)
    for i in range(3):
        for j in range(3):
            M[i, j] = Expr(f"({name} {i} {j})", lambda env, i=i, j=j, name=name: env[name][i][j])
    return M


def sym_vector(name, n):
    v = np.empty(n, dtype=object)
    for i in range(n):
        v[i] = Expr(f"({name} {i})", lambda env, i=i, name=name: env[name][i])
    return v


def sym_scalar(name):
    return Expr(name, lambda env, name=name: env[name])


def explore(fn):
    """run `fn()` under every outcome of its data-dependent comparisons; returns a decision tree
    ('leaf', value) | ('if', cond, tree_true, tree_false)"""
    global _ORACLE
    paths = []
    stack = [[]]
    while stack:
        prefix = stack.pop()
        _ORACLE = Oracle(prefix)
        try:
            val = fn()
        except TypeError:
            raise
        except Exception as e:  # noqa: BLE001  (the traced function raised on this path)
            val = ("raise", type(e).__name__)
        taken, conds = _ORACLE.taken, _ORACLE.conds
        paths.append((taken, conds, val))
        for i in range(len(prefix), len(taken)):
            stack.append(taken[:i] + [not taken[i]])
        if len(paths) > 64:
            raise RuntimeError("too many paths")
    _ORACLE = None

    def build(depth, sel):
        cands = [p for p in paths if p[0][:depth] == sel]
        if len(cands) == 1 and len(cands[0][0]) == depth:
            return ("leaf", cands[0][2])
        cond = cands[0][1][depth]
        return ("if", cond, build(depth + 1, sel + [True]), build(depth + 1, sel + [False]))

    return build(0, [])


def cond_operands(tree, acc=None):
    """distinct non-literal operands of the fork conditions (by identity), in first-seen order"""
    acc = [] if acc is None else acc
    if tree[0] == "if":
        for e in (tree[1].parts[0], tree[1].parts[2]):
            if not e.islit and not any(e is x for x in acc):
                acc.append(e)
        cond_operands(tree[2], acc)
        cond_operands(tree[3], acc)
    return acc


def tree_lean(tree, pick, names=None):
    """`names`: list of (Expr, lean_application_text) for fork operands that were emitted as own defs"""
    if tree[0] == "leaf":
        return Expr.of(pick(tree[1])).s
    a, op, b = tree[1].parts

    def nm(e):
        for x, t in (names or []):
            if x is e:
                return t
        return e.s

    return f"(if ({nm(a)} {op} {nm(b)}) then {tree_lean(tree[2], pick, names)} else {tree_lean(tree[3], pick, names)})"


def tree_eval(tree, pick, env):
    while tree[0] == "if":
        tree = tree[2] if tree[1].v(env) else tree[3]
    return Expr.of(pick(tree[1])).v(env)


def trace_core():
    """Trace the kernels of pydrex.core; returns {lean_name: (params, kind, tree)}"""
    from pydrex import core

    real_np = core.np
    core.np = NpShim(real_np)
    out = {}
    try:
        D, A, L, G = sym_matrix("D"), sym_matrix("A"), sym_matrix("L"), sym_matrix("G")
        r = sym_vector("r", 4)
        g0 = sym_scalar("g0")
        out["traced_slipInvariants"] = ("(D A : Mat3)", "vec4", explore(lambda: core._get_slip_invariants(D, A)))
        out["traced_deformationRate"] = ("(A : Mat3) (r : Fin 4 → ℝ)", "mat3",
                                         explore(lambda: core._get_deformation_rate(core.MineralPhase.olivine, A, r)))
        out["traced_slipRateSoftest"] = ("(G L : Mat3)", "scalar", explore(lambda: core._get_slip_rate_softest(G, L)))
        out["traced_orientationChange"] = ("(A L G : Mat3) (g0 : ℝ)", "mat3",
                                           explore(lambda: core._get_orientation_change(A, L, G, g0)))
        # strain energy with a symbolic (finite) CRSS row; infinite entries are covered by S1 only
        p, n, lam = sym_scalar("p"), sym_scalar("n"), sym_scalar("lam")
        tau = sym_vector("tau", 4)
        out["traced_strainEnergy"] = (
            "(tau r : Fin 4 → ℝ) (g0 p n lam : ℝ)", "scalar",
            explore(lambda: _call_by_name(core._get_strain_energy, crss=tau, slip_rates=r, slip_indices=real_np.arange(4), slip_rate_softest=g0,
                                          stress_exponent=p, deformation_exponent=n, nucleation_efficiency=lam)))
        # K4: relative slip rates of olivine, for EVERY ranking of the four systems (the ranking is an integer array: no forks)
        import itertools
        Iv = sym_vector("I", 4)
        for perm in itertools.permutations(range(4)):
            out["traced_slipRatesOlivine_" + "".join(map(str, perm))] = (
                "(I tau : Fin 4 → ℝ) (n : ℝ)", "vec4",
                explore(lambda perm=perm: _call_by_name(core._get_slip_rates_olivine, invariants=Iv, slip_indices=real_np.array(perm), crss=tau,
                                                        deformation_exponent=n)))
    finally:
        core.np = real_np
    return out


def emit_lean(traced, path=None):
    lines = ["-- GENERATED on every run by harness/trace/tracer.py from /repo/src/pydrex/core.py -- do not edit",
             "import ModelR.Drex", "noncomputable section", "namespace ModelR", ""]
    for name, (params, kind, tree) in traced.items():
        ops = cond_operands(tree)
        argnames = " ".join(w.strip("()").split(":")[0].strip() for w in params.replace(") (", ")|(").split("|"))
        names = []
        for k, e in enumerate(ops):
            # every operand of a data-dependent comparison gets its own definition (used by the bridge proofs)
            lines.append(f"def {name}_c{k} {params} : ℝ :=\n  {e.s}\n")
            names.append((e, f"({name}_c{k} {argnames})"))
        if kind == "scalar":
            lines.append(f"def {name} {params} : ℝ :=\n  {tree_lean(tree, lambda v: v, names)}\n")
        elif kind == "vec4":
            body = "\n".join(f"  | {i} => {tree_lean(tree, lambda v, i=i: v[i])}" for i in range(4))
            lines.append(f"def {name} {params} : Fin 4 → ℝ := fun s => match s with\n{body}\n")
        elif kind == "mat3":
            body = "\n".join(f"  | {i}, {j} => {tree_lean(tree, lambda v, i=i, j=j: v[i, j])}" for i in range(3) for j in range(3))
            lines.append(f"def {name} {params} : Mat3 := fun i j => match i, j with\n{body}\n")
    lines += ["end ModelR", ""]
    text = "\n".join(lines)
    path = path or (GEN / "TracedDrex.lean")
    path.parent.mkdir(exist_ok=True)
    if not path.exists() or path.read_text() != text:
        path.write_text(text)
    return text


def selfcheck(traced, n=40, seed=0):
    """The traced expression trees evaluate to what the real functions return (validates the tracer)."""
    from pydrex import core

    rng = np.random.default_rng(seed)
    bad = []
    for _ in range(n):
        env = {"D": rng.normal(size=(3, 3)), "A": rng.normal(size=(3, 3)), "L": rng.normal(size=(3, 3)),
               "G": rng.normal(size=(3, 3)) * rng.choice([1.0, 1e-9]), "r": rng.normal(size=4), "g0": float(rng.normal()),
               "p": float(rng.uniform(1, 2)), "n": float(rng.uniform(2.1, 5)), "lam": float(rng.uniform(0, 10)),
               "tau": rng.uniform(0.5, 4, size=4)}
        real = {
            "traced_slipInvariants": core._get_slip_invariants(env["D"], env["A"]),
            "traced_deformationRate": core._get_deformation_rate(0, env["A"], env["r"]),
            "traced_slipRateSoftest": core._get_slip_rate_softest(env["G"], env["L"]),
            "traced_orientationChange": core._get_orientation_change(env["A"], env["L"], env["G"], env["g0"]),
        }
        real["traced_strainEnergy"] = _call_by_name(core._get_strain_energy, crss=env["tau"], slip_rates=env["r"], slip_indices=np.arange(4), slip_rate_softest=env["g0"],
                                                     stress_exponent=env["p"], deformation_exponent=env["n"], nucleation_efficiency=env["lam"])
        env["I"] = rng.normal(size=4)
        for name in traced:
            if name.startswith("traced_slipRatesOlivine_"):
                perm = np.array([int(ch) for ch in name.rsplit("_", 1)[1]])
                real[name] = _call_by_name(core._get_slip_rates_olivine, invariants=env["I"], slip_indices=perm, crss=env["tau"],
                                           deformation_exponent=env["n"])
        for name, want in real.items():
            _, kind, tree = traced[name]
            if kind == "scalar":
                got = tree_eval(tree, lambda v: v, env)
            elif kind == "vec4":
                got = np.array([tree_eval(tree, lambda v, i=i: v[i], env) for i in range(4)])
            else:
                got = np.array([[tree_eval(tree, lambda v, i=i, j=j: v[i, j], env) for j in range(3)] for i in range(3)])
            if not np.allclose(got, want, rtol=1e-12, atol=1e-300):
                bad.append(name)
    return sorted(set(bad))


if __name__ == "__main__":
    t = trace_core()
    txt = emit_lean(t)
    print(len(txt), "bytes;", "selfcheck mismatches:", selfcheck(t))


# ------------------------------------------------------------------ velocity.py (flows)
AXES = [(0, 1), (0, 2), (1, 0), (1, 2), (2, 0), (2, 1)]


def _is_none_leaf(v):
    return v is NAN_RESULT or (isinstance(v, tuple) and len(v) == 2 and v[0] == "raise")


def opt_tree_lean(tree, kind):
    if tree[0] == "leaf":
        v = tree[1]
        if _is_none_leaf(v):
            return "none"
        if kind == "vec3":
            body = " ".join(f"| {i} => {Expr.of(v[i]).s}" for i in range(3))
            return f"(some (fun i => match i with {body}))"
        body = " ".join(f"| {i}, {j} => {Expr.of(v[i, j]).s}" for i in range(3) for j in range(3))
        return f"(some (fun i j => match i, j with {body}))"
    return f"(if {tree[1].s} then {opt_tree_lean(tree[2], kind)} else {opt_tree_lean(tree[3], kind)})"


def opt_tree_eval(tree, kind, env):
    while tree[0] == "if":
        tree = tree[2] if tree[1].v(env) else tree[3]
    v = tree[1]
    if _is_none_leaf(v):
        return None
    return np.array([[Expr.of(v[i, j]).v(env) for j in range(3)] for i in range(3)]) if kind == "mat3" else np.array([Expr.of(v[i]).v(env) for i in range(3)])


def trace_velocity():
    from pydrex import velocity as V

    real_np = V.np
    V.np = NpShim(real_np)
    out = {}
    try:
        x = sym_vector("x", 3)
        U, d, sr = sym_scalar("U"), sym_scalar("d"), sym_scalar("sr")
        for (a, b) in AXES:
            tag = f"{a}{b}"
            out[f"traced_simpleShearVel_{tag}"] = ("(sr : ℝ) (x : Vec3)", "vec3", explore(lambda: V._simple_shear_2d(0.0, x, a, b, sr)))
            out[f"traced_simpleShearGrad_{tag}"] = ("(sr : ℝ) (x : Vec3)", "mat3", explore(lambda: V._simple_shear_2d_grad(0.0, x, a, b, sr)))
            out[f"traced_cellVel_{tag}"] = ("(U d : ℝ) (x : Vec3)", "vec3", explore(lambda: V._cell_2d(0.0, x, a, b, U, d)))
            out[f"traced_cellGrad_{tag}"] = ("(U d : ℝ) (x : Vec3)", "mat3", explore(lambda: V._cell_2d_grad(0.0, x, a, b, U, d)))
            out[f"traced_cornerVel_{tag}"] = ("(U : ℝ) (x : Vec3)", "vec3", explore(lambda: V._corner_2d(0.0, x, a, b, U)))
            out[f"traced_cornerGrad_{tag}"] = ("(U : ℝ) (x : Vec3)", "mat3", explore(lambda: V._corner_2d_grad(0.0, x, a, b, U)))
    finally:
        V.np = real_np
    return out


def emit_velocity(traced, path=None):
    lines = ["-- GENERATED on every run by harness/trace/tracer.py from /repo/src/pydrex/velocity.py -- do not edit",
             "import ModelR.Flow", "noncomputable section", "namespace ModelR", ""]
    for name, (params, kind, tree) in traced.items():
        ty = "Vec3" if kind == "vec3" else "Mat3"
        lines.append(f"def {name} {params} : Option {ty} :=\n  {opt_tree_lean(tree, kind)}\n")
    lines += ["end ModelR", ""]
    text = "\n".join(lines)
    path = path or (GEN / "TracedFlow.lean")
    if not path.exists() or path.read_text() != text:
        path.write_text(text)
    return text


def selfcheck_velocity(traced, n=30, seed=0):
    from pydrex import velocity as V

    rng = np.random.default_rng(seed)
    bad = []
    fns = {"simpleShearVel": (V._simple_shear_2d, ("sr",)), "simpleShearGrad": (V._simple_shear_2d_grad, ("sr",)),
           "cellVel": (V._cell_2d, ("U", "d")), "cellGrad": (V._cell_2d_grad, ("U", "d")),
           "cornerVel": (V._corner_2d, ("U",)), "cornerGrad": (V._corner_2d_grad, ("U",))}
    for _ in range(n):
        env = {"x": rng.uniform(-1.2, 1.2, size=3), "U": float(rng.normal()), "d": float(rng.uniform(1.5, 3)), "sr": float(rng.normal())}
        if rng.random() < 0.2:
            env["x"] = np.zeros(3)
        for name, (params, kind, tree) in traced.items():
            base, tag = name[len("traced_"):].rsplit("_", 1)
            a, b = int(tag[0]), int(tag[1])
            fn, ps = fns[base]
            try:
                want = np.asarray(fn(0.0, env["x"], a, b, *[env[p] for p in ps]), float)
                if np.isnan(want).all():
                    want = None
            except ValueError:
                want = None
            got = opt_tree_eval(tree, kind, env)
            if (want is None) != (got is None) or (want is not None and not np.allclose(got, want, rtol=1e-12, atol=1e-300)):
                bad.append(name)
    return sorted(set(bad))


def _call_by_name(fn, **named):
    """call a private kernel with the arguments its CURRENT signature names (an unused parameter that was dropped, or a
    reordering, is not a behaviour change); an unknown parameter name is an error: the tie is then genuinely broken"""
    import inspect

    f = getattr(fn, "py_func", fn)
    params = list(inspect.signature(f).parameters)
    missing = [p_ for p_ in params if p_ not in named]
    if missing:
        raise TypeError(f"{getattr(f, '__name__', f)} has parameters the translator does not know: {missing}")
    return fn(*[named[p_] for p_ in params])



# ------------------------------------------------------------------ tensors.py
class SymArray(np.ndarray):
    """object array of symbolic scalars; a cast to a floating dtype is the identity on symbolic values"""

    def astype(self, dtype, *a, **k):
        if np.dtype(dtype).kind == "f":
            return self.copy()
        return super().astype(dtype, *a, **k)

    # in-place arithmetic with a symbolic scalar (numpy cannot defer an in-place ufunc to the scalar's reflected operator)
    def _inplace(self, o, fwd):
        plain = self.view(np.ndarray)
        self[...] = fwd(plain, o)
        return self

    def __itruediv__(self, o): return self._inplace(o, lambda a, b: a / b)
    def __imul__(self, o): return self._inplace(o, lambda a, b: a * b)
    def __iadd__(self, o): return self._inplace(o, lambda a, b: a + b)
    def __isub__(self, o): return self._inplace(o, lambda a, b: a - b)


def _sym_nd(name, shape):
    a = np.empty(shape, dtype=object).view(SymArray)
    for idx in np.ndindex(shape):
        a[idx] = Expr("(" + name + " " + " ".join(str(i) for i in idx) + ")", lambda env, idx=idx, name=name: env[name][idx])
    return a


def trace_tensors():
    from pydrex import tensors as T

    real_np = T.np
    T.np = NpShim(real_np)
    out = {}
    try:
        M, Tn, v = _sym_nd("M", (6, 6)), _sym_nd("T", (3, 3, 3, 3)), _sym_nd("v", (21,))
        out["traced_voigtToTensor"] = ("(M : Mat6)", explore(lambda: T.voigt_to_elastic_tensor(M)))
        out["traced_tensorToVoigt"] = ("(T : Ten4)", explore(lambda: T.elastic_tensor_to_voigt(Tn)))
        out["traced_matrixToVector"] = ("(M : Mat6)", explore(lambda: T.voigt_matrix_to_vector(M)))
        out["traced_vectorToMatrix"] = ("(v : Vec21)", explore(lambda: T.voigt_vector_to_matrix(v)))
        out["traced_voigtDilat"] = ("(M : Mat6)", explore(lambda: T.voigt_decompose(M)[0]))
        out["traced_voigtDeviat"] = ("(M : Mat6)", explore(lambda: T.voigt_decompose(M)[1]))
        Q = _sym_nd("Q", (3, 3))
        out["traced_rotate"] = ("(T : Ten4) (Q : Mat3)", explore(lambda: T.rotate(Tn, Q)))
        for nm in ("mono", "ortho", "tetr", "hex"):
            out[f"traced_{nm}Project"] = ("(v : Vec21)", explore(lambda nm=nm: getattr(T, nm + "_project")(v)))
    finally:
        T.np = real_np
    return out


_TYPES = {(6, 6): ("Mat6", ["i", "j"]), (3, 3): ("Mat3", ["i", "j"]), (3, 3, 3, 3): ("Ten4", ["p", "q", "r", "s"]), (21,): ("Vec21", ["k"])}


def emit_tensors(traced, path=None):
    lines = ["-- GENERATED on every run by harness/trace/tracer.py from /repo/src/pydrex/tensors.py -- do not edit",
             "import ModelR.Tensors", "noncomputable section", "namespace ModelR.Tensors", ""]
    for name, (params, tree) in traced.items():
        assert tree[0] == "leaf", "tensor kernels are straight-line"
        arr = np.asarray(tree[1], dtype=object)
        ty, vars_ = _TYPES[arr.shape]
        entries = {idx: Expr.of(arr[idx]).s for idx in np.ndindex(arr.shape)}
        if sum(len(e) for e in entries.values()) > 100000:   # large kernels: one definition per entry keeps unfolding cheap
            binders = params
            args = " ".join(w for w in re.findall(r"\((.*?) :", params)) 
            for idx, e in entries.items():
                lines.append(f"def {name}_{''.join(str(i) for i in idx)} {binders} : ℝ :=\n  {e}\n")
            entries = {idx: f"{name}_{''.join(str(i) for i in idx)} {args}" for idx in entries}
        cases = "\n".join("  | " + ", ".join(str(i) for i in idx) + " => " + e for idx, e in entries.items())
        if ty == "Vec21":   # Lean's exhaustiveness check gives up on 21 Fin literals: match on the value, with an unreachable default
            lines.append(f"def {name} {params} : {ty} := fun k => match k.val with\n{cases}\n  | _ => 0\n")
        else:
            lines.append(f"def {name} {params} : {ty} := fun {' '.join(vars_)} => match {', '.join(vars_)} with\n{cases}\n")
    lines += ["end ModelR.Tensors", ""]
    text = "\n".join(lines)
    path = path or (GEN / "TracedTensors.lean")
    if not path.exists() or path.read_text() != text:
        path.write_text(text)
    return text


def selfcheck_tensors(traced, n=10, seed=0):
    from pydrex import tensors as T

    rng = np.random.default_rng(seed)
    bad = []
    for _ in range(n):
        Msym = rng.normal(size=(6, 6))
        Msym = Msym + Msym.T
        Msym[0, 3] = Msym[3, 0] = 0.0       # a zero upper entry exercises the np.where branch
        env = {"M": Msym, "T": rng.normal(size=(3, 3, 3, 3)), "v": rng.normal(size=21), "Q": rng.normal(size=(3, 3))}
        env["v"][9] = 0.0
        real = {"traced_voigtToTensor": T.voigt_to_elastic_tensor(env["M"]), "traced_tensorToVoigt": T.elastic_tensor_to_voigt(env["T"]),
                "traced_matrixToVector": T.voigt_matrix_to_vector(env["M"]), "traced_vectorToMatrix": T.voigt_vector_to_matrix(env["v"]),
                "traced_voigtDilat": T.voigt_decompose(env["M"])[0], "traced_voigtDeviat": T.voigt_decompose(env["M"])[1],
                "traced_rotate": T.rotate(env["T"], env["Q"]),
                "traced_monoProject": T.mono_project(env["v"]), "traced_orthoProject": T.ortho_project(env["v"]),
                "traced_tetrProject": T.tetr_project(env["v"]), "traced_hexProject": T.hex_project(env["v"])}
        for name, want in real.items():
            arr = np.asarray(traced[name][1][1], dtype=object)
            got = np.array([Expr.of(arr[idx]).v(env) for idx in np.ndindex(arr.shape)]).reshape(arr.shape)
            if not np.allclose(got, want, rtol=1e-12, atol=1e-300):
                bad.append(name)
    return sorted(set(bad))


# ------------------------------------------------------------------ utils.apply_gbs (C09), fixed small grain counts
def trace_gbs(sizes=(2, 3)):
    """`utils.apply_gbs` run on symbolic textures of 2 and 3 grains: the mask comparisons fork (2^n paths), every path is a
    straight-line update of the orientation and fraction arrays"""
    from pydrex import utils as U

    out = {}
    for n in sizes:
        A = [sym_matrix(f"A{g}") for g in range(n)]
        P = [sym_matrix(f"P{g}") for g in range(n)]
        f = [sym_scalar(f"f{g}") for g in range(n)]
        chi = sym_scalar("chi")

        def run(n=n, A=A, P=P, f=f, chi=chi):
            o = np.empty((n, 3, 3), dtype=object).view(SymArray)
            p = np.empty((n, 3, 3), dtype=object).view(SymArray)
            for g in range(n):
                o[g], p[g] = A[g], P[g]
            fr = np.empty(n, dtype=object).view(SymArray)
            fr[:] = f
            o2, f2 = U.apply_gbs(o, fr, chi, p, n)
            return (np.array(o2, dtype=object), np.array(f2, dtype=object))

        out[n] = explore(run)
    return out


def _mat_text(M):
    """Lean text of a 3x3 object array; a matrix whose entries are exactly `(X i j)` is printed as `X`"""
    s00 = Expr.of(M[0, 0]).s
    m = re.fullmatch(r"\((\w+) 0 0\)", s00)
    if m and all(Expr.of(M[i, j]).s == f"({m.group(1)} {i} {j})" for i in range(3) for j in range(3)):
        return m.group(1)
    body = " ".join(f"| {i}, {j} => {Expr.of(M[i, j]).s}" for i in range(3) for j in range(3))
    return f"(fun i j => match i, j with {body})"


def _gbs_tree_lean(tree):
    if tree[0] == "leaf":
        o, f = tree[1]
        return ("(⟨[" + ", ".join(_mat_text(o[g]) for g in range(o.shape[0])) + "], ["
                + ", ".join(Expr.of(x).s for x in f) + "]⟩ : Tex)")
    return f"(if {tree[1].s} then {_gbs_tree_lean(tree[2])} else {_gbs_tree_lean(tree[3])})"


def emit_gbs(traced, path=None):
    lines = ["-- GENERATED on every run by harness/trace/tracer.py from /repo/src/pydrex/utils.py -- do not edit",
             "import ModelR.Update", "noncomputable section", "namespace ModelR", ""]
    for n, tree in traced.items():
        As = " ".join(f"A{g}" for g in range(n))
        Ps = " ".join(f"P{g}" for g in range(n))
        fs = " ".join(f"f{g}" for g in range(n))
        lines.append(f"def traced_applyGbs{n} (chi : ℝ) ({As} {Ps} : Mat3) ({fs} : ℝ) : Tex :=\n  {_gbs_tree_lean(tree)}\n")
    lines += ["end ModelR", ""]
    text = "\n".join(lines)
    path = path or (GEN / "TracedGbs.lean")
    if not path.exists() or path.read_text() != text:
        path.write_text(text)
    return text


def selfcheck_gbs(traced, reps=20, seed=0):
    from pydrex import utils as U

    rng = np.random.default_rng(seed)
    bad = []
    for n, tree in traced.items():
        for _ in range(reps):
            env = {"chi": float(rng.choice([0.0, 0.3, 0.9]))}
            f = rng.dirichlet(np.ones(n) * 0.4)
            for g in range(n):
                env[f"A{g}"], env[f"P{g}"], env[f"f{g}"] = rng.normal(size=(3, 3)), rng.normal(size=(3, 3)), float(f[g])
            t = tree
            while t[0] == "if":
                t = t[2] if t[1].v(env) else t[3]
            o, fr = t[1]
            got_o = np.array([[[Expr.of(o[g][i, j]).v(env) for j in range(3)] for i in range(3)] for g in range(n)])
            got_f = np.array([Expr.of(x).v(env) for x in fr])
            want_o, want_f = U.apply_gbs(np.array([env[f"A{g}"] for g in range(n)]), f.copy(), env["chi"], np.array([env[f"P{g}"] for g in range(n)]), n)
            if not (np.allclose(got_o, want_o, rtol=1e-13, atol=0) and np.allclose(got_f, want_f, rtol=1e-13, atol=0)):
                bad.append(n)
    return sorted(set(bad))


# ------------------------------------------------------------------ utils.extract_vars (C01/C09), two grains
def _sym_clip(self, a_min=None, a_max=None, **kw):
    """`ndarray.clip` on symbolic entries: printed with the model's `clip` / `clip0` (np.clip(x, 0, None))"""
    out = np.empty(self.shape, dtype=object).view(SymArray)
    for idx in np.ndindex(self.shape):
        x = Expr.of(np.ndarray.__getitem__(self, idx))
        if a_min is not None and a_max is not None:
            lo, hi = float(a_min), float(a_max)
            out[idx] = Expr(f"(clip {lit(lo)} {lit(hi)} {x.s})", lambda env, x=x, lo=lo, hi=hi: min(max(x.v(env), lo), hi))
        elif a_max is None and float(a_min) == 0.0:
            out[idx] = Expr(f"(clip0 {x.s})", lambda env, x=x: max(x.v(env), 0.0))
        else:
            raise TypeError("clip bounds the translator does not know")
    return out


SymArray.clip = _sym_clip


def trace_extract(n=2):
    from pydrex import utils as U

    y = np.empty(10 * n + 9, dtype=object).view(SymArray)
    for k in range(10 * n + 9):
        y[k] = Expr(f"(y {k})", lambda env, k=k: env["y"][k])
    return n, explore(lambda: U.extract_vars(y.copy(), n))


def emit_extract(traced, path=None):
    n, tree = traced
    assert tree[0] == "leaf", "extract_vars is straight-line once clip is symbolic"
    F, A, f = tree[1]
    lines = ["-- GENERATED on every run by harness/trace/tracer.py from /repo/src/pydrex/utils.py -- do not edit",
             "import ModelR.Update", "noncomputable section", "namespace ModelR", "",
             f"def traced_extractVars{n} (y : Fin {10 * n + 9} → ℝ) : Mat3 × Tex :=",
             f"  ({_mat_text(np.asarray(F, dtype=object))},",
             "   ⟨[" + ", ".join(_mat_text(np.asarray(A[g], dtype=object)) for g in range(n)) + "],",
             "    [" + ", ".join(Expr.of(x).s for x in f) + "]⟩)", "", "end ModelR", ""]
    text = "\n".join(lines)
    path = path or (GEN / "TracedExtract.lean")
    if not path.exists() or path.read_text() != text:
        path.write_text(text)
    return text


def selfcheck_extract(traced, reps=10, seed=0):
    from pydrex import utils as U

    n, tree = traced
    rng = np.random.default_rng(seed)
    F, A, f = tree[1]
    for _ in range(reps):
        yv = rng.normal(size=10 * n + 9)
        yv[9 * n + 9:] = np.abs(yv[9 * n + 9:]) * rng.choice([1.0, -0.1], size=n) + 0.1
        env = {"y": yv}
        got = np.concatenate([[Expr.of(x).v(env) for x in np.asarray(F, dtype=object).ravel()],
                              [Expr.of(x).v(env) for x in np.asarray(A, dtype=object).ravel()], [Expr.of(x).v(env) for x in f]])
        w = U.extract_vars(yv.copy(), n)
        want = np.concatenate([np.ravel(w[0]), np.ravel(w[1]), np.ravel(w[2])])
        if not np.allclose(got, want, rtol=1e-13, atol=0):
            return ["extract_vars"]
    return []


# ------------------------------------------------------------------ diagnostics.py texture / strain diagnostics (C13)
class _LaShim:
    """stands in for `scipy.linalg` inside diagnostics.py: the eigen-decompositions are EXTERNAL (parameters of the model); the shim
    records the matrix handed to LAPACK and returns symbolic eigenvalues / eigenvectors"""

    def __init__(self):
        self.passed = []
        self.k = 0

    def _w(self):
        self.k += 1
        tag = f"w{self.k}" if self.k > 1 or self.two else "w"
        return sym_vector(tag, 3)

    two = False

    def eigvalsh(self, a, *args, **kw):
        self.passed.append(np.array(a, dtype=object))
        return self._w()

    def eigh(self, a, *args, **kw):
        self.passed.append(np.array(a, dtype=object))
        return self._w(), sym_matrix("V")

    def norm(self, v, *a, **k):
        v = [Expr.of(x) for x in v]
        s = v[0] * v[0] + v[1] * v[1] + v[2] * v[2]
        return Expr(f"(Rsqrt {s.s})", lambda env, s=s: math.sqrt(s.v(env)))


def trace_diag():
    from pydrex import diagnostics as D
    from pydrex import stats as S

    real_np, real_snp, real_la = D.np, S.np, D.la
    out = {}
    try:
        D.np, S.np = NpShim(real_np), NpShim(real_snp)
        O = np.empty((2, 3, 3), dtype=object)
        O[0], O[1] = sym_matrix("A0"), sym_matrix("A1")
        for row, ax in enumerate("abc"):
            la = _LaShim()
            D.la = la
            pgr = D.symmetry_pgr(O, axis=ax)
            out[f"scatter_{row}"] = la.passed[0]
            if row == 0:
                out["pgr"] = np.array(list(pgr), dtype=object)
        la = _LaShim()
        la.two = True
        D.la = la
        out["coaxial"] = D.coaxial_index(O)
        la = _LaShim()
        D.la = la
        out["bingham"] = np.array(list(D.bingham_average(O, axis="a")), dtype=object)
        la = _LaShim()
        D.la = la
        s_, v_ = D.finite_strain(sym_matrix("F"))
        out["fseB"] = la.passed[0]
        out["fse_s"], out["fse_v"] = s_, np.array(list(v_), dtype=object)
    finally:
        D.np, S.np, D.la = real_np, real_snp, real_la
    return out


def _vec_text(v):
    return "(fun i => match i with " + " ".join(f"| {i} => {Expr.of(v[i]).s}" for i in range(3)) + ")"


def emit_diag(t, path=None):
    mat = lambda M: "(fun i j => match i, j with " + " ".join(f"| {i}, {j} => {Expr.of(M[i, j]).s}" for i in range(3) for j in range(3)) + ")"  # noqa: E731
    lines = ["-- GENERATED on every run by harness/trace/tracer.py from /repo/src/pydrex/diagnostics.py and stats.py -- do not edit",
             "import ModelR.Diag", "noncomputable section", "namespace ModelR.Diag", ""]
    for row in range(3):
        lines.append(f"def traced_scatter_{row} (A0 A1 : Mat3) : Mat3 :=\n  {mat(t[f'scatter_{row}'])}\n")
    lines.append(f"def traced_pgr (w : Vec3) : ℝ × ℝ × ℝ :=\n  ({Expr.of(t['pgr'][0]).s}, {Expr.of(t['pgr'][1]).s}, {Expr.of(t['pgr'][2]).s})\n")
    lines.append(f"def traced_coaxial (w1 w2 : Vec3) : ℝ :=\n  {Expr.of(t['coaxial']).s}\n")
    lines.append(f"def traced_bingham (V : Mat3) : Vec3 :=\n  {_vec_text(t['bingham'])}\n")
    lines.append(f"def traced_fseB (F : Mat3) : Mat3 :=\n  {mat(t['fseB'])}\n")
    lines.append(f"def traced_fse (w : Vec3) (V : Mat3) : ℝ × Vec3 :=\n  ({Expr.of(t['fse_s']).s}, {_vec_text(t['fse_v'])})\n")
    lines += ["end ModelR.Diag", ""]
    text = "\n".join(lines)
    path = path or (GEN / "TracedDiag.lean")
    if not path.exists() or path.read_text() != text:
        path.write_text(text)
    return text


def selfcheck_diag(t, reps=10, seed=0):
    """the printed expressions against the real functions, with the real LAPACK results substituted for the symbolic externals"""
    from pydrex import diagnostics as D
    from pydrex import stats as S
    from scipy import linalg as la

    rng = np.random.default_rng(seed)
    for _ in range(reps):
        A = rng.normal(size=(2, 3, 3))
        F = np.eye(3) + 0.5 * rng.normal(size=(3, 3))
        env = {"A0": A[0], "A1": A[1], "F": F}
        for row in range(3):
            got = np.array([[Expr.of(t[f"scatter_{row}"][i, j]).v(env) for j in range(3)] for i in range(3)])
            if not np.allclose(got, S._scatter_matrix(A, row), rtol=1e-13, atol=1e-300):
                return [f"scatter_{row}"]
        w = la.eigvalsh(S._scatter_matrix(A, 0))
        if not np.allclose([Expr.of(x).v({"w": w}) for x in t["pgr"]], D.symmetry_pgr(A, axis="a"), rtol=1e-12):
            return ["pgr"]
        w1, w2 = la.eigvalsh(S._scatter_matrix(A, 1)), la.eigvalsh(S._scatter_matrix(A, 0))
        if not np.isclose(Expr.of(t["coaxial"]).v({"w1": w1, "w2": w2}), D.coaxial_index(A), rtol=1e-12):
            return ["coaxial"]
        wv, V = la.eigh(S._scatter_matrix(A, 0))
        if not np.allclose([Expr.of(x).v({"V": V, "w": wv}) for x in t["bingham"]], D.bingham_average(A, axis="a"), rtol=1e-12):
            return ["bingham"]
        B = np.array([[Expr.of(t["fseB"][i, j]).v(env) for j in range(3)] for i in range(3)])
        if not np.allclose(B, F @ F.T, rtol=1e-13):
            return ["fseB"]
        wB, VB = la.eigh(F @ F.T, driver="ev")
        s_, v_ = D.finite_strain(F)
        if not (np.isclose(Expr.of(t["fse_s"]).v({"w": wB, "V": VB}), s_, rtol=1e-12)
                and np.allclose([Expr.of(x).v({"w": wB, "V": VB}) for x in t["fse_v"]], v_, rtol=1e-12)):
            return ["fse"]
    return []


# ------------------------------------------------------------------ utils.quat_product (C14)
def trace_quat():
    from pydrex import utils as U

    p, q = sym_vector("p", 4), sym_vector("q", 4)
    return [Expr.of(x) for x in U.quat_product(p, q)]


def emit_quat(t, path=None):
    lines = ["-- GENERATED on every run by harness/trace/tracer.py from /repo/src/pydrex/utils.py -- do not edit",
             "import ModelR.Quat", "noncomputable section", "namespace ModelR", "",
             "def traced_quatProduct (p q : Quat) : Quat := fun i => match i with",
             *[f"  | {i} => {e.s}" for i, e in enumerate(t)], "", "end ModelR", ""]
    text = "\n".join(lines)
    path = path or (GEN / "TracedQuat.lean")
    if not path.exists() or path.read_text() != text:
        path.write_text(text)
    return text


def selfcheck_quat(t, reps=10, seed=0):
    from pydrex import utils as U

    rng = np.random.default_rng(seed)
    for _ in range(reps):
        env = {"p": rng.normal(size=4), "q": rng.normal(size=4)}
        if not np.allclose([e.v(env) for e in t], np.asarray(U.quat_product(env["p"], env["q"]), float), rtol=1e-13, atol=1e-300):
            return ["quat_product"]
    return []


# ------------------------------------------------------------------ geometry.to_cartesian / to_spherical (C20)
def trace_geom():
    from pydrex import geometry as G

    real_np = G.np
    G.np = NpShim(real_np)

    def one(name):
        a = np.empty(1, dtype=object).view(SymArray)
        a[0] = sym_scalar(name)
        return a

    try:
        # (under `explore`: a data-dependent comparison in the source becomes an if-tree instead of an error)
        cart = explore(lambda: [Expr.of(c[0]) for c in G.to_cartesian(one("φ"), one("θ"), one("r"))])
        sph = explore(lambda: [Expr.of(c[0]) for c in G.to_spherical(one("x"), one("y"), one("z"))])
        # geometry.poles on ONE symbolic orientation matrix and a symbolic crystal direction, for each documented
        # reference-axes string (the string handling itself is the hand model ModelD.RefAxes; what is re-derived from
        # the source here is the arithmetic: transpose, contraction with hkl, normalisation, and which component is
        # handed out as x, y and z).  `la.norm(directions, axis=1)` (SciPy, external) = sqrt of the sum of squares.
        real_la = G.la
        G.la = _NormShim(real_la, G.np)
        try:
            poles = {}
            for ra in POLE_STRINGS:
                poles[ra] = explore(lambda ra=ra: [Expr.of(c[0]) for c in G.poles(sym_matrix("a").reshape(1, 3, 3), ra, sym_vector("h", 3))])
        finally:
            G.la = real_la
    finally:
        G.np = real_np
    return {"cart": cart, "sph": sph, "poles": poles}


POLE_STRINGS = ("xy", "xz", "yx", "yz", "zx", "zy")


class _NormShim:
    """stands in for the module-global `la` (scipy.linalg) of geometry.py: `norm(a, axis=1)` of a 2-D array, symbolically"""

    def __init__(self, real, npshim):
        self._real = real
        self._np = npshim

    def __getattr__(self, name):
        return getattr(self._real, name)

    def norm(self, a, axis=None, **kw):
        if axis != 1 or getattr(a, "ndim", 0) != 2 or kw:
            raise TypeError("translator: la.norm is only modelled as the row-wise 2-norm of a 2-D array")
        out = np.empty(a.shape[0], dtype=object)
        for i in range(a.shape[0]):
            acc = a[i, 0] * a[i, 0]
            for j in range(1, a.shape[1]):
                acc = acc + a[i, j] * a[i, j]
            out[i] = self._np.sqrt(acc)
        return out.view(SymArray)


def emit_geom(t, path=None):
    lines = ["-- GENERATED on every run by harness/trace/tracer.py from /repo/src/pydrex/geometry.py -- do not edit",
             "import ModelR.Geom", "noncomputable section", "namespace ModelR.Geom", "",
             "def traced_toCartesian (φ θ r : ℝ) : ℝ × ℝ × ℝ :=", "  (" + ", ".join(tree_lean(t["cart"], lambda v, i=i: v[i]) for i in range(3)) + ")", "",
             "def traced_toSpherical (x y z : ℝ) : ℝ × ℝ × ℝ :=", "  (" + ", ".join(tree_lean(t["sph"], lambda v, i=i: v[i]) for i in range(3)) + ")", ""]
    for ra in POLE_STRINGS:
        lines += [f"/-- `poles(a[None], \"{ra}\", h)`: (xvals[0], yvals[0], zvals[0]) -/",
                  f"def traced_poles_{ra} (a : Mat3) (h : Vec3) : ℝ × ℝ × ℝ :=",
                  "  (" + ",\n   ".join(tree_lean(t["poles"][ra], lambda v, i=i: v[i]) for i in range(3)) + ")", ""]
    lines += ["end ModelR.Geom", ""]
    text = "\n".join(lines)
    path = path or (GEN / "TracedGeom.lean")
    if not path.exists() or path.read_text() != text:
        path.write_text(text)
    return text


def selfcheck_geom(t, reps=10, seed=0):
    from pydrex import geometry as G

    rng = np.random.default_rng(seed)
    for _ in range(reps):
        env = {"φ": float(rng.uniform(0, 6)), "θ": float(rng.uniform(0, 3)), "r": float(rng.uniform(0.1, 3)), **dict(zip("xyz", map(float, rng.normal(size=3))))}
        if not np.allclose([tree_eval(t["cart"], lambda v, i=i: v[i], env) for i in range(3)], np.ravel(G.to_cartesian(env["φ"], env["θ"], env["r"])), rtol=1e-13):
            return ["to_cartesian"]
        if not np.allclose([tree_eval(t["sph"], lambda v, i=i: v[i], env) for i in range(3)], np.ravel(G.to_spherical(env["x"], env["y"], env["z"])), rtol=1e-13):
            return ["to_spherical"]
        env["a"] = rng.normal(size=(3, 3)).tolist()
        env["h"] = rng.normal(size=3).tolist()
        for ra in POLE_STRINGS:
            want = np.ravel(G.poles(np.array([env["a"]]), ra, env["h"]))
            if not np.allclose([tree_eval(t["poles"][ra], lambda v, i=i: v[i], env) for i in range(3)], want, rtol=1e-13):
                return ["poles:" + ra]
    return []


# ------------------------------------------------------------------ utils.strain_increment (C18)
class _LinalgShim:
    def __init__(self):
        self.passed = []

    def eigvalsh(self, a, *args, **kw):
        self.passed.append(np.array(a, dtype=object))
        return sym_vector("w", 3)


def trace_strain_increment():
    """utils.strain_increment with `np.linalg.eigvalsh` (external) replaced by a recording shim returning symbolic eigenvalues; the
    `.max()` of the absolute values forks on its comparisons"""
    from pydrex import utils as U

    real_np = U.np
    sh = NpShim(real_np)
    lin = _LinalgShim()
    sh.linalg = lin
    U.np = sh
    try:
        L, dt = sym_matrix("L"), sym_scalar("dt")
        tree = explore(lambda: U.strain_increment(dt, L))
    finally:
        U.np = real_np
    return {"tree": tree, "passed": lin.passed[0]}


def emit_strain_increment(t, path=None):
    M = t["passed"]
    mat = "(fun i j => match i, j with " + " ".join(f"| {i}, {j} => {Expr.of(M[i, j]).s}" for i in range(3) for j in range(3)) + ")"
    lines = ["-- GENERATED on every run by harness/trace/tracer.py from /repo/src/pydrex/utils.py -- do not edit",
             "import ModelR.Flow", "noncomputable section", "namespace ModelR", "",
             f"def traced_strainIncrement_matrix (L : Mat3) : Mat3 :=\n  {mat}\n",
             f"def traced_strainIncrement (dt : ℝ) (w : Vec3) : ℝ :=\n  {tree_lean(t['tree'], lambda v: v)}\n", "end ModelR", ""]
    text = "\n".join(lines)
    path = path or (GEN / "TracedStrainIncrement.lean")
    if not path.exists() or path.read_text() != text:
        path.write_text(text)
    return text


def selfcheck_strain_increment(t, reps=20, seed=0):
    from pydrex import utils as U

    rng = np.random.default_rng(seed)
    for _ in range(reps):
        L, dt = rng.normal(size=(3, 3)), float(rng.normal())
        M = np.array([[Expr.of(t["passed"][i, j]).v({"L": L}) for j in range(3)] for i in range(3)])
        if not np.allclose(M, (L + L.T) / 2, rtol=1e-14):
            return ["strain_increment:matrix"]
        w = np.linalg.eigvalsh((L + L.T) / 2)
        if not np.isclose(tree_eval(t["tree"], lambda v: v, {"dt": dt, "w": w}), U.strain_increment(dt, L), rtol=1e-13):
            return ["strain_increment"]
    return []


# ------------------------------------------------------------------ stats.py: the five spherical counting kernels (C20)
KERNEL_NAMES = ("kamb_count", "schmidt_count", "exponential_kamb", "linear_inverse_kamb", "square_inverse_kamb")
KERNEL_LEAN = {"kamb_count": "kambCount", "schmidt_count": "schmidtCount", "exponential_kamb": "exponentialKamb",
               "linear_inverse_kamb": "linearInverseKamb", "square_inverse_kamb": "squareInverseKamb"}


def trace_kernels(n=2):
    """each entry of stats.SPHERICAL_COUNTING_KERNELS on a symbolic array of `n` cosines, symbolic σ, axial True and False;
    the comparisons with the counting radius fork (boolean masks and `.astype(float)` become decision trees)"""
    from pydrex import stats as S

    real_np = S.np
    S.np = NpShim(real_np)
    out = {}
    try:
        if set(S.SPHERICAL_COUNTING_KERNELS) != set(KERNEL_NAMES):
            raise TypeError(f"translator: the kernel table changed: {sorted(S.SPHERICAL_COUNTING_KERNELS)}")
        for name in KERNEL_NAMES:
            for axial in (True, False):
                def run(name=name, axial=axial):
                    c = sym_vector("c", n).view(SymArray)
                    kw = {} if name == "schmidt_count" else {"σ": sym_scalar("σ")}
                    cnt, units = S.SPHERICAL_COUNTING_KERNELS[name](c, axial=axial, **kw)
                    return (np.array(cnt, dtype=object), units)
                out[(name, axial)] = explore(run)
    finally:
        S.np = real_np
    return out


def _kernel_tree_lean(tree):
    if tree[0] == "leaf":
        cnt, units = tree[1]
        return "([" + ", ".join(Expr.of(x).s for x in np.ravel(cnt)) + "], " + Expr.of(units).s + ")"
    return f"(if {tree[1].s} then {_kernel_tree_lean(tree[2])} else {_kernel_tree_lean(tree[3])})"


def _kernel_tree_eval(tree, env):
    while tree[0] == "if":
        tree = tree[2] if tree[1].v(env) else tree[3]
    cnt, units = tree[1]
    return [Expr.of(x).v(env) for x in np.ravel(cnt)], Expr.of(units).v(env)


def emit_kernels(traced, path=None):
    lines = ["-- GENERATED on every run by harness/trace/tracer.py from /repo/src/pydrex/stats.py -- do not edit",
             "import ModelR.Density", "noncomputable section", "namespace ModelR.Density", ""]
    for (name, axial), tree in traced.items():
        lines += [f"/-- `{name}(c, σ, axial={axial})` on two cosines: (un-summed counts, scale) -/",
                  f"def traced_{KERNEL_LEAN[name]}_{'axial' if axial else 'polar'} (σ : ℝ) (c : ℕ → ℝ) : List ℝ × ℝ :=",
                  "  " + _kernel_tree_lean(tree), ""]
    lines += ["end ModelR.Density", ""]
    text = "\n".join(lines)
    path = path or (GEN / "TracedKernels.lean")
    if not path.exists() or path.read_text() != text:
        path.write_text(text)
    return text


def selfcheck_kernels(traced, reps=12, seed=0):
    from pydrex import stats as S

    rng = np.random.default_rng(seed)
    for _ in range(reps):
        env = {"c": [float(x) for x in rng.uniform(-1, 1, 2)] if rng.random() < 0.5 else [float(x) for x in rng.uniform(0.9, 1, 2)],
               "σ": float(rng.uniform(0.3, 12))}
        for (name, axial), tree in traced.items():
            kw = {} if name == "schmidt_count" else {"σ": env["σ"]}
            with np.errstate(all="ignore"):
                cnt, units = S.SPHERICAL_COUNTING_KERNELS[name](np.array(env["c"]), axial=axial, **kw)
            try:
                mc, mu = _kernel_tree_eval(tree, env)
            except ValueError:      # sqrt of a negative number in the traced expression: the implementation gives NaN
                mc, mu = list(np.ravel(cnt)), float("nan")
            if len(mc) != len(np.ravel(cnt)) or not np.allclose(mc, np.ravel(cnt), rtol=1e-12, atol=0) \
                    or not (np.isclose(mu, units, rtol=1e-12) or (np.isnan(mu) and np.isnan(units))):
                return [f"{name}(axial={axial})"]
    return []
