"""Shared generators / callers for the D-Rex kernel `core.derivatives` (K1–K9)."""
from __future__ import annotations

import json
import os
import pickle
import subprocess
import sys
import tempfile

import numpy as np

from . import common as C

VALID = [(0, 0), (0, 1), (0, 2), (0, 3), (0, 4), (1, 5)]
CRSS = {(0, 0): [1, 2, 3, np.inf], (0, 1): [3, 2, 1, np.inf], (0, 2): [3, 2, np.inf, 1],
        (0, 3): [1, 1, 3, np.inf], (0, 4): [3, 1, 2, np.inf], (1, 5): [np.inf, np.inf, np.inf, 1]}


def signed_perm(rng, proper=True):
    P = np.eye(3)[rng.permutation(3)]
    s = rng.choice([-1.0, 1.0], size=3)
    M = P * s[:, None]
    if proper and np.linalg.det(M) < 0:
        M[0] *= -1
    return M


def rotations(rng, n, kind):
    from scipy.spatial.transform import Rotation

    if kind == "random":
        return Rotation.random(n, random_state=int(rng.integers(0, 2**31))).as_matrix()
    if kind == "axis":
        return np.stack([signed_perm(rng) for _ in range(n)])
    if kind == "mixed":
        A = Rotation.random(n, random_state=int(rng.integers(0, 2**31))).as_matrix()
        for i in range(0, n, 2):
            A[i] = signed_perm(rng)
        return A
    if kind == "about_axis":  # rotations about one lab axis: several invariants vanish exactly
        ang = rng.uniform(0, 2 * np.pi, n)
        ax = rng.integers(0, 3)
        v = np.zeros((n, 3))
        v[:, ax] = ang
        A = Rotation.from_rotvec(v).as_matrix()
        A[np.abs(A) < 1e-15] = 0.0
        return A
    if kind == "nonorth":
        A = Rotation.random(n, random_state=int(rng.integers(0, 2**31))).as_matrix()
        return np.clip(A + rng.normal(scale=0.05, size=A.shape), -1, 1)
    raise ValueError(kind)


A_KINDS = ["random", "axis", "mixed", "about_axis", "nonorth"]


def fractions(rng, n, kind):
    if kind == "uniform":
        return np.full(n, 1.0 / n)
    if kind == "dirichlet":
        return rng.dirichlet(np.ones(n))
    if kind == "zeros":
        f = rng.dirichlet(np.ones(n))
        f[rng.random(n) < 0.4] = 0.0
        if f.sum() == 0:
            f[0] = 1.0
        return f / f.sum()
    if kind == "dominant":
        f = np.full(n, 1e-7)
        f[rng.integers(0, n)] = 1.0
        return f / f.sum()
    raise ValueError(kind)


F_KINDS = ["uniform", "dirichlet", "zeros", "dominant"]


def velocity_gradient(rng, kind, normalise=True):
    L = np.zeros((3, 3))
    if kind == "simple":
        i, j = rng.choice(3, 2, replace=False)
        L[i, j] = 2.0 * rng.choice([-1, 1])
    elif kind == "pure":
        i, j = rng.choice(3, 2, replace=False)
        L[i, i], L[j, j] = 1.0, -1.0
    elif kind == "axisym":
        k = rng.integers(0, 3)
        L = -0.5 * np.eye(3)
        L[k, k] = 1.0
        L *= rng.choice([-1, 1])
    elif kind == "general":
        L = rng.normal(size=(3, 3))
        L -= np.eye(3) * np.trace(L) / 3
    elif kind == "trace":
        L = rng.normal(size=(3, 3))
    elif kind == "vortical":
        X = rng.normal(size=(3, 3))
        L = 0.1 * (X + X.T) + (X - X.T)
    elif kind == "dyadic":  # exactly representable entries
        L = rng.integers(-4, 5, size=(3, 3)) / 4.0
        if not (L + L.T).any():
            L[0, 1] = 1.0
    else:
        raise ValueError(kind)
    if normalise:
        D = (L + L.T) / 2
        m = np.abs(np.linalg.eigvalsh(D)).max()
        if m > 0 and kind not in ("simple", "pure", "dyadic"):
            L = L / m
    return L


L_KINDS = ["simple", "pure", "axisym", "general", "trace", "vortical", "dyadic"]


def make_case(rng, k, nmax=12, regimes=(4, 6)):
    phase, fabric = VALID[k % len(VALID)]
    n = int(rng.integers(1, nmax + 1))
    ak = A_KINDS[(k // 6) % len(A_KINDS)]
    fk = F_KINDS[(k // 3) % len(F_KINDS)]
    lk = L_KINDS[(k // 2) % len(L_KINDS)]
    A = np.ascontiguousarray(rotations(rng, n, ak))
    f = np.ascontiguousarray(fractions(rng, n, fk))
    L = np.ascontiguousarray(velocity_gradient(rng, lk))
    D = (L + L.T) / 2
    spin = rng.normal(size=(3, 3))
    return dict(regime=int(regimes[k % len(regimes)]), phase=phase, fabric=fabric, n=n, A=A, f=f, D=D, L=L, spin=spin,
                p=float(rng.choice([1.0, 1.5, 2.0, rng.uniform(1, 2)])),
                nexp=float(rng.choice([2.0, 3.5, 5.0, rng.uniform(2, 5)])),
                lam=float(rng.choice([0.0, 5.0, 10.0, rng.uniform(0, 10)])),
                M=float(rng.choice([0.0, 10.0, 125.0, 200.0, rng.uniform(0, 200)])),
                phi=float(rng.choice([1.0, 0.7, 0.3, rng.uniform(0.01, 1)])),
                kinds=(ak, fk, lk))


def call_derivatives(case):
    """The real `core.derivatives`; returns ("ok", Adot, fdot) or ("err", ExceptionClassName, text)."""
    from pydrex import core

    try:
        Ad, fd = core.derivatives(
            regime=case["regime"], phase=case["phase"], fabric=case["fabric"], n_grains=case["n"],
            orientations=case["A"], fractions=case["f"], strain_rate=case["D"], velocity_gradient=case["L"],
            deformation_gradient_spin=case["spin"], stress_exponent=case["p"], deformation_exponent=case["nexp"],
            nucleation_efficiency=case["lam"], gbm_mobility=case["M"], volume_fraction=case["phi"])
        return ("ok", np.array(Ad, dtype=float), np.array(fd, dtype=float))
    except Exception as e:  # noqa: BLE001
        return ("err", type(e).__name__, str(e)[:200])


def case_line(case):
    return ("drex_deriv %d %d %d %d %s %s %s %s %s %s" % (
        case["regime"], case["phase"], case["fabric"], case["n"], C.fs2h(case["A"].ravel()), C.fs2h(case["f"]),
        C.fs2h(case["D"].ravel()), C.fs2h(case["L"].ravel()), C.fs2h(case["spin"].ravel()),
        C.fs2h([case["p"], case["nexp"], case["lam"], case["M"], case["phi"]])))


def conditioning(case):
    """Classify a dislocation-regime case: per-grain slip keys, tie gaps, guard distances.

    Returns dict(resolved=bool array, min_gap, near_guard) used by the counted exclusion rules."""
    crss = np.array(CRSS.get((case["phase"], case["fabric"]), [1, 1, 1, 1]), dtype=float)
    A, D, L = case["A"], case["D"], case["L"]
    sl = [(0, 1), (0, 2), (2, 1), (2, 0)]
    out = {"near_tie": False, "unresolved": 0, "near_guard": False, "keys": []}
    for g in range(case["n"]):
        I = np.array([A[g, l] @ D @ A[g, n_] for l, n_ in sl])
        keys = np.abs(I / crss)
        out["keys"].append(keys)
        ks = np.sort(keys)
        gaps = np.diff(ks)
        scale = max(ks[-1], 1e-300)
        # a gap that is tiny but not an exact tie: order may differ between summation orders
        if np.any((gaps > 0) & (gaps < 1e-6 * scale)):
            out["near_tie"] = True
        # values that should be exactly zero but carry rounding noise
        if np.any((np.abs(I) > 0) & (np.abs(I) < 1e-9)):
            out["near_guard"] = True
        if ks[-1] < 1e-9:
            out["unresolved"] += 1
    return out


# ---------------------------------------------------------------- JIT worker
def run_jit(cases, timeout=900):
    """Evaluate `call_derivatives` on the compiled (numba) path in a fresh process."""
    with tempfile.TemporaryDirectory(prefix="pydrex_verif_") as td:
        pin, pout = os.path.join(td, "in.pkl"), os.path.join(td, "out.pkl")
        with open(pin, "wb") as fh:
            pickle.dump(cases, fh)
        env = dict(os.environ)
        env.pop("NUMBA_DISABLE_JIT", None)
        env["PYDREX_VERIF_JIT"] = "1"
        p = subprocess.run([sys.executable, "-m", "harness.drex", pin, pout], env=env, capture_output=True,
                           text=True, timeout=timeout, cwd=str(C.VERIF))
        if p.returncode != 0:
            raise RuntimeError("jit worker failed: " + p.stderr[-800:])
        with open(pout, "rb") as fh:
            return pickle.load(fh)


if __name__ == "__main__":
    from . import impl  # noqa: F401  (sets up imports; JIT stays enabled because PYDREX_VERIF_JIT=1)
    import numba

    assert not numba.config.DISABLE_JIT
    with open(sys.argv[1], "rb") as fh:
        cases = pickle.load(fh)
    outs = [call_derivatives(c) for c in cases]
    with open(sys.argv[2], "wb") as fh:
        pickle.dump(outs, fh)
