"""Shared generators / callers for the D-Rex kernel `core.derivatives` (K1–K9)."""
from __future__ import annotations

import json
import os
import pickle
import subprocess
import sys
import tempfile

import numpy as np

from . import common as C

VALID = [(0, 0), (0, 1), (0, 2), (0, 3), (0, 4), (1, 5)]
CRSS = {(0, 0): [1, 2, 3, np.inf], (0, 1): [3, 2, 1, np.inf], (0, 2): [3, 2, np.inf, 1],
        (0, 3): [1, 1, 3, np.inf], (0, 4): [3, 1, 2, np.inf], (1, 5): [np.inf, np.inf, np.inf, 1]}


def signed_perm(rng, proper=True):
    P = np.eye(3)[rng.permutation(3)]
    s = rng.choice([-1.0, 1.0], size=3)
    M = P * s[:, None]
    if proper and np.linalg.det(M) < 0:
        M[0] *= -1
    return M


def rotations(rng, n, kind):
    from scipy.spatial.transform import Rotation

    if kind == "random":
        return Rotation.random(n, random_state=int(rng.integers(0, 2**31))).as_matrix()
    if kind == "axis":
        return np.stack([signed_perm(rng) for _ in range(n)])
    if kind == "mixed":
        A = Rotation.random(n, random_state=int(rng.integers(0, 2**31))).as_matrix()
        for i in range(0, n, 2):
            A[i] = signed_perm(rng)
        return A
    if kind == "about_axis":  # rotations about one lab axis: several invariants vanish exactly
        ang = rng.uniform(0, 2 * np.pi, n)
        ax = rng.integers(0, 3)
        v = np.zeros((n, 3))
        v[:, ax] = ang
        A = Rotation.from_rotvec(v).as_matrix()
        A[np.abs(A) < 1e-15] = 0.0
        return A
    if kind == "nonorth":
        A = Rotation.random(n, random_state=int(rng.integers(0, 2**31))).as_matrix()
        return np.clip(A + rng.normal(scale=0.05, size=A.shape), -1, 1)
    raise ValueError(kind)


A_KINDS = ["random", "axis", "mixed", "about_axis", "nonorth"]


def fractions(rng, n, kind):
    if kind == "uniform":
        return np.full(n, 1.0 / n)
    if kind == "dirichlet":
        return rng.dirichlet(np.ones(n))
    if kind == "zeros":
        f = rng.dirichlet(np.ones(n))
        f[rng.random(n) < 0.4] = 0.0
        if f.sum() == 0:
            f[0] = 1.0
        return f / f.sum()
    if kind == "dominant":
        f = np.full(n, 1e-7)
        f[rng.integers(0, n)] = 1.0
        return f / f.sum()
    raise ValueError(kind)


F_KINDS = ["uniform", "dirichlet", "zeros", "dominant"]


def velocity_gradient(rng, kind, normalise=True):
    L = np.zeros((3, 3))
    if kind == "simple":
        i, j = rng.choice(3, 2, replace=False)
        L[i, j] = 2.0 * rng.choice([-1, 1])
    elif kind == "pure":
        i, j = rng.choice(3, 2, replace=False)
        L[i, i], L[j, j] = 1.0, -1.0
    elif kind == "axisym":
        k = rng.integers(0, 3)
        L = -0.5 * np.eye(3)
        L[k, k] = 1.0
        L *= rng.choice([-1, 1])
    elif kind == "general":
        L = rng.normal(size=(3, 3))
        L -= np.eye(3) * np.trace(L) / 3
    elif kind == "trace":
        L = rng.normal(size=(3, 3))
    elif kind == "vortical":
        X = rng.normal(size=(3, 3))
        L = 0.1 * (X + X.T) + (X - X.T)
    elif kind == "dyadic":  # exactly representable entries
        L = rng.integers(-4, 5, size=(3, 3)) / 4.0
        if not (L + L.T).any():
            L[0, 1] = 1.0
    else:
        raise ValueError(kind)
    if normalise:
        D = (L + L.T) / 2
        m = np.abs(np.linalg.eigvalsh(D)).max()
        if m > 0 and kind not in ("simple", "pure", "dyadic"):
            L = L / m
    return L


L_KINDS = ["simple", "pure", "axisym", "general", "trace", "vortical", "dyadic"]


def make_case(rng, k, nmax=12, regimes=(4, 6)):
    phase, fabric = VALID[k % len(VALID)]
    n = int(rng.integers(1, nmax + 1))
    ak = A_KINDS[(k // 6) % len(A_KINDS)]
    fk = F_KINDS[(k // 3) % len(F_KINDS)]
    lk = L_KINDS[(k // 2) % len(L_KINDS)]
    A = np.ascontiguousarray(rotations(rng, n, ak))
    f = np.ascontiguousarray(fractions(rng, n, fk))
    L = np.ascontiguousarray(velocity_gradient(rng, lk))
    D = (L + L.T) / 2
    spin = rng.normal(size=(3, 3))
    return dict(regime=int(regimes[k % len(regimes)]), phase=phase, fabric=fabric, n=n, A=A, f=f, D=D, L=L, spin=spin,
                p=float(rng.choice([1.0, 1.5, 2.0, rng.uniform(1, 2)])),
                nexp=float(rng.choice([2.0, 3.5, 5.0, rng.uniform(2, 5)])),
                lam=float(rng.choice([0.0, 5.0, 10.0, rng.uniform(0, 10)])),
                M=float(rng.choice([0.0, 10.0, 125.0, 200.0, rng.uniform(0, 200)])),
                phi=float(rng.choice([1.0, 0.7, 0.3, rng.uniform(0.01, 1)])),
                kinds=(ak, fk, lk))


def call_derivatives(case):
    """The real `core.derivatives`; returns ("ok", Adot, fdot) or ("err", ExceptionClassName, text)."""
    from pydrex import core

    try:
        Ad, fd = core.derivatives(
            regime=case["regime"], phase=case["phase"], fabric=case["fabric"], n_grains=case["n"],
            orientations=case["A"], fractions=case["f"], strain_rate=case["D"], velocity_gradient=case["L"],
            deformation_gradient_spin=case["spin"], stress_exponent=case["p"], deformation_exponent=case["nexp"],
            nucleation_efficiency=case["lam"], gbm_mobility=case["M"], volume_fraction=case["phi"])
        return ("ok", np.array(Ad, dtype=float), np.array(fd, dtype=float))
    except Exception as e:  # noqa: BLE001
        return ("err", type(e).__name__, str(e)[:200])


def case_line(case):
    return ("drex_deriv %d %d %d %d %s %s %s %s %s %s" % (
        case["regime"], case["phase"], case["fabric"], case["n"], C.fs2h(case["A"].ravel()), C.fs2h(case["f"]),
        C.fs2h(case["D"].ravel()), C.fs2h(case["L"].ravel()), C.fs2h(case["spin"].ravel()),
        C.fs2h([case["p"], case["nexp"], case["lam"], case["M"], case["phi"]])))


def conditioning(case):
    """Classify a dislocation-regime case: per-grain slip keys, tie gaps, guard distances.

    Returns dict(resolved=bool array, min_gap, near_guard) used by the counted exclusion rules."""
    crss = np.array(CRSS.get((case["phase"], case["fabric"]), [1, 1, 1, 1]), dtype=float)
    A, D, L = case["A"], case["D"], case["L"]
    sl = [(0, 1), (0, 2), (2, 1), (2, 0)]
    out = {"near_tie": False, "unresolved": 0, "near_guard": False, "keys": []}
    for g in range(case["n"]):
        I = np.array([A[g, l] @ D @ A[g, n_] for l, n_ in sl])
        keys = np.abs(I / crss)
        out["keys"].append(keys)
        ks = np.sort(keys)
        gaps = np.diff(ks)
        scale = max(ks[-1], 1e-300)
        # a gap that is tiny but not an exact tie: order may differ between summation orders
        if np.any((gaps > 0) & (gaps < 1e-6 * scale)):
            out["near_tie"] = True
        # values that should be exactly zero but carry rounding noise
        if np.any((np.abs(I) > 0) & (np.abs(I) < 1e-9)):
            out["near_guard"] = True
        if ks[-1] < 1e-9:
            out["unresolved"] += 1
    return out



def variant_checks(res, rng, ctx, prefix):
    """dtype / memory-layout variants of the SAME numbers, grain permutations and large aggregates for `core.derivatives`
    (both code paths; ONE compiled-path subprocess). `prefix` is the clause name used in the violation keys of the calling property."""
    from . import common as C

    variants = []
    for j in range(6 if not ctx["thorough"] else 40):
        c = make_case(rng, j, nmax=6)
        c["A"] = np.ascontiguousarray(rotations(rng, c["n"], "axis"))       # entries 0, +-1: exact in every dtype
        onehot = np.zeros(c["n"])
        onehot[int(rng.integers(0, c["n"]))] = 1.0
        c["f"] = onehot
        L = velocity_gradient(rng, "dyadic")
        c.update(L=L, D=(L + L.T) / 2)
        variants.append(("base", j, c))
        variants.append(("int_fractions", j, dict(c, f=onehot.astype(np.int64))))
        variants.append(("float32_fractions", j, dict(c, f=onehot.astype(np.float32))))
        variants.append(("fortran_orientations", j, dict(c, A=np.asfortranarray(c["A"]))))
        variants.append(("strided_fractions", j, dict(c, f=np.repeat(onehot, 2)[::2])))
        variants.append(("float32_orientations", j, dict(c, A=c["A"].astype(np.float32))))
        variants.append(("int_orientations", j, dict(c, A=c["A"].astype(np.int64))))
        variants.append(("int_regime_np", j, dict(c, regime=np.int64(c["regime"]), phase=np.uint8(c["phase"]), fabric=np.uint8(c["fabric"]))))
    # grain independence within one call: permuting the grains permutes the rates (a grain's rate does not depend on which grains
    # were processed before it); includes frame-aligned grains with exactly vanishing invariants placed FIRST
    pcases, perms = [], []
    for j in range(4 if not ctx["thorough"] else 30):
        c = make_case(rng, j, nmax=8)
        n = max(c["n"], 3)
        A = np.ascontiguousarray(rotations(rng, n, "random"))
        A[0] = np.eye(3)
        A[1] = signed_perm(rng)
        L = velocity_gradient(rng, ["simple", "pure", "general"][j % 3])
        c.update(n=n, A=A, f=np.ascontiguousarray(fractions(rng, n, "dirichlet")), L=L, D=(L + L.T) / 2, phase=0, fabric=j % 5)
        perm = np.roll(np.arange(n), -2)   # the two special grains go last
        pcases += [c, dict(c, A=np.ascontiguousarray(A[perm]), f=np.ascontiguousarray(c["f"][perm]))]
        perms.append(perm)
    # large aggregates on the compiled path, both dislocation-type regimes, compared with the model
    big = []
    for n, reg in ((50000, 6), (65536, 4)) if not ctx["thorough"] else ((49999, 6), (50000, 6), (50001, 4), (65536, 6), (131072, 4)):
        c = make_case(rng, 1, nmax=3)
        c.update(n=n, A=np.ascontiguousarray(rotations(rng, n, "random")), f=np.full(n, 1.0 / n), regime=reg)
        big.append(c)
    jit_all = run_jit([c for (_, _, c) in variants] + pcases + big)
    nv, npc = len(variants), len(pcases)
    v_jit, p_jit, outs = jit_all[:nv], jit_all[nv:nv + npc], jit_all[nv + npc:]
    v_int = [call_derivatives(c) for (_, _, c) in variants]
    p_int = [call_derivatives(c) for c in pcases]
    model = C.run_driver([case_line(c) for c in big])
    base = {}
    for (name, j, c), oi_, oj_ in zip(variants, v_int, v_jit):
        res.evaluations += 1
        res.count("variant:" + name)
        for tag, o in (("interpreted", oi_), ("jit", oj_)):
            rep = {"variant": name, "path": tag, "phase": int(c["phase"]), "fabric": int(c["fabric"]), "regime": int(c["regime"]),
                   "A": np.asarray(c["A"], float).tolist(), "f": np.asarray(c["f"], float).tolist(), "L": c["L"].tolist()}
            if o[0] != "ok":
                res.violation(f"{prefix}:variant:{name}:raises:{o[1]}", f"derivatives raised {o[1]} for {name} inputs ({tag}): {o[2][:150]}", rep)
                continue
            if not (np.isfinite(o[1]).all() and np.isfinite(o[2]).all()):
                res.violation(f"{prefix}:variant:{name}:nonfinite", f"non-finite rates for {name} inputs ({tag})", rep)
                continue
            if name == "base":
                base[(j, tag)] = o
            elif (j, tag) in base:
                b = base[(j, tag)]
                if not (np.allclose(o[1], b[1], rtol=1e-6, atol=1e-9) and np.allclose(o[2], b[2], rtol=1e-6, atol=1e-9)):
                    res.violation(f"{prefix}:variant:{name}:differs", f"{name} inputs (same numbers) give other rates ({tag})", rep)

    for j, perm in enumerate(perms):
        for tag, oo in (("interpreted", p_int), ("jit", p_jit)):
            a, b = oo[2 * j], oo[2 * j + 1]
            res.evaluations += 1
            res.count("grain_permutation")
            c = pcases[2 * j]
            rep = {"path": tag, "phase": c["phase"], "fabric": c["fabric"], "regime": c["regime"], "A": c["A"].tolist(), "f": c["f"].tolist(),
                   "L": c["L"].tolist(), "perm": perm.tolist()}
            if a[0] != "ok" or b[0] != "ok":
                res.violation(f"{prefix}:grain_permutation:raises", f"derivatives raised on a permuted aggregate ({tag}): {a[:2]} {b[:2]}", rep)
            elif not (np.allclose(b[1], a[1][perm], rtol=1e-9, atol=1e-12) and np.allclose(b[2], a[2][perm], rtol=1e-9, atol=1e-12)):
                res.violation(f"{prefix}:grain_permutation:differs", "the rates of a grain depend on the position of the grains in the aggregate "
                              f"({tag}): max dev {np.abs(b[1] - a[1][perm]).max():.3e}", rep)
    for c, o, ml in zip(big, outs, model):
        res.evaluations += 1
        res.count(f"large_aggregate:n={c['n']}:regime{c['regime']}")
        rep = {"n": c["n"], "phase": c["phase"], "fabric": c["fabric"], "regime": c["regime"], "L": c["L"].tolist(),
               "params": [c["p"], c["nexp"], c["lam"], c["M"], c["phi"]]}
        toks = ml.split()
        if o[0] != "ok" or toks[0] != "ok":
            res.violation(f"{prefix}:large_aggregate:raises", f"n={c['n']}: {o[:2]} / model {toks[0]}", rep)
            continue
        got = np.array(C.hs2f(toks[1:]))
        want = np.concatenate([o[1].ravel(), o[2]])
        # random orientations: no ties; compare everything
        if not np.allclose(got, want, rtol=1e-7, atol=1e-9 * max(1.0, np.abs(want).max())):
            bad = int(np.argmax(np.abs(got - want)))
            res.violation(f"{prefix}:large_aggregate:differs_from_model", f"n={c['n']}, regime {c['regime']} (compiled path): differs from the model "
                          f"by {np.abs(got - want).max():.3e} at flat index {bad}", rep)




def replay_violations(data):
    """`./check Cxx --replay FILE` for the kernel-level properties: re-run core.derivatives on every recorded failing input
    (interpreted path) and print what the real code returns now."""
    import json as _json
    from . import impl  # noqa: F401

    for v in data.get("violations", []):
        r = v.get("replay", {})
        print("violation:", v.get("key"), "-", str(v.get("what"))[:300])
        if isinstance(r, dict) and "case" in r and isinstance(r["case"], dict):
            r = r["case"]
        if isinstance(r, dict) and all(k in r for k in ("A", "f", "L")):
            A = np.asarray(r["A"], float)
            L = np.asarray(r["L"], float)
            ps = r.get("params") or [r.get("p", 1.5), r.get("nexp", 3.5), r.get("lam", 5.0), r.get("M", 125.0), r.get("phi", 1.0)]
            case = dict(regime=int(r.get("regime", 4)), phase=int(r.get("phase", 0)), fabric=int(r.get("fabric", 0)), n=len(A), A=A,
                        f=np.asarray(r["f"], float), D=(L + L.T) / 2, L=L, spin=np.zeros((3, 3)), p=ps[0], nexp=ps[1], lam=ps[2], M=ps[3], phi=ps[4])
            out = call_derivatives(case)
            if out[0] == "ok":
                print("  core.derivatives now returns: rates finite =", bool(np.isfinite(out[1]).all() and np.isfinite(out[2]).all()),
                      " sum(fdot) =", float(out[2].sum()), "\n  Adot[0] =", out[1][0].tolist() if len(out[1]) else None, "\n  fdot =", out[2].tolist()[:8])
            else:
                print("  core.derivatives now raises:", out[1], out[2])
        else:
            print("  recorded input:", _json.dumps(r)[:1500])
    for b in data.get("unchecked", []):
        print("unchecked obligation / correspondence:", _json.dumps(b)[:1500])
    return 0


# ---------------------------------------------------------------- JIT worker
def run_jit(cases, timeout=900):
    """Evaluate `call_derivatives` on the compiled (numba) path in a fresh process."""
    with tempfile.TemporaryDirectory(prefix="pydrex_verif_") as td:
        pin, pout = os.path.join(td, "in.pkl"), os.path.join(td, "out.pkl")
        with open(pin, "wb") as fh:
            pickle.dump(cases, fh)
        env = dict(os.environ)
        env.pop("NUMBA_DISABLE_JIT", None)
        env["PYDREX_VERIF_JIT"] = "1"
        p = subprocess.run([sys.executable, "-m", "harness.drex", pin, pout], env=env, capture_output=True,
                           text=True, timeout=timeout, cwd=str(C.VERIF))
        if p.returncode != 0:
            raise RuntimeError("jit worker failed: " + p.stderr[-800:])
        with open(pout, "rb") as fh:
            return pickle.load(fh)


if __name__ == "__main__":
    from . import impl  # noqa: F401  (sets up imports; JIT stays enabled because PYDREX_VERIF_JIT=1)
    import numba

    assert not numba.config.DISABLE_JIT
    with open(sys.argv[1], "rb") as fh:
        cases = pickle.load(fh)
    outs = [call_derivatives(c) for c in cases]
    with open(sys.argv[2], "wb") as fh:
        pickle.dump(outs, fh)
