#!/bin/bash
# Build the Lean project (models, proofs, driver) from files on disk only. Offline.
set -e
cd "$(dirname "$0")/lean"
python3 gen_instances.py
lake build 2>&1 | grep -v '^✔' | tail -40
test -x .lake/build/bin/driver
echo "setup ok"
