/-! Line protocol helpers: floats cross the Python/Lean boundary as 16 hex digits (IEEE bits). -/
namespace Proto

def hexVal (c : Char) : Nat :=
  if '0' ≤ c ∧ c ≤ '9' then c.toNat - '0'.toNat
  else if 'a' ≤ c ∧ c ≤ 'f' then c.toNat - 'a'.toNat + 10
  else if 'A' ≤ c ∧ c ≤ 'F' then c.toNat - 'A'.toNat + 10
  else 0

def parseHex (s : String) : Nat := s.foldl (fun acc c => acc * 16 + hexVal c) 0

def parseF (s : String) : Float := Float.ofBits (UInt64.ofNat (parseHex s))

def hexDigit (n : Nat) : Char :=
  if n < 10 then Char.ofNat ('0'.toNat + n) else Char.ofNat ('a'.toNat + n - 10)

def fmtF (x : Float) : String :=
  let b := x.toBits.toNat
  String.ofList ((List.range 16).map fun i => hexDigit ((b >>> (4 * (15 - i))) % 16))

def fmtFs (xs : List Float) : String := " ".intercalate (xs.map fmtF)

/-- split a token list: take `n` floats -/
def takeF (n : Nat) (toks : List String) : List Float × List String :=
  ((toks.take n).map parseF, toks.drop n)

def fmtBool (b : Bool) : String := if b then "1" else "0"

end Proto
