import ModelF.Update
import Driver.Proto
open ModelF Proto

def chunkMats (n : Nat) (l : List Float) : List Mat3 := chunk9 n l

def texOut (t : Tex) : String :=
  fmtFs (t.A.flatMap mat3ToList ++ t.f)

/-- one request line -> one response line -/
def handle (toks : List String) : String :=
  match toks with
  | "gbs" :: chi :: n :: rest =>
    let n := n.toNat!
    let (prev, rest) := takeF (9 * n) rest
    let (a, rest) := takeF (9 * n) rest
    let (f, _) := takeF n rest
    texOut (applyGbs (parseF chi) n (chunkMats n prev) ⟨chunkMats n a, f⟩)
  | "extract" :: n :: rest =>
    let n := n.toNat!
    let y := rest.map parseF
    let (F, t) := extractVars n y
    fmtFs (mat3ToList F) ++ " " ++ texOut t
  | "poststep" :: chi :: n :: rest =>
    let n := n.toNat!
    let (prev, rest) := takeF (9 * n) rest
    let y := rest.map parseF
    fmtFs (postStep (parseF chi) n (chunkMats n prev) y)
  | _ => "bad-op"

partial def loop (h : IO.FS.Stream) (out : IO.FS.Stream) : IO Unit := do
  let line ← h.getLine
  if line.isEmpty then return ()
  let toks := (line.trimAscii.toString.splitOn " ").filter (· ≠ "")
  out.putStrLn (handle toks)
  loop h out

def main : IO Unit := do
  let out ← IO.getStdout
  loop (← IO.getStdin) out
