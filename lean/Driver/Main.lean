import Driver.Proto
import Driver.Ops.Update
import Driver.Ops.Flow
import Driver.Ops.Tensors
import Driver.Ops.Drex
import Driver.Ops.Solver
import Driver.Ops.Discrete
import Driver.Ops.Diag
import Driver.Ops.Scsv
import Driver.Ops.Geom
/-! Line-protocol driver over the executable models (ModelF = Float instantiation, ModelD).
One request per line, one response per line. Each area registers a handler below. -/

def handlers : List (List String → Option String) := [
  Ops.Geom.handle,
  Ops.Flow.handle,
  Ops.Tensors.handle,
  Ops.ScsvOps.handle,
  Ops.Diag.handle,
  Ops.Update.handle,
  Ops.Drex.handle,
  Ops.Solver.handle,
  Ops.Discrete.handle
]

def handle (toks : List String) : String :=
  match handlers.findSome? (fun h => h toks) with
  | some s => s
  | none => "bad-op"

partial def loop (h : IO.FS.Stream) (out : IO.FS.Stream) : IO Unit := do
  let line ← h.getLine
  if line.isEmpty then return ()
  let toks := (line.trimAscii.toString.splitOn " ").filter (· ≠ "")
  out.putStrLn (handle toks)
  loop h out

def main : IO Unit := do
  loop (← IO.getStdin) (← IO.getStdout)
