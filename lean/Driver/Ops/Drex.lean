import ModelF.Drex
import ModelF.Update
import Driver.Proto
/-! driver ops for K1–K9 (`core.get_crss`, `_get_rotation_and_strain`, `derivatives`) -/
namespace Ops.Drex
open ModelF Proto

def errName : Err → String
  | .unsupportedRegime => "unsupportedRegime"
  | .badRegime => "badRegime"
  | .badPhase => "badPhase"
  | .badFabric => "badFabric"
  | .phaseNotInAssemblage => "phaseNotInAssemblage"
  | .lengthMismatch => "lengthMismatch"

def tauStr (t : Tau) : String := if t.isInf then fmtF (1.0 / 0.0) else fmtF t.val

def handle (toks : List String) : Option String :=
  match toks with
  | ["drex_crss", phase, fabric] =>
    match getCrss phase.toInt! fabric.toInt! with
    | .error e => some ("err " ++ errName e)
    | .ok c => some ("ok " ++ " ".intercalate ((List.finRange 4).map fun s => tauStr (c s)))
  | "drex_rot" :: phase :: fabric :: rest =>
    let (a, rest) := takeF 9 rest
    let (d, rest) := takeF 9 rest
    let (l, rest) := takeF 9 rest
    let (ps, _) := takeF 3 rest
    match rotationAndStrain phase.toInt! fabric.toInt! (mat3OfList a) (mat3OfList d) (mat3OfList l)
        (ps.getD 0 0) (ps.getD 1 0) (ps.getD 2 0) with
    | .error e => some ("err " ++ errName e)
    | .ok (rot, e) => some ("ok " ++ fmtFs (mat3ToList rot ++ [e]))
  | "drex_deriv" :: regime :: phase :: fabric :: n :: rest =>
    let n := n.toNat!
    let (a, rest) := takeF (9 * n) rest
    let (f, rest) := takeF n rest
    let (d, rest) := takeF 9 rest
    let (l, rest) := takeF 9 rest
    let (sp, rest) := takeF 9 rest
    let (ps, _) := takeF 5 rest
    let q : DParams := ⟨ps.getD 0 0, ps.getD 1 0, ps.getD 2 0, ps.getD 3 0, ps.getD 4 0⟩
    match derivatives regime.toInt! phase.toInt! fabric.toInt! (chunk9 n a) f
        (mat3OfList d) (mat3OfList l) (mat3OfList sp) q with
    | .error e => some ("err " ++ errName e)
    | .ok (ad, fd) => some ("ok " ++ fmtFs (ad.flatMap mat3ToList ++ fd))
  | _ => none

end Ops.Drex
