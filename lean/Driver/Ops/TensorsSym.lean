import ModelF.TensorsSym
import Driver.Ops.TensorsCore
/-! driver ops for `diagnostics.elasticity_components` (C12): `ec_comp <36> <9 eigD> <9 eigV>`,
`ec_eigin <36>`, `ec_angle <3> <3>`, `ec_iso K G` -/
namespace Ops.TensorsSym
open ModelF ModelF.Tensors Proto Ops.TensorsCore

def fmtDecomp : Option Decomp → String
  | none => "0"
  | some d => "1 " ++ fmtFs [d.delta, d.tric, d.mono, d.ortho, d.tetr, d.hex, d.axis 0, d.axis 1, d.axis 2]

def handle (toks : List String) : Option String :=
  match toks with
  | "ec_comp" :: rest =>
    let (m, rest) := takeF 36 rest
    let (d, rest) := takeF 9 rest
    let (v, _) := takeF 9 rest
    let ma := arr m
    let da := arr d
    let va := arr v
    let c := elasticityComponents (ofA6 ma) (ofA3 da) (ofA3 va)
    -- also the three candidate distances and the SCCS axes (diagnostics for the harness' tie rule)
    let M := ofA6 (memoA6 (upperTriToSymmetric (ofA6 ma)))
    let S := ofA3 (memoA3 (sccs (ofA3 da) (ofA3 va)))
    let iso := isoVector c.bulk c.shear
    let nv := norm21 (matrixToVector M)
    let ds := [0, 1, 2].map fun (i : Fin 3) => (decompIn (voigtToTensor M) iso nv (permuteCols S i)).delta
    some (fmtFs [c.bulk, c.shear, c.aniso] ++ " " ++ fmtFs ds ++ " " ++ fmtFs (mat3ToList S) ++ " " ++ fmtDecomp c.best)
  | "ec_eigin" :: rest =>
    let ma := arr (rest.map parseF)
    let (a, b) := eighInputs (ofA6 ma)
    some (fmtFs (mat3ToList a ++ mat3ToList b))
  | "ec_angle" :: rest =>
    let (a, rest) := takeF 3 rest
    let (b, _) := takeF 3 rest
    let aa := arr a
    let ba := arr b
    some (fmtF (smallestAngle (vec3OfArr aa) (vec3OfArr ba)))
  | ["ec_iso", k, g] =>
    some (fmtFs (vec21ToList (isoVector (parseF k) (parseF g))))
  | _ => none

end Ops.TensorsSym
