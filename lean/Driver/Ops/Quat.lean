import ModelF.Quat
import ModelD.MIndex
import Driver.Proto
/-! driver ops for K25–K27 (`utils.quat_product`, `geometry.symmetry_operations`,
`geometry.misorientation_angles`, histogram, `stats.misorientations_random`, the M-index sum, the
batched variant).  Op names are prefixed `quat_`. -/
namespace Ops.Quat
open ModelF Proto

def latticeOf (s : String) : Lattice :=
  match s.toNat! with
  | 0 => .triclinic | 1 => .monoclinic | 2 => .orthorhombic
  | 3 => .rhombohedral | 4 => .tetragonal | _ => .hexagonal

def quatOfList (l : List Float) : Quat := mkQuat (l.getD 0 0) (l.getD 1 0) (l.getD 2 0) (l.getD 3 0)
def quatToList (q : Quat) : List Float := [q 0, q 1, q 2, q 3]

/-- four evaluated components -/
structure Q4 where
  x : Float
  y : Float
  z : Float
  w : Float
def Q4.ofQuat (q : Quat) : Q4 := ⟨q 0, q 1, q 2, q 3⟩
def Q4.toQuat (p : Q4) : Quat := mkQuat p.x p.y p.z p.w

def chunk4 : Nat → List Float → List Quat
  | 0, _ => []
  | n + 1, l => quatOfList (l.take 4) :: chunk4 n (l.drop 4)

def opOut : SymOp → String
  | .rot q => "r " ++ fmtFs (quatToList q)
  | .diag d => "d " ++ fmtFs (quatToList d)

def errOut : QErr → String
  | .valueError => "ValueError"
  | .assertionError => "AssertionError"

def optNat : Option Nat → String
  | some n => toString n
  | none => "none"

def handle (toks : List String) : Option String :=
  match toks with
  | "quat_prod" :: rest =>
    let (a, rest) := takeF 4 rest
    let (b, _) := takeF 4 rest
    some (fmtFs (quatToList (quatProductCoded (quatOfList a) (quatOfList b))))
  | ["quat_ops", sys] =>
    let ops := symmetryOperations (latticeOf sys)
    some (toString ops.length ++ " " ++ " ".intercalate (ops.map opOut))
  | "quat_misangles" :: sys :: n :: rest =>
    let n := n.toNat!
    let qs := chunk4 n (rest.map parseF)
    let sys := latticeOf sys
    let ops := symmetryOperations sys
    -- variants of every grain once (same values as `misorientationCoded` on each pair)
    -- (materialised as strict records: compiled closures of type `Quat` would recompute the product on every access)
    let vars : List (List Q4) := qs.map fun q => ops.map fun s => Q4.ofQuat (applyOp s q)
    some (fmtFs (ModelD.MIndex.pairValues (fun A B => minPairAngle (A.map Q4.toQuat) (B.map Q4.toQuat)) vars))
  | "quat_minangle" :: na :: nb :: rest =>
    let (a, rest) := takeF (4 * na.toNat!) rest
    let (b, _) := takeF (4 * nb.toNat!) rest
    some (fmtF (minPairAngle (chunk4 na.toNat! a) (chunk4 nb.toNat! b)))
  | "quat_pairangle" :: sys :: rest =>
    let (a, rest) := takeF 4 rest
    let (b, _) := takeF 4 rest
    some (fmtF (misorientationCoded (latticeOf sys) (quatOfList a) (quatOfList b)))
  | "quat_hist" :: n :: rest =>
    let n := n.toNat!
    let xs := rest.map parseF
    let c := histCounts n xs
    some (" ".intercalate (c.map toString) ++ " | " ++ fmtFs (histDensity n xs))
  | ["quat_random", sys, lo, hi] =>
    match misorientationsRandom (latticeOf sys) (parseF lo) (parseF hi) with
    | .ok v => some ("ok " ++ fmtF v)
    | .error e => some (errOut e)
  | ["quat_consts", sys] =>
    let s := latticeOf sys
    some (s!"{s.ab.1} {s.ab.2} {s.thetaMax} {s.cConst} " ++ fmtFs [grimmerA s.ab.1, grimmerB s.ab.1])
  | "quat_mindex" :: th :: b :: rest =>
    let b := b.toNat!
    let (t, rest) := takeF b rest
    let (o, _) := takeF b rest
    some (fmtF (mIndexSum (parseF th) t o))
  | "quat_batched" :: n :: order =>
    let stack := List.range n.toNat!
    some (" ".intercalate ((ModelD.MIndex.batched (fun i => i) stack (order.map String.toNat!)).map optNat))
  | ["quat_pairs", n] =>
    some (" ".intercalate ((ModelD.MIndex.pairs (List.range n.toNat!)).map fun p => s!"{p.1},{p.2}"))
  | _ => none

end Ops.Quat
