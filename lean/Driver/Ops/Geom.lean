import ModelF.Density
import Driver.Proto
/-! driver ops for K38–K41 (`to_cartesian`, `to_spherical`, `poles`, `lambert_equal_area`,
`point_density` and its kernels) -/
namespace Ops.Geom
open ModelF ModelF.Geom ModelF.Density Proto

/-- strings cross as comma-separated decimal code points (`-` = empty string) -/
def decodeStr (s : String) : String :=
  if s = "-" then "" else String.ofList ((s.splitOn ",").map fun t => Char.ofNat t.toNat!)

def vec3OfList (l : List Float) : Vec3 := Vec3.memo fun i => l.getD i.val 0

def chunkMats : Nat → List Float → List Mat3
  | 0, _ => []
  | n + 1, l => Mat3.memo (mat3OfList (l.take 9)) :: chunkMats n (l.drop 9)

def chunkVecs : Nat → List Float → List Vec3
  | 0, _ => []
  | n + 1, l => vec3OfList (l.take 3) :: chunkVecs n (l.drop 3)

def fmtTriple (t : Float × Float × Float) : String := fmtFs [t.1, t.2.1, t.2.2]

def handle (toks : List String) : Option String :=
  match toks with
  | ["geom_cart", a, b, c] => some (fmtTriple (toCartesian (parseF a) (parseF b) (parseF c)))
  | ["geom_sph", a, b, c] => some (fmtTriple (toSpherical (parseF a) (parseF b) (parseF c)))
  | "geom_lambert" :: n :: rest =>
    let pts := chunkVecs n.toNat! (rest.map parseF)
    some (fmtFs (pts.flatMap fun p => let r := lambert (p 0) (p 1) (p 2); [r.1, r.2]))
  | "geom_poles" :: ra :: n :: rest =>
    let n := n.toNat!
    let (a, rest) := takeF (9 * n) rest
    let (h, _) := takeF 3 rest
    some (match poles (chunkMats n a) (decodeStr ra) (vec3OfList h) with
      | .error .keyError => "KeyError"
      | .error .indexError => "IndexError"
      | .ok rows => "ok " ++ " ".intercalate (rows.map fun r =>
          fmtF r.1 ++ " " ++ fmtF r.2.1 ++ " " ++ (match r.2.2 with | some z => fmtF z | none => "?")))
  | "dens" :: kern :: axial :: sig :: g :: wkind :: nw :: rest =>
    -- dens <kernel> <0|1> <σ|-> <gridsteps> <s|v> <#weights> weights… <n> data(3n)
    let nw := nw.toNat!
    let (ws, rest) := takeF nw rest
    let w : Weights := if wkind = "s" then .scalar (ws.headD 1) else .vector ws
    match rest with
    | n :: rest =>
      let data := chunkVecs n.toNat! (rest.map parseF)
      let σ : Option Float := if sig = "-" then none else some (parseF sig)
      -- `pointDensity = finish ∘ rawTotals` (model definition); the raw totals are computed once and
      -- their mean / mean |.| are appended for the harness' conditioning rule
      some (match rawTotals data g.toNat! w (decodeStr kern) (axial = "1") σ with
        | .error .valueError => "ValueError"
        | .error .typeError => "TypeError"
        | .ok t =>
          let (xy, d) := finish g.toNat! t
          let diag : List Float := [listSum t / t.length.toFloat, listSum (t.map Float.abs) / t.length.toFloat]
          "ok " ++ fmtFs (xy.map (·.1) ++ xy.map (·.2) ++ d ++ diag))
    | [] => some "bad-request"
  | "dens_kernel" :: kern :: axial :: sig :: rest =>
    -- one kernel call on given cosines: counts… then scale
    some (match kernelOfName (decodeStr kern) with
      | none => "ValueError"
      | some k =>
        let r := kernelEval k (parseF sig) (axial = "1") (rest.map parseF)
        "ok " ++ fmtFs (r.1 ++ [r.2]))
  | ["dens_grid", g] =>
    some (fmtFs ((counters g.toNat!).flatMap fun c => [c 0, c 1, c 2]))
  | _ => none

end Ops.Geom
