import ModelF.Resample
import ModelD.Resample
import Driver.Proto
/-! driver ops for K28 (`stats.resample_orientations`) -/
namespace Ops.Resample
open ModelF Proto

def fmtNats (l : List Nat) : String := " ".intercalate (l.map toString)

def parseShape (toks : List String) : List Nat × List String :=
  match toks with
  | r :: rest => let k := r.toNat!; ((rest.take k).map String.toNat!, rest.drop k)
  | [] => ([], [])

def handle (toks : List String) : Option String :=
  match toks with
  -- rs_snap M (p perm… | s) f… n us…   →  perm ; positions ; positions by binary search ; grains ; fractions
  | "rs_snap" :: m :: mode :: rest =>
    let m := m.toNat!
    let (perm?, rest) := if mode == "p" then (some ((rest.take m).map String.toNat!), rest.drop m) else (none, rest)
    let (f, rest) := takeF m rest
    match rest with
    | n :: rest =>
      let n := n.toNat!
      let (us, _) := takeF n rest
      let perm := perm?.getD (argsortStable f)
      let fa := gather f perm
      let c := cumfrac fa
      let pos := countLess fa us
      let posB := us.map (fun u => bsearchLeft c u c.length 0 c.length)
      let out := resampleSnap perm (List.range m) f us
      some (fmtNats perm ++ " ; " ++ fmtNats pos ++ " ; " ++ fmtNats posB ++ " ; "
            ++ fmtNats (out.map (·.1)) ++ " ; " ++ fmtFs (out.map (·.2)))
    | [] => some "bad-args"
  -- rs_cumfrac M f…  → the searched array (ascending order by the model's own sort)
  | "rs_cumfrac" :: m :: rest =>
    let (f, _) := takeF m.toNat! rest
    some (fmtFs (cumfrac (gather f (argsortStable f))))
  -- rs_shape coded|fixed  rank os…  rank fs…  (n | none)
  | "rs_shape" :: which :: rest =>
    let (os, rest) := parseShape rest
    let (fs, rest) := parseShape rest
    let n : Option Nat := match rest with
      | ["none"] => none
      | [k] => some k.toNat!
      | _ => none
    let rej := if which == "coded" then ModelD.Resample.rejectCoded else ModelD.Resample.rejectFixed
    some (ModelD.Resample.fmtOutcome (ModelD.Resample.outcome rej os fs n))
  | _ => none

end Ops.Resample
