import ModelD.Npz
import Driver.Proto
/-! driver op for K32 (`Mineral.save/load/from_file`): one line = one script over one model
file system. Strings cross as `S<codepoint>.<codepoint>…` (`S` = empty, `-` = None), arrays as
`rank d… ndata hex…`, minerals as `phase fabric regime n_grains nF arr… nO arr…`. -/
namespace Ops.Npz
open ModelD.Npz Proto

def parseStr (t : String) : Option Str :=
  if t == "-" then none
  else some (((t.drop 1).toString.splitOn ".").filterMap (fun s => if s.isEmpty then none else some (Char.ofNat s.toNat!)))

def fmtStr (s : Str) : String := "S" ++ ".".intercalate (s.map (fun c => toString c.toNat))

def fmtHex64 (x : UInt64) : String :=
  let b := x.toNat
  String.ofList ((List.range 16).map fun i => hexDigit ((b >>> (4 * (15 - i))) % 16))

def parseArr (toks : List String) : Arr × List String :=
  match toks with
  | r :: rest =>
    let r := r.toNat!
    let shape := (rest.take r).map String.toNat!
    let rest := rest.drop r
    match rest with
    | n :: rest =>
      let n := n.toNat!
      (⟨shape, (rest.take n).map (fun h => UInt64.ofNat (parseHex h))⟩, rest.drop n)
    | [] => (⟨shape, []⟩, [])
  | [] => (⟨[], []⟩, [])

def parseArrs : Nat → List String → List Arr × List String
  | 0, toks => ([], toks)
  | k + 1, toks =>
    let (a, rest) := parseArr toks
    let (as, rest) := parseArrs k rest
    (a :: as, rest)

def parseMineral (toks : List String) : Mineral × List String :=
  match toks with
  | ph :: fa :: re :: n :: nF :: rest =>
    let (fr, rest) := parseArrs nF.toNat! rest
    match rest with
    | nO :: rest =>
      let (ors, rest) := parseArrs nO.toNat! rest
      (⟨ph.toNat!, fa.toNat!, re.toNat!, n.toNat!, fr, ors⟩, rest)
    | [] => (⟨ph.toNat!, fa.toNat!, re.toNat!, n.toNat!, fr, []⟩, [])
  | _ => (⟨0, 0, 0, 0, [], []⟩, [])

def fmtArr (a : Arr) : String :=
  toString a.shape.length ++ " " ++ " ".intercalate (a.shape.map toString)
    ++ (if a.shape.isEmpty then "" else " ") ++ toString a.data.length
    ++ (if a.data.isEmpty then "" else " ") ++ " ".intercalate (a.data.map fmtHex64)

def fmtMineral (m : Mineral) : String :=
  s!"{m.phase} {m.fabric} {m.regime} {m.nGrains} {m.fractions.length}"
    ++ String.join (m.fractions.map (fun a => " " ++ fmtArr a))
    ++ s!" {m.orientations.length}" ++ String.join (m.orientations.map (fun a => " " ++ fmtArr a))

def fmtErr : Err → String
  | .valueError => "ValueError" | .keyError => "KeyError" | .indexError => "IndexError"
  | .typeError => "TypeError" | .overflowError => "OverflowError" | .fileNotFound => "FileNotFoundError"

def fmtFS (fs : FS) : String :=
  ";".intercalate (fs.map (fun e => fmtStr e.1 ++ ":" ++ ",".intercalate (e.2.map (fun x => fmtStr x.1))))

partial def runOps (fs : FS) (toks : List String) (acc : List String) : List String :=
  match toks with
  | "SAVE" :: file :: pf :: rest =>
    let (m, rest) := parseMineral rest
    let (fs', r) := save fs m ((parseStr file).getD []) (parseStr pf)
    runOps fs' rest ((match r with | .ok _ => "ok" | .error e => fmtErr e) :: acc)
  | "FROM" :: file :: pf :: rest =>
    let r := fromFile fs ((parseStr file).getD []) (parseStr pf)
    runOps fs rest ((match r with | .ok m => "ok " ++ fmtMineral m | .error e => fmtErr e) :: acc)
  | "LOAD" :: file :: pf :: n :: rest =>
    let r := load fs ⟨0, 0, 0, n.toNat!, [], []⟩ ((parseStr file).getD []) (parseStr pf)
    runOps fs rest ((match r with | .ok m => "ok " ++ fmtMineral m | .error e => fmtErr e) :: acc)
  | "LS" :: rest => runOps fs rest (("ls " ++ fmtFS fs) :: acc)
  | [] => acc.reverse
  | _ => ("bad-token" :: acc).reverse

def handle (toks : List String) : Option String :=
  match toks with
  | "npz_run" :: rest => some (" | ".intercalate (runOps [] rest []))
  | _ => none

end Ops.Npz
