import ModelD.Params
import ModelD.Config
import ModelF.ConfigNum
import Driver.Proto
/-! driver ops for K36/K37 (`core.DefaultParams`, `pydrex.mock`, `io.parse_config`).

Encodings (no spaces inside a token):
* strings `S<codepoint>.<codepoint>…` (`S` = empty), `-` = absent;
* Python values: `i<int>`, `f<S-string of the repr>`, `P<ordinal>` (MineralPhase), `F<ordinal>`
  (MineralFabric), `s<S-string>`, `bT`/`bF`, `t(<v>,<v>…)`, `l(<v>,…)` (flat). -/
namespace Ops.Config
open ModelD.Params Proto

def decStr (t : String) : String :=
  String.ofList (((t.drop 1).toString.splitOn ".").filterMap
    (fun s => if s.isEmpty then none else some (Char.ofNat s.toNat!)))

def encStr (s : String) : String := "S" ++ ".".intercalate (s.toList.map (fun c => toString c.toNat))

def optStr (t : String) : Option String := if t == "-" then none else some (decStr t)
def fmtOptStr : Option String → String
  | none => "-"
  | some s => encStr s

def parseInt (s : String) : Int :=
  if s.startsWith "-" then - (Int.ofNat (s.drop 1).toString.toNat!) else Int.ofNat s.toNat!

def parseScalar (t : String) : Scalar :=
  let body := (t.drop 1).toString
  match t.front with
  | 'i' => .int (parseInt body)
  | 'f' => .float (decStr body)
  | 'P' => .phase body.toNat!
  | 'F' => .fabric body.toNat!
  | 's' => .str (decStr body)
  | 'b' => .bool (body == "T")
  | _ => .str t

def parseVal (t : String) : PyVal :=
  if t.startsWith "t(" || t.startsWith "l(" then
    let inner := ((t.drop 2).toString.dropEnd 1).toString
    let xs := (inner.splitOn ",").filter (· ≠ "") |>.map parseScalar
    if t.startsWith "t(" then .tuple xs else .list xs
  else .sc (parseScalar t)

def fmtScalar : Scalar → String
  | .int i => "i" ++ toString i
  | .float r => "f" ++ encStr r
  | .phase o => "P" ++ toString o
  | .fabric o => "F" ++ toString o
  | .str s => "s" ++ encStr s
  | .bool b => if b then "bT" else "bF"

def fmtVal : PyVal → String
  | .sc s => fmtScalar s
  | .tuple xs => "t(" ++ ",".intercalate (xs.map fmtScalar) ++ ")"
  | .list xs => "l(" ++ ",".intercalate (xs.map fmtScalar) ++ ")"

def fmtOptVal : Option PyVal → String
  | none => "None"
  | some v => fmtVal v

def fmtClass (c : ClassDef) : String :=
  c.name ++ "|" ++ (if c.decorated then "1" else "0") ++ "|"
    ++ ",".intercalate (c.annotated.map (fun f => f.name ++ ":" ++ f.ann ++ ":" ++ fmtVal f.default)) ++ "|"
    ++ ",".intercalate (c.plain.map (fun kv => kv.1 ++ ":" ++ fmtVal kv.2))

/-- `nAnn (name ann val)* nPlain (name val)*` after `name decorated` -/
def parseClass (toks : List String) : ClassDef × List String :=
  match toks with
  | name :: dec :: nA :: rest =>
    let nA := nA.toNat!
    let annToks := rest.take (3 * nA)
    let rest := rest.drop (3 * nA)
    let rec fields : List String → List Field
      | n :: a :: v :: more => ⟨n, a, parseVal v⟩ :: fields more
      | _ => []
    match rest with
    | nP :: rest =>
      let nP := nP.toNat!
      let plToks := rest.take (2 * nP)
      let rec plains : List String → List (String × PyVal)
        | n :: v :: more => (n, parseVal v) :: plains more
        | _ => []
      (⟨name, dec == "1", fields annToks, plains plToks⟩, rest.drop (2 * nP))
    | [] => (⟨name, dec == "1", fields annToks, []⟩, [])
  | _ => (⟨"?", false, [], []⟩, [])

def parseClasses : Nat → List String → Cls × List String
  | 0, toks => ([], toks)
  | k + 1, toks =>
    let (c, rest) := parseClass toks
    let (cs, rest) := parseClasses k rest
    (c :: cs, rest)

def fmtPErr : ModelD.Params.Err → String
  | .valueError => "ValueError" | .typeError => "TypeError"
  | .frozenInstanceError => "FrozenInstanceError" | .attributeError => "AttributeError"

def takePairs : Nat → List String → List (String × PyVal) × List String
  | 0, toks => ([], toks)
  | k + 1, n :: v :: rest =>
    let (ps, rest) := takePairs k rest
    ((n, parseVal v) :: ps, rest)
  | _, toks => ([], toks)

/-- `pr_inst nClasses classes… nKw (name val)… nQ names… nSet names…` -/
def prInst (toks : List String) : String :=
  match toks with
  | nC :: rest =>
    let (cls, rest) := parseClasses nC.toNat! rest
    match rest with
    | nK :: rest =>
      let (kw, rest) := takePairs nK.toNat! rest
      match rest with
      | nQ :: rest =>
        let qs := rest.take nQ.toNat!
        let rest := rest.drop nQ.toNat!
        let sets := match rest with
          | nS :: rest => rest.take nS.toNat!
          | [] => []
        match instantiate cls kw with
        | .error e => fmtPErr e
        | .ok i =>
          "ok|fields:" ++ ",".intercalate ((fieldsOf cls).map (fun f => f.name ++ ":" ++ f.ann))
            ++ "|get:" ++ ",".intercalate (qs.map (fun q => q ++ "=" ++ fmtOptVal (getattr i q)))
            ++ "|dict:" ++ ",".intercalate ((asDict i).map (fun kv => kv.1 ++ "=" ++ fmtOptVal kv.2))
            ++ "|hash:" ++ (if hashOk i then "1" else "0")
            ++ "|set:" ++ ",".intercalate (sets.map (fun n => n ++ "=" ++
                (match setattr i n (.sc (.int 1)) with | .ok _ => "ok" | .error e => fmtPErr e)))
      | [] => "bad-args"
    | [] => "bad-args"
  | [] => "bad-args"

/-! ### parse_config -/
open ModelD.Config in
def parseTok (t : String) : PhaseTok :=
  match t.front with
  | 's' => .str (decStr (t.drop 1).toString)
  | 'i' => .int (parseInt (t.drop 1).toString)
  | 'b' => .bool (t == "bT")
  | _ => .other

open ModelD.Config in
def parseNum (t : String) : Option NumTok :=
  if t == "-" then none else if t == "o" then some .other else some (.num (decStr (t.drop 1).toString))

def takeStrPairs : Nat → List String → List (String × String) × List String
  | 0, toks => ([], toks)
  | k + 1, n :: v :: rest =>
    let (ps, rest) := takeStrPairs k rest
    ((n, decStr v) :: ps, rest)
  | _, toks => ([], toks)

def optList (toks : List String) : Option (List String) × List String :=
  match toks with
  | "-" :: rest => (none, rest)
  | n :: rest => (some ((rest.take n.toNat!).map decStr), rest.drop n.toNat!)
  | [] => (none, [])

open ModelD.Config in
def parseParamsIn (toks : List String) : Option (ParamsIn Float) × List String :=
  match toks with
  | "P0" :: rest => (none, rest)
  | "P1" :: rest =>
    let (asm, rest) : Option (List PhaseTok) × List String := match rest with
      | "-" :: rest => (none, rest)
      | n :: rest => (some ((rest.take n.toNat!).map parseTok), rest.drop n.toNat!)
      | [] => (none, [])
    let (fr, rest) : Option (List Float) × List String := match rest with
      | "-" :: rest => (none, rest)
      | n :: rest => (some ((rest.take n.toNat!).map parseF), rest.drop n.toNat!)
      | [] => (none, [])
    match rest with
    | fab :: co :: nP :: rest =>
      let fabric : Option FabTok := if fab == "-" then none else if fab == "o" then some .other
        else some (.str (decStr (fab.drop 1).toString))
      let coeff : Option Nat := if co == "-" then none else some co.toNat!
      let (pt, rest) := takeStrPairs nP.toNat! rest
      (some ⟨asm, fr, fabric, coeff, pt⟩, rest)
    | _ => (some ⟨asm, fr, none, none, []⟩, [])
  | _ => (none, toks)

open ModelD.Config in
def parseInputIn (toks : List String) : Option InputIn × List String :=
  match toks with
  | "I0" :: rest => (none, rest)
  | "I1" :: ts :: sf :: a :: b :: c :: d :: e :: rest =>
    (some ⟨parseNum ts, parseNum sf, a == "1", b == "1", c == "1", d == "1", e == "1"⟩, rest)
  | _ => (none, toks)

open ModelD.Config in
def parseOutputIn (toks : List String) : Option OutputIn × List String :=
  match toks with
  | "O0" :: rest => (none, rest)
  | "O1" :: dir :: rest =>
    let (raw, rest) := optList rest
    let (diag, rest) := optList rest
    match rest with
    | an :: pa :: lg :: rest => (some ⟨optStr dir, raw, diag, optStr an, optStr pa, optStr lg⟩, rest)
    | _ => (some ⟨optStr dir, raw, diag, none, none, none⟩, [])
  | _ => (none, toks)

open ModelD.Config in
def fmtPhaseVal : PhaseVal → String
  | .member .olivine => "m0"
  | .member .enstatite => "m1"
  | .classAttr n => "c" ++ encStr n

open ModelD.Config in
def fabricOrd : Fabric → Nat
  | .olivine_A => 0 | .olivine_B => 1 | .olivine_C => 2 | .olivine_D => 3 | .olivine_E => 4 | .enstatite_AB => 5

open ModelD.Config in
def fmtKeyState : KeyState → String
  | .absent => "absent" | .raw => "raw" | .loaded => "loaded" | .setNone => "none"

open ModelD.Config in
def fmtMode : Mode → String
  | .mesh => "mesh" | .velocityGradient => "velgrad" | .paths => "paths" | .none => "none"

open ModelD.Config in
def fmtCErr : ModelD.Config.Err → String
  | .configError => "ConfigError" | .typeError => "TypeError" | .keyError => "KeyError" | .valueError => "ValueError"

open ModelD.Config in
def fmtOut (o : ConfigOut Float) : String :=
  "ok|name=" ++ fmtOptStr o.name
    ++ "|phases=" ++ ",".intercalate (o.parameters.assemblage.map fmtPhaseVal)
    ++ "|fr=" ++ (match o.parameters.fractions with | none => "-" | some l => " ".intercalate (l.map fmtF))
    ++ "|fabric=" ++ toString (fabricOrd o.parameters.fabric)
    ++ "|coeff=" ++ (match o.parameters.coeffLen with | none => "-" | some n => toString n)
    ++ "|pt=" ++ ";".intercalate (o.parameters.passthrough.map (fun kv => kv.1 ++ ":" ++
          (match kv.2 with | .given r => "G" ++ encStr r | .default v => "D" ++ fmtOptVal v)))
    ++ "|in=" ++ ",".intercalate [encStr o.input.timestep, encStr o.input.strainFinal, fmtMode o.input.mode,
          fmtKeyState o.input.mesh, fmtKeyState o.input.velocityGradient, fmtKeyState o.input.paths,
          fmtKeyState o.input.locationsInitial, fmtKeyState o.input.locationsFinal]
    ++ "|out=" ++ ",".intercalate [(if o.output.stored then "1" else "0"), fmtOptStr o.output.directory,
          "[" ++ " ".intercalate (o.output.rawOutput.map fmtPhaseVal) ++ "]",
          "[" ++ " ".intercalate (o.output.diagnostics.map fmtPhaseVal) ++ "]",
          fmtOptStr o.output.anisotropy, fmtOptStr o.output.paths, encStr o.output.logLevel]

open ModelD.Config in
/-- `cfg_parse (pinned|repaired) nAttrs attrs… name params input output` -/
def cfgParse (toks : List String) : String :=
  match toks with
  | which :: nA :: rest =>
    let attrs := (rest.take nA.toNat!).map decStr
    let rest := rest.drop nA.toNat!
    match rest with
    | name :: rest =>
      let (p, rest) := parseParamsIn rest
      let (i, rest) := parseInputIn rest
      let (o, _) := parseOutputIn rest
      let q := if which == "pinned" then pinned else repaired
      match parseConfig q attrs ModelF.fracSumBad ⟨optStr name, p, i, o⟩ with
      | .ok out => fmtOut out
      | .error e => fmtCErr e
    | [] => "bad-args"
  | _ => "bad-args"

def handle (toks : List String) : Option String :=
  match toks with
  | ["pr_table"] => some (";".intercalate ((defaultParams :: presets).map fmtClass))
  | ["pr_table_pinned"] => some (";".intercalate ((defaultParams :: presetsPinned).map fmtClass))
  | "pr_inst" :: rest => some (prInst rest)
  | "cfg_parse" :: rest => some (cfgParse rest)
  | _ => none

end Ops.Config
