import ModelF.Tensors
import Driver.Proto
/-! driver ops for K14–K19 (`pydrex.tensors`); all op names start with `t_` -/
namespace Ops.TensorsCore
open ModelF ModelF.Tensors Proto

/-- force the 81 entries once -/
def memo4 (T : Ten4) : Ten4 :=
  let a : Array Float := ((List.finRange 3).flatMap fun p => (List.finRange 3).flatMap fun q =>
    (List.finRange 3).flatMap fun r => (List.finRange 3).map fun s => T p q r s).toArray
  fun p q r s => a.getD (27 * p.val + 9 * q.val + 3 * r.val + s.val) 0

def memo6 (M : Mat6) : Mat6 :=
  let a : Array Float := (mat6ToList M).toArray
  fun i j => a.getD (6 * i.val + j.val) 0

def memo21 (v : Vec21) : Vec21 :=
  let a : Array Float := (vec21ToList v).toArray
  fun k => a.getD k.val 0

def sqOfList (n : Nat) (l : List Float) : Fin n → Fin n → Float :=
  let a := l.toArray
  fun i j => a.getD (n * i.val + j.val) 0
def sqToList (n : Nat) (M : Fin n → Fin n → Float) : List Float :=
  (List.finRange n).flatMap fun i => (List.finRange n).map fun j => M i j

def vec3OfList (l : List Float) : Vec3 := fun i => l.getD i.val 0

def m6 (l : List Float) : Mat6 := memo6 (mat6OfList l)
def t4 (l : List Float) : Ten4 := memo4 (ten4OfList l)
def v21 (l : List Float) : Vec21 := memo21 (vec21OfList l)

def handle (toks : List String) : Option String :=
  match toks with
  | ["t_vidx", p, q] =>
    let p := p.toNat!; let q := q.toNat!
    some (toString (vidxNat p q) ++ " " ++ toString (vidx (Fin.ofNat 3 p) (Fin.ofNat 3 q)).val)
  | "t_v2t" :: rest => some (fmtFs (ten4ToList (voigtToTensor (m6 (rest.map parseF)))))
  | "t_t2v" :: rest => some (fmtFs (mat6ToList (tensorToVoigt (t4 (rest.map parseF)))))
  | "t_m2v" :: rest => some (fmtFs (vec21ToList (matrixToVector (m6 (rest.map parseF)))))
  | "t_v2m" :: rest => some (fmtFs (mat6ToList (vectorToMatrix (v21 (rest.map parseF)))))
  | "t_uts" :: n :: rest =>
    let n := n.toNat!
    some (fmtFs (sqToList n (upperTriToSymmetric (sqOfList n (rest.map parseF)))))
  | "t_rot" :: rest =>
    let (t, rest) := takeF 81 rest
    let (q, _) := takeF 9 rest
    some (fmtFs (ten4ToList (rotate (t4 t) (Mat3.memo (mat3OfList q)))))
  | "t_dec" :: rest =>
    let (a, b) := voigtDecompose (m6 (rest.map parseF))
    some (fmtFs (mat3ToList a ++ mat3ToList b))
  | "t_mono" :: rest => some (fmtFs (vec21ToList (monoProject (v21 (rest.map parseF)))))
  | "t_ortho" :: rest => some (fmtFs (vec21ToList (orthoProject (v21 (rest.map parseF)))))
  | "t_tetr" :: rest => some (fmtFs (vec21ToList (tetrProject (v21 (rest.map parseF)))))
  | "t_hex" :: rest => some (fmtFs (vec21ToList (hexProject (v21 (rest.map parseF)))))
  | "t_polar" :: left :: rest =>
    let (u, rest) := takeF 9 rest
    let (s, rest) := takeF 3 rest
    let (vh, _) := takeF 9 rest
    let d : SVD := ⟨Mat3.memo (mat3OfList u), vec3OfList s, Mat3.memo (mat3OfList vh)⟩
    let (a, b) := if left == "1" then polarLeft d else polarRight d
    some (fmtFs (mat3ToList a ++ mat3ToList b))
  | "t_inv" :: rest =>
    let (a, b, c) := invariants (Mat3.memo (mat3OfList (rest.map parseF)))
    some (fmtFs [a, b, c])
  | _ => none

end Ops.TensorsCore
