import ModelF.Tensors
import Driver.Proto
/-! driver ops for K14–K19 (`pydrex.tensors`); all op names start with `t_` -/
namespace Ops.TensorsCore
open ModelF ModelF.Tensors Proto

/-! Inputs are stored as arrays (data) and read through the model's `ofA*` accessors: a partial
application `ofA6 a` captures the array, nothing is recomputed per entry. -/
def arr (l : List Float) : Array Float := l.toArray

def sqOfArr (n : Nat) (a : Array Float) : Fin n → Fin n → Float :=
  fun i j => a.getD (n * i.val + j.val) 0
def sqToList (n : Nat) (M : Fin n → Fin n → Float) : List Float :=
  (List.finRange n).flatMap fun i => (List.finRange n).map fun j => M i j

def vec3OfArr (a : Array Float) : Vec3 := fun i => a.getD i.val 0

def m6 (l : List Float) : Mat6 := ofA6 (arr l)
def t4 (l : List Float) : Ten4 := ofA4 (arr l)
def v21 (l : List Float) : Vec21 := ofA21 (arr l)
def m3 (l : List Float) : Mat3 := ofA3 (arr l)

def handle (toks : List String) : Option String :=
  match toks with
  | ["t_vidx", p, q] =>
    let p := p.toNat!; let q := q.toNat!
    some (toString (vidxNat p q) ++ " " ++ toString (vidx (Fin.ofNat 3 p) (Fin.ofNat 3 q)).val)
  | "t_v2t" :: rest => let a := arr (rest.map parseF); some (fmtFs (ten4ToList (voigtToTensor (ofA6 a))))
  | "t_t2v" :: rest => let a := arr (rest.map parseF); some (fmtFs (mat6ToList (tensorToVoigt (ofA4 a))))
  | "t_m2v" :: rest => let a := arr (rest.map parseF); some (fmtFs (vec21ToList (matrixToVector (ofA6 a))))
  | "t_v2m" :: rest => let a := arr (rest.map parseF); some (fmtFs (mat6ToList (vectorToMatrix (ofA21 a))))
  | "t_uts" :: n :: rest =>
    let n := n.toNat!
    let a := arr (rest.map parseF)
    some (fmtFs (sqToList n (upperTriToSymmetric (sqOfArr n a))))
  | "t_rot" :: rest =>
    let (t, rest) := takeF 81 rest
    let (q, _) := takeF 9 rest
    let ta := arr t
    let qa := arr q
    some (fmtFs (ten4ToList (rotate (ofA4 ta) (ofA3 qa))))
  | "t_dec" :: rest =>
    let ma := arr (rest.map parseF)
    let (a, b) := voigtDecompose (ofA6 ma)
    some (fmtFs (mat3ToList a ++ mat3ToList b))
  | "t_mono" :: rest => let a := arr (rest.map parseF); some (fmtFs (vec21ToList (monoProject (ofA21 a))))
  | "t_ortho" :: rest => let a := arr (rest.map parseF); some (fmtFs (vec21ToList (orthoProject (ofA21 a))))
  | "t_tetr" :: rest => let a := arr (rest.map parseF); some (fmtFs (vec21ToList (tetrProject (ofA21 a))))
  | "t_hex" :: rest => let a := arr (rest.map parseF); some (fmtFs (vec21ToList (hexProject (ofA21 a))))
  | "t_polar" :: left :: rest =>
    let (u, rest) := takeF 9 rest
    let (s, rest) := takeF 3 rest
    let (vh, _) := takeF 9 rest
    let ua := arr u
    let sa := arr s
    let va := arr vh
    let d : SVD := ⟨ofA3 ua, vec3OfArr sa, ofA3 va⟩
    let (a, b) := if left == "1" then polarLeft d else polarRight d
    some (fmtFs (mat3ToList a ++ mat3ToList b))
  | "t_inv" :: rest =>
    let ma := arr (rest.map parseF)
    let (a, b, c) := invariants (ofA3 ma)
    some (fmtFs [a, b, c])
  | _ => none

end Ops.TensorsCore
