import ModelF.Diag
import Driver.Proto
/-! driver ops for K21–K24 (`_scatter_matrix`, `symmetry_pgr`, `coaxial_index`, `bingham_average`,
`finite_strain`, `angle_fse_simpleshear`).  The external eigensolver is passed to the model as a
function returning the eigen-decomposition RECORDED from the real call (sent by the harness). -/
namespace Ops.Diag
open ModelF ModelF.Diag Proto

/-- strings cross as comma-separated decimal code points (`-` = empty string) -/
def decodeStr (s : String) : String :=
  if s = "-" then "" else String.ofList ((s.splitOn ",").map fun t => Char.ofNat t.toNat!)

def vec3OfList (l : List Float) : Vec3 := fun i => l.getD i.val 0
def vec3ToList (v : Vec3) : List Float := [v 0, v 1, v 2]

def chunkMats : Nat → List Float → List Mat3
  | 0, _ => []
  | n + 1, l => Mat3.memo (mat3OfList (l.take 9)) :: chunkMats n (l.drop 9)

def fmtPgr : Except Err (Float × Float × Float) → String
  | .ok (p, g, r) => "ok " ++ fmtFs [p, g, r]
  | .error .valueError => "ValueError"

def handle (toks : List String) : Option String :=
  match toks with
  | ["diag_axis", s] =>
    some (match axisRow (decodeStr s) with | .ok r => toString r.val | .error .valueError => "ValueError")
  | "diag_scatter" :: row :: n :: rest =>
    let n := n.toNat!
    let A := chunkMats n (rest.map parseF)
    let row : Fin 3 := Fin.ofNat 3 row.toNat!
    some (fmtFs (mat3ToList (scatterLower A row)))
  | "diag_pgr" :: ax :: rest =>
    -- eigenvalues recorded from the real `eigvalsh` call
    let w := vec3OfList (rest.map parseF)
    some (fmtPgr (symmetryPgr (fun _ => w) [] (decodeStr ax)))
  | "diag_coax" :: ax1 :: ax2 :: n :: rest =>
    let n := n.toNat!
    let (a, rest) := takeF (9 * n) rest
    let (w1, rest) := takeF 3 rest
    let (w2, _) := takeF 3 rest
    let A := chunkMats n a
    let key : List Float := match axisRow (decodeStr ax1) with
      | .ok r => mat3ToList (scatterLower A r)
      | .error _ => []
    let eigvalsh : Mat3 → Vec3 := fun L => if mat3ToList L == key then vec3OfList w1 else vec3OfList w2
    some (match coaxialIndex eigvalsh A (decodeStr ax1) (decodeStr ax2) with
      | .ok x => "ok " ++ fmtF x
      | .error .valueError => "ValueError")
  | "diag_bingham" :: ax :: rest =>
    let V := mat3OfList (rest.map parseF)
    some (match binghamAverage (fun _ => (fun _ => 0, V)) [] (decodeStr ax) with
      | .ok u => "ok " ++ fmtFs (vec3ToList u)
      | .error .valueError => "ValueError")
  | "diag_leftcg" :: rest =>
    some (fmtFs (mat3ToList (leftCG (mat3OfList (rest.map parseF)))))
  | "diag_fse" :: rest =>
    let (f, rest) := takeF 9 rest
    let (w, rest) := takeF 3 rest
    let (v, _) := takeF 9 rest
    let out := finiteStrain (fun _ => (vec3OfList w, mat3OfList v)) (mat3OfList f)
    some (fmtFs (out.1 :: vec3ToList out.2))
  | ["diag_angle", x] => some (fmtF (angleFseSimpleShear (parseF x)))
  | "diag_shearF" :: [g] => some (fmtFs (mat3ToList (shearF (parseF g))))
  | _ => none

end Ops.Diag
