import Driver.Ops.Resample
import Driver.Ops.Npz
import Driver.Ops.Config
/-! registration point of the `discrete` area (C15, C17, C19): one handler for Driver/Main -/
namespace Ops.Discrete

def handle (toks : List String) : Option String :=
  [Ops.Resample.handle, Ops.Npz.handle, Ops.Config.handle].findSome? (fun h => h toks)

end Ops.Discrete
