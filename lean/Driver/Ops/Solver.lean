import ModelF.Solver
import Driver.Proto
import Driver.Ops.Drex
/-! driver ops for K12 (`eval_rhs`) -/
namespace Ops.Solver
open ModelF Proto

/-- solver_rhs phase fabric n k <assemblage k ints> <fractions k> <p n lam M chi> <L 9> emax <spin 9> regime <y 10n+9> -/
def handle (toks : List String) : Option String :=
  match toks with
  | "solver_rhs" :: phase :: fabric :: n :: k :: rest =>
    let n := n.toNat!
    let k := k.toNat!
    let asm := (rest.take k).map String.toInt!
    let rest := rest.drop k
    let (fr, rest) := takeF k rest
    let (ps, rest) := takeF 5 rest
    let (l, rest) := takeF 9 rest
    let (em, rest) := takeF 1 rest
    let (sp, rest) := takeF 9 rest
    let regime := (rest.headD "0").toInt!
    let y := (rest.drop 1).map parseF
    let mp : MParams := ⟨asm, fr, ps.getD 0 0, ps.getD 1 0, ps.getD 2 0, ps.getD 3 0, ps.getD 4 0⟩
    let env : RhsEnv := ⟨mat3OfList l, em.headD 0, mat3OfList sp, regime⟩
    match evalRhs phase.toInt! fabric.toInt! n mp env y with
    | .error e => some ("err " ++ Ops.Drex.errName e)
    | .ok v => some ("ok " ++ fmtFs v)
  | _ => none

end Ops.Solver
