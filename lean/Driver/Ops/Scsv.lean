import ModelD.Scsv
import ModelD.ScsvTerse
import ModelD.ScsvDomain
import Driver.Proto
import Std.Data.HashMap
/-! driver ops for K29–K31 (`io.save_scsv`, `read_scsv`, `_validate_scsv_schema`,
`_parse_scsv_cell`, and the modelled externals `csv`, YAML scalars, `str` methods).

Strings cross as hex of their UTF-8 bytes behind a one-letter tag; floats as 16 hex digits.
CPython's float/complex formatting and parsing are supplied by the harness as oracle tables
(`O n e₁ … eₙ`); when the model needs an entry that is not in the table the op answers
`miss …` and the harness extends the table (so a table can never be silently incomplete). -/
namespace Ops.ScsvOps
open _root_.Scsv Proto

def hexOfBytes (b : ByteArray) : String :=
  String.ofList (b.toList.flatMap fun x => [hexDigit (x.toNat / 16), hexDigit (x.toNat % 16)])

def hexOfStr (s : Str) : String := hexOfBytes (String.ofList s).toUTF8

def bytesOfHex (s : String) : ByteArray :=
  let rec go : List Char → ByteArray → ByteArray
    | a :: b :: rest, acc => go rest (acc.push (UInt8.ofNat (hexVal a * 16 + hexVal b)))
    | _, acc => acc
  go s.toList ByteArray.empty

def strOfHex (s : String) : Str :=
  match String.fromUTF8? (bytesOfHex s) with
  | some t => t.toList
  | none => []

def bitsOfHex (s : String) : UInt64 := UInt64.ofNat (parseHex s)
def hexOfBits (x : UInt64) : String :=
  String.ofList ((List.range 16).map fun i => hexDigit ((x.toNat >>> (4 * (15 - i))) % 16))

def errName : Err → String
  | .scsv => "SCSVError" | .key => "KeyError" | .attr => "AttributeError" | .type => "TypeError"
  | .value => "ValueError" | .index => "IndexError" | .stopIteration => "StopIteration"
  | .yaml => "YAMLError" | .csv => "csvError" | .unmodelled => "unmodelled"

/-! ### oracle tables -/

structure Oracle where
  r : Std.HashMap UInt64 Str := {}
  p : Std.HashMap Str (Option UInt64) := {}
  c : Std.HashMap (UInt64 × UInt64) Str := {}
  q : Std.HashMap Str (Option (UInt64 × UInt64)) := {}

def Oracle.ext (o : Oracle) : FloatExt where
  frepr x := (o.r.get? x).getD "?".toList
  fparse s := (o.p.get? s).getD none
  crepr a b := (o.c.get? (a, b)).getD "?".toList
  cparse s := (o.q.get? s).getD none

def splitEq (s : String) : String × String :=
  match s.splitOn "=" with
  | [a, b] => (a, b)
  | _ => (s, "")

def pairOfHex (s : String) : UInt64 × UInt64 :=
  (bitsOfHex (s.take 16).toString, bitsOfHex (s.drop 16).toString)

def Oracle.add (o : Oracle) (tok : String) : Oracle :=
  let tag := tok.front
  let (k, v) := splitEq (tok.drop 1).toString
  if tag = 'r' then
    let m := o.r.insert (bitsOfHex k) (strOfHex v)
    { o with r := m }
  else if tag = 'p' then
    let m := o.p.insert (strOfHex k) (if v = "!" then none else some (bitsOfHex v))
    { o with p := m }
  else if tag = 'c' then
    let m := o.c.insert (pairOfHex k) (strOfHex v)
    { o with c := m }
  else if tag = 'q' then
    let m := o.q.insert (strOfHex k) (if v = "!" then none else some (pairOfHex v))
    { o with q := m }
  else o

/-- `O n e₁ … eₙ rest` -/
def parseOracle (toks : List String) : Oracle × List String :=
  match toks with
  | "O" :: n :: rest =>
    let n := n.toNat!
    ((rest.take n).foldl Oracle.add {}, rest.drop n)
  | _ => ({}, toks)

/-! ### values -/

def optStr (t : String) : Option Str := if t = "-" then none else some (strOfHex (t.drop 1).toString)

def parsePyVal (t : String) : Option PyVal :=
  if t = "-" then none
  else
    let body := (t.drop 1).toString
    if t.front = 's' then some (.str (strOfHex body))
    else if t.front = 'i' then some (.int body.toInt!)
    else some (.float (bitsOfHex body))

def parseCellTok (t : String) : Val :=
  let body := (t.drop 1).toString
  if t.front = 's' then .str (strOfHex body)
  else if t.front = 'i' then .int body.toInt!
  else if t.front = 'f' then .float (bitsOfHex body)
  else if t.front = 'b' then .bool (body = "1")
  else .complex (bitsOfHex (body.take 16).toString) (bitsOfHex (body.drop 16).toString)

def fmtCell : Val → String
  | .str s => "s" ++ hexOfStr s
  | .int i => "i" ++ toString i
  | .float x => "f" ++ hexOfBits x
  | .bool b => if b then "b1" else "b0"
  | .complex a b => "z" ++ hexOfBits a ++ hexOfBits b

/-- `S delim missing F k|- (name type unit fill)ᵏ rest` -/
def parseSchema (toks : List String) : Schema × List String :=
  match toks with
  | "S" :: d :: m :: "F" :: k :: rest =>
    if k = "-" then (⟨optStr d, optStr m, none⟩, rest)
    else
      let k := k.toNat!
      let rec go : Nat → List String → List Field → List Field × List String
        | 0, r, acc => (acc.reverse, r)
        | n + 1, a :: b :: c :: e :: r, acc => go n r (⟨optStr a, optStr b, optStr c, parsePyVal e⟩ :: acc)
        | _, r, acc => (acc.reverse, r)
      let (fs, rest) := go k rest []
      (⟨optStr d, optStr m, some fs⟩, rest)
  | _ => (⟨none, none, none⟩, toks)

/-- `D ncols (C len cells…)*` -/
def parseData (toks : List String) : List (List Val) :=
  match toks with
  | "D" :: n :: rest =>
    let rec go : Nat → List String → List (List Val) → List (List Val)
      | 0, _, acc => acc.reverse
      | k + 1, "C" :: len :: r, acc =>
        let len := len.toNat!
        go k (r.drop len) (((r.take len).map parseCellTok) :: acc)
      | _, _, acc => acc.reverse
    go n.toNat! rest []
  | _ => []

/-! ### what the model will ask the externals -/

inductive Need | r (x : UInt64) | p (s : Str) | c (a b : UInt64) | q (s : Str)

def Need.fmt : Need → String
  | .r x => "r" ++ hexOfBits x
  | .p s => "p" ++ hexOfStr s
  | .c a b => "c" ++ hexOfBits a ++ hexOfBits b
  | .q s => "q" ++ hexOfStr s

def Need.have (o : Oracle) : Need → Bool
  | .r x => o.r.contains x
  | .p s => o.p.contains s
  | .c a b => o.c.contains (a, b)
  | .q s => o.q.contains s

def reprNeedsVal : Val → List Need
  | .float x => [.r x]
  | .complex a b => [.c a b]
  | _ => []

def reprNeedsFill : Option PyVal → List Need
  | some (.float x) => [.r x]
  | _ => []

/-- parse needs for a text that may be passed (stripped or not) to the constructor of type `t` -/
def parseNeeds (t : Option Ty) (s : Str) : List Need :=
  match t with
  | some .float => [.p s, .p (strip s)]
  | some .complex => [.q s, .q (strip s)]
  | _ => []

def dedupMissing (o : Oracle) (ns : List Need) : List String :=
  ((ns.filter (fun n => !n.have o)).map Need.fmt).eraseDups

def saveNeeds (o : Oracle) (s : Schema) (data : List (List Val)) : List String :=
  let fs := s.fields.getD []
  let r1 := data.flatMap (·.flatMap reprNeedsVal) ++ fs.flatMap (fun f => reprNeedsFill f.fill)
  let m1 := dedupMissing o r1
  if !m1.isEmpty then m1 else
  let E := o.ext
  let cols := (fs.zip data).flatMap fun (f, col) =>
    let t := typeOf f.typeName
    parseNeeds t (pyStrP E f.fillVal) ++ col.flatMap (fun d => parseNeeds t (pyStr E d))
  dedupMissing o cols

def readNeeds (o : Oracle) (txt : Str) : List String :=
  let lines := splitLines (universalNewlines txt)
  let (y, c) := fenceSplit lines false false
  match parseHeader y with
  | .ok ⟨some [d], some _, some fs⟩ =>
    match Csv.readRows d c with
    | some (_ :: rows) =>
      let E := o.ext
      let ns := fs.flatMap (fun f => parseNeeds (typeOf f.typeName) (pyStrP E f.fillVal)) ++
        rows.flatMap (fun row => (fs.zip row).flatMap (fun (f, x) => parseNeeds (typeOf f.typeName) x))
      dedupMissing o ns
    | _ => []
  | _ => []

def fmtTable (r : List Str × List (List Val)) : String :=
  let (names, cols) := r
  "ok N " ++ toString names.length ++ " " ++ " ".intercalate (names.map (fun n => "s" ++ hexOfStr n)) ++
  " D " ++ toString cols.length ++ " " ++
  " ".intercalate (cols.map fun c => "C " ++ toString c.length ++ " " ++ " ".intercalate (c.map fmtCell))

def fmtRows (rows : List (List Str)) : String :=
  "ok " ++ toString rows.length ++ " " ++
  " ".intercalate (rows.map fun r => "R " ++ toString r.length ++ " " ++ " ".intercalate (r.map (fun f => "s" ++ hexOfStr f)))

def fmtYVal : Yaml.YVal → String
  | .str s => "str s" ++ hexOfStr s
  | .bool b => "bool " ++ (if b then "1" else "0")
  | .null => "null"
  | .int i => "int " ++ toString i
  | .float t => "float s" ++ hexOfStr t
  | .other .timestamp => "timestamp"
  | .other .merge => "merge"
  | .other .value => "value"
  | .other _ => "other"
  | .error => "error"

def tyOfTok (t : String) : Ty :=
  if t = "str" then .str else if t = "int" then .int else if t = "float" then .float
  else if t = "bool" then .bool else .complex

def handle (toks : List String) : Option String :=
  match toks with
  | "scsv-save" :: rest =>
    let (o, rest) := parseOracle rest
    let (s, rest) := parseSchema rest
    let data := parseData rest
    let miss := saveNeeds o s data
    if !miss.isEmpty then some ("miss " ++ " ".intercalate miss) else
    match save o.ext s data with
    | .ok txt => some ("ok t" ++ hexOfStr txt)
    | .error e => some ("err " ++ errName e)
  | "scsv-domain" :: rest =>
    let (o, rest) := parseOracle rest
    let (s, rest) := parseSchema rest
    let data := parseData rest
    let miss := saveNeeds o s data
    if !miss.isEmpty then some ("miss " ++ " ".intercalate miss) else
    some ("ok " ++ " ".intercalate (domainFailures o.ext s data))
  | "scsv-read" :: rest =>
    let (o, rest) := parseOracle rest
    match rest with
    | [t] =>
      let txt := strOfHex (t.drop 1).toString
      let miss := readNeeds o txt
      if !miss.isEmpty then some ("miss " ++ " ".intercalate miss) else
      match read o.ext txt with
      | .ok r => some (fmtTable r)
      | .error e => some ("err " ++ errName e)
    | _ => some "bad-args"
  | "scsv-validate" :: rest =>
    let (s, _) := parseSchema rest
    match validate s with
    | .ok b => some ("ok " ++ fmtBool b)
    | .error e => some ("err " ++ errName e)
  | "scsv-parsecell" :: rest =>
    let (o, rest) := parseOracle rest
    match rest with
    | [ty, data, missing, fill] =>
      match parseCell o.ext (tyOfTok ty) (strOfHex (data.drop 1).toString) (strOfHex (missing.drop 1).toString)
          ((parsePyVal fill).getD defaultFill) with
      | .ok v => some ("ok " ++ fmtCell v)
      | .error e => some ("err " ++ errName e)
    | _ => some "bad-args"
  | "scsv-csvw" :: d :: k :: rest =>
    match strOfHex (d.drop 1).toString with
    | [dc] => some ("ok t" ++ hexOfStr (Csv.writeRow dc ((rest.take k.toNat!).map (fun t => strOfHex (t.drop 1).toString))))
    | _ => some "bad-delim"
  | "scsv-csvr" :: d :: rest =>
    match strOfHex (d.drop 1).toString with
    | [dc] =>
      match Csv.readRows dc (rest.map (fun t => strOfHex (t.drop 1).toString)) with
      | some rows => some (fmtRows rows)
      | none => some "err csvError"
    | _ => some "bad-delim"
  | ["scsv-yplain", t] => some (fmtYVal (Yaml.resolvePlain (strOfHex (t.drop 1).toString)))
  | ["scsv-ysq", t] =>
    let s := strOfHex (t.drop 1).toString
    let q := Yaml.yamlQuoted s
    some ("ok t" ++ hexOfStr q)
  | ["scsv-yscan", t] =>
    -- text of a single-quoted scalar including the opening quote
    match strOfHex (t.drop 1).toString with
    | '\'' :: body =>
      match Yaml.scanSingleQuoted body with
      | some (v, r) => some ("ok s" ++ hexOfStr v ++ " s" ++ hexOfStr r)
      | none => some "none"
    | _ => some "none"
  | ["scsv-str", t] =>
    let s := strOfHex (t.drop 1).toString
    some ("ok s" ++ hexOfStr (strip s) ++ " " ++ fmtBool (isIdentifier s) ++ " " ++
      (match pyIntOfStr s with | some i => "i" ++ toString i | none => "!") ++ " " ++
      fmtBool (parseBool s) ++ " " ++ fmtBool (s.all Yaml.isYamlPrintable) ++ " " ++
      fmtBool (namedtupleOK [s]))
  | ["scsv-terse", t] =>
    match parseTerse (strOfHex (t.drop 1).toString) with
    | .error e => some ("err " ++ errName e)
    | .ok sch =>
      let o (x : Option Str) := match x with | some v => "s" ++ hexOfStr v | none => "-"
      let fl (x : Option PyVal) := match x with | some (.str v) => "s" ++ hexOfStr v | _ => "-"
      let fs := sch.fields.getD []
      some ("ok " ++ o sch.delimiter ++ " " ++ o sch.missing ++ " " ++ toString fs.length ++ " " ++
        " ".intercalate (fs.map fun f => o f.name ++ " " ++ o f.type ++ " " ++ o f.unit ++ " " ++ fl f.fill))
  | ["scsv-strint", i] => some ("ok s" ++ hexOfStr (pyStrInt i.toInt!))
  | ["scsv-charclasses", lo, hi] =>
    -- code points in [lo, hi) that are whitespace / id-start / id-continue / YAML-printable
    let cs := (List.range (hi.toNat! - lo.toNat!)).map (· + lo.toNat!)
    let f (p : Char → Bool) := " ".intercalate ((cs.filter (fun n => p (Char.ofNat n))).map toString)
    some ("W " ++ f isSpacePy ++ " S " ++ f isIdStart ++ " C " ++ f isIdContinue)
  | ["scsv-lines", t] =>
    let ls := splitLines (universalNewlines (strOfHex (t.drop 1).toString))
    some ("ok " ++ toString ls.length ++ " " ++ " ".intercalate (ls.map (fun l => "s" ++ hexOfStr l)))
  | _ => none

end Ops.ScsvOps
