import ModelF.Update
import Driver.Proto
/-! driver ops for K10/K11/K13 (`extract_vars`, `apply_gbs`, write-back) -/
namespace Ops.Update
open ModelF Proto

def texOut (t : Tex) : String := fmtFs (t.A.flatMap mat3ToList ++ t.f)

def handle (toks : List String) : Option String :=
  match toks with
  | "gbs" :: chi :: n :: rest =>
    let n := n.toNat!
    let (prev, rest) := takeF (9 * n) rest
    let (a, rest) := takeF (9 * n) rest
    let (f, _) := takeF n rest
    some (texOut (applyGbs (parseF chi) n (chunk9 n prev) ⟨chunk9 n a, f⟩))
  | "extract" :: n :: rest =>
    let n := n.toNat!
    let (F, t) := extractVars n (rest.map parseF)
    some (fmtFs (mat3ToList F) ++ " " ++ texOut t)
  | "poststep" :: chi :: n :: rest =>
    let n := n.toNat!
    let (prev, rest) := takeF (9 * n) rest
    some (fmtFs (postStep (parseF chi) n (chunk9 n prev) (rest.map parseF)))
  | _ => none

end Ops.Update
