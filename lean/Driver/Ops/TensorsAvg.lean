import ModelF.TensorsAvg
import Driver.Ops.TensorsCore
/-! driver op for K20 (`minerals.voigt_averages`): `va_avg new|old <minerals> <assemblage> <phis> <stiffness>` -/
namespace Ops.TensorsAvg
open ModelF ModelF.Tensors Proto Ops.TensorsCore

def nat1 : List String → Nat × List String
  | t :: r => (t.toNat!, r)
  | [] => (0, [])

def chunk (k : Nat) : Nat → List Float → List (List Float)
  | 0, _ => []
  | n + 1, l => l.take k :: chunk k n (l.drop k)

/-- `count` blocks, each `rows <rows*width floats>` -/
def blocks (width : Nat) : Nat → List String → List (List (List Float)) × List String
  | 0, t => ([], t)
  | c + 1, t =>
    let (rows, t) := nat1 t
    let (fl, t) := takeF (width * rows) t
    let (rest, t) := blocks width c t
    (chunk width rows fl :: rest, t)

def parseMineral (t : List String) : MineralM × List String :=
  let (phase, t) := nat1 t
  let (ng, t) := nat1 t
  let (so, t) := nat1 t
  let (os, t) := blocks 9 so t
  let (sf, t) := nat1 t
  let (fs, t) := blocks 1 sf t
  ({ phase := phase, nGrains := ng,
     orientations := os.map fun snap => snap.map fun l => let a := arr l; ofA3 a,
     fractions := fs.map fun snap => snap.map fun l => l.getD 0 0 }, t)

def parseMinerals : Nat → List String → List MineralM × List String
  | 0, t => ([], t)
  | c + 1, t =>
    let (m, t) := parseMineral t
    let (ms, t) := parseMinerals c t
    (m :: ms, t)

def nats : Nat → List String → List Nat × List String
  | 0, t => ([], t)
  | c + 1, t =>
    let (a, t) := nat1 t
    let (r, t) := nats c t
    (a :: r, t)

def fmtRes : Except Err (List Mat6) → String
  | .ok l => "ok " ++ fmtFs (l.flatMap mat6ToList)
  | .error .valueError => "err ValueError"
  | .error .indexError => "err IndexError"

def handle (toks : List String) : Option String :=
  match toks with
  | "va_avg" :: which :: rest =>
    let (nm, t) := nat1 rest
    let (ms, t) := parseMinerals nm t
    let (na, t) := nat1 t
    let (assemblage, t) := nats na t
    let (np, t) := nat1 t
    let (phis, t) := takeF np t
    let (ns, t) := nat1 t
    let (sf, _) := takeF (36 * ns) t
    let stiff := (chunk 36 ns sf).map fun l => let a := arr l; ofA6 a
    some (fmtRes (if which == "old" then voigtAveragesOld ms assemblage phis stiff
                  else voigtAverages ms assemblage phis stiff))
  | _ => none

end Ops.TensorsAvg
