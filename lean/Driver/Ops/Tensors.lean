import Driver.Ops.TensorsCore
import Driver.Ops.TensorsAvg
import Driver.Ops.TensorsSym
/-! the `tensors` area: `t_*` (pydrex.tensors, C11), `va_*` (voigt_averages, C10),
`ec_*` (elasticity_components, C12) -/
namespace Ops.Tensors

def handle (toks : List String) : Option String :=
  ((Ops.TensorsCore.handle toks).orElse fun _ => Ops.TensorsAvg.handle toks).orElse fun _ =>
    Ops.TensorsSym.handle toks

end Ops.Tensors
