import Driver.Ops.TensorsCore
import Driver.Ops.TensorsAvg
/-! the `tensors` area: `t_*` (pydrex.tensors, C11), `va_*` (voigt_averages, C10) -/
namespace Ops.Tensors

def handle (toks : List String) : Option String :=
  (Ops.TensorsCore.handle toks).orElse fun _ => Ops.TensorsAvg.handle toks

end Ops.Tensors
