import ModelF.Flow
import ModelD.Flow
import Driver.Proto
import Driver.Ops.Quat
/-! driver ops for K33–K35 (`velocity.*`, `geometry.to_indices2d`, `utils.strain_increment`,
`pathlines._is_inside` and the terminal event `_terminate`).  Op names are prefixed `flow_`. -/
namespace Ops.Flow
open ModelF Proto

def fin3 (s : String) : Fin 3 := match s.toNat! with | 0 => 0 | 1 => 1 | _ => 2

def vec3OfList (l : List Float) : Vec3 := fun i => l.getD i.val 0
def vec3ToList (v : Vec3) : List Float := [v 0, v 1, v 2]

/-- a string crosses as comma separated decimal code points, `-` for the empty string -/
def decodeStr (s : String) : List Char :=
  if s = "-" then [] else (s.splitOn ",").map fun t => Char.ofNat t.toNat!

def idxOut : Except ModelD.Flow.Err (Nat × Nat) → String
  | .ok (i, j) => s!"ok {i} {j}"
  | .error .valueError => "ValueError"

def handle (toks : List String) : Option String :=
  match toks with
  | "flow_shear" :: a :: b :: sr :: rest =>
    let (x, _) := takeF 3 rest
    let x := vec3OfList x
    let (a, b, sr) := (fin3 a, fin3 b, parseF sr)
    some (fmtFs (vec3ToList (simpleShearVel a b sr x) ++ mat3ToList (simpleShearGrad a b sr x)))
  | "flow_cell" :: a :: b :: u :: d :: rest =>
    let (x, _) := takeF 3 rest
    let x := vec3OfList x
    let (a, b, u, d) := (fin3 a, fin3 b, parseF u, parseF d)
    match cellVelE a b u d x, cellGradE a b u d x with
    | .ok v, .ok g => some (fmtFs (vec3ToList v ++ mat3ToList g))
    | _, _ => some "ValueError"
  | ["flow_cellcheck", d] =>
    match cellCheck (parseF d) with
    | .ok _ => some "ok"
    | .error _ => some "ValueError"
  | "flow_corner" :: a :: b :: u :: rest =>
    let (x, _) := takeF 3 rest
    let x := vec3OfList x
    let (a, b, u) := (fin3 a, fin3 b, parseF u)
    match cornerVelO a b u x, cornerGradO a b u x with
    | some v, some g => some (fmtFs (vec3ToList v ++ mat3ToList g))
    | _, _ => some "nan"
  | "flow_strain" :: dt :: rest =>
    -- dt, L (9 entries), externally computed eigenvalues (3): increment and the residuals
    -- of the eigenvalue spec (characteristic polynomial at each value, trace defect)
    let (l, rest) := takeF 9 rest
    let (w, _) := takeF 3 rest
    let L := mat3OfList l
    let wv := vec3OfList w
    let S := Mat3.memo (symm L)
    let inc := strainIncrement (fun _ => wv) (parseF dt) L
    some (fmtFs [inc, charPoly3 S (wv 0), charPoly3 S (wv 1), charPoly3 S (wv 2),
                 trace3 S - (wv 0 + wv 1 + wv 2)])
  | "flow_event" :: ms :: n :: rest =>
    let n := n.toNat!
    let rec parse : Nat → List String → List (Float × Bool × Float)
      | 0, _ => []
      | k + 1, t :: ins :: r :: more => (parseF t, ins == "1", parseF r) :: parse k more
      | _, _ => []
    let (vals, st) := runCalls (evInit (parseF ms)) (parse n rest)
    some (fmtFs (vals ++ [st.strain, st.tprev]))
  | "flow_inside" :: np :: nlo :: nhi :: rest =>
    let (p, rest) := takeF np.toNat! rest
    let (lo, rest) := takeF nlo.toNat! rest
    let (hi, _) := takeF nhi.toNat! rest
    match isInside p lo hi with
    | .ok b => some (fmtBool b)
    | .error _ => some "AssertionError"
  | "flow_ivp" :: ins :: rest =>
    some (fmtFs (ivpFunc (ins == "1") (rest.map parseF)))
  | ["flow_idx", kind, h, v] =>
    let (h, v) := (decodeStr h, decodeStr v)
    match kind with
    | "raw" => some (idxOut (ModelD.Flow.toIndices2d h v))
    | "flow" => some (idxOut (ModelD.Flow.flowIndices h v))
    | "cell0" => some (idxOut (ModelD.Flow.cellIndices false h v))
    | "cell1" => some (idxOut (ModelD.Flow.cellIndices true h v))
    | _ => some "bad-kind"
  | _ => Ops.Quat.handle toks   -- area `flows`: second ops file chained here (one registration line in Main)

end Ops.Flow
