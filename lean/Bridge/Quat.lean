import Generated.TracedQuat
import Mathlib.Tactic.FinCases
/-! S2 bridge for `utils.quat_product` (C14): the expression traced from the source equals `quatProductCoded` - the model of the
function AS CODED (cross product of `q1` with itself), which the theorems of C14 prove different from the Hamilton product. -/
noncomputable section
namespace ModelR

theorem traced_quatProduct_eq (p q : Quat) : traced_quatProduct p q = quatProductCoded p q := by
  funext i
  fin_cases i <;> rfl

end ModelR
