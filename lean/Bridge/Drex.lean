import Generated.TracedDrex
import Proofs.Drex
/-! S2 bridge: the definitions regenerated from `/repo/src/pydrex/core.py` on every run
(`Generated/TracedDrex.lean`) equal the hand-written model the theorems are about. If the
arithmetic of a traced kernel changes in the source, one of these proofs stops checking. -/
namespace ModelR

theorem bridge_slipInvariants (D A : Mat3) : traced_slipInvariants D A = slipInvariants D A := by
  funext s
  fin_cases s <;> simp only [traced_slipInvariants, slipInvariants, sum3, slipL, slipN] <;> ring

theorem bridge_deformationRate (A : Mat3) (r : Fin 4 → ℝ) :
    traced_deformationRate A r = deformationRate A r := by
  funext i j
  fin_cases i <;> fin_cases j <;> simp [traced_deformationRate, deformationRate] <;> ring

theorem bridge_softestDenom (G L : Mat3) : traced_slipRateSoftest_c0 G L = softestDenom G := by
  simp only [traced_slipRateSoftest_c0, softestDenom, sum3, nxt]; ring

/-- K6 including the guard: the same two comparisons against the same constants, the same quotient -/
theorem bridge_slipRateSoftest (G L : Mat3) :
    traced_slipRateSoftest G L = slipRateSoftest G L := by
  unfold traced_slipRateSoftest slipRateSoftest
  rw [bridge_softestDenom]
  simp only
  have hq : ∀ x : ℝ, x = softestEnumer G L → x / (softestDenom G) = softestEnumer G L / softestDenom G := by
    intro x hx; rw [hx]
  by_cases h1 : (-1e-15 : ℝ) < softestDenom G
  · by_cases h2 : softestDenom G < 1e-15
    · simp [h1, h2]
    · simp only [h1, h2, if_true, if_false, and_false]
      have e1 : ∀ d : ℝ, d = softestDenom G → ∀ x : ℝ, x = softestEnumer G L →
          x / d = softestEnumer G L / softestDenom G := by
        intro d hd x hx; rw [hd, hx]
      apply e1
      · simp only [softestDenom, sum3, nxt]; ring
      · simp only [softestEnumer, sum3, nxt]; ring
  · simp only [h1, if_false, false_and]
    have e1 : ∀ d : ℝ, d = softestDenom G → ∀ x : ℝ, x = softestEnumer G L →
        x / d = softestEnumer G L / softestDenom G := by
      intro d hd x hx; rw [hd, hx]
    apply e1
    · simp only [softestDenom, sum3, nxt]; ring
    · simp only [softestEnumer, sum3, nxt]; ring

theorem bridge_orientationChange (A L G : Mat3) (g0 : ℝ) :
    traced_orientationChange A L G g0 = orientationChange A L G g0 := by
  funext i j
  fin_cases i <;> fin_cases j <;>
    simp [traced_orientationChange, orientationChange, spinVector, sum3, eps, nxt, nxt2, V3.get, Vec3.force] <;> ring

/-- K8 for a finite CRSS row (infinite entries are tied by the correspondence check only) -/
theorem bridge_strainEnergy (tau r : Fin 4 → ℝ) (g0 p n lam : ℝ) :
    traced_strainEnergy tau r g0 p n lam = strainEnergy (fun s => tauFin (tau s)) r g0 p n lam := by
  simp only [traced_strainEnergy, strainEnergy, energyTerm, dislocationDensity, recipTau, tauFin,
    Bool.false_eq_true, if_false]

end ModelR
