import Generated.TracedGeom
/-! S2 bridge for `geometry.to_cartesian` / `to_spherical` (C20): traced from the source (with `np.sin`, `np.cos`, `np.sqrt`,
`np.arctan2`, `np.arccos` symbolic) = the model the round-trip and convention theorems are about. -/
noncomputable section
namespace ModelR.Geom

theorem traced_toCartesian_eq (φ θ r : ℝ) : traced_toCartesian φ θ r = toCartesian φ θ r := rfl

theorem traced_toSpherical_eq (x y z : ℝ) : traced_toSpherical x y z = toSpherical x y z := rfl

end ModelR.Geom
