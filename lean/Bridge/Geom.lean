import Generated.TracedGeom
import Properties.C20
/-! S2 bridge for `geometry.to_cartesian` / `to_spherical` (C20): traced from the source (with `np.sin`, `np.cos`, `np.sqrt`,
`np.arctan2`, `np.arccos` symbolic) = the model the round-trip and convention theorems are about. -/
noncomputable section
namespace ModelR.Geom

theorem traced_toCartesian_eq (φ θ r : ℝ) : traced_toCartesian φ θ r = toCartesian φ θ r := rfl

theorem traced_toSpherical_eq (x y z : ℝ) : traced_toSpherical x y z = toSpherical x y z := rfl

/-! `geometry.poles`, re-derived from the source for ONE symbolic orientation and a symbolic crystal direction, under each of
the six documented reference-axes strings: the traced arithmetic (transpose, contraction with `hkl`, row norm, which component
is handed out as x, y, z) is the model's `poles` on the singleton list.  (The string handling — `lower`, the set difference,
`pop`, the dictionary — is the hand model `ModelD.RefAxes`, tied by correspondence.) -/

open ModelD.RefAxes ModelR.C20 in
theorem traced_poles_eq (a : Mat3) (h : Vec3) :
    poles [a] "xy" h = .ok [((traced_poles_xy a h).1, (traced_poles_xy a h).2.1, some (traced_poles_xy a h).2.2)]
    ∧ poles [a] "xz" h = .ok [((traced_poles_xz a h).1, (traced_poles_xz a h).2.1, some (traced_poles_xz a h).2.2)]
    ∧ poles [a] "yx" h = .ok [((traced_poles_yx a h).1, (traced_poles_yx a h).2.1, some (traced_poles_yx a h).2.2)]
    ∧ poles [a] "yz" h = .ok [((traced_poles_yz a h).1, (traced_poles_yz a h).2.1, some (traced_poles_yz a h).2.2)]
    ∧ poles [a] "zx" h = .ok [((traced_poles_zx a h).1, (traced_poles_zx a h).2.1, some (traced_poles_zx a h).2.2)]
    ∧ poles [a] "zy" h = .ok [((traced_poles_zy a h).1, (traced_poles_zy a h).2.1, some (traced_poles_zy a h).2.2)] := by
  obtain ⟨hxy, hxz, hyx, hyz, hzx, hzy, -⟩ := ref_axes_table
  refine ⟨?_, ?_, ?_, ?_, ?_, ?_⟩
  · rw [poles_permuted [a] "xy" h _ _ _ hxy]; rfl
  · rw [poles_permuted [a] "xz" h _ _ _ hxz]; rfl
  · rw [poles_permuted [a] "yx" h _ _ _ hyx]; rfl
  · rw [poles_permuted [a] "yz" h _ _ _ hyz]; rfl
  · rw [poles_permuted [a] "zx" h _ _ _ hzx]; rfl
  · rw [poles_permuted [a] "zy" h _ _ _ hzy]; rfl

end ModelR.Geom
