import Generated.TracedFlow
import Proofs.Basic
import Mathlib.Tactic.FinCases
/-! S2 bridge for `velocity.py`: the velocity and velocity-gradient callables of the three flows, traced
from the source for each of the six axis assignments, equal the model (`ModelR.Flow`) including the
domain test of the Stokes cell (`ValueError` ↦ `none`) and the singular corner (all-NaN ↦ `none`). -/
namespace ModelR

/-- an `Except` result seen as an option (the traced tree has `none` where the Python callable raises) -/
def exceptToOption {ε α : Type} : Except ε α → Option α
  | .ok a => some a
  | .error _ => none

theorem bridge_simpleShearVel_01 (sr : ℝ) (x : Vec3) :
    traced_simpleShearVel_01 sr x = some (simpleShearVel 0 1 sr x) := by
  unfold traced_simpleShearVel_01 simpleShearVel
  congr 1; funext i; fin_cases i <;> simp

theorem bridge_simpleShearGrad_01 (sr : ℝ) (x : Vec3) :
    traced_simpleShearGrad_01 sr x = some (simpleShearGrad 0 1 sr x) := by
  unfold traced_simpleShearGrad_01 simpleShearGrad
  congr 1; funext i j; fin_cases i <;> fin_cases j <;> simp

theorem bridge_cellVel_01 (U d : ℝ) (x : Vec3) :
    traced_cellVel_01 U d x = exceptToOption (cellVelE 0 1 U d x) := by
  unfold traced_cellVel_01 cellVelE cellOutside
  by_cases h1 : d / 2 < Rabs (x 0) <;> by_cases h2 : d / 2 < Rabs (x 1) <;>
    simp [h1, h2, exceptToOption, cellVel, gt_iff_lt]
  funext i; fin_cases i <;> simp <;> ring

theorem bridge_cellGrad_01 (U d : ℝ) (x : Vec3) :
    traced_cellGrad_01 U d x = exceptToOption (cellGradE 0 1 U d x) := by
  unfold traced_cellGrad_01 cellGradE cellOutside
  by_cases h1 : d / 2 < Rabs (x 0) <;> by_cases h2 : d / 2 < Rabs (x 1) <;>
    simp [h1, h2, exceptToOption, cellGrad, gt_iff_lt]
  funext i j; fin_cases i <;> fin_cases j <;> simp <;> ring

theorem bridge_cornerVel_01 (U : ℝ) (x : Vec3) :
    traced_cornerVel_01 U x = cornerVelO 0 1 U x := by
  unfold traced_cornerVel_01 cornerVelO cornerSingular
  by_cases h1 : Rabs (x 0) < 1e-15 <;> by_cases h2 : Rabs (x 1) < 1e-15 <;>
    simp [h1, h2, cornerVel] <;> (funext i; fin_cases i <;> simp <;> ring)

theorem bridge_cornerGrad_01 (U : ℝ) (x : Vec3) :
    traced_cornerGrad_01 U x = cornerGradO 0 1 U x := by
  unfold traced_cornerGrad_01 cornerGradO cornerSingular
  by_cases h1 : Rabs (x 0) < 1e-15 <;> by_cases h2 : Rabs (x 1) < 1e-15 <;>
    simp [h1, h2, cornerGrad] <;> (funext i j; fin_cases i <;> fin_cases j <;> simp <;> ring)

theorem bridge_simpleShearVel_02 (sr : ℝ) (x : Vec3) :
    traced_simpleShearVel_02 sr x = some (simpleShearVel 0 2 sr x) := by
  unfold traced_simpleShearVel_02 simpleShearVel
  congr 1; funext i; fin_cases i <;> simp

theorem bridge_simpleShearGrad_02 (sr : ℝ) (x : Vec3) :
    traced_simpleShearGrad_02 sr x = some (simpleShearGrad 0 2 sr x) := by
  unfold traced_simpleShearGrad_02 simpleShearGrad
  congr 1; funext i j; fin_cases i <;> fin_cases j <;> simp

theorem bridge_cellVel_02 (U d : ℝ) (x : Vec3) :
    traced_cellVel_02 U d x = exceptToOption (cellVelE 0 2 U d x) := by
  unfold traced_cellVel_02 cellVelE cellOutside
  by_cases h1 : d / 2 < Rabs (x 0) <;> by_cases h2 : d / 2 < Rabs (x 2) <;>
    simp [h1, h2, exceptToOption, cellVel, gt_iff_lt]
  funext i; fin_cases i <;> simp <;> ring

theorem bridge_cellGrad_02 (U d : ℝ) (x : Vec3) :
    traced_cellGrad_02 U d x = exceptToOption (cellGradE 0 2 U d x) := by
  unfold traced_cellGrad_02 cellGradE cellOutside
  by_cases h1 : d / 2 < Rabs (x 0) <;> by_cases h2 : d / 2 < Rabs (x 2) <;>
    simp [h1, h2, exceptToOption, cellGrad, gt_iff_lt]
  funext i j; fin_cases i <;> fin_cases j <;> simp <;> ring

theorem bridge_cornerVel_02 (U : ℝ) (x : Vec3) :
    traced_cornerVel_02 U x = cornerVelO 0 2 U x := by
  unfold traced_cornerVel_02 cornerVelO cornerSingular
  by_cases h1 : Rabs (x 0) < 1e-15 <;> by_cases h2 : Rabs (x 2) < 1e-15 <;>
    simp [h1, h2, cornerVel] <;> (funext i; fin_cases i <;> simp <;> ring)

theorem bridge_cornerGrad_02 (U : ℝ) (x : Vec3) :
    traced_cornerGrad_02 U x = cornerGradO 0 2 U x := by
  unfold traced_cornerGrad_02 cornerGradO cornerSingular
  by_cases h1 : Rabs (x 0) < 1e-15 <;> by_cases h2 : Rabs (x 2) < 1e-15 <;>
    simp [h1, h2, cornerGrad] <;> (funext i j; fin_cases i <;> fin_cases j <;> simp <;> ring)

theorem bridge_simpleShearVel_10 (sr : ℝ) (x : Vec3) :
    traced_simpleShearVel_10 sr x = some (simpleShearVel 1 0 sr x) := by
  unfold traced_simpleShearVel_10 simpleShearVel
  congr 1; funext i; fin_cases i <;> simp

theorem bridge_simpleShearGrad_10 (sr : ℝ) (x : Vec3) :
    traced_simpleShearGrad_10 sr x = some (simpleShearGrad 1 0 sr x) := by
  unfold traced_simpleShearGrad_10 simpleShearGrad
  congr 1; funext i j; fin_cases i <;> fin_cases j <;> simp

theorem bridge_cellVel_10 (U d : ℝ) (x : Vec3) :
    traced_cellVel_10 U d x = exceptToOption (cellVelE 1 0 U d x) := by
  unfold traced_cellVel_10 cellVelE cellOutside
  by_cases h1 : d / 2 < Rabs (x 1) <;> by_cases h2 : d / 2 < Rabs (x 0) <;>
    simp [h1, h2, exceptToOption, cellVel, gt_iff_lt]
  funext i; fin_cases i <;> simp <;> ring

theorem bridge_cellGrad_10 (U d : ℝ) (x : Vec3) :
    traced_cellGrad_10 U d x = exceptToOption (cellGradE 1 0 U d x) := by
  unfold traced_cellGrad_10 cellGradE cellOutside
  by_cases h1 : d / 2 < Rabs (x 1) <;> by_cases h2 : d / 2 < Rabs (x 0) <;>
    simp [h1, h2, exceptToOption, cellGrad, gt_iff_lt]
  funext i j; fin_cases i <;> fin_cases j <;> simp <;> ring

theorem bridge_cornerVel_10 (U : ℝ) (x : Vec3) :
    traced_cornerVel_10 U x = cornerVelO 1 0 U x := by
  unfold traced_cornerVel_10 cornerVelO cornerSingular
  by_cases h1 : Rabs (x 1) < 1e-15 <;> by_cases h2 : Rabs (x 0) < 1e-15 <;>
    simp [h1, h2, cornerVel] <;> (funext i; fin_cases i <;> simp <;> ring)

theorem bridge_cornerGrad_10 (U : ℝ) (x : Vec3) :
    traced_cornerGrad_10 U x = cornerGradO 1 0 U x := by
  unfold traced_cornerGrad_10 cornerGradO cornerSingular
  by_cases h1 : Rabs (x 1) < 1e-15 <;> by_cases h2 : Rabs (x 0) < 1e-15 <;>
    simp [h1, h2, cornerGrad] <;> (funext i j; fin_cases i <;> fin_cases j <;> simp <;> ring)

theorem bridge_simpleShearVel_12 (sr : ℝ) (x : Vec3) :
    traced_simpleShearVel_12 sr x = some (simpleShearVel 1 2 sr x) := by
  unfold traced_simpleShearVel_12 simpleShearVel
  congr 1; funext i; fin_cases i <;> simp

theorem bridge_simpleShearGrad_12 (sr : ℝ) (x : Vec3) :
    traced_simpleShearGrad_12 sr x = some (simpleShearGrad 1 2 sr x) := by
  unfold traced_simpleShearGrad_12 simpleShearGrad
  congr 1; funext i j; fin_cases i <;> fin_cases j <;> simp

theorem bridge_cellVel_12 (U d : ℝ) (x : Vec3) :
    traced_cellVel_12 U d x = exceptToOption (cellVelE 1 2 U d x) := by
  unfold traced_cellVel_12 cellVelE cellOutside
  by_cases h1 : d / 2 < Rabs (x 1) <;> by_cases h2 : d / 2 < Rabs (x 2) <;>
    simp [h1, h2, exceptToOption, cellVel, gt_iff_lt]
  funext i; fin_cases i <;> simp <;> ring

theorem bridge_cellGrad_12 (U d : ℝ) (x : Vec3) :
    traced_cellGrad_12 U d x = exceptToOption (cellGradE 1 2 U d x) := by
  unfold traced_cellGrad_12 cellGradE cellOutside
  by_cases h1 : d / 2 < Rabs (x 1) <;> by_cases h2 : d / 2 < Rabs (x 2) <;>
    simp [h1, h2, exceptToOption, cellGrad, gt_iff_lt]
  funext i j; fin_cases i <;> fin_cases j <;> simp <;> ring

theorem bridge_cornerVel_12 (U : ℝ) (x : Vec3) :
    traced_cornerVel_12 U x = cornerVelO 1 2 U x := by
  unfold traced_cornerVel_12 cornerVelO cornerSingular
  by_cases h1 : Rabs (x 1) < 1e-15 <;> by_cases h2 : Rabs (x 2) < 1e-15 <;>
    simp [h1, h2, cornerVel] <;> (funext i; fin_cases i <;> simp <;> ring)

theorem bridge_cornerGrad_12 (U : ℝ) (x : Vec3) :
    traced_cornerGrad_12 U x = cornerGradO 1 2 U x := by
  unfold traced_cornerGrad_12 cornerGradO cornerSingular
  by_cases h1 : Rabs (x 1) < 1e-15 <;> by_cases h2 : Rabs (x 2) < 1e-15 <;>
    simp [h1, h2, cornerGrad] <;> (funext i j; fin_cases i <;> fin_cases j <;> simp <;> ring)

theorem bridge_simpleShearVel_20 (sr : ℝ) (x : Vec3) :
    traced_simpleShearVel_20 sr x = some (simpleShearVel 2 0 sr x) := by
  unfold traced_simpleShearVel_20 simpleShearVel
  congr 1; funext i; fin_cases i <;> simp

theorem bridge_simpleShearGrad_20 (sr : ℝ) (x : Vec3) :
    traced_simpleShearGrad_20 sr x = some (simpleShearGrad 2 0 sr x) := by
  unfold traced_simpleShearGrad_20 simpleShearGrad
  congr 1; funext i j; fin_cases i <;> fin_cases j <;> simp

theorem bridge_cellVel_20 (U d : ℝ) (x : Vec3) :
    traced_cellVel_20 U d x = exceptToOption (cellVelE 2 0 U d x) := by
  unfold traced_cellVel_20 cellVelE cellOutside
  by_cases h1 : d / 2 < Rabs (x 2) <;> by_cases h2 : d / 2 < Rabs (x 0) <;>
    simp [h1, h2, exceptToOption, cellVel, gt_iff_lt]
  funext i; fin_cases i <;> simp <;> ring

theorem bridge_cellGrad_20 (U d : ℝ) (x : Vec3) :
    traced_cellGrad_20 U d x = exceptToOption (cellGradE 2 0 U d x) := by
  unfold traced_cellGrad_20 cellGradE cellOutside
  by_cases h1 : d / 2 < Rabs (x 2) <;> by_cases h2 : d / 2 < Rabs (x 0) <;>
    simp [h1, h2, exceptToOption, cellGrad, gt_iff_lt]
  funext i j; fin_cases i <;> fin_cases j <;> simp <;> ring

theorem bridge_cornerVel_20 (U : ℝ) (x : Vec3) :
    traced_cornerVel_20 U x = cornerVelO 2 0 U x := by
  unfold traced_cornerVel_20 cornerVelO cornerSingular
  by_cases h1 : Rabs (x 2) < 1e-15 <;> by_cases h2 : Rabs (x 0) < 1e-15 <;>
    simp [h1, h2, cornerVel] <;> (funext i; fin_cases i <;> simp <;> ring)

theorem bridge_cornerGrad_20 (U : ℝ) (x : Vec3) :
    traced_cornerGrad_20 U x = cornerGradO 2 0 U x := by
  unfold traced_cornerGrad_20 cornerGradO cornerSingular
  by_cases h1 : Rabs (x 2) < 1e-15 <;> by_cases h2 : Rabs (x 0) < 1e-15 <;>
    simp [h1, h2, cornerGrad] <;> (funext i j; fin_cases i <;> fin_cases j <;> simp <;> ring)

theorem bridge_simpleShearVel_21 (sr : ℝ) (x : Vec3) :
    traced_simpleShearVel_21 sr x = some (simpleShearVel 2 1 sr x) := by
  unfold traced_simpleShearVel_21 simpleShearVel
  congr 1; funext i; fin_cases i <;> simp

theorem bridge_simpleShearGrad_21 (sr : ℝ) (x : Vec3) :
    traced_simpleShearGrad_21 sr x = some (simpleShearGrad 2 1 sr x) := by
  unfold traced_simpleShearGrad_21 simpleShearGrad
  congr 1; funext i j; fin_cases i <;> fin_cases j <;> simp

theorem bridge_cellVel_21 (U d : ℝ) (x : Vec3) :
    traced_cellVel_21 U d x = exceptToOption (cellVelE 2 1 U d x) := by
  unfold traced_cellVel_21 cellVelE cellOutside
  by_cases h1 : d / 2 < Rabs (x 2) <;> by_cases h2 : d / 2 < Rabs (x 1) <;>
    simp [h1, h2, exceptToOption, cellVel, gt_iff_lt]
  funext i; fin_cases i <;> simp <;> ring

theorem bridge_cellGrad_21 (U d : ℝ) (x : Vec3) :
    traced_cellGrad_21 U d x = exceptToOption (cellGradE 2 1 U d x) := by
  unfold traced_cellGrad_21 cellGradE cellOutside
  by_cases h1 : d / 2 < Rabs (x 2) <;> by_cases h2 : d / 2 < Rabs (x 1) <;>
    simp [h1, h2, exceptToOption, cellGrad, gt_iff_lt]
  funext i j; fin_cases i <;> fin_cases j <;> simp <;> ring

theorem bridge_cornerVel_21 (U : ℝ) (x : Vec3) :
    traced_cornerVel_21 U x = cornerVelO 2 1 U x := by
  unfold traced_cornerVel_21 cornerVelO cornerSingular
  by_cases h1 : Rabs (x 2) < 1e-15 <;> by_cases h2 : Rabs (x 1) < 1e-15 <;>
    simp [h1, h2, cornerVel] <;> (funext i; fin_cases i <;> simp <;> ring)

theorem bridge_cornerGrad_21 (U : ℝ) (x : Vec3) :
    traced_cornerGrad_21 U x = cornerGradO 2 1 U x := by
  unfold traced_cornerGrad_21 cornerGradO cornerSingular
  by_cases h1 : Rabs (x 2) < 1e-15 <;> by_cases h2 : Rabs (x 1) < 1e-15 <;>
    simp [h1, h2, cornerGrad] <;> (funext i j; fin_cases i <;> fin_cases j <;> simp <;> ring)

end ModelR
