import Generated.TracedKernels
import Mathlib.Tactic.NormNum
import Mathlib.Tactic.Ring
import Mathlib.Tactic.SplitIfs
/-! S2 bridge for the five spherical counting kernels of `stats.py` (C20: `SPHERICAL_COUNTING_KERNELS`, `_kamb_radius`,
`_kamb_units`): each kernel, traced from the source on an array of two symbolic cosines with symbolic `σ`, for `axial=True` and
`axial=False` (boolean masks and `.astype(float)` become decision trees over the comparisons with the counting radius), is the
model's `kernelEval` on the two-element list. Re-proved on every run against the regenerated `Generated/TracedKernels.lean`. -/
noncomputable section
namespace ModelR.Density

macro "kernel_bridge" : tactic => `(tactic|
  (simp only [kernelEval, kambRadius, kambUnits, RofNat, List.length_cons, List.length_nil, List.map_cons, List.map_nil,
     List.filter_cons, List.filter_nil, decide_eq_true_eq, if_true, if_false, Bool.false_eq_true,
     show ((0 + 1 + 1 : ℕ) : ℝ) = 2 by norm_num]
   try (split_ifs <;> norm_num)))

theorem traced_kambCount_eq (σ : ℝ) (c : ℕ → ℝ) :
    kernelEval .kambCount σ true [c 0, c 1] = traced_kambCount_axial σ c
    ∧ kernelEval .kambCount σ false [c 0, c 1] = traced_kambCount_polar σ c := by
  constructor
  · rw [traced_kambCount_axial]; kernel_bridge
  · rw [traced_kambCount_polar]; kernel_bridge

theorem traced_schmidtCount_eq (σ : ℝ) (c : ℕ → ℝ) :
    kernelEval .schmidtCount σ true [c 0, c 1] = traced_schmidtCount_axial σ c
    ∧ kernelEval .schmidtCount σ false [c 0, c 1] = traced_schmidtCount_polar σ c := by
  constructor
  · rw [traced_schmidtCount_axial]; kernel_bridge
  · rw [traced_schmidtCount_polar]; kernel_bridge

theorem traced_exponentialKamb_eq (σ : ℝ) (c : ℕ → ℝ) :
    kernelEval .exponentialKamb σ true [c 0, c 1] = traced_exponentialKamb_axial σ c
    ∧ kernelEval .exponentialKamb σ false [c 0, c 1] = traced_exponentialKamb_polar σ c := by
  constructor
  · rw [traced_exponentialKamb_axial]; kernel_bridge
  · rw [traced_exponentialKamb_polar]; kernel_bridge

theorem traced_linearInverseKamb_eq (σ : ℝ) (c : ℕ → ℝ) :
    kernelEval .linearInverseKamb σ true [c 0, c 1] = traced_linearInverseKamb_axial σ c
    ∧ kernelEval .linearInverseKamb σ false [c 0, c 1] = traced_linearInverseKamb_polar σ c := by
  constructor
  · rw [traced_linearInverseKamb_axial]; kernel_bridge
  · rw [traced_linearInverseKamb_polar]; kernel_bridge

theorem traced_squareInverseKamb_eq (σ : ℝ) (c : ℕ → ℝ) :
    kernelEval .squareInverseKamb σ true [c 0, c 1] = traced_squareInverseKamb_axial σ c
    ∧ kernelEval .squareInverseKamb σ false [c 0, c 1] = traced_squareInverseKamb_polar σ c := by
  constructor
  · rw [traced_squareInverseKamb_axial]; kernel_bridge
  · rw [traced_squareInverseKamb_polar]; kernel_bridge

end ModelR.Density
