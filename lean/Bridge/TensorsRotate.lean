import Bridge.Tensors
/-! S2 bridge for `tensors.rotate`: one lemma per entry of the rotated tensor (each a `ring` identity over 81 products). -/
noncomputable section
namespace ModelR.Tensors
open ModelR
theorem traced_rotate_e0000 (T : Ten4) (Q : Mat3) : traced_rotate T Q 0 0 0 0 = rotate T Q 0 0 0 0 := by
  simp only [traced_rotate, traced_rotate_0000, rotate, sum81, sum3]; ring
theorem traced_rotate_e0001 (T : Ten4) (Q : Mat3) : traced_rotate T Q 0 0 0 1 = rotate T Q 0 0 0 1 := by
  simp only [traced_rotate, traced_rotate_0001, rotate, sum81, sum3]; ring
theorem traced_rotate_e0002 (T : Ten4) (Q : Mat3) : traced_rotate T Q 0 0 0 2 = rotate T Q 0 0 0 2 := by
  simp only [traced_rotate, traced_rotate_0002, rotate, sum81, sum3]; ring
theorem traced_rotate_e0010 (T : Ten4) (Q : Mat3) : traced_rotate T Q 0 0 1 0 = rotate T Q 0 0 1 0 := by
  simp only [traced_rotate, traced_rotate_0010, rotate, sum81, sum3]; ring
theorem traced_rotate_e0011 (T : Ten4) (Q : Mat3) : traced_rotate T Q 0 0 1 1 = rotate T Q 0 0 1 1 := by
  simp only [traced_rotate, traced_rotate_0011, rotate, sum81, sum3]; ring
theorem traced_rotate_e0012 (T : Ten4) (Q : Mat3) : traced_rotate T Q 0 0 1 2 = rotate T Q 0 0 1 2 := by
  simp only [traced_rotate, traced_rotate_0012, rotate, sum81, sum3]; ring
theorem traced_rotate_e0020 (T : Ten4) (Q : Mat3) : traced_rotate T Q 0 0 2 0 = rotate T Q 0 0 2 0 := by
  simp only [traced_rotate, traced_rotate_0020, rotate, sum81, sum3]; ring
theorem traced_rotate_e0021 (T : Ten4) (Q : Mat3) : traced_rotate T Q 0 0 2 1 = rotate T Q 0 0 2 1 := by
  simp only [traced_rotate, traced_rotate_0021, rotate, sum81, sum3]; ring
theorem traced_rotate_e0022 (T : Ten4) (Q : Mat3) : traced_rotate T Q 0 0 2 2 = rotate T Q 0 0 2 2 := by
  simp only [traced_rotate, traced_rotate_0022, rotate, sum81, sum3]; ring
theorem traced_rotate_e0100 (T : Ten4) (Q : Mat3) : traced_rotate T Q 0 1 0 0 = rotate T Q 0 1 0 0 := by
  simp only [traced_rotate, traced_rotate_0100, rotate, sum81, sum3]; ring
theorem traced_rotate_e0101 (T : Ten4) (Q : Mat3) : traced_rotate T Q 0 1 0 1 = rotate T Q 0 1 0 1 := by
  simp only [traced_rotate, traced_rotate_0101, rotate, sum81, sum3]; ring
theorem traced_rotate_e0102 (T : Ten4) (Q : Mat3) : traced_rotate T Q 0 1 0 2 = rotate T Q 0 1 0 2 := by
  simp only [traced_rotate, traced_rotate_0102, rotate, sum81, sum3]; ring
theorem traced_rotate_e0110 (T : Ten4) (Q : Mat3) : traced_rotate T Q 0 1 1 0 = rotate T Q 0 1 1 0 := by
  simp only [traced_rotate, traced_rotate_0110, rotate, sum81, sum3]; ring
theorem traced_rotate_e0111 (T : Ten4) (Q : Mat3) : traced_rotate T Q 0 1 1 1 = rotate T Q 0 1 1 1 := by
  simp only [traced_rotate, traced_rotate_0111, rotate, sum81, sum3]; ring
theorem traced_rotate_e0112 (T : Ten4) (Q : Mat3) : traced_rotate T Q 0 1 1 2 = rotate T Q 0 1 1 2 := by
  simp only [traced_rotate, traced_rotate_0112, rotate, sum81, sum3]; ring
theorem traced_rotate_e0120 (T : Ten4) (Q : Mat3) : traced_rotate T Q 0 1 2 0 = rotate T Q 0 1 2 0 := by
  simp only [traced_rotate, traced_rotate_0120, rotate, sum81, sum3]; ring
theorem traced_rotate_e0121 (T : Ten4) (Q : Mat3) : traced_rotate T Q 0 1 2 1 = rotate T Q 0 1 2 1 := by
  simp only [traced_rotate, traced_rotate_0121, rotate, sum81, sum3]; ring
theorem traced_rotate_e0122 (T : Ten4) (Q : Mat3) : traced_rotate T Q 0 1 2 2 = rotate T Q 0 1 2 2 := by
  simp only [traced_rotate, traced_rotate_0122, rotate, sum81, sum3]; ring
theorem traced_rotate_e0200 (T : Ten4) (Q : Mat3) : traced_rotate T Q 0 2 0 0 = rotate T Q 0 2 0 0 := by
  simp only [traced_rotate, traced_rotate_0200, rotate, sum81, sum3]; ring
theorem traced_rotate_e0201 (T : Ten4) (Q : Mat3) : traced_rotate T Q 0 2 0 1 = rotate T Q 0 2 0 1 := by
  simp only [traced_rotate, traced_rotate_0201, rotate, sum81, sum3]; ring
theorem traced_rotate_e0202 (T : Ten4) (Q : Mat3) : traced_rotate T Q 0 2 0 2 = rotate T Q 0 2 0 2 := by
  simp only [traced_rotate, traced_rotate_0202, rotate, sum81, sum3]; ring
theorem traced_rotate_e0210 (T : Ten4) (Q : Mat3) : traced_rotate T Q 0 2 1 0 = rotate T Q 0 2 1 0 := by
  simp only [traced_rotate, traced_rotate_0210, rotate, sum81, sum3]; ring
theorem traced_rotate_e0211 (T : Ten4) (Q : Mat3) : traced_rotate T Q 0 2 1 1 = rotate T Q 0 2 1 1 := by
  simp only [traced_rotate, traced_rotate_0211, rotate, sum81, sum3]; ring
theorem traced_rotate_e0212 (T : Ten4) (Q : Mat3) : traced_rotate T Q 0 2 1 2 = rotate T Q 0 2 1 2 := by
  simp only [traced_rotate, traced_rotate_0212, rotate, sum81, sum3]; ring
theorem traced_rotate_e0220 (T : Ten4) (Q : Mat3) : traced_rotate T Q 0 2 2 0 = rotate T Q 0 2 2 0 := by
  simp only [traced_rotate, traced_rotate_0220, rotate, sum81, sum3]; ring
theorem traced_rotate_e0221 (T : Ten4) (Q : Mat3) : traced_rotate T Q 0 2 2 1 = rotate T Q 0 2 2 1 := by
  simp only [traced_rotate, traced_rotate_0221, rotate, sum81, sum3]; ring
theorem traced_rotate_e0222 (T : Ten4) (Q : Mat3) : traced_rotate T Q 0 2 2 2 = rotate T Q 0 2 2 2 := by
  simp only [traced_rotate, traced_rotate_0222, rotate, sum81, sum3]; ring
theorem traced_rotate_e1000 (T : Ten4) (Q : Mat3) : traced_rotate T Q 1 0 0 0 = rotate T Q 1 0 0 0 := by
  simp only [traced_rotate, traced_rotate_1000, rotate, sum81, sum3]; ring
theorem traced_rotate_e1001 (T : Ten4) (Q : Mat3) : traced_rotate T Q 1 0 0 1 = rotate T Q 1 0 0 1 := by
  simp only [traced_rotate, traced_rotate_1001, rotate, sum81, sum3]; ring
theorem traced_rotate_e1002 (T : Ten4) (Q : Mat3) : traced_rotate T Q 1 0 0 2 = rotate T Q 1 0 0 2 := by
  simp only [traced_rotate, traced_rotate_1002, rotate, sum81, sum3]; ring
theorem traced_rotate_e1010 (T : Ten4) (Q : Mat3) : traced_rotate T Q 1 0 1 0 = rotate T Q 1 0 1 0 := by
  simp only [traced_rotate, traced_rotate_1010, rotate, sum81, sum3]; ring
theorem traced_rotate_e1011 (T : Ten4) (Q : Mat3) : traced_rotate T Q 1 0 1 1 = rotate T Q 1 0 1 1 := by
  simp only [traced_rotate, traced_rotate_1011, rotate, sum81, sum3]; ring
theorem traced_rotate_e1012 (T : Ten4) (Q : Mat3) : traced_rotate T Q 1 0 1 2 = rotate T Q 1 0 1 2 := by
  simp only [traced_rotate, traced_rotate_1012, rotate, sum81, sum3]; ring
theorem traced_rotate_e1020 (T : Ten4) (Q : Mat3) : traced_rotate T Q 1 0 2 0 = rotate T Q 1 0 2 0 := by
  simp only [traced_rotate, traced_rotate_1020, rotate, sum81, sum3]; ring
theorem traced_rotate_e1021 (T : Ten4) (Q : Mat3) : traced_rotate T Q 1 0 2 1 = rotate T Q 1 0 2 1 := by
  simp only [traced_rotate, traced_rotate_1021, rotate, sum81, sum3]; ring
theorem traced_rotate_e1022 (T : Ten4) (Q : Mat3) : traced_rotate T Q 1 0 2 2 = rotate T Q 1 0 2 2 := by
  simp only [traced_rotate, traced_rotate_1022, rotate, sum81, sum3]; ring
theorem traced_rotate_e1100 (T : Ten4) (Q : Mat3) : traced_rotate T Q 1 1 0 0 = rotate T Q 1 1 0 0 := by
  simp only [traced_rotate, traced_rotate_1100, rotate, sum81, sum3]; ring
theorem traced_rotate_e1101 (T : Ten4) (Q : Mat3) : traced_rotate T Q 1 1 0 1 = rotate T Q 1 1 0 1 := by
  simp only [traced_rotate, traced_rotate_1101, rotate, sum81, sum3]; ring
theorem traced_rotate_e1102 (T : Ten4) (Q : Mat3) : traced_rotate T Q 1 1 0 2 = rotate T Q 1 1 0 2 := by
  simp only [traced_rotate, traced_rotate_1102, rotate, sum81, sum3]; ring
theorem traced_rotate_e1110 (T : Ten4) (Q : Mat3) : traced_rotate T Q 1 1 1 0 = rotate T Q 1 1 1 0 := by
  simp only [traced_rotate, traced_rotate_1110, rotate, sum81, sum3]; ring
theorem traced_rotate_e1111 (T : Ten4) (Q : Mat3) : traced_rotate T Q 1 1 1 1 = rotate T Q 1 1 1 1 := by
  simp only [traced_rotate, traced_rotate_1111, rotate, sum81, sum3]; ring
theorem traced_rotate_e1112 (T : Ten4) (Q : Mat3) : traced_rotate T Q 1 1 1 2 = rotate T Q 1 1 1 2 := by
  simp only [traced_rotate, traced_rotate_1112, rotate, sum81, sum3]; ring
theorem traced_rotate_e1120 (T : Ten4) (Q : Mat3) : traced_rotate T Q 1 1 2 0 = rotate T Q 1 1 2 0 := by
  simp only [traced_rotate, traced_rotate_1120, rotate, sum81, sum3]; ring
theorem traced_rotate_e1121 (T : Ten4) (Q : Mat3) : traced_rotate T Q 1 1 2 1 = rotate T Q 1 1 2 1 := by
  simp only [traced_rotate, traced_rotate_1121, rotate, sum81, sum3]; ring
theorem traced_rotate_e1122 (T : Ten4) (Q : Mat3) : traced_rotate T Q 1 1 2 2 = rotate T Q 1 1 2 2 := by
  simp only [traced_rotate, traced_rotate_1122, rotate, sum81, sum3]; ring
theorem traced_rotate_e1200 (T : Ten4) (Q : Mat3) : traced_rotate T Q 1 2 0 0 = rotate T Q 1 2 0 0 := by
  simp only [traced_rotate, traced_rotate_1200, rotate, sum81, sum3]; ring
theorem traced_rotate_e1201 (T : Ten4) (Q : Mat3) : traced_rotate T Q 1 2 0 1 = rotate T Q 1 2 0 1 := by
  simp only [traced_rotate, traced_rotate_1201, rotate, sum81, sum3]; ring
theorem traced_rotate_e1202 (T : Ten4) (Q : Mat3) : traced_rotate T Q 1 2 0 2 = rotate T Q 1 2 0 2 := by
  simp only [traced_rotate, traced_rotate_1202, rotate, sum81, sum3]; ring
theorem traced_rotate_e1210 (T : Ten4) (Q : Mat3) : traced_rotate T Q 1 2 1 0 = rotate T Q 1 2 1 0 := by
  simp only [traced_rotate, traced_rotate_1210, rotate, sum81, sum3]; ring
theorem traced_rotate_e1211 (T : Ten4) (Q : Mat3) : traced_rotate T Q 1 2 1 1 = rotate T Q 1 2 1 1 := by
  simp only [traced_rotate, traced_rotate_1211, rotate, sum81, sum3]; ring
theorem traced_rotate_e1212 (T : Ten4) (Q : Mat3) : traced_rotate T Q 1 2 1 2 = rotate T Q 1 2 1 2 := by
  simp only [traced_rotate, traced_rotate_1212, rotate, sum81, sum3]; ring
theorem traced_rotate_e1220 (T : Ten4) (Q : Mat3) : traced_rotate T Q 1 2 2 0 = rotate T Q 1 2 2 0 := by
  simp only [traced_rotate, traced_rotate_1220, rotate, sum81, sum3]; ring
theorem traced_rotate_e1221 (T : Ten4) (Q : Mat3) : traced_rotate T Q 1 2 2 1 = rotate T Q 1 2 2 1 := by
  simp only [traced_rotate, traced_rotate_1221, rotate, sum81, sum3]; ring
theorem traced_rotate_e1222 (T : Ten4) (Q : Mat3) : traced_rotate T Q 1 2 2 2 = rotate T Q 1 2 2 2 := by
  simp only [traced_rotate, traced_rotate_1222, rotate, sum81, sum3]; ring
theorem traced_rotate_e2000 (T : Ten4) (Q : Mat3) : traced_rotate T Q 2 0 0 0 = rotate T Q 2 0 0 0 := by
  simp only [traced_rotate, traced_rotate_2000, rotate, sum81, sum3]; ring
theorem traced_rotate_e2001 (T : Ten4) (Q : Mat3) : traced_rotate T Q 2 0 0 1 = rotate T Q 2 0 0 1 := by
  simp only [traced_rotate, traced_rotate_2001, rotate, sum81, sum3]; ring
theorem traced_rotate_e2002 (T : Ten4) (Q : Mat3) : traced_rotate T Q 2 0 0 2 = rotate T Q 2 0 0 2 := by
  simp only [traced_rotate, traced_rotate_2002, rotate, sum81, sum3]; ring
theorem traced_rotate_e2010 (T : Ten4) (Q : Mat3) : traced_rotate T Q 2 0 1 0 = rotate T Q 2 0 1 0 := by
  simp only [traced_rotate, traced_rotate_2010, rotate, sum81, sum3]; ring
theorem traced_rotate_e2011 (T : Ten4) (Q : Mat3) : traced_rotate T Q 2 0 1 1 = rotate T Q 2 0 1 1 := by
  simp only [traced_rotate, traced_rotate_2011, rotate, sum81, sum3]; ring
theorem traced_rotate_e2012 (T : Ten4) (Q : Mat3) : traced_rotate T Q 2 0 1 2 = rotate T Q 2 0 1 2 := by
  simp only [traced_rotate, traced_rotate_2012, rotate, sum81, sum3]; ring
theorem traced_rotate_e2020 (T : Ten4) (Q : Mat3) : traced_rotate T Q 2 0 2 0 = rotate T Q 2 0 2 0 := by
  simp only [traced_rotate, traced_rotate_2020, rotate, sum81, sum3]; ring
theorem traced_rotate_e2021 (T : Ten4) (Q : Mat3) : traced_rotate T Q 2 0 2 1 = rotate T Q 2 0 2 1 := by
  simp only [traced_rotate, traced_rotate_2021, rotate, sum81, sum3]; ring
theorem traced_rotate_e2022 (T : Ten4) (Q : Mat3) : traced_rotate T Q 2 0 2 2 = rotate T Q 2 0 2 2 := by
  simp only [traced_rotate, traced_rotate_2022, rotate, sum81, sum3]; ring
theorem traced_rotate_e2100 (T : Ten4) (Q : Mat3) : traced_rotate T Q 2 1 0 0 = rotate T Q 2 1 0 0 := by
  simp only [traced_rotate, traced_rotate_2100, rotate, sum81, sum3]; ring
theorem traced_rotate_e2101 (T : Ten4) (Q : Mat3) : traced_rotate T Q 2 1 0 1 = rotate T Q 2 1 0 1 := by
  simp only [traced_rotate, traced_rotate_2101, rotate, sum81, sum3]; ring
theorem traced_rotate_e2102 (T : Ten4) (Q : Mat3) : traced_rotate T Q 2 1 0 2 = rotate T Q 2 1 0 2 := by
  simp only [traced_rotate, traced_rotate_2102, rotate, sum81, sum3]; ring
theorem traced_rotate_e2110 (T : Ten4) (Q : Mat3) : traced_rotate T Q 2 1 1 0 = rotate T Q 2 1 1 0 := by
  simp only [traced_rotate, traced_rotate_2110, rotate, sum81, sum3]; ring
theorem traced_rotate_e2111 (T : Ten4) (Q : Mat3) : traced_rotate T Q 2 1 1 1 = rotate T Q 2 1 1 1 := by
  simp only [traced_rotate, traced_rotate_2111, rotate, sum81, sum3]; ring
theorem traced_rotate_e2112 (T : Ten4) (Q : Mat3) : traced_rotate T Q 2 1 1 2 = rotate T Q 2 1 1 2 := by
  simp only [traced_rotate, traced_rotate_2112, rotate, sum81, sum3]; ring
theorem traced_rotate_e2120 (T : Ten4) (Q : Mat3) : traced_rotate T Q 2 1 2 0 = rotate T Q 2 1 2 0 := by
  simp only [traced_rotate, traced_rotate_2120, rotate, sum81, sum3]; ring
theorem traced_rotate_e2121 (T : Ten4) (Q : Mat3) : traced_rotate T Q 2 1 2 1 = rotate T Q 2 1 2 1 := by
  simp only [traced_rotate, traced_rotate_2121, rotate, sum81, sum3]; ring
theorem traced_rotate_e2122 (T : Ten4) (Q : Mat3) : traced_rotate T Q 2 1 2 2 = rotate T Q 2 1 2 2 := by
  simp only [traced_rotate, traced_rotate_2122, rotate, sum81, sum3]; ring
theorem traced_rotate_e2200 (T : Ten4) (Q : Mat3) : traced_rotate T Q 2 2 0 0 = rotate T Q 2 2 0 0 := by
  simp only [traced_rotate, traced_rotate_2200, rotate, sum81, sum3]; ring
theorem traced_rotate_e2201 (T : Ten4) (Q : Mat3) : traced_rotate T Q 2 2 0 1 = rotate T Q 2 2 0 1 := by
  simp only [traced_rotate, traced_rotate_2201, rotate, sum81, sum3]; ring
theorem traced_rotate_e2202 (T : Ten4) (Q : Mat3) : traced_rotate T Q 2 2 0 2 = rotate T Q 2 2 0 2 := by
  simp only [traced_rotate, traced_rotate_2202, rotate, sum81, sum3]; ring
theorem traced_rotate_e2210 (T : Ten4) (Q : Mat3) : traced_rotate T Q 2 2 1 0 = rotate T Q 2 2 1 0 := by
  simp only [traced_rotate, traced_rotate_2210, rotate, sum81, sum3]; ring
theorem traced_rotate_e2211 (T : Ten4) (Q : Mat3) : traced_rotate T Q 2 2 1 1 = rotate T Q 2 2 1 1 := by
  simp only [traced_rotate, traced_rotate_2211, rotate, sum81, sum3]; ring
theorem traced_rotate_e2212 (T : Ten4) (Q : Mat3) : traced_rotate T Q 2 2 1 2 = rotate T Q 2 2 1 2 := by
  simp only [traced_rotate, traced_rotate_2212, rotate, sum81, sum3]; ring
theorem traced_rotate_e2220 (T : Ten4) (Q : Mat3) : traced_rotate T Q 2 2 2 0 = rotate T Q 2 2 2 0 := by
  simp only [traced_rotate, traced_rotate_2220, rotate, sum81, sum3]; ring
theorem traced_rotate_e2221 (T : Ten4) (Q : Mat3) : traced_rotate T Q 2 2 2 1 = rotate T Q 2 2 2 1 := by
  simp only [traced_rotate, traced_rotate_2221, rotate, sum81, sum3]; ring
theorem traced_rotate_e2222 (T : Ten4) (Q : Mat3) : traced_rotate T Q 2 2 2 2 = rotate T Q 2 2 2 2 := by
  simp only [traced_rotate, traced_rotate_2222, rotate, sum81, sum3]; ring

theorem traced_rotate_entry (T : Ten4) (Q : Mat3) : ∀ i j k l : Fin 3, traced_rotate T Q i j k l = rotate T Q i j k l
  | 0, 0, 0, 0 => traced_rotate_e0000 T Q
  | 0, 0, 0, 1 => traced_rotate_e0001 T Q
  | 0, 0, 0, 2 => traced_rotate_e0002 T Q
  | 0, 0, 1, 0 => traced_rotate_e0010 T Q
  | 0, 0, 1, 1 => traced_rotate_e0011 T Q
  | 0, 0, 1, 2 => traced_rotate_e0012 T Q
  | 0, 0, 2, 0 => traced_rotate_e0020 T Q
  | 0, 0, 2, 1 => traced_rotate_e0021 T Q
  | 0, 0, 2, 2 => traced_rotate_e0022 T Q
  | 0, 1, 0, 0 => traced_rotate_e0100 T Q
  | 0, 1, 0, 1 => traced_rotate_e0101 T Q
  | 0, 1, 0, 2 => traced_rotate_e0102 T Q
  | 0, 1, 1, 0 => traced_rotate_e0110 T Q
  | 0, 1, 1, 1 => traced_rotate_e0111 T Q
  | 0, 1, 1, 2 => traced_rotate_e0112 T Q
  | 0, 1, 2, 0 => traced_rotate_e0120 T Q
  | 0, 1, 2, 1 => traced_rotate_e0121 T Q
  | 0, 1, 2, 2 => traced_rotate_e0122 T Q
  | 0, 2, 0, 0 => traced_rotate_e0200 T Q
  | 0, 2, 0, 1 => traced_rotate_e0201 T Q
  | 0, 2, 0, 2 => traced_rotate_e0202 T Q
  | 0, 2, 1, 0 => traced_rotate_e0210 T Q
  | 0, 2, 1, 1 => traced_rotate_e0211 T Q
  | 0, 2, 1, 2 => traced_rotate_e0212 T Q
  | 0, 2, 2, 0 => traced_rotate_e0220 T Q
  | 0, 2, 2, 1 => traced_rotate_e0221 T Q
  | 0, 2, 2, 2 => traced_rotate_e0222 T Q
  | 1, 0, 0, 0 => traced_rotate_e1000 T Q
  | 1, 0, 0, 1 => traced_rotate_e1001 T Q
  | 1, 0, 0, 2 => traced_rotate_e1002 T Q
  | 1, 0, 1, 0 => traced_rotate_e1010 T Q
  | 1, 0, 1, 1 => traced_rotate_e1011 T Q
  | 1, 0, 1, 2 => traced_rotate_e1012 T Q
  | 1, 0, 2, 0 => traced_rotate_e1020 T Q
  | 1, 0, 2, 1 => traced_rotate_e1021 T Q
  | 1, 0, 2, 2 => traced_rotate_e1022 T Q
  | 1, 1, 0, 0 => traced_rotate_e1100 T Q
  | 1, 1, 0, 1 => traced_rotate_e1101 T Q
  | 1, 1, 0, 2 => traced_rotate_e1102 T Q
  | 1, 1, 1, 0 => traced_rotate_e1110 T Q
  | 1, 1, 1, 1 => traced_rotate_e1111 T Q
  | 1, 1, 1, 2 => traced_rotate_e1112 T Q
  | 1, 1, 2, 0 => traced_rotate_e1120 T Q
  | 1, 1, 2, 1 => traced_rotate_e1121 T Q
  | 1, 1, 2, 2 => traced_rotate_e1122 T Q
  | 1, 2, 0, 0 => traced_rotate_e1200 T Q
  | 1, 2, 0, 1 => traced_rotate_e1201 T Q
  | 1, 2, 0, 2 => traced_rotate_e1202 T Q
  | 1, 2, 1, 0 => traced_rotate_e1210 T Q
  | 1, 2, 1, 1 => traced_rotate_e1211 T Q
  | 1, 2, 1, 2 => traced_rotate_e1212 T Q
  | 1, 2, 2, 0 => traced_rotate_e1220 T Q
  | 1, 2, 2, 1 => traced_rotate_e1221 T Q
  | 1, 2, 2, 2 => traced_rotate_e1222 T Q
  | 2, 0, 0, 0 => traced_rotate_e2000 T Q
  | 2, 0, 0, 1 => traced_rotate_e2001 T Q
  | 2, 0, 0, 2 => traced_rotate_e2002 T Q
  | 2, 0, 1, 0 => traced_rotate_e2010 T Q
  | 2, 0, 1, 1 => traced_rotate_e2011 T Q
  | 2, 0, 1, 2 => traced_rotate_e2012 T Q
  | 2, 0, 2, 0 => traced_rotate_e2020 T Q
  | 2, 0, 2, 1 => traced_rotate_e2021 T Q
  | 2, 0, 2, 2 => traced_rotate_e2022 T Q
  | 2, 1, 0, 0 => traced_rotate_e2100 T Q
  | 2, 1, 0, 1 => traced_rotate_e2101 T Q
  | 2, 1, 0, 2 => traced_rotate_e2102 T Q
  | 2, 1, 1, 0 => traced_rotate_e2110 T Q
  | 2, 1, 1, 1 => traced_rotate_e2111 T Q
  | 2, 1, 1, 2 => traced_rotate_e2112 T Q
  | 2, 1, 2, 0 => traced_rotate_e2120 T Q
  | 2, 1, 2, 1 => traced_rotate_e2121 T Q
  | 2, 1, 2, 2 => traced_rotate_e2122 T Q
  | 2, 2, 0, 0 => traced_rotate_e2200 T Q
  | 2, 2, 0, 1 => traced_rotate_e2201 T Q
  | 2, 2, 0, 2 => traced_rotate_e2202 T Q
  | 2, 2, 1, 0 => traced_rotate_e2210 T Q
  | 2, 2, 1, 1 => traced_rotate_e2211 T Q
  | 2, 2, 1, 2 => traced_rotate_e2212 T Q
  | 2, 2, 2, 0 => traced_rotate_e2220 T Q
  | 2, 2, 2, 1 => traced_rotate_e2221 T Q
  | 2, 2, 2, 2 => traced_rotate_e2222 T Q

theorem traced_rotate_eq (T : Ten4) (Q : Mat3) : traced_rotate T Q = rotate T Q := by
  funext i j k l
  exact traced_rotate_entry T Q i j k l
end ModelR.Tensors
