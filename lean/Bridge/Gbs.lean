import Generated.TracedGbs
import Proofs.Basic
import Mathlib.Tactic.Ring
import Mathlib.Tactic.NormNum
/-! S2 bridge for `utils.apply_gbs` (the sliding floor of C09): the decision tree obtained by running the real function on
symbolic textures of two and three grains (every outcome of the mask comparisons enumerated) equals the model `applyGbs`
at those grain counts. The model itself is over lists of any length; the translator cannot be, so the tie by translation is
at n = 2 and n = 3 and the tie for other sizes is the correspondence S1. -/
noncomputable section
namespace ModelR

theorem traced_applyGbs2_eq (chi : ℝ) (A0 A1 P0 P1 : Mat3) (f0 f1 : ℝ) :
    traced_applyGbs2 chi A0 A1 P0 P1 f0 f1 = applyGbs chi 2 [P0, P1] ⟨[A0, A1], [f0, f1]⟩ := by
  unfold traced_applyGbs2 applyGbs
  by_cases h0 : f0 < chi / 2 <;> by_cases h1 : f1 < chi / 2 <;>
    simp [h0, h1, RofNat, listSum]

theorem traced_applyGbs3_eq (chi : ℝ) (A0 A1 A2 P0 P1 P2 : Mat3) (f0 f1 f2 : ℝ) :
    traced_applyGbs3 chi A0 A1 A2 P0 P1 P2 f0 f1 f2 = applyGbs chi 3 [P0, P1, P2] ⟨[A0, A1, A2], [f0, f1, f2]⟩ := by
  unfold traced_applyGbs3 applyGbs
  by_cases h0 : f0 < chi / 3 <;> by_cases h1 : f1 < chi / 3 <;> by_cases h2 : f2 < chi / 3 <;>
    simp [h0, h1, h2, RofNat, listSum]

end ModelR
