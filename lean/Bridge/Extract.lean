import Generated.TracedExtract
import Proofs.Basic
import Mathlib.Tactic.FinCases
import Mathlib.Tactic.NormNum
/-! S2 bridge for `utils.extract_vars` at two grains (a 29-vector): the expressions obtained by running the real function on a
symbolic state vector (slicing, reshaping, the two clips, the in-place renormalisation) equal the model `extractVars 2`. -/
noncomputable section
namespace ModelR

theorem traced_extractVars2_eq (y : Fin 29 → ℝ) :
    traced_extractVars2 y = extractVars 2 (List.ofFn y) := by
  unfold traced_extractVars2 extractVars unpackY extractTex
  simp only [List.ofFn_succ, List.ofFn_zero, chunk9, listSum]
  refine Prod.ext ?_ ?_
  · funext i j
    fin_cases i <;> fin_cases j <;> simp [mat3OfList] <;> rfl
  · simp only
    congr 1
    · simp only [List.map_cons, List.map_nil, List.cons.injEq, and_true]
      constructor <;>
      · funext i j
        fin_cases i <;> fin_cases j <;> simp [mat3OfList] <;> rfl
    · simp [List.foldl]

end ModelR
