import Generated.TracedTensors
import Mathlib.Tactic.FinCases
import Mathlib.Tactic.Ring
import Mathlib.Tactic.NormNum
import Mathlib.Tactic.Linarith
/-! S2 bridge for `pydrex/tensors.py`: the definitions regenerated from the source by the symbolic
tracer (`Generated/TracedTensors.lean`) equal the hand-written model functions the property theorems
are about.  A change of the source that changes what a kernel computes changes the traced definition
and breaks the corresponding theorem here. -/
noncomputable section
namespace ModelR.Tensors
open ModelR

theorem traced_voigtToTensor_eq (M : Mat6) : traced_voigtToTensor M = voigtToTensor M := by
  funext p q r s
  fin_cases p <;> fin_cases q <;> fin_cases r <;> fin_cases s <;> rfl

theorem traced_matrixToVector_eq (M : Mat6) : traced_matrixToVector M = matrixToVector M := by
  funext k
  fin_cases k <;> simp [traced_matrixToVector, matrixToVector, mod3, lo3, up3, nxt, nxt2]

theorem traced_voigtDilat_eq (M : Mat6) : traced_voigtDilat M = voigtDilat M := by
  funext i j
  fin_cases i <;> fin_cases j <;> simp [traced_voigtDilat, voigtDilat, col3sum]

theorem traced_monoProject_eq (v : Vec21) : traced_monoProject v = monoProject v := by
  funext k
  fin_cases k <;> simp [traced_monoProject, monoProject]

theorem traced_orthoProject_eq (v : Vec21) : traced_orthoProject v = orthoProject v := by
  funext k
  fin_cases k <;> simp [traced_orthoProject, orthoProject]

theorem traced_tetrProject_eq (v : Vec21) : traced_tetrProject v = tetrProject v := by
  funext k
  fin_cases k <;> simp [traced_tetrProject, tetrProject, orthoProject]

theorem traced_hexProject_eq (v : Vec21) : traced_hexProject v = hexProject v := by
  funext k
  fin_cases k <;> simp [traced_hexProject, hexProject] <;> norm_num

theorem traced_voigtDeviat_eq (M : Mat6) : traced_voigtDeviat M = voigtDeviat M := by
  funext i j
  fin_cases i <;> fin_cases j <;>
    simp [traced_voigtDeviat, voigtDeviat, voigtDeviatUpper, upperTriToSymmetric, triu]

theorem traced_vectorToMatrix_eq (v : Vec21) : traced_vectorToMatrix v = vectorToMatrix v := by
  funext i j
  fin_cases i <;> fin_cases j <;>
    simp [traced_vectorToMatrix, vectorToMatrix, vectorToUpper, upperTriToSymmetric, triu]

theorem vidx_table : ∀ p q : Fin 3, vidx p q = (match p, q with
  | 0, 0 => 0 | 1, 1 => 1 | 2, 2 => 2 | 1, 2 => 3 | 2, 1 => 3 | 0, 2 => 4 | 2, 0 => 4 | 0, 1 => 5 | 1, 0 => 5) := by
  decide

theorem traced_tensorToVoigt_eq (T : Ten4) : traced_tensorToVoigt T = tensorToVoigt T := by
  funext i j
  fin_cases i <;> fin_cases j <;>
    simp [traced_tensorToVoigt, tensorToVoigt, accum, accumCount, sum81, sum3, vidx_table] <;> norm_num <;> ring

end ModelR.Tensors
