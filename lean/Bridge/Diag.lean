import Generated.TracedDiag
import Proofs.Basic
import Mathlib.Tactic.FinCases
import Mathlib.Tactic.Ring
import Mathlib.Tactic.NormNum
/-! S2 bridge for the texture / strain diagnostics of C13 (`stats._scatter_matrix`, `diagnostics.symmetry_pgr`,
`coaxial_index`, `bingham_average`, `finite_strain`): the real functions are run with the LAPACK calls replaced by a shim that
records the matrix handed over and returns SYMBOLIC eigenvalues / eigenvectors; what is recorded and what is returned equals the
model's pieces around the external call (for two grains where the grain list matters). -/
noncomputable section
namespace ModelR.Diag
open ModelR

theorem traced_scatter_0_eq (A0 A1 : Mat3) : traced_scatter_0 A0 A1 = scatterLower [A0, A1] 0 := by
  funext i j
  fin_cases i <;> fin_cases j <;> simp [traced_scatter_0, scatterLower, listSum] <;> try ring

theorem traced_scatter_1_eq (A0 A1 : Mat3) : traced_scatter_1 A0 A1 = scatterLower [A0, A1] 1 := by
  funext i j
  fin_cases i <;> fin_cases j <;> simp [traced_scatter_1, scatterLower, listSum] <;> try ring

theorem traced_scatter_2_eq (A0 A1 : Mat3) : traced_scatter_2 A0 A1 = scatterLower [A0, A1] 2 := by
  funext i j
  fin_cases i <;> fin_cases j <;> simp [traced_scatter_2, scatterLower, listSum] <;> try ring

theorem traced_pgr_eq (w : Vec3) : traced_pgr w = pgrOfEigvals w := by
  simp [traced_pgr, pgrOfEigvals]

theorem traced_coaxial_eq (w1 w2 : Vec3) : traced_coaxial w1 w2 = coaxialOfPgr (pgrOfEigvals w1) (pgrOfEigvals w2) := by
  simp [traced_coaxial, coaxialOfPgr, pgrOfEigvals]

theorem traced_bingham_eq (V : Mat3) : traced_bingham V = binghamOfEigvecs V := by
  funext i
  fin_cases i <;> simp [traced_bingham, binghamOfEigvecs, col, norm3]

theorem traced_fseB_eq (F : Mat3) : traced_fseB F = leftCG F := by
  funext i j
  fin_cases i <;> fin_cases j <;> simp [traced_fseB, leftCG, mmul, tr, sum3]

theorem traced_fse_eq (w : Vec3) (V : Mat3) : traced_fse w V = finiteStrainOfEig (w, V) := by
  simp only [traced_fse, finiteStrainOfEig, col]
  refine Prod.ext rfl ?_
  funext i
  fin_cases i <;> rfl

end ModelR.Diag
