import Generated.TracedStrainIncrement
import Proofs.Basic
import Mathlib.Tactic.FinCases
import Mathlib.Tactic.Linarith
/-! S2 bridge for `utils.strain_increment` (C18, and the strain bookkeeping of the pathline event): with `np.linalg.eigvalsh`
replaced by a recording shim that returns symbolic eigenvalues, the matrix handed over is `symm L` and the value computed from the
eigenvalues (the `.max()` forks on its comparisons) is `|dt| * maxAbs3 w`, for every `dt`, `L`, `w`. -/
noncomputable section
namespace ModelR

theorem traced_strainIncrement_matrix_eq (L : Mat3) : traced_strainIncrement_matrix L = symm L := by
  funext i j
  fin_cases i <;> fin_cases j <;> rfl

theorem traced_strainIncrement_eq (eig : Mat3 → Vec3) (dt : ℝ) (L : Mat3) :
    traced_strainIncrement dt (eig (traced_strainIncrement_matrix L)) = strainIncrement eig dt L := by
  rw [traced_strainIncrement_matrix_eq]
  unfold traced_strainIncrement strainIncrement maxAbs3 max2
  generalize eig (symm L) = w
  by_cases h10 : Rabs (w 1) ≤ Rabs (w 0) <;> by_cases h20 : Rabs (w 2) ≤ Rabs (w 0) <;>
    by_cases h21 : Rabs (w 2) ≤ Rabs (w 1) <;>
    simp only [h10, h20, h21, if_true, if_false] <;> split_ifs <;> first | rfl | (congr 1; linarith) | (exfalso; linarith)

end ModelR
