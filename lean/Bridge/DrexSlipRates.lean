import Generated.TracedDrex
import Proofs.Drex
import Mathlib.Tactic.FinCases
/-! S2 bridge for `core._get_slip_rates_olivine` (K4): for EVERY ranking `σ` of the four slip systems (24 permutations, the
integer array the code receives from `argsort`), the expression traced from the source for a symbolic finite CRSS row equals
the model's `slipRatesOlivine I σ crss n`. (Infinite CRSS entries are tied by the correspondence check.) -/
noncomputable section
namespace ModelR

theorem bridge_slipRatesOlivine_0123 (I tau : Fin 4 → ℝ) (n : ℝ) :
    traced_slipRatesOlivine_0123 I tau n = slipRatesOlivine I (fun s => match s with | 0 => 0 | 1 => 1 | 2 => 2 | 3 => 3) (fun s => tauFin (tau s)) n := by
  funext s
  fin_cases s <;> simp [traced_slipRatesOlivine_0123, slipRatesOlivine, tauDiv, divByTau, tauFin]

theorem bridge_slipRatesOlivine_0132 (I tau : Fin 4 → ℝ) (n : ℝ) :
    traced_slipRatesOlivine_0132 I tau n = slipRatesOlivine I (fun s => match s with | 0 => 0 | 1 => 1 | 2 => 3 | 3 => 2) (fun s => tauFin (tau s)) n := by
  funext s
  fin_cases s <;> simp [traced_slipRatesOlivine_0132, slipRatesOlivine, tauDiv, divByTau, tauFin]

theorem bridge_slipRatesOlivine_0213 (I tau : Fin 4 → ℝ) (n : ℝ) :
    traced_slipRatesOlivine_0213 I tau n = slipRatesOlivine I (fun s => match s with | 0 => 0 | 1 => 2 | 2 => 1 | 3 => 3) (fun s => tauFin (tau s)) n := by
  funext s
  fin_cases s <;> simp [traced_slipRatesOlivine_0213, slipRatesOlivine, tauDiv, divByTau, tauFin]

theorem bridge_slipRatesOlivine_0231 (I tau : Fin 4 → ℝ) (n : ℝ) :
    traced_slipRatesOlivine_0231 I tau n = slipRatesOlivine I (fun s => match s with | 0 => 0 | 1 => 2 | 2 => 3 | 3 => 1) (fun s => tauFin (tau s)) n := by
  funext s
  fin_cases s <;> simp [traced_slipRatesOlivine_0231, slipRatesOlivine, tauDiv, divByTau, tauFin]

theorem bridge_slipRatesOlivine_0312 (I tau : Fin 4 → ℝ) (n : ℝ) :
    traced_slipRatesOlivine_0312 I tau n = slipRatesOlivine I (fun s => match s with | 0 => 0 | 1 => 3 | 2 => 1 | 3 => 2) (fun s => tauFin (tau s)) n := by
  funext s
  fin_cases s <;> simp [traced_slipRatesOlivine_0312, slipRatesOlivine, tauDiv, divByTau, tauFin]

theorem bridge_slipRatesOlivine_0321 (I tau : Fin 4 → ℝ) (n : ℝ) :
    traced_slipRatesOlivine_0321 I tau n = slipRatesOlivine I (fun s => match s with | 0 => 0 | 1 => 3 | 2 => 2 | 3 => 1) (fun s => tauFin (tau s)) n := by
  funext s
  fin_cases s <;> simp [traced_slipRatesOlivine_0321, slipRatesOlivine, tauDiv, divByTau, tauFin]

theorem bridge_slipRatesOlivine_1023 (I tau : Fin 4 → ℝ) (n : ℝ) :
    traced_slipRatesOlivine_1023 I tau n = slipRatesOlivine I (fun s => match s with | 0 => 1 | 1 => 0 | 2 => 2 | 3 => 3) (fun s => tauFin (tau s)) n := by
  funext s
  fin_cases s <;> simp [traced_slipRatesOlivine_1023, slipRatesOlivine, tauDiv, divByTau, tauFin]

theorem bridge_slipRatesOlivine_1032 (I tau : Fin 4 → ℝ) (n : ℝ) :
    traced_slipRatesOlivine_1032 I tau n = slipRatesOlivine I (fun s => match s with | 0 => 1 | 1 => 0 | 2 => 3 | 3 => 2) (fun s => tauFin (tau s)) n := by
  funext s
  fin_cases s <;> simp [traced_slipRatesOlivine_1032, slipRatesOlivine, tauDiv, divByTau, tauFin]

theorem bridge_slipRatesOlivine_1203 (I tau : Fin 4 → ℝ) (n : ℝ) :
    traced_slipRatesOlivine_1203 I tau n = slipRatesOlivine I (fun s => match s with | 0 => 1 | 1 => 2 | 2 => 0 | 3 => 3) (fun s => tauFin (tau s)) n := by
  funext s
  fin_cases s <;> simp [traced_slipRatesOlivine_1203, slipRatesOlivine, tauDiv, divByTau, tauFin]

theorem bridge_slipRatesOlivine_1230 (I tau : Fin 4 → ℝ) (n : ℝ) :
    traced_slipRatesOlivine_1230 I tau n = slipRatesOlivine I (fun s => match s with | 0 => 1 | 1 => 2 | 2 => 3 | 3 => 0) (fun s => tauFin (tau s)) n := by
  funext s
  fin_cases s <;> simp [traced_slipRatesOlivine_1230, slipRatesOlivine, tauDiv, divByTau, tauFin]

theorem bridge_slipRatesOlivine_1302 (I tau : Fin 4 → ℝ) (n : ℝ) :
    traced_slipRatesOlivine_1302 I tau n = slipRatesOlivine I (fun s => match s with | 0 => 1 | 1 => 3 | 2 => 0 | 3 => 2) (fun s => tauFin (tau s)) n := by
  funext s
  fin_cases s <;> simp [traced_slipRatesOlivine_1302, slipRatesOlivine, tauDiv, divByTau, tauFin]

theorem bridge_slipRatesOlivine_1320 (I tau : Fin 4 → ℝ) (n : ℝ) :
    traced_slipRatesOlivine_1320 I tau n = slipRatesOlivine I (fun s => match s with | 0 => 1 | 1 => 3 | 2 => 2 | 3 => 0) (fun s => tauFin (tau s)) n := by
  funext s
  fin_cases s <;> simp [traced_slipRatesOlivine_1320, slipRatesOlivine, tauDiv, divByTau, tauFin]

theorem bridge_slipRatesOlivine_2013 (I tau : Fin 4 → ℝ) (n : ℝ) :
    traced_slipRatesOlivine_2013 I tau n = slipRatesOlivine I (fun s => match s with | 0 => 2 | 1 => 0 | 2 => 1 | 3 => 3) (fun s => tauFin (tau s)) n := by
  funext s
  fin_cases s <;> simp [traced_slipRatesOlivine_2013, slipRatesOlivine, tauDiv, divByTau, tauFin]

theorem bridge_slipRatesOlivine_2031 (I tau : Fin 4 → ℝ) (n : ℝ) :
    traced_slipRatesOlivine_2031 I tau n = slipRatesOlivine I (fun s => match s with | 0 => 2 | 1 => 0 | 2 => 3 | 3 => 1) (fun s => tauFin (tau s)) n := by
  funext s
  fin_cases s <;> simp [traced_slipRatesOlivine_2031, slipRatesOlivine, tauDiv, divByTau, tauFin]

theorem bridge_slipRatesOlivine_2103 (I tau : Fin 4 → ℝ) (n : ℝ) :
    traced_slipRatesOlivine_2103 I tau n = slipRatesOlivine I (fun s => match s with | 0 => 2 | 1 => 1 | 2 => 0 | 3 => 3) (fun s => tauFin (tau s)) n := by
  funext s
  fin_cases s <;> simp [traced_slipRatesOlivine_2103, slipRatesOlivine, tauDiv, divByTau, tauFin]

theorem bridge_slipRatesOlivine_2130 (I tau : Fin 4 → ℝ) (n : ℝ) :
    traced_slipRatesOlivine_2130 I tau n = slipRatesOlivine I (fun s => match s with | 0 => 2 | 1 => 1 | 2 => 3 | 3 => 0) (fun s => tauFin (tau s)) n := by
  funext s
  fin_cases s <;> simp [traced_slipRatesOlivine_2130, slipRatesOlivine, tauDiv, divByTau, tauFin]

theorem bridge_slipRatesOlivine_2301 (I tau : Fin 4 → ℝ) (n : ℝ) :
    traced_slipRatesOlivine_2301 I tau n = slipRatesOlivine I (fun s => match s with | 0 => 2 | 1 => 3 | 2 => 0 | 3 => 1) (fun s => tauFin (tau s)) n := by
  funext s
  fin_cases s <;> simp [traced_slipRatesOlivine_2301, slipRatesOlivine, tauDiv, divByTau, tauFin]

theorem bridge_slipRatesOlivine_2310 (I tau : Fin 4 → ℝ) (n : ℝ) :
    traced_slipRatesOlivine_2310 I tau n = slipRatesOlivine I (fun s => match s with | 0 => 2 | 1 => 3 | 2 => 1 | 3 => 0) (fun s => tauFin (tau s)) n := by
  funext s
  fin_cases s <;> simp [traced_slipRatesOlivine_2310, slipRatesOlivine, tauDiv, divByTau, tauFin]

theorem bridge_slipRatesOlivine_3012 (I tau : Fin 4 → ℝ) (n : ℝ) :
    traced_slipRatesOlivine_3012 I tau n = slipRatesOlivine I (fun s => match s with | 0 => 3 | 1 => 0 | 2 => 1 | 3 => 2) (fun s => tauFin (tau s)) n := by
  funext s
  fin_cases s <;> simp [traced_slipRatesOlivine_3012, slipRatesOlivine, tauDiv, divByTau, tauFin]

theorem bridge_slipRatesOlivine_3021 (I tau : Fin 4 → ℝ) (n : ℝ) :
    traced_slipRatesOlivine_3021 I tau n = slipRatesOlivine I (fun s => match s with | 0 => 3 | 1 => 0 | 2 => 2 | 3 => 1) (fun s => tauFin (tau s)) n := by
  funext s
  fin_cases s <;> simp [traced_slipRatesOlivine_3021, slipRatesOlivine, tauDiv, divByTau, tauFin]

theorem bridge_slipRatesOlivine_3102 (I tau : Fin 4 → ℝ) (n : ℝ) :
    traced_slipRatesOlivine_3102 I tau n = slipRatesOlivine I (fun s => match s with | 0 => 3 | 1 => 1 | 2 => 0 | 3 => 2) (fun s => tauFin (tau s)) n := by
  funext s
  fin_cases s <;> simp [traced_slipRatesOlivine_3102, slipRatesOlivine, tauDiv, divByTau, tauFin]

theorem bridge_slipRatesOlivine_3120 (I tau : Fin 4 → ℝ) (n : ℝ) :
    traced_slipRatesOlivine_3120 I tau n = slipRatesOlivine I (fun s => match s with | 0 => 3 | 1 => 1 | 2 => 2 | 3 => 0) (fun s => tauFin (tau s)) n := by
  funext s
  fin_cases s <;> simp [traced_slipRatesOlivine_3120, slipRatesOlivine, tauDiv, divByTau, tauFin]

theorem bridge_slipRatesOlivine_3201 (I tau : Fin 4 → ℝ) (n : ℝ) :
    traced_slipRatesOlivine_3201 I tau n = slipRatesOlivine I (fun s => match s with | 0 => 3 | 1 => 2 | 2 => 0 | 3 => 1) (fun s => tauFin (tau s)) n := by
  funext s
  fin_cases s <;> simp [traced_slipRatesOlivine_3201, slipRatesOlivine, tauDiv, divByTau, tauFin]

theorem bridge_slipRatesOlivine_3210 (I tau : Fin 4 → ℝ) (n : ℝ) :
    traced_slipRatesOlivine_3210 I tau n = slipRatesOlivine I (fun s => match s with | 0 => 3 | 1 => 2 | 2 => 1 | 3 => 0) (fun s => tauFin (tau s)) n := by
  funext s
  fin_cases s <;> simp [traced_slipRatesOlivine_3210, slipRatesOlivine, tauDiv, divByTau, tauFin]

end ModelR
