-- GENERATED on every run by harness/trace/tracer.py from /repo/src/pydrex/utils.py -- do not edit
import ModelR.Update
noncomputable section
namespace ModelR

def traced_applyGbs2 (chi : ℝ) (A0 A1 P0 P1 : Mat3) (f0 f1 : ℝ) : Tex :=
  (if (f0 < (chi / 2)) then (if (f1 < (chi / 2)) then (⟨[P0, P1], [((chi / 2) / ((chi / 2) + (chi / 2))), ((chi / 2) / ((chi / 2) + (chi / 2)))]⟩ : Tex) else (⟨[P0, A1], [((chi / 2) / ((chi / 2) + f1)), (f1 / ((chi / 2) + f1))]⟩ : Tex)) else (if (f1 < (chi / 2)) then (⟨[A0, P1], [(f0 / (f0 + (chi / 2))), ((chi / 2) / (f0 + (chi / 2)))]⟩ : Tex) else (⟨[A0, A1], [(f0 / (f0 + f1)), (f1 / (f0 + f1))]⟩ : Tex)))

def traced_applyGbs3 (chi : ℝ) (A0 A1 A2 P0 P1 P2 : Mat3) (f0 f1 f2 : ℝ) : Tex :=
  (if (f0 < (chi / 3)) then (if (f1 < (chi / 3)) then (if (f2 < (chi / 3)) then (⟨[P0, P1, P2], [((chi / 3) / (((chi / 3) + (chi / 3)) + (chi / 3))), ((chi / 3) / (((chi / 3) + (chi / 3)) + (chi / 3))), ((chi / 3) / (((chi / 3) + (chi / 3)) + (chi / 3)))]⟩ : Tex) else (⟨[P0, P1, A2], [((chi / 3) / (((chi / 3) + (chi / 3)) + f2)), ((chi / 3) / (((chi / 3) + (chi / 3)) + f2)), (f2 / (((chi / 3) + (chi / 3)) + f2))]⟩ : Tex)) else (if (f2 < (chi / 3)) then (⟨[P0, A1, P2], [((chi / 3) / (((chi / 3) + f1) + (chi / 3))), (f1 / (((chi / 3) + f1) + (chi / 3))), ((chi / 3) / (((chi / 3) + f1) + (chi / 3)))]⟩ : Tex) else (⟨[P0, A1, A2], [((chi / 3) / (((chi / 3) + f1) + f2)), (f1 / (((chi / 3) + f1) + f2)), (f2 / (((chi / 3) + f1) + f2))]⟩ : Tex))) else (if (f1 < (chi / 3)) then (if (f2 < (chi / 3)) then (⟨[A0, P1, P2], [(f0 / ((f0 + (chi / 3)) + (chi / 3))), ((chi / 3) / ((f0 + (chi / 3)) + (chi / 3))), ((chi / 3) / ((f0 + (chi / 3)) + (chi / 3)))]⟩ : Tex) else (⟨[A0, P1, A2], [(f0 / ((f0 + (chi / 3)) + f2)), ((chi / 3) / ((f0 + (chi / 3)) + f2)), (f2 / ((f0 + (chi / 3)) + f2))]⟩ : Tex)) else (if (f2 < (chi / 3)) then (⟨[A0, A1, P2], [(f0 / ((f0 + f1) + (chi / 3))), (f1 / ((f0 + f1) + (chi / 3))), ((chi / 3) / ((f0 + f1) + (chi / 3)))]⟩ : Tex) else (⟨[A0, A1, A2], [(f0 / ((f0 + f1) + f2)), (f1 / ((f0 + f1) + f2)), (f2 / ((f0 + f1) + f2))]⟩ : Tex))))

end ModelR
