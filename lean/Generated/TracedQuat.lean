-- GENERATED on every run by harness/trace/tracer.py from /repo/src/pydrex/utils.py -- do not edit
import ModelR.Quat
noncomputable section
namespace ModelR

def traced_quatProduct (p q : Quat) : Quat := fun i => match i with
  | 0 => ((((p 3) * (q 0)) + ((q 3) * (p 0))) + (((p 1) * (p 2)) - ((p 2) * (p 1))))
  | 1 => ((((p 3) * (q 1)) + ((q 3) * (p 1))) + (((p 2) * (p 0)) - ((p 0) * (p 2))))
  | 2 => ((((p 3) * (q 2)) + ((q 3) * (p 2))) + (((p 0) * (p 1)) - ((p 1) * (p 0))))
  | 3 => (((p 3) * (q 3)) - ((((p 0) * (q 0)) + ((p 1) * (q 1))) + ((p 2) * (q 2))))

end ModelR
