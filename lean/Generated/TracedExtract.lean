-- GENERATED on every run by harness/trace/tracer.py from /repo/src/pydrex/utils.py -- do not edit
import ModelR.Update
noncomputable section
namespace ModelR

def traced_extractVars2 (y : Fin 29 → ℝ) : Mat3 × Tex :=
  ((fun i j => match i, j with | 0, 0 => (y 0) | 0, 1 => (y 1) | 0, 2 => (y 2) | 1, 0 => (y 3) | 1, 1 => (y 4) | 1, 2 => (y 5) | 2, 0 => (y 6) | 2, 1 => (y 7) | 2, 2 => (y 8)),
   ⟨[(fun i j => match i, j with | 0, 0 => (clip (-1) 1 (y 9)) | 0, 1 => (clip (-1) 1 (y 10)) | 0, 2 => (clip (-1) 1 (y 11)) | 1, 0 => (clip (-1) 1 (y 12)) | 1, 1 => (clip (-1) 1 (y 13)) | 1, 2 => (clip (-1) 1 (y 14)) | 2, 0 => (clip (-1) 1 (y 15)) | 2, 1 => (clip (-1) 1 (y 16)) | 2, 2 => (clip (-1) 1 (y 17))), (fun i j => match i, j with | 0, 0 => (clip (-1) 1 (y 18)) | 0, 1 => (clip (-1) 1 (y 19)) | 0, 2 => (clip (-1) 1 (y 20)) | 1, 0 => (clip (-1) 1 (y 21)) | 1, 1 => (clip (-1) 1 (y 22)) | 1, 2 => (clip (-1) 1 (y 23)) | 2, 0 => (clip (-1) 1 (y 24)) | 2, 1 => (clip (-1) 1 (y 25)) | 2, 2 => (clip (-1) 1 (y 26)))],
    [((clip0 (y 27)) / ((clip0 (y 27)) + (clip0 (y 28)))), ((clip0 (y 28)) / ((clip0 (y 27)) + (clip0 (y 28))))]⟩)

end ModelR
