-- GENERATED on every run by harness/trace/tracer.py from /repo/src/pydrex/geometry.py -- do not edit
import ModelR.Geom
noncomputable section
namespace ModelR.Geom

def traced_toCartesian (φ θ r : ℝ) : ℝ × ℝ × ℝ :=
  (((r * (Rsin θ)) * (Rcos φ)), ((r * (Rsin θ)) * (Rsin φ)), (r * (Rcos θ)))

def traced_toSpherical (x y z : ℝ) : ℝ × ℝ × ℝ :=
  ((Rsqrt (((x * x) + (y * y)) + (z * z))), (Ratan2 y x), (Racos (z / (Rsqrt (((x * x) + (y * y)) + (z * z))))))

end ModelR.Geom
