-- GENERATED on every run by harness/trace/tracer.py from /repo/src/pydrex/utils.py -- do not edit
import ModelR.Flow
noncomputable section
namespace ModelR

def traced_strainIncrement_matrix (L : Mat3) : Mat3 :=
  (fun i j => match i, j with | 0, 0 => (((L 0 0) + (L 0 0)) / 2) | 0, 1 => (((L 0 1) + (L 1 0)) / 2) | 0, 2 => (((L 0 2) + (L 2 0)) / 2) | 1, 0 => (((L 1 0) + (L 0 1)) / 2) | 1, 1 => (((L 1 1) + (L 1 1)) / 2) | 1, 2 => (((L 1 2) + (L 2 1)) / 2) | 2, 0 => (((L 2 0) + (L 0 2)) / 2) | 2, 1 => (((L 2 1) + (L 1 2)) / 2) | 2, 2 => (((L 2 2) + (L 2 2)) / 2))

def traced_strainIncrement (dt : ℝ) (w : Vec3) : ℝ :=
  (if ((Rabs (w 1)) ≤ (Rabs (w 0))) then (if ((Rabs (w 2)) ≤ (Rabs (w 0))) then ((Rabs dt) * (Rabs (w 0))) else ((Rabs dt) * (Rabs (w 2)))) else (if ((Rabs (w 2)) ≤ (Rabs (w 1))) then ((Rabs dt) * (Rabs (w 1))) else ((Rabs dt) * (Rabs (w 2)))))

end ModelR
