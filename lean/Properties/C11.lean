import Proofs.Tensors
/-! # C11 — elastic tensor representations are mutually consistent, norm-preserving maps

Theorems about the model `ModelR.Tensors` of `pydrex/tensors.py` (tied to the code by the
correspondence check K14–K19 in `harness/props/c11.py`).  Every statement is for all inputs of the
stated type; the index maps are finite tables and are settled by `decide` / exhaustive case split.
`sqrt2` (the model of `np.sqrt(2)`) enters only through `sqrt2 * sqrt2 = 2`, `0 < sqrt2`. -/
set_option linter.unusedSimpArgs false
set_option linter.unusedTactic false
set_option linter.unreachableTactic false
namespace ModelR.Tensors

/-! ## index maps (all 9 pairs, all 36 / 81 tuples) -/

/-- **the index arithmetic `(p+1)δ + (1-δ)(7-p-q) - 1` is the Voigt table** and never leaves 0..5 -/
theorem index_map_table :
    (∀ p q : Fin 3, vidxNat p.val q.val < 6) ∧
    vidx 0 0 = 0 ∧ vidx 1 1 = 1 ∧ vidx 2 2 = 2 ∧ vidx 1 2 = 3 ∧ vidx 2 1 = 3 ∧
    vidx 0 2 = 4 ∧ vidx 2 0 = 4 ∧ vidx 0 1 = 5 ∧ vidx 1 0 = 5 := by decide

/-- the map is symmetric and onto `Fin 6` -/
theorem index_map_symm_onto :
    (∀ p q : Fin 3, vidx p q = vidx q p) ∧ (∀ i : Fin 6, ∃ p q : Fin 3, vidx p q = i) := by decide

/-- the fibres have size 1 over 0,1,2 (diagonal pairs) and 2 over 3,4,5 -/
theorem index_map_fibres :
    ∀ i : Fin 6, ((Finset.univ : Finset (Fin 3 × Fin 3)).filter fun pq => vidx pq.1 pq.2 = i).card
      = if i.val < 3 then 1 else 2 := by decide

/-- lifted to the 81 tuples: the divisor `matrix_indices[i, j]` of `elastic_tensor_to_voigt` is the
product of the fibre sizes (1, 2 or 4) — in particular never zero -/
theorem accumCount_table (i j : Fin 6) : accumCount i j = mult6 i * mult6 j := by
  fin_cases i <;> fin_cases j <;> simp [accumCount, sum81, sum3, mult6] <;> norm_num

/-! ## 6x6 matrix <-> 4th-order tensor -/

/-- **minor and major symmetries** of the tensor of a symmetric matrix (the minor ones hold for
every matrix) -/
theorem tensor_symmetries (M : Mat6) (hM : IsSymm6 M) : IsElastic (voigtToTensor M) :=
  voigtToTensor_elastic M hM

theorem tensor_minor_symmetries (M : Mat6) (p q r s : Fin 3) :
    voigtToTensor M p q r s = voigtToTensor M q p r s ∧
    voigtToTensor M p q r s = voigtToTensor M p q s r := by
  simp only [voigtToTensor, vidx_symm p q, vidx_symm r s, and_self]

/-- **contractions**: `voigt_decompose` returns `d_ij = C_ijkk` and `v_ij = C_ikjk` -/
theorem contractions_eq (M : Mat6) (hM : IsSymm6 M) :
    voigtDecompose M = (dilat4 (voigtToTensor M), deviat4 (voigtToTensor M)) := by
  simp only [voigtDecompose, voigtDilat_eq M hM, voigtDeviat_eq M hM]

/-- both contractions are symmetric matrices (for every input matrix) -/
theorem contractions_symm (M : Mat6) (i j : Fin 3) :
    (voigtDecompose M).1 i j = (voigtDecompose M).1 j i ∧
    (voigtDecompose M).2 i j = (voigtDecompose M).2 j i := by
  constructor
  · fin_cases i <;> fin_cases j <;> simp [voigtDecompose, voigtDilat]
  · exact upperTri_symm _ i j

/-- **conversion back is exact**: for every matrix the round trip returns the symmetric part, hence
the matrix itself when it is symmetric -/
theorem voigt_roundtrip_general (M : Mat6) :
    tensorToVoigt (voigtToTensor M) = fun i j => (M i j + M j i) / 2 :=
  tensorToVoigt_voigtToTensor M

theorem voigt_roundtrip_symm (M : Mat6) (hM : IsSymm6 M) : tensorToVoigt (voigtToTensor M) = M :=
  voigt_roundtrip M hM

/-- and the converse, for every tensor with the elastic symmetries -/
theorem tensor_roundtrip_elastic (T : Ten4) (h : IsElastic T) : voigtToTensor (tensorToVoigt T) = T :=
  tensor_roundtrip T h

/-- the result of `elastic_tensor_to_voigt` is always a symmetric matrix -/
theorem tensorToVoigt_symm (T : Ten4) : IsSymm6 (tensorToVoigt T) := by
  intro i j; simp only [tensorToVoigt]; ring

/-! ## `upper_tri_to_symmetric` -/

/-- `np.where(triu, triu, triu.T)` returns entry `[min(i,j), max(i,j)]` of its argument: the strict
lower triangle of the input is ignored and a zero upper entry stays zero -/
theorem upper_tri_to_symmetric_spec {n : ℕ} (a : Fin n → Fin n → ℝ) (i j : Fin n) :
    upperTriToSymmetric a i j = if i ≤ j then a i j else a j i := upperTri_apply a i j

theorem upper_tri_to_symmetric_symm {n : ℕ} (a : Fin n → Fin n → ℝ) (i j : Fin n) :
    upperTriToSymmetric a i j = upperTriToSymmetric a j i := upperTri_symm a i j

/-! ## 6x6 matrix <-> 21-vector -/

/-- **vector → matrix → vector is the identity** on all 21-vectors -/
theorem vector_roundtrip_vec (v : Vec21) : matrixToVector (vectorToMatrix v) = v :=
  matrixToVector_vectorToMatrix v

/-- **matrix → vector → matrix is the identity** on symmetric matrices -/
theorem vector_roundtrip_mat (M : Mat6) (hM : IsSymm6 M) : vectorToMatrix (matrixToVector M) = M :=
  vector_roundtrip M hM

/-- the output of `voigt_vector_to_matrix` is symmetric -/
theorem vectorToMatrix_symm (v : Vec21) : IsSymm6 (vectorToMatrix v) :=
  fun i j => upperTri_symm _ i j

/-- **isometry**: the squared norm of the 21-vector is the squared Frobenius norm of the 4th-order
tensor (81 terms) -/
theorem vector_norm_isometry (M : Mat6) (hM : IsSymm6 M) :
    dot21 (matrixToVector M) (matrixToVector M) = frob4 (voigtToTensor M) :=
  vector_isometry M hM

/-! ## rotation -/

/-- **transformation law**, entry by entry as a Mathlib big-operator sum -/
theorem rotate_law (T : Ten4) (Q : Mat3) (i j k l : Fin 3) :
    rotate T Q i j k l = ∑ a, ∑ b, ∑ c, ∑ d, Q i a * Q j b * Q k c * Q l d * T a b c d := by
  simp only [rotate, sum81, sum3, Fin.sum_univ_three]

/-- … and on rank-one tensors: the four factors are rotated -/
theorem rotate_law_dyad (u v w x : Fin 3 → ℝ) (Q : Mat3) :
    rotate (fun a b c d => u a * v b * w c * x d) Q
      = fun i j k l => mulVec Q u i * mulVec Q v j * mulVec Q w k * mulVec Q x l :=
  rotate_dyad u v w x Q

/-- **group action** (for any two matrices) -/
theorem rotate_group_action (T : Ten4) (Q₁ Q₂ : Mat3) :
    rotate (rotate T Q₁) Q₂ = rotate T (mmul Q₂ Q₁) := rotate_comp T Q₁ Q₂

theorem rotate_identity (T : Ten4) : rotate T one3 = T := rotate_one T

/-- rotating back with the transpose undoes an orthogonal rotation -/
theorem rotate_inverse (T : Ten4) (Q : Mat3) (hQ : IsOrtho Q) : rotate (rotate T Q) (tr Q) = T :=
  rotate_inv hQ T

/-- **norm (and inner product) preserved** by orthogonal `Q` -/
theorem rotate_norm (T : Ten4) (Q : Mat3) (hQ : IsOrtho Q) : frob4 (rotate T Q) = frob4 T :=
  frob4_rotate hQ T

theorem rotate_inner (S T : Ten4) (Q : Mat3) (hQ : IsOrtho Q) :
    inner4 (rotate S Q) (rotate T Q) = inner4 S T := inner4_rotate hQ S T

/-- rotation keeps the elastic symmetries (any matrix `Q`) -/
theorem rotate_symmetries (T : Ten4) (h : IsElastic T) (Q : Mat3) : IsElastic (rotate T Q) :=
  rotate_elastic T h Q

/-- hence the norm of the 21-vector of a rotated stiffness matrix is unchanged -/
theorem rotate_vector_norm (M : Mat6) (hM : IsSymm6 M) (Q : Mat3) (hQ : IsOrtho Q) :
    let M' := tensorToVoigt (rotate (voigtToTensor M) Q)
    dot21 (matrixToVector M') (matrixToVector M') = dot21 (matrixToVector M) (matrixToVector M) := by
  intro M'
  have hel := rotate_elastic _ (voigtToTensor_elastic M hM) Q
  rw [vector_isometry M' (tensorToVoigt_symm _), tensor_roundtrip _ hel, frob4_rotate hQ,
    ← vector_isometry M hM]

/-! ## symmetry-class projectors: idempotent, self-adjoint, nested -/

theorem projectors_idempotent (v : Vec21) :
    monoProject (monoProject v) = monoProject v ∧ orthoProject (orthoProject v) = orthoProject v ∧
    tetrProject (tetrProject v) = tetrProject v ∧ hexProject (hexProject v) = hexProject v :=
  ⟨mono_idem v, ortho_idem v, tetr_idem v, hex_idem v⟩

theorem projectors_selfadjoint (x y : Vec21) :
    dot21 (monoProject x) y = dot21 x (monoProject y) ∧
    dot21 (orthoProject x) y = dot21 x (orthoProject y) ∧
    dot21 (tetrProject x) y = dot21 x (tetrProject y) ∧
    dot21 (hexProject x) y = dot21 x (hexProject y) :=
  ⟨mono_selfadj x y, ortho_selfadj x y, tetr_selfadj x y, hex_selfadj x y⟩

/-- nesting `hex ⊂ tetr ⊂ ortho ⊂ mono`: the smaller projector absorbs the larger on both sides -/
theorem projectors_nested (v : Vec21) :
    orthoProject (monoProject v) = orthoProject v ∧ monoProject (orthoProject v) = orthoProject v ∧
    tetrProject (orthoProject v) = tetrProject v ∧ orthoProject (tetrProject v) = tetrProject v ∧
    hexProject (tetrProject v) = hexProject v ∧ tetrProject (hexProject v) = hexProject v :=
  ⟨ortho_mono v, mono_ortho v, tetr_ortho v, ortho_tetr v, hex_tetr v, tetr_hex v⟩

/-- hence each is an orthogonal projection: the residual is orthogonal to the image (Pythagoras) -/
theorem projectors_pythagoras (v : Vec21) :
    dot21 v v = dot21 (monoProject v) (monoProject v) + dot21 (fun k => v k - monoProject v k) (fun k => v k - monoProject v k) ∧
    dot21 v v = dot21 (orthoProject v) (orthoProject v) + dot21 (fun k => v k - orthoProject v k) (fun k => v k - orthoProject v k) ∧
    dot21 v v = dot21 (tetrProject v) (tetrProject v) + dot21 (fun k => v k - tetrProject v k) (fun k => v k - tetrProject v k) ∧
    dot21 v v = dot21 (hexProject v) (hexProject v) + dot21 (fun k => v k - hexProject v k) (fun k => v k - hexProject v k) := by
  refine ⟨?_, ?_, ?_, ?_⟩
  · simp [dot21, monoProject]; ring
  · simp [dot21, orthoProject]; ring
  · simp [dot21, tetrProject, orthoProject, half_eq]; ring
  · simp [dot21, hexProject, div_sqrt2]; have h := sqrt2_sq; grind

/-! ## polar decomposition (under the stated specification of the SVD) -/

/-- **left**: `(R, V) = (U Vh, U diag(S) Uᵀ)`: `R` orthogonal, `V` symmetric positive semi-definite,
`M = V R` -/
theorem polar_left (M : Mat3) (d : SVD) (h : SVDSpec M d) :
    mmul (tr (polarLeft d).1) (polarLeft d).1 = one3 ∧ mmul (polarLeft d).1 (tr (polarLeft d).1) = one3 ∧
    tr (polarLeft d).2 = (polarLeft d).2 ∧ (∀ x, 0 ≤ dot3 x (mulVec (polarLeft d).2 x)) ∧
    mmul (polarLeft d).2 (polarLeft d).1 = M :=
  ⟨(polarLeft_rot_orth h).1, (polarLeft_rot_orth h).2, polarLeft_stretch_symm d,
    polarLeft_stretch_psd h, polarLeft_product h⟩

/-- **right** (repaired code, `R = U Vh`): `R` orthogonal, `U = Vhᵀ diag(S) Vh` symmetric positive
semi-definite, `M = R U` — for every matrix, singular ones included -/
theorem polar_right (M : Mat3) (d : SVD) (h : SVDSpec M d) :
    mmul (tr (polarRight d).1) (polarRight d).1 = one3 ∧ mmul (polarRight d).1 (tr (polarRight d).1) = one3 ∧
    tr (polarRight d).2 = (polarRight d).2 ∧ (∀ x, 0 ≤ dot3 x (mulVec (polarRight d).2 x)) ∧
    mmul (polarRight d).1 (polarRight d).2 = M :=
  ⟨(polarRight_rot_orth h).1, (polarRight_rot_orth h).2, polarRight_stretch_symm d,
    polarRight_stretch_psd h, polarRight_product h⟩

/-! ## invariants -/

/-- the three invariants are unchanged by a similarity transformation … -/
theorem invariants_similarity (P Pi t : Mat3) (h1 : mmul Pi P = one3) (h2 : mmul P Pi = one3) :
    invariants (mmul P (mmul t Pi)) = invariants t := invariants_conj P Pi t h1 h2

/-- … **hence equal the elementary symmetric functions of the eigenvalues** of any diagonalisable
matrix `P diag(λ) P⁻¹` -/
theorem invariants_eq_esymm (P Pi : Mat3) (l : Vec3) (h1 : mmul Pi P = one3) (h2 : mmul P Pi = one3) :
    invariants (mmul P (mmul (diag3 l) Pi))
      = (l 0 + l 1 + l 2, l 0 * l 1 + l 1 * l 2 + l 2 * l 0, l 0 * l 1 * l 2) :=
  invariants_diagonalisable P Pi l h1 h2

/-- and of the diagonal of any triangular matrix (defective matrices included via Schur form) -/
theorem invariants_eq_esymm_triangular (t : Mat3)
    (h : (t 1 0 = 0 ∧ t 2 0 = 0 ∧ t 2 1 = 0) ∨ (t 0 1 = 0 ∧ t 0 2 = 0 ∧ t 1 2 = 0)) :
    invariants t = (t 0 0 + t 1 1 + t 2 2, t 0 0 * t 1 1 + t 1 1 * t 2 2 + t 2 2 * t 0 0,
      t 0 0 * t 1 1 * t 2 2) := invariants_triangular t h

/-- for EVERY real 3x3 matrix (no diagonalisability needed) the three numbers are the coefficients of
the characteristic polynomial `det(t − x·1) = −x³ + I₁x² − I₂x + I₃`, i.e. (Vieta) the elementary
symmetric functions of its three complex eigenvalues -/
theorem invariants_charpoly (t : Mat3) (x : ℝ) :
    det3 (msub t (smul3 x one3))
      = -x ^ 3 + (invariants t).1 * x ^ 2 - (invariants t).2.1 * x + (invariants t).2.2 := by
  simp [invariants, det3, msub, smul3, one3]; ring

/-- the second invariant as coded is `(tr² − tr(t²)) / 2` -/
theorem invariants_second (t : Mat3) :
    (invariants t).2.1 = (trace3 t * trace3 t - trace3 (mmul t t)) / 2 := invariants_I2 t

end ModelR.Tensors
