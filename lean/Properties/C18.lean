import Proofs.Flow
import ModelD.Flow
/-! # C18 — analytic flows are self-consistent; pathline bookkeeping

Theorems about `ModelR.Flow` (the real-number elaboration of `lean/tmpl/Flow.lean.tmpl`, which
models `velocity.py`, `utils.strain_increment` and the terminal event of
`pathlines.get_pathline`) and `ModelD.Flow` (`geometry.to_indices2d`).
All statements are for every ordered pair of distinct axis indices `a ≠ b` (the six axis
assignments, see `toIndices2d_table`), every parameter value and every point of the domain.

The property's first clause ("the gradient callable is the spatial Jacobian of the velocity
callable and is trace-free") is TRUE for the corner flow (`corner_grad_is_jacobian`,
`corner_trace_free`) and FALSE for the other two flows as coded:
`simpleShear_grad_is_jacobian_iff`, `cell_grad_is_jacobian_iff`, `cell_grad_trace` characterise
exactly where they fail (everywhere for a non-zero strain rate; everywhere except on the lines
`cos(π(x_h - x_v)/d) = 0` for the cell).  These are known findings of the check (pinned by
doctests), replayed on the real callables with central differences.

Everything about `scipy.integrate.solve_ivp` is runtime and only validated on the
implementation; what is proved about pathlines is the bookkeeping of the stateful terminal event. -/
namespace ModelR
open Real
set_option linter.unusedSimpArgs false

/-! ## axis table (`geometry.to_indices2d`) -/

/-- every ordered pair of distinct axes is produced by its pair of letters … -/
theorem toIndices2d_table : ∀ a b : Fin 3, a ≠ b →
    ModelD.Flow.toIndices2d (ModelD.Flow.letter a) (ModelD.Flow.letter b) = .ok (a.val, b.val) := by
  decide

/-- … lower-case letters are accepted as well (in either position) … -/
theorem toIndices2d_lower : ∀ a b : Fin 3, a ≠ b →
    ModelD.Flow.toIndices2d (ModelD.Flow.letterLower a) (ModelD.Flow.letter b) = .ok (a.val, b.val) ∧
    ModelD.Flow.toIndices2d (ModelD.Flow.letter a) (ModelD.Flow.letterLower b) = .ok (a.val, b.val) ∧
    ModelD.Flow.toIndices2d (ModelD.Flow.letterLower a) (ModelD.Flow.letterLower b)
      = .ok (a.val, b.val) := by
  decide

/-- … and whatever is accepted is a pair of distinct indices below 3, namely the indices of the
two recognised axis letters (so the theorems below, quantified over `a ≠ b : Fin 3`, cover exactly
the axis assignments the constructors accept). -/
theorem toIndices2d_ok (h v : List Char) (i j : Nat)
    (hok : ModelD.Flow.toIndices2d h v = .ok (i, j)) :
    ∃ p q : ModelD.Flow.Axis, ModelD.Flow.axisOf h = some p ∧ ModelD.Flow.axisOf v = some q ∧
      p ≠ q ∧ i = (ModelD.Flow.axisIndex p).val ∧ j = (ModelD.Flow.axisIndex q).val := by
  unfold ModelD.Flow.toIndices2d at hok
  split at hok <;> simp only [Except.ok.injEq, Prod.mk.injEq, reduceCtorEq] at hok
  all_goals
    obtain ⟨rfl, rfl⟩ := hok
    exact ⟨_, _, ‹_›, ‹_›, by decide, rfl, rfl⟩

/-- equal axes, and anything that is not one of the six letters, are rejected (`ValueError`) -/
theorem toIndices2d_error (h v : List Char) :
    ModelD.Flow.toIndices2d h v = .error .valueError ↔
      (ModelD.Flow.axisOf h = none ∨ ModelD.Flow.axisOf v = none ∨
        ModelD.Flow.axisOf h = ModelD.Flow.axisOf v) := by
  unfold ModelD.Flow.toIndices2d
  cases h1 : ModelD.Flow.axisOf h with
  | none => simp
  | some p =>
    cases h2 : ModelD.Flow.axisOf v with
    | none => cases p <;> simp
    | some q => cases p <;> cases q <;> simp

/-- the wrappers of the three constructors pass the indices on unchanged -/
theorem flowIndices_eq (h v : List Char) :
    ModelD.Flow.flowIndices h v = ModelD.Flow.toIndices2d h v := by
  unfold ModelD.Flow.flowIndices
  cases hh : ModelD.Flow.toIndices2d h v with
  | ok p => rfl
  | error e => cases e; rfl

/-! ## corner flow: consistent -/

/-- **corner flow, grad_is_jacobian**: at every point off the half line `h = 0, v ≥ 0`
(the branch cut of `arctan2(h, -v)`, which contains the singular corner) every entry of
`_corner_2d_grad` is the partial derivative of the paired component of `_corner_2d`. -/
theorem corner_grad_is_jacobian (a b : Fin 3) (hab : a ≠ b) (U : ℝ) (x : Vec3)
    (hc : OffCut (x a) (x b)) : IsJacobianAt (cornerVel a b U) (cornerGrad a b U x) x := by
  intro i j
  have hba : b ≠ a := Ne.symm hab
  by_cases hja : j = a
  · subst hja
    have hb : ∀ s, Function.update x j s b = x b := fun s => Function.update_of_ne hba s x
    by_cases hib : i = b
    · subst hib
      simp only [cornerVel, cornerGrad, Function.update_self, hb, if_true, hba, hab, and_false,
        and_true, if_false, and_self, true_and]
      exact corner_d_vh U hc
    · by_cases hia : i = j
      · subst hia
        simp only [cornerVel, cornerGrad, Function.update_self, hb, if_true, hab, and_false,
          and_true, if_false, and_self]
        exact corner_d_hh U hc
      · simp only [cornerVel, cornerGrad, hib, hia, if_false, false_and, mul_zero]
        exact hasDerivAt_const _ _
  · by_cases hjb : j = b
    · subst hjb
      have ha : ∀ s, Function.update x j s a = x a := fun s => Function.update_of_ne hab s x
      by_cases hib : i = j
      · subst hib
        simp only [cornerVel, cornerGrad, Function.update_self, ha, if_true, hab, and_false,
          and_true, if_false, and_self]
        exact corner_d_vv U hc
      · by_cases hia : i = a
        · subst hia
          simp only [cornerVel, cornerGrad, Function.update_self, ha, if_true, hab, and_false,
            and_true, if_false, and_self, true_and]
          exact corner_d_hv U hc
        · simp only [cornerVel, cornerGrad, hib, hia, if_false, false_and, mul_zero]
          exact hasDerivAt_const _ _
    · have ha : ∀ s, Function.update x j s a = x a :=
        fun s => Function.update_of_ne (Ne.symm hja) s x
      have hb : ∀ s, Function.update x j s b = x b :=
        fun s => Function.update_of_ne (Ne.symm hjb) s x
      simp only [cornerVel, cornerGrad, ha, hb, hja, hjb, and_false, if_false, mul_zero]
      exact hasDerivAt_const _ _

/-- in particular on the physical domain below the plate (`v < 0`) -/
theorem corner_grad_is_jacobian_below (a b : Fin 3) (hab : a ≠ b) (U : ℝ) (x : Vec3)
    (hv : x b < 0) : IsJacobianAt (cornerVel a b U) (cornerGrad a b U x) x :=
  corner_grad_is_jacobian a b hab U x (Or.inl hv)

/-- **corner flow, trace_free** (at every point, for every axis assignment) -/
theorem corner_trace_free (a b : Fin 3) (hab : a ≠ b) (U : ℝ) (x : Vec3) :
    trace3 (cornerGrad a b U x) = 0 := by
  fin_cases a <;> fin_cases b <;> simp_all [trace3, cornerGrad]

/-- the guard of the corner callables is exactly "both coordinates within 1e-15 of 0" -/
theorem corner_guard (a b : Fin 3) (U : ℝ) (x : Vec3) :
    cornerVelO a b U x = none ↔ |x a| < 1e-15 ∧ |x b| < 1e-15 := by
  unfold cornerVelO cornerSingular Rabs
  split_ifs with h
  · simp only [Bool.and_eq_true, decide_eq_true_eq] at h; simp [h]
  · simp only [Bool.and_eq_true, decide_eq_true_eq] at h; simp [h]

/-! ## simple shear: the gradient is twice the Jacobian -/

/-- the Jacobian of `_simple_shear_2d` is `strain_rate` at `[direction, deformation_plane]` -/
theorem simpleShear_jacobian (a b : Fin 3) (_hab : a ≠ b) (sr : ℝ) (x : Vec3) :
    IsJacobianAt (simpleShearVel a b sr) (simpleShearJac a b sr x) x := by
  intro i j
  unfold simpleShearVel simpleShearJac
  by_cases hi : i = a
  · by_cases hj : j = b
    · subst hi hj
      simp only [Function.update_self, and_self, if_true]
      simpa using (hasDerivAt_id (x j)).mul_const sr
    · simp only [hi, hj, if_true, and_false, if_false]
      have hb : ∀ s, Function.update x j s b = x b :=
        fun s => Function.update_of_ne (Ne.symm hj) s x
      simp only [hb]
      exact hasDerivAt_const _ _
  · simp only [hi, if_false, false_and]
    exact hasDerivAt_const _ _

/-- **simple shear, grad_is_jacobian is FALSE as coded**: `_simple_shear_2d_grad` (entry
`2·strain_rate`) is the Jacobian of `_simple_shear_2d` iff the strain rate is zero. -/
theorem simpleShear_grad_is_jacobian_iff (a b : Fin 3) (hab : a ≠ b) (sr : ℝ) (x : Vec3) :
    IsJacobianAt (simpleShearVel a b sr) (simpleShearGrad a b sr x) x ↔ sr = 0 := by
  constructor
  · intro h
    have := congrFun (congrFun (h.unique (simpleShear_jacobian a b hab sr x)) a) b
    simp [simpleShearGrad, simpleShearJac] at this
    linarith
  · intro h
    have e : simpleShearGrad a b sr x = simpleShearJac a b sr x := by
      funext i j; simp [simpleShearGrad, simpleShearJac, h]
    rw [e]; exact simpleShear_jacobian a b hab sr x

/-- the coded entry is exactly twice the true one -/
theorem simpleShear_grad_eq_two_jac (a b : Fin 3) (sr : ℝ) (x : Vec3) :
    simpleShearGrad a b sr x = smul3 2 (simpleShearJac a b sr x) := by
  funext i j; simp [simpleShearGrad, simpleShearJac, smul3]

theorem simpleShear_trace_free (a b : Fin 3) (hab : a ≠ b) (sr : ℝ) (x : Vec3) :
    trace3 (simpleShearGrad a b sr x) = 0 := by
  fin_cases a <;> fin_cases b <;> simp_all [trace3, simpleShearGrad]

/-! ## Stokes cell: the two vertical-row entries are exchanged -/

/-- the Jacobian of `_cell_2d` (for every cell size, including the totalised `d = 0`) -/
theorem cell_jacobian (a b : Fin 3) (hab : a ≠ b) (U d : ℝ) (x : Vec3) :
    IsJacobianAt (cellVel a b U d) (cellJac a b U d x) x := by
  intro i j
  have hba : b ≠ a := Ne.symm hab
  by_cases hja : j = a
  · subst hja
    have hb : ∀ s, Function.update x j s b = x b := fun s => Function.update_of_ne hba s x
    by_cases hib : i = b
    · subst hib
      simp only [cellVel, cellJac, Function.update_self, hb, if_true, hba, hab, and_false,
        and_true, if_false, and_self, true_and, Rsin, Rcos, Rpi]
      exact (((hasDerivAt_sin_lin d (x j)).const_mul (-U)).mul_const _).congr_deriv (by ring)
    · by_cases hia : i = j
      · subst hia
        simp only [cellVel, cellJac, Function.update_self, hb, if_true, hab, and_false,
          and_true, if_false, and_self, Rsin, Rcos, Rpi]
        exact (((hasDerivAt_cos_lin d (x i)).const_mul U).mul_const _).congr_deriv (by ring)
      · simp only [cellVel, cellJac, hib, hia, if_false, false_and, mul_zero]
        exact hasDerivAt_const _ _
  · by_cases hjb : j = b
    · subst hjb
      have ha : ∀ s, Function.update x j s a = x a := fun s => Function.update_of_ne hab s x
      by_cases hib : i = j
      · subst hib
        simp only [cellVel, cellJac, Function.update_self, ha, if_true, hab, hba, hja, and_false,
          and_true, if_false, and_self, true_and, Rsin, Rcos, Rpi]
        exact ((hasDerivAt_cos_lin d (x i)).const_mul (-U * Real.sin (π * x a / d))).congr_deriv
          (by ring)
      · by_cases hia : i = a
        · subst hia
          simp only [cellVel, cellJac, Function.update_self, ha, if_true, hab, hba, hja, hib,
            and_false, and_true, if_false, and_self, true_and, false_and, Rsin, Rcos, Rpi]
          exact ((hasDerivAt_sin_lin d (x j)).const_mul (U * Real.cos (π * x i / d))).congr_deriv
            (by ring)
        · simp only [cellVel, cellJac, hib, hia, if_false, false_and, mul_zero]
          exact hasDerivAt_const _ _
    · have ha : ∀ s, Function.update x j s a = x a :=
        fun s => Function.update_of_ne (Ne.symm hja) s x
      have hb : ∀ s, Function.update x j s b = x b :=
        fun s => Function.update_of_ne (Ne.symm hjb) s x
      simp only [cellVel, cellJac, ha, hb, hja, hjb, and_false, if_false, mul_zero]
      exact hasDerivAt_const _ _

/-- the true Jacobian is trace-free (the modelled velocity field is incompressible) -/
theorem cell_jacobian_trace_free (a b : Fin 3) (hab : a ≠ b) (U d : ℝ) (x : Vec3) :
    trace3 (cellJac a b U d x) = 0 := by
  fin_cases a <;> fin_cases b <;> simp_all [trace3, cellJac] <;> ring

/-- **as coded the two entries of the vertical row are exchanged**: `[v,h]` holds the true
`[v,v]` entry and `[v,v]` holds the true `[v,h]` entry; the horizontal row is right. -/
theorem cell_grad_rows (a b : Fin 3) (hab : a ≠ b) (U d : ℝ) (x : Vec3) :
    cellGrad a b U d x b a = cellJac a b U d x b b ∧
    cellGrad a b U d x b b = cellJac a b U d x b a ∧
    cellGrad a b U d x a a = cellJac a b U d x a a ∧
    cellGrad a b U d x a b = cellJac a b U d x a b := by
  have hba : b ≠ a := Ne.symm hab
  simp [cellGrad, cellJac, hab, hba]

/-- **Stokes cell, trace_free is FALSE as coded**: the trace of `_cell_2d_grad` is
`-U·(π/d)·cos(π(x_h - x_v)/d)`. -/
theorem cell_grad_trace (a b : Fin 3) (hab : a ≠ b) (U d : ℝ) (x : Vec3) :
    trace3 (cellGrad a b U d x) = -(U * (π / d)) * Real.cos (π * x a / d - π * x b / d) := by
  rw [Real.cos_sub]
  fin_cases a <;> fin_cases b <;> simp_all [trace3, cellGrad, Rsin, Rcos, Rpi] <;> ring

/-- **Stokes cell, grad_is_jacobian is FALSE as coded**: for `U ≠ 0`, `d > 0` the coded gradient
is the Jacobian of the coded velocity exactly on the lines `cos(π(x_h - x_v)/d) = 0`. -/
theorem cell_grad_is_jacobian_iff (a b : Fin 3) (hab : a ≠ b) (U d : ℝ) (hU : U ≠ 0) (hd : 0 < d)
    (x : Vec3) :
    IsJacobianAt (cellVel a b U d) (cellGrad a b U d x) x ↔
      Real.cos (π * x a / d - π * x b / d) = 0 := by
  have hba : b ≠ a := Ne.symm hab
  have hk : U * (π / d) ≠ 0 := mul_ne_zero hU (div_pos pi_pos hd).ne'
  rw [Real.cos_sub]
  constructor
  · intro h
    have := congrFun (congrFun (h.unique (cell_jacobian a b hab U d x)) b) b
    simp only [cellGrad, cellJac, hab, hba, and_false, and_true, if_false, if_true, and_self,
      Rsin, Rcos, Rpi] at this
    have h2 : U * (π / d) * (Real.cos (π * x a / d) * Real.cos (π * x b / d)
        + Real.sin (π * x a / d) * Real.sin (π * x b / d)) = 0 := by
      have e : U * (-π / d * Real.cos (π * x b / d) * Real.cos (π * x a / d))
          = U * (π / d * Real.sin (π * x b / d) * Real.sin (π * x a / d)) := this
      have e2 : -π / d = -(π / d) := neg_div d π
      rw [e2] at e
      linear_combination -e
    exact (mul_eq_zero.mp h2).resolve_left hk
  · intro h0
    have e2 : -π / d = -(π / d) := neg_div d π
    have e : cellGrad a b U d x = cellJac a b U d x := by
      funext i j
      by_cases h1 : i = b ∧ j = a
      · obtain ⟨rfl, rfl⟩ := h1
        simp only [cellGrad, cellJac, Rsin, Rcos, Rpi, and_self, if_true]
        congr 1
        rw [e2]
        linear_combination (π / d) * h0
      · by_cases h2 : i = b ∧ j = b
        · obtain ⟨rfl, rfl⟩ := h2
          simp only [cellGrad, cellJac, Rsin, Rcos, Rpi, and_self, if_true, hab, and_false,
            if_false, true_and, hba]
          congr 1
          rw [e2]
          linear_combination -(π / d) * h0
        · simp only [cellGrad, cellJac, h1, h2, if_false]
    rw [e]; exact cell_jacobian a b hab U d x

/-- the domain test of the cell callables: `ValueError` iff a coordinate leaves `[-d/2, d/2]` -/
theorem cell_domain (a b : Fin 3) (U d : ℝ) (x : Vec3) :
    (cellVelE a b U d x = .error .valueError ↔ (d / 2 < |x a| ∨ d / 2 < |x b|)) ∧
    (cellGradE a b U d x = .error .valueError ↔ (d / 2 < |x a| ∨ d / 2 < |x b|)) := by
  have hk : cellOutside a b d x = true ↔ (d / 2 < |x a| ∨ d / 2 < |x b|) := by
    simp [cellOutside, Rabs]
  unfold cellVelE cellGradE
  constructor <;> (split_ifs with h <;> simp [← hk, h])

/-! ## strain increment -/

/-- **strain_increment_def**: `|dt|` times the largest absolute value among the three numbers
returned by `eigvalsh` for the symmetric part of the velocity gradient -/
theorem strain_increment_def (eig : Mat3 → Vec3) (dt : ℝ) (L : Mat3) :
    strainIncrement eig dt L
      = |dt| * max (max |eig (symm L) 0| |eig (symm L) 1|) |eig (symm L) 2| := by
  simp [strainIncrement, maxAbs3_eq, Rabs]

/-- under the `eigvalsh` spec that number is the largest absolute principal strain rate: it
bounds `|μ|` for every root `μ` of `det(sym L − μ I)`, and it is attained by one of them -/
theorem strain_increment_principal (eig : Mat3 → Vec3) (dt : ℝ) (L : Mat3)
    (hspec : IsEigvals (symm L) (eig (symm L))) :
    (∀ μ, charPoly3 (symm L) μ = 0 → |dt| * |μ| ≤ strainIncrement eig dt L) ∧
    (∃ μ, charPoly3 (symm L) μ = 0 ∧ strainIncrement eig dt L = |dt| * |μ|) := by
  constructor
  · intro μ hμ
    obtain ⟨i, rfl⟩ := (hspec.root_iff μ).mp hμ
    exact mul_le_mul_of_nonneg_left (le_maxAbs3 _ i) (abs_nonneg dt)
  · obtain ⟨i, hi⟩ := maxAbs3_attained (eig (symm L))
    exact ⟨eig (symm L) i, (hspec.root_iff _).mpr ⟨i, rfl⟩, by simp [strainIncrement, hi, Rabs]⟩

theorem strain_increment_nonneg (eig : Mat3 → Vec3) (dt : ℝ) (L : Mat3) :
    0 ≤ strainIncrement eig dt L :=
  mul_nonneg (abs_nonneg dt) (maxAbs3_nonneg _)

/-- only `|dt|` matters, and the increment is additive over time steps of one sign -/
theorem strain_increment_abs_dt (eig : Mat3 → Vec3) (dt : ℝ) (L : Mat3) :
    strainIncrement eig (-dt) L = strainIncrement eig dt L := by
  simp [strainIncrement, Rabs]

theorem strain_increment_add (eig : Mat3 → Vec3) (dt₁ dt₂ : ℝ) (L : Mat3) (h : 0 ≤ dt₁ * dt₂) :
    strainIncrement eig (dt₁ + dt₂) L = strainIncrement eig dt₁ L + strainIncrement eig dt₂ L := by
  simp only [strainIncrement, Rabs]
  rw [← add_mul]
  congr 1
  rcases le_or_gt 0 dt₁ with h1 | h1
  · rcases le_or_gt 0 dt₂ with h2 | h2
    · rw [abs_of_nonneg h1, abs_of_nonneg h2, abs_of_nonneg (by linarith)]
    · rcases eq_or_lt_of_le h1 with h3 | h3
      · subst h3; simp
      · nlinarith
  · rcases le_or_gt dt₂ 0 with h2 | h2
    · rw [abs_of_neg h1, abs_of_nonpos h2, abs_of_nonpos (by linarith)]; ring
    · nlinarith

/-- the increment depends on the symmetric part of `L` only (adding a spin changes nothing) -/
theorem strain_increment_sym_only (eig : Mat3 → Vec3) (dt : ℝ) (L W : Mat3)
    (hW : ∀ i j, W i j = -W j i) :
    strainIncrement eig dt (madd L W) = strainIncrement eig dt L := by
  have : symm (madd L W) = symm L := by
    funext i j; simp only [symm, madd]; rw [hW i j]; ring
  simp [strainIncrement, this]

/-- for the simple-shear gradient as coded (`2·strain_rate`) the increment is `|dt|·|strain_rate|`
for every `eigvalsh` that meets its spec: the event value of a pathline in simple shear is
therefore `max_strain + t·|strain_rate|`, independent of the evaluation history -/
theorem strain_increment_simple_shear (eig : Mat3 → Vec3) (dt : ℝ) (a b : Fin 3) (hab : a ≠ b)
    (sr : ℝ) (x : Vec3)
    (hspec : IsEigvals (symm (simpleShearGrad a b sr x)) (eig (symm (simpleShearGrad a b sr x)))) :
    strainIncrement eig dt (simpleShearGrad a b sr x) = |dt| * |sr| := by
  set S := symm (simpleShearGrad a b sr x) with hS
  have hcp : ∀ t, charPoly3 S t = -t * (t - sr) * (t + sr) := by
    intro t
    rw [hS]
    fin_cases a <;> fin_cases b <;>
      simp_all [charPoly3, det3, symm, simpleShearGrad] <;> ring
  have hroot : ∀ i : Fin 3, |eig S i| ≤ |sr| := by
    intro i
    have h0 := (hspec.root_iff (eig S i)).mpr ⟨i, rfl⟩
    rw [hcp] at h0
    rcases mul_eq_zero.mp h0 with h1 | h1
    · rcases mul_eq_zero.mp h1 with h2 | h2
      · have : eig S i = 0 := by linarith
        rw [this]; simp
      · have : eig S i = sr := by linarith
        rw [this]
    · have : eig S i = -sr := by linarith
      rw [this, abs_neg]
  have hsr : charPoly3 S sr = 0 := by rw [hcp]; ring
  obtain ⟨k, hk⟩ := (hspec.root_iff sr).mp hsr
  have hle : maxAbs3 (eig S) ≤ |sr| := by
    obtain ⟨i, hi⟩ := maxAbs3_attained (eig S)
    rw [hi]; exact hroot i
  have hge : |sr| ≤ maxAbs3 (eig S) := by
    have := le_maxAbs3 (eig S) k
    rwa [hk] at this
  simp only [strainIncrement, Rabs]
  rw [← hS, le_antisymm hle hge]

/-! ## pathline bookkeeping: the stateful terminal event -/

/-- one evaluation inside the box adds the SIGNED increment `(t − t_prev)·rate(point)` to the
running strain and moves `t_prev`; outside the box it returns 0 and changes nothing -/
theorem event_step (s : EvState) (t r : ℝ) :
    terminateCall s t true r
        = (s.strain + (t - s.tprev) * r, ⟨s.strain + (t - s.tprev) * r, t⟩) ∧
    terminateCall s t false r = (0, s) :=
  ⟨terminateCall_inside s t r, terminateCall_outside s t r⟩

/-- **event_value_is_history_dependent**: evaluating the event at `(t, point)` right after a
probe at `(t', point')` differs from evaluating it directly by `(t' − t_prev)·(rate' − rate)`;
so the value returned for one and the same `(t, point)` depends on what was evaluated before,
unless the strain rate is the same at both points or the probe sits at `t_prev`. -/
theorem event_value_is_history_dependent (s : EvState) (t' r' t r : ℝ) :
    (terminateCall (terminateCall s t' true r').2 t true r).1 - (terminateCall s t true r).1
      = (t' - s.tprev) * (r' - r) := by
  simp only [terminateCall_inside]; ring

theorem event_value_differs_iff (s : EvState) (t' r' t r : ℝ) :
    (terminateCall (terminateCall s t' true r').2 t true r).1 ≠ (terminateCall s t true r).1
      ↔ t' ≠ s.tprev ∧ r' ≠ r := by
  rw [Ne, ← sub_eq_zero, event_value_is_history_dependent, mul_eq_zero, not_or, sub_eq_zero,
    sub_eq_zero]

/-- in a flow whose strain rate is the same everywhere (simple shear) the event IS a function of
time only: after any evaluation history inside the box the running strain is
`strain₀ + (t_last − t₀)·rate` -/
theorem event_constant_rate (r : ℝ) (calls : List (ℝ × Bool × ℝ))
    (hc : ∀ c ∈ calls, c.2.1 = true ∧ c.2.2 = r) (s : EvState) :
    (runCalls s calls).2.strain = s.strain + ((runCalls s calls).2.tprev - s.tprev) * r := by
  induction calls generalizing s with
  | nil => simp [runCalls]
  | cons c rest ih =>
    obtain ⟨t, ins, r'⟩ := c
    have h1 := hc (t, ins, r') (by simp)
    simp only at h1
    obtain ⟨rfl, rfl⟩ := h1
    have ih' := ih (fun c hc' => hc c (by simp [hc'])) (terminateCall s t true r').2
    simp only [runCalls]
    rw [ih']
    simp only [terminateCall_inside]
    ring

/-- **is_inside_iff**: `_is_inside` answers `True` exactly when the three arrays have the same
length and the point lies between the bounds componentwise (closed box) … -/
theorem is_inside_iff (p lo hi : List ℝ) :
    isInside p lo hi = .ok true ↔
      List.Forall₂ (· ≤ ·) lo p ∧ List.Forall₂ (· ≤ ·) p hi := by
  have key : ∀ xs ys : List ℝ, xs.length = ys.length →
      (anyLt xs ys = false ↔ List.Forall₂ (· ≤ ·) ys xs) := by
    intro xs
    induction xs with
    | nil => intro ys h; cases ys <;> simp_all [anyLt]
    | cons x xs ih =>
      intro ys h
      cases ys with
      | nil => simp at h
      | cons y ys =>
        simp only [List.length_cons, Nat.add_right_cancel_iff] at h
        simp [anyLt, ih ys h, not_lt]
  constructor
  · intro h
    unfold isInside at h
    split_ifs at h with hl
    simp only [Except.ok.injEq, Bool.not_eq_true', Bool.or_eq_false_iff] at h
    exact ⟨(key p lo hl.1).mp h.1, (key hi p (by omega)).mp h.2⟩
  · rintro ⟨h1, h2⟩
    have l1 := h1.length_eq
    have l2 := h2.length_eq
    unfold isInside
    rw [if_pos ⟨l1.symm, by omega⟩]
    simp only [Except.ok.injEq, Bool.not_eq_true', Bool.or_eq_false_iff]
    exact ⟨(key p lo l1.symm).mpr h1, (key hi p l2.symm).mpr h2⟩

/-- … and raises `AssertionError` exactly when the lengths differ -/
theorem is_inside_assert (p lo hi : List ℝ) :
    isInside p lo hi = .error .assertionError ↔ ¬ (p.length = lo.length ∧ lo.length = hi.length) := by
  unfold isInside; split_ifs with h <;> simp [h]

/-- `_ivp_func`: the velocity inside the box, zeros of the same length outside -/
theorem ivp_func_spec (inside : Bool) (vel : List ℝ) :
    (inside = true → ivpFunc inside vel = vel) ∧
    (inside = false → ivpFunc inside vel = List.replicate vel.length 0) := by
  constructor
  · intro h; simp [ivpFunc, h]
  · intro h; simp [ivpFunc, h, List.map_const']

end ModelR
