import Proofs.Solver
import Mathlib.Data.List.Perm.Basic
import Mathlib.Data.List.Nodup
/-! # C08 — multiphase: each phase evolves independently with its own volume factor -/
namespace ModelR
open List

theorem indexOf?_some_lt (xs : List Int) (a : Int) (i : ℕ) (h : indexOf? xs a = some i) :
    ∃ hi : i < xs.length, xs[i] = a ∧ ∀ j (hj : j < i), xs[j]'(by omega) ≠ a := by
  induction xs generalizing i with
  | nil => simp [indexOf?] at h
  | cons x xs ih =>
    unfold indexOf? at h
    split_ifs at h with hx
    · injection h with h; subst h
      exact ⟨by simp, by simpa using hx, by intro j hj; omega⟩
    · cases hr : indexOf? xs a with
      | none => simp [hr] at h
      | some k =>
        simp only [hr, Option.map_some, Option.some.injEq] at h
        subst h
        obtain ⟨hk, hk1, hk2⟩ := ih k hr
        refine ⟨by simp; omega, by simpa using hk1, ?_⟩
        intro j hj
        cases j with
        | zero => simpa using hx
        | succ j => simpa using hk2 j (by omega)

theorem indexOf?_none (xs : List Int) (a : Int) (h : indexOf? xs a = none) : a ∉ xs := by
  induction xs with
  | nil => simp
  | cons x xs ih =>
    unfold indexOf? at h
    split_ifs at h with hx
    cases hr : indexOf? xs a with
    | none =>
      intro hm
      rcases List.mem_cons.mp hm with h1 | h1
      · exact hx h1.symm
      · exact ih hr h1
    | some k => simp [hr] at h

/-- **the factor used is the fraction paired with the mineral's own phase** (and no other's):
for an assemblage without repeated phases and a fraction list of the same length, the lookup
returns `x` exactly when `(phase, x)` is one of the (phase, fraction) pairs. -/
theorem lookup_own (asm : List Int) (fr : List ℝ) (phase : Int) (x : ℝ)
    (hnd : asm.Nodup) (hlen : asm.length = fr.length) :
    lookupFraction asm fr phase = .ok x ↔ (phase, x) ∈ List.zip asm fr := by
  unfold lookupFraction
  constructor
  · intro h
    cases hi : indexOf? asm phase with
    | none => simp [hi] at h
    | some i =>
      obtain ⟨hlt, hv, _⟩ := indexOf?_some_lt asm phase i hi
      have hlt' : i < fr.length := by omega
      simp only [hi, List.getElem?_eq_getElem hlt'] at h
      injection h with h
      subst h
      rw [List.mem_iff_getElem]
      exact ⟨i, by simp; omega, by simp [hv]⟩
  · intro hm
    rw [List.mem_iff_getElem] at hm
    obtain ⟨j, hj, hjv⟩ := hm
    simp only [List.length_zip] at hj
    have hj1 : j < asm.length := by omega
    have hj2 : j < fr.length := by omega
    simp only [List.getElem_zip, Prod.mk.injEq] at hjv
    cases hi : indexOf? asm phase with
    | none =>
      exfalso
      apply indexOf?_none asm phase hi
      rw [← hjv.1]; exact List.getElem_mem hj1
    | some i =>
      obtain ⟨hlt, hv, _⟩ := indexOf?_some_lt asm phase i hi
      have hij : i = j := by
        have := (List.Nodup.getElem_inj_iff hnd (hi := hlt) (hj := hj1)).mp (by rw [hv, hjv.1])
        exact this
      subst hij
      simp [List.getElem?_eq_getElem hj2, hjv.2]

/-- **simultaneously permuting the phase list and the fraction list changes nothing** -/
theorem lookup_perm (ps ps' : List (Int × ℝ)) (phase : Int)
    (hnd : (ps.map Prod.fst).Nodup) (hperm : ps.Perm ps') :
    lookupFraction (ps.map Prod.fst) (ps.map Prod.snd) phase
      = lookupFraction (ps'.map Prod.fst) (ps'.map Prod.snd) phase := by
  have hnd' : (ps'.map Prod.fst).Nodup := (hperm.map Prod.fst).nodup_iff.mp hnd
  have key : ∀ (qs : List (Int × ℝ)), (qs.map Prod.fst).Nodup → ∀ x,
      lookupFraction (qs.map Prod.fst) (qs.map Prod.snd) phase = .ok x ↔ (phase, x) ∈ qs := by
    intro qs hq x
    have hz : List.zip (qs.map Prod.fst) (qs.map Prod.snd) = qs := by
      clear hq
      induction qs with
      | nil => rfl
      | cons a as ih => simp [ih]
    rw [lookup_own _ _ _ _ hq (by simp), hz]
  have hnone : ∀ (qs : List (Int × ℝ)),
      (∀ x, lookupFraction (qs.map Prod.fst) (qs.map Prod.snd) phase ≠ .ok x) →
      lookupFraction (qs.map Prod.fst) (qs.map Prod.snd) phase = .error .phaseNotInAssemblage := by
    intro qs hq
    unfold lookupFraction at hq ⊢
    cases hi : indexOf? (qs.map Prod.fst) phase with
    | none => rfl
    | some i =>
      exfalso
      obtain ⟨hlt, _, _⟩ := indexOf?_some_lt _ phase i hi
      have hlt' : i < (qs.map Prod.snd).length := by simpa using hlt
      exact hq ((qs.map Prod.snd)[i]) (by simp [hi, List.getElem?_eq_getElem hlt'])
  by_cases hex : ∃ x, (phase, x) ∈ ps
  · obtain ⟨x, hx⟩ := hex
    rw [(key ps hnd x).mpr hx, (key ps' hnd' x).mpr (hperm.mem_iff.mp hx)]
  · rw [hnone ps (fun x hx => hex ⟨x, (key ps hnd x).mp hx⟩),
        hnone ps' (fun x hx => hex ⟨x, hperm.mem_iff.mpr ((key ps' hnd' x).mp hx)⟩)]

/-- the dislocation branch depends on mobility and phase fraction only through their product -/
theorem dislocationRates_phiM (damp : ℝ) (crss : Crss) (phase : Int) (A : List Mat3) (f : List ℝ)
    (D L : Mat3) (q q' : DParams) (hp : q.p = q'.p) (hn : q.n = q'.n) (hl : q.lam = q'.lam)
    (hprod : q.phi * q.M = q'.phi * q'.M) :
    dislocationRates damp crss phase A f D L q = dislocationRates damp crss phase A f D L q' := by
  simp only [dislocationRates, hp, hn, hl, hprod]

theorem derivatives_phiM (regime phase fabric : Int) (A : List Mat3) (f : List ℝ) (D L spin : Mat3)
    (q q' : DParams) (hp : q.p = q'.p) (hn : q.n = q'.n) (hl : q.lam = q'.lam)
    (hprod : q.phi * q.M = q'.phi * q'.M) :
    derivatives regime phase fabric A f D L spin q = derivatives regime phase fabric A f D L spin q' := by
  have key : ∀ damp c, dislocationRates damp c phase A f D L q = dislocationRates damp c phase A f D L q' :=
    fun damp c => dislocationRates_phiM damp c phase A f D L q q' hp hn hl hprod
  unfold derivatives
  simp only [key]

/-- **each mineral evolves as a single-phase mineral whose mobility is multiplied by its own
phase fraction**: the right-hand side of a mineral in a multiphase aggregate (fraction `phi`
looked up for its phase) equals that of the same mineral alone (`assemblage = [phase]`,
`fractions = [1]`) with mobility `phi · M`. -/
theorem multiphase_is_scaled_mobility (phase fabric : Int) (n : ℕ) (mp : MParams) (env : RhsEnv)
    (y : List ℝ) (phi : ℝ) (hphi : lookupFraction mp.assemblage mp.fractions phase = .ok phi) :
    evalRhs phase fabric n mp env y
      = evalRhs phase fabric n { mp with assemblage := [phase], fractions := [1], M := phi * mp.M } env y := by
  have h1 : lookupFraction [phase] [(1:ℝ)] phase = .ok 1 := by simp [lookupFraction, indexOf?]
  simp only [evalRhs, hphi, h1]
  rw [derivatives_phiM env.regime phase fabric _ _ _ _ env.spin
    ⟨mp.p, mp.n, mp.lam, mp.M, phi⟩ ⟨mp.p, mp.n, mp.lam, phi * mp.M, 1⟩ rfl rfl rfl (by simp)]

/-- **minerals share no state in a bulk update**: when every update succeeds, the i-th resulting
mineral is the result of updating the i-th mineral alone with its own solver output
(so the outcome for one mineral does not depend on which other minerals are in the list, on
their order, or on interleaving). -/
theorem updateAll_pointwise (ms : List Mineral) (chi : ℝ) (raws : List (Option (List (List ℝ))))
    (hlen : ms.length = raws.length)
    (hall : ∀ i (hi : i < raws.length), ∃ rs raw, raws[i] = some rs ∧ rs.getLast? = some raw) :
    (updateAll ms chi raws).1 = List.zipWith (fun m r => (updateWith m chi r).1) ms raws := by
  induction ms generalizing raws with
  | nil => simp [updateAll]
  | cons m ms ih =>
    cases raws with
    | nil => simp at hlen
    | cons r raws =>
      obtain ⟨rs0, raw0, hr0, hl0⟩ := hall 0 (by simp)
      simp only [List.getElem_cons_zero] at hr0
      subst hr0
      have hlen' : ms.length = raws.length := by simpa using hlen
      have hall' : ∀ i (hi : i < raws.length), ∃ rs raw, raws[i] = some rs ∧ rs.getLast? = some raw := by
        intro i hi
        have := hall (i + 1) (by simp; omega)
        simpa using this
      cases ms with
      | nil =>
        have : raws = [] := by
          cases raws with
          | nil => rfl
          | cons _ _ => simp at hlen'
        subst this
        simp [updateAll, updateWith, hl0]
      | cons m2 ms2 =>
        have := ih raws hlen' hall'
        simp only [updateAll, updateWith, hl0, List.zipWith_cons_cons] at this ⊢
        rw [← this]

/-- **reordering the minerals handed to the bulk update reorders the resulting minerals in the same
way** (when every update succeeds): the multiset of (mineral, result) pairs does not depend on the
order of the list. -/
theorem updateAll_perm (ms ms' : List Mineral) (chi : ℝ) (raws raws' : List (Option (List (List ℝ))))
    (hlen : ms.length = raws.length) (hlen' : ms'.length = raws'.length)
    (hall : ∀ i (hi : i < raws.length), ∃ rs raw, raws[i] = some rs ∧ rs.getLast? = some raw)
    (hall' : ∀ i (hi : i < raws'.length), ∃ rs raw, raws'[i] = some rs ∧ rs.getLast? = some raw)
    (hperm : (List.zip ms raws).Perm (List.zip ms' raws')) :
    (updateAll ms chi raws).1.Perm (updateAll ms' chi raws').1 := by
  rw [updateAll_pointwise ms chi raws hlen hall, updateAll_pointwise ms' chi raws' hlen' hall']
  have e : ∀ (a : List Mineral) (b : List (Option (List (List ℝ)))),
      List.zipWith (fun m r => (updateWith m chi r).1) a b
        = (List.zip a b).map (fun p => (updateWith p.1 chi p.2).1) := by
    intro a b
    rw [List.zip, List.map_zipWith]
  rw [e, e]
  exact hperm.map _

/-- **a bulk update that fails half-way**: the minerals before the failing one keep the snapshot they just received, the
failing mineral and all later ones are exactly as before (nothing is rolled back, nothing else is touched), and no
deformation gradient is returned. -/
theorem updateAll_failure (pre post : List Mineral) (m : Mineral) (chi : ℝ)
    (rpre rpost : List (Option (List (List ℝ))))
    (hlen : pre.length = rpre.length)
    (hall : ∀ i (hi : i < rpre.length), ∃ rs raw, rpre[i] = some rs ∧ rs.getLast? = some raw) :
    updateAll (pre ++ m :: post) chi (rpre ++ none :: rpost)
      = (List.zipWith (fun m r => (updateWith m chi r).1) pre rpre ++ m :: post, none) := by
  induction pre generalizing rpre with
  | nil =>
    have : rpre = [] := by cases rpre <;> simp_all
    subst this
    simp [updateAll, updateWith]
  | cons p pre ih =>
    cases rpre with
    | nil => simp at hlen
    | cons r rpre =>
      obtain ⟨rs0, raw0, hr0, hl0⟩ := hall 0 (by simp)
      simp only [List.getElem_cons_zero] at hr0
      subst hr0
      have hlen' : pre.length = rpre.length := by simpa using hlen
      have hall' : ∀ i (hi : i < rpre.length), ∃ rs raw, rpre[i] = some rs ∧ rs.getLast? = some raw := by
        intro i hi
        have := hall (i + 1) (by simp; omega)
        simpa using this
      have h := ih rpre hlen' hall'
      cases hpre : pre with
      | nil =>
        subst hpre
        have : rpre = [] := by cases rpre <;> simp_all
        subst this
        simp [updateAll, updateWith, hl0]
      | cons p2 pre2 =>
        subst hpre
        simp only [List.cons_append, updateAll, updateWith, hl0, List.zipWith_cons_cons] at h ⊢
        rw [h]

end ModelR
