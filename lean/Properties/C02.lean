import Proofs.SpecDrex
import Properties.C03
import Proofs.Argsort
import Mathlib.Tactic.IntervalCases
/-! # C02 — solver rates equal the published D-Rex equations

Refinement of the textbook specification `ModelR.Spec` (Proofs/SpecDrex.lean) by the code-shaped
model `ModelR.Drex`, kernel by kernel, for every input outside the two measure-zero exclusions the
property names (exact ties in slip activity; no slip system resolved). -/
namespace ModelR
open Spec

/-- the CRSS table of the spec as the model's `Tau` entries -/
noncomputable def tauOf (o : Option ℝ) : Tau := match o with | some t => tauFin t | none => tauInf

/-- **K1: the CRSS lookup is the documented table, in the documented slip-system order** -/
theorem crss_table (pf : Int × Int) (h : pf ∈ [((0:Int), (0:Int)), (0, 1), (0, 2), (0, 3), (0, 4), (1, 5)]) :
    ∃ t, crssTable pf.1 pf.2 = some t ∧ getCrss pf.1 pf.2 = .ok (fun s => tauOf (t s)) := by
  simp only [List.mem_cons, List.mem_nil_iff, or_false] at h
  rcases h with rfl | rfl | rfl | rfl | rfl | rfl <;>
    exact ⟨_, rfl, by
      simp only [getCrss]
      norm_num
      funext s; fin_cases s <;> rfl⟩

/-- the table is defined exactly for the six supported (phase, fabric) pairs (every other pair of
integers is rejected by the code, see `getCrss_ok_iff` in C07) -/
theorem crss_table_defined (ph fa : Int) :
    (crssTable ph fa).isSome ↔ ((ph = 0 ∧ 0 ≤ fa ∧ fa ≤ 4) ∨ (ph = 1 ∧ fa = 5)) := by
  unfold crssTable
  split <;> try simp
  rename_i h1 h2 h3 h4 h5 h6
  constructor
  · intro hp h0
    by_contra hcon
    have h4' : fa ≤ 4 := by omega
    interval_cases fa
    · exact h1 hp rfl
    · exact h2 hp rfl
    · exact h3 hp rfl
    · exact h4 hp rfl
    · exact h5 hp rfl
  · intro hp hf; exact h6 hp hf

/-- **K2: the slip invariants are `l_s · D n_s`** -/
theorem invariants_eq_spec (D A : Mat3) (s : Fin 4) : slipInvariants D A s = invariant D A s := by
  simp only [slipInvariants, invariant, slipDir, slipNormal, sum3]; ring

/-- **K5: the deformation-rate tensor is the Schmid tensor `2 Σ β_s l_s ⊗ n_s`** -/
theorem deformationRate_eq_spec (A : Mat3) (β : Fin 4 → ℝ) : deformationRate A β = schmid A β := by
  funext i j
  simp only [deformationRate, schmid, slipDir, slipNormal, slipL, slipN]

theorem inner3_self_nonneg (X : Mat3) : 0 ≤ inner3 X X := by
  simp only [inner3, sum3]
  have h := fun i j => mul_self_nonneg (X i j)
  linarith [h 0 0, h 0 1, h 0 2, h 1 0, h 1 1, h 1 2, h 2 0, h 2 1, h 2 2]

/-- `‖X‖² = ‖sym X‖² + ‖skew X‖²` -/
theorem inner3_sym_skew (X : Mat3) : inner3 X X = inner3 (symm X) (symm X) + inner3 (skew X) (skew X) := by
  simp only [inner3, symm, skew, sum3]; ring

/-- **K6: the softest-system slip rate is the least-squares fit to the velocity gradient.**
Outside the ±1e-15 guard the code's quotient equals `⟨sym G, sym L⟩ / ⟨sym G, sym G⟩`, and that
value together with the spin `skew(L − γ₀ G)` minimises `‖L − γ G − W‖²` over all slip rates `γ`
and all rigid spins `W`. -/
theorem softest_is_least_squares (G L : Mat3)
    (hguard : ¬ (-1e-15 < softestDenom G ∧ softestDenom G < 1e-15)) :
    slipRateSoftest G L = gamma0 G L ∧
    ∀ (γ : ℝ) (W : Mat3), IsSkew W →
      misfit L G (skew (msub L (smul3 (gamma0 G L) G))) (gamma0 G L) ≤ misfit L G W γ := by
  have hden : softestDenom G ≠ 0 := by
    intro h0; apply hguard; rw [h0]; constructor <;> norm_num
  have hss : inner3 (symm G) (symm G) ≠ 0 := by
    intro h0; apply hden; rw [softestDenom_sym, h0]; ring
  have hpos : 0 < inner3 (symm G) (symm G) := by
    exact lt_of_le_of_ne (inner3_self_nonneg _) (Ne.symm hss)
  constructor
  · unfold slipRateSoftest gamma0
    simp only [hguard, if_false]
    rw [softestEnumer_sym, softestDenom_sym]
    field_simp
  · intro γ W hW
    -- split both misfits into symmetric and skew parts
    have hsplit : ∀ (γ' : ℝ) (W' : Mat3), IsSkew W' →
        misfit L G W' γ' = inner3 (msub (symm L) (smul3 γ' (symm G))) (msub (symm L) (smul3 γ' (symm G)))
          + inner3 (msub (skew (msub L (smul3 γ' G))) W') (msub (skew (msub L (smul3 γ' G))) W') := by
      intro γ' W' hW'
      unfold misfit
      rw [inner3_sym_skew]
      congr 1
      · congr 1 <;> (funext i j; simp only [symm, msub, smul3]; rw [hW' i j]; ring)
      · congr 1 <;> (funext i j; simp only [skew, msub, smul3]; rw [hW' j i]; ring)
    have hskew : IsSkew (skew (msub L (smul3 (gamma0 G L) G))) := by
      intro i j; simp only [skew]; ring
    rw [hsplit _ _ hskew, hsplit γ W hW]
    have hzero : inner3 (msub (skew (msub L (smul3 (gamma0 G L) G))) (skew (msub L (smul3 (gamma0 G L) G))))
        (msub (skew (msub L (smul3 (gamma0 G L) G))) (skew (msub L (smul3 (gamma0 G L) G)))) = 0 := by
      simp only [inner3, msub, sum3]; ring
    rw [hzero, add_zero]
    have hnn : 0 ≤ inner3 (msub (skew (msub L (smul3 γ G))) W) (msub (skew (msub L (smul3 γ G))) W) :=
      inner3_self_nonneg _
    -- the quadratic in γ
    have hquad : ∀ g : ℝ, inner3 (msub (symm L) (smul3 g (symm G))) (msub (symm L) (smul3 g (symm G)))
        = inner3 (symm L) (symm L) - 2 * g * inner3 (symm G) (symm L) + g * g * inner3 (symm G) (symm G) := by
      intro g; simp only [inner3, msub, smul3, sum3]; ring
    rw [hquad, hquad]
    have hg : gamma0 G L * inner3 (symm G) (symm G) = inner3 (symm G) (symm L) := by
      unfold gamma0; field_simp
    have key : (inner3 (symm L) (symm L) - 2 * γ * inner3 (symm G) (symm L) + γ * γ * inner3 (symm G) (symm G))
        - (inner3 (symm L) (symm L) - 2 * gamma0 G L * inner3 (symm G) (symm L)
            + gamma0 G L * gamma0 G L * inner3 (symm G) (symm G))
        = inner3 (symm G) (symm G) * (γ - gamma0 G L) ^ 2 := by
      rw [← hg]; ring
    have := mul_nonneg hpos.le (sq_nonneg (γ - gamma0 G L))
    linarith

/-- **K7: the lattice rotation rate is `A · skew(L − γ₀ G)ᵀ`** (the quadruple ε-loop) -/
theorem orientationChange_eq_spec (A L G : Mat3) (g0 : ℝ) :
    orientationChange A L G g0 = latticeRate A L G g0 := orientationChange_matrix A L G g0

/-- the permutation `σ` ranks the keys strictly: `k (σ 0) < k (σ 1) < k (σ 2) < k (σ 3)`, and is
onto (so the four systems are exactly `σ 0 … σ 3`) -/
def StrictRanking (k : Fin 4 → ℝ) (σ : Fin 4 → Fin 4) : Prop :=
  k (σ 0) < k (σ 1) ∧ k (σ 1) < k (σ 2) ∧ k (σ 2) < k (σ 3) ∧ ∀ s, s = σ 0 ∨ s = σ 1 ∨ s = σ 2 ∨ s = σ 3

/-- **K4: the olivine slip rates follow the published power law** for every strict ranking of the
activities (no exact ties — the property's exclusion — and the most active system resolved) -/
theorem slipRates_eq_spec (I : Fin 4 → ℝ) (t : Fin 4 → Option ℝ) (σ : Fin 4 → Fin 4) (n : ℝ)
    (htpos : ∀ s x, t s = some x → 0 < x)
    (hrank : StrictRanking (fun s => |activity I t s|) σ) (s : Fin 4) :
    slipRatesOlivine I σ (fun s => tauOf (t s)) n s = relRates (activity I t) σ n s := by
  obtain ⟨h01, h12, h23, hall⟩ := hrank
  -- the most active system has a non-zero activity, hence finite CRSS and non-zero invariant
  have hmax_pos : 0 < |activity I t (σ 3)| := by
    have := abs_nonneg (activity I t (σ 0)); linarith
  have hmax_ne : activity I t (σ 3) ≠ 0 := abs_pos.mp hmax_pos
  obtain ⟨tm, htm⟩ : ∃ tm, t (σ 3) = some tm := by
    cases h : t (σ 3) with
    | none => exfalso; apply hmax_ne; simp [activity, h]
    | some x => exact ⟨x, rfl⟩
  have htm_pos := htpos _ _ htm
  have hIm : I (σ 3) ≠ 0 := by
    intro h0; apply hmax_ne; simp [activity, htm, h0]
  have hne32 : σ 2 ≠ σ 3 := by intro h; rw [h] at h23; exact lt_irrefl _ h23
  have hne31 : σ 1 ≠ σ 3 := by intro h; rw [h] at h12; linarith
  have hne30 : σ 0 ≠ σ 3 := by intro h; rw [h] at h01; linarith
  have hne20 : σ 0 ≠ σ 2 := by intro h; rw [h] at h01; linarith
  have hne10 : σ 0 ≠ σ 1 := by intro h; rw [h] at h01; exact lt_irrefl _ h01
  -- ratio computed by the code = q_s / q_max
  have hratio : ∀ j, divByTau (tauDiv (tauOf (t (σ 3))) (I (σ 3)) * I j) (tauOf (t j))
      = activity I t j / activity I t (σ 3) := by
    intro j
    simp only [htm, tauOf, tauDiv, tauFin, activity]
    cases hj : t j with
    | none => simp [divByTau, tauInf]
    | some x =>
      have hx := htpos _ _ hj
      simp only [divByTau, tauFin, Bool.false_eq_true, if_false]
      field_simp
  simp only [slipRatesOlivine, relRates, hratio, Rpow, Rabs]
  by_cases h3 : s = σ 3
  · simp [h3]
  · simp only [h3, if_false]
    rcases hall s with h | h | h | h
    · subst h; simp [hne20, hne10]
    · subst h; simp [hne31, Ne.symm hne10, show σ 1 ≠ σ 2 from by intro h; rw [h] at h12; exact lt_irrefl _ h12]
    · subst h; simp [Ne.symm hne20]
    · exact absurd h h3

/-- `(1/τ)^(n−p) = τ^(p−n)` for a finite positive CRSS -/
theorem recip_rpow (x p n : ℝ) (hx : 0 < x) : Rpow (recipTau (tauFin x)) (n - p) = x ^ (p - n) := by
  simp only [Rpow, recipTau, tauFin, one_div, Bool.false_eq_true, if_false]
  rw [Real.inv_rpow hx.le, ← Real.rpow_neg hx.le]; congr 1; ring

/-- **K8: the strain energy is the published dislocation-density energy** -/
theorem energy_eq_spec (t : Fin 4 → Option ℝ) (htpos : ∀ s x, t s = some x → 0 < x)
    (β : Fin 4 → ℝ) (g0 p n lam : ℝ) :
    strainEnergy (fun s => tauOf (t s)) β g0 p n lam = energy t β g0 p n lam := by
  have hrho : ∀ s, dislocationDensity (tauOf (t s)) (β s) g0 p n = rho (t s) (β s) g0 p n := by
    intro s
    unfold dislocationDensity rho
    cases hs : t s with
    | none => simp [tauOf, recipTau, tauInf, Rpow, Rabs]
    | some x =>
      simp only [tauOf]
      rw [recip_rpow x p n (htpos s x hs)]; simp [Rpow, Rabs]
  simp only [strainEnergy, energy, energyTerm, hrho, Rexp]
  ring_nf

/-- **K9 assembly: the boundary-migration law and the documented yielding factor** — the i-th
fraction rate returned by `derivatives` is `φ M f_i · damp · (Ē − E_i)` with `damp = 1`
(matrix_dislocation) or `0.3` (frictional_yielding) -/
theorem fractionRate_eq_spec (regime phase fabric : Int) (hreg : regime = 4 ∨ regime = 6)
    (A : List Mat3) (f : List ℝ) (D L spin : Mat3) (q : DParams) (crss : Crss)
    (hc : getCrss phase fabric = .ok crss) (hlen : f.length = A.length)
    (out : List Mat3 × List ℝ)
    (hout : derivatives regime phase fabric A f D L spin q = .ok out)
    (i : ℕ) (hi : i < f.length) :
    ∃ ho : i < out.2.length, ∃ he : i < (energies crss phase A D L q).length,
      out.2[i] = fractionRate (if regime = 4 then 1 else 0.3) q.phi q.M f[i]
        (weightedSum f (energies crss phase A D L q)) ((energies crss phase A D L q)[i]) :=
  fracdiff_entry regime phase fabric hreg A f D L spin q crss hc hlen out hout i hi

theorem divByTau_eq_activity (I : Fin 4 → ℝ) (t : Fin 4 → Option ℝ) (s : Fin 4) :
    divByTau (I s) (tauOf (t s)) = activity I t s := by
  unfold activity tauOf divByTau
  cases t s <;> simp [tauFin, tauInf]

/-- **the olivine kernel refines the published model**: for a CRSS row of the table, whenever the
four slip activities have pairwise distinct magnitudes (no exact ties, which also forces a resolved
most-active system) and the least-squares denominator is outside the ±1e-15 guard, the rotation
rate and strain energy computed by the code are those of the specification: rank the systems by
|activity|, power-law slip rates, Schmid tensor, least-squares slip rate on the softest system,
lattice spin `skew(L − γ₀G)`, dislocation-density energy. -/
theorem olivine_refines_spec (t : Fin 4 → Option ℝ) (htpos : ∀ s x, t s = some x → 0 < x)
    (A D L : Mat3) (p n lam : ℝ)
    (hNoTie : ∀ i j : Fin 4, i ≠ j →
      |activity (invariant D A) t i| ≠ |activity (invariant D A) t j|)
    (hguard : ¬ (-1e-15 < softestDenom (schmid A (relRates (activity (invariant D A) t)
        (argsort4 fun s => |activity (invariant D A) t s|) n)) ∧
      softestDenom (schmid A (relRates (activity (invariant D A) t)
        (argsort4 fun s => |activity (invariant D A) t s|) n)) < 1e-15)) :
    rotationAndStrainCore 0 (fun s => tauOf (t s)) A D L p n lam =
      (latticeRate A L (schmid A (relRates (activity (invariant D A) t)
            (argsort4 fun s => |activity (invariant D A) t s|) n))
          (gamma0 (schmid A (relRates (activity (invariant D A) t)
            (argsort4 fun s => |activity (invariant D A) t s|) n)) L),
       energy t (relRates (activity (invariant D A) t)
            (argsort4 fun s => |activity (invariant D A) t s|) n)
          (gamma0 (schmid A (relRates (activity (invariant D A) t)
            (argsort4 fun s => |activity (invariant D A) t s|) n)) L) p n lam) := by
  have hI : slipInvariants D A = invariant D A := funext (invariants_eq_spec D A)
  set q := activity (invariant D A) t with hq
  set k : Fin 4 → ℝ := fun s => |q s| with hk
  set σ := argsort4 k with hσ
  have hsort := argsort4_sorts k (hNoTie 0 1 (by decide)) (hNoTie 0 2 (by decide)) (hNoTie 0 3 (by decide))
    (hNoTie 1 2 (by decide)) (hNoTie 1 3 (by decide)) (hNoTie 2 3 (by decide))
  have hkeys : (fun s => Rabs (divByTau (slipInvariants D A s) (tauOf (t s)))) = k := by
    funext s; rw [hI, divByTau_eq_activity]; rfl
  have hmax_pos : 0 < k (σ 3) := by
    have h0 : 0 ≤ k (σ 0) := abs_nonneg _
    linarith [hsort.1, hsort.2.1, hsort.2.2.1]
  have hmax_ne : q (σ 3) ≠ 0 := abs_pos.mp hmax_pos
  -- not all invariants vanish
  have hnz : allZero4 (slipInvariants D A) = false := by
    by_contra hcon
    simp only [Bool.not_eq_false] at hcon
    simp only [allZero4, Bool.and_eq_true, Req_iff] at hcon
    obtain ⟨⟨⟨z0, z1⟩, z2⟩, z3⟩ := hcon
    apply hmax_ne
    have : ∀ s, slipInvariants D A s = 0 := by intro s; fin_cases s <;> assumption
    rw [hq, ← hI]
    unfold activity
    cases t (σ 3) <;> simp [this]
  have hrates : slipRatesOlivine (slipInvariants D A) σ (fun s => tauOf (t s)) n = relRates q σ n := by
    funext s
    rw [hI]
    exact slipRates_eq_spec (invariant D A) t σ n htpos hsort s
  unfold rotationAndStrainCore
  simp only [vec4memo_eq, perm4memo_eq, hnz, hkeys, if_true, Bool.false_eq_true, if_false]
  have hg2 : Req (divByTau (slipInvariants D A (σ 3)) (tauOf (t (σ 3)))) 0 = false := by
    rw [hI, divByTau_eq_activity]
    simpa [Req] using hmax_ne
  simp only [← hσ]
  simp only [hg2, Bool.false_eq_true, if_false, hrates]
  simp only [rotationFromRates, vec4memo_eq, Mat3.memo_eq, deformationRate_eq_spec]
  rw [(softest_is_least_squares _ L hguard).1, orientationChange_eq_spec,
    energy_eq_spec t htpos]

/-- **the enstatite kernel refines the published model**: exclusively (100)[001] slip, active when
its invariant exceeds the 1e-15 threshold; then the same Schmid tensor / least-squares slip rate /
lattice spin / energy as for olivine. -/
theorem enstatite_refines_spec (t : Fin 4 → Option ℝ) (htpos : ∀ s x, t s = some x → 0 < x)
    (A D L : Mat3) (p n lam : ℝ)
    (hnz : allZero4 (slipInvariants D A) = false)
    (hguard : ¬ (-1e-15 < softestDenom (schmid A (slipRatesEnstatite (invariant D A))) ∧
      softestDenom (schmid A (slipRatesEnstatite (invariant D A))) < 1e-15)) :
    rotationAndStrainCore 1 (fun s => tauOf (t s)) A D L p n lam =
      (latticeRate A L (schmid A (slipRatesEnstatite (invariant D A)))
          (gamma0 (schmid A (slipRatesEnstatite (invariant D A))) L),
       energy t (slipRatesEnstatite (invariant D A))
          (gamma0 (schmid A (slipRatesEnstatite (invariant D A))) L) p n lam) := by
  have hI : slipInvariants D A = invariant D A := funext (invariants_eq_spec D A)
  unfold rotationAndStrainCore
  simp only [vec4memo_eq, hnz, Bool.false_eq_true, if_false, show ((1:Int) = 0) = False by simp, hI]
  simp only [rotationFromRates, vec4memo_eq, Mat3.memo_eq, deformationRate_eq_spec]
  rw [(softest_is_least_squares _ L hguard).1, orientationChange_eq_spec, energy_eq_spec t htpos]
  rw [hI] at hnz
  simp [hnz]

end ModelR
