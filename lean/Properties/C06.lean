import Proofs.Solver
/-! # C06 — the returned deformation gradient solves dF/dt = L·F

Structural theorems (all inputs): what the solver integrates for the F block is exactly
`L(t, x(t)) · F`, a function of `(L, y[0:9])` only; post-processing never touches that block;
the returned F is the first block of the last solver vector; a bulk update returns the F of
its last mineral. (The analytic facts about the exact solution for constant L are in
`Properties/C06Analytic.lean`.) -/
namespace ModelR
open List

/-- **the F block of the right-hand side is `flatten (L · F)`** with `F = reshape(y[0:9])`,
operand order and row-major layout as in the code, for every accepted evaluation -/
theorem rhs_F_block (phase fabric : Int) (n : ℕ) (mp : MParams) (env : RhsEnv) (y out : List ℝ)
    (h : evalRhs phase fabric n mp env y = .ok out) :
    out.take 9 = mat3ToList (mmul env.L (mat3OfList (y.take 9))) := by
  obtain ⟨phi, _, ad, fd, _, rfl⟩ := evalRhs_ok phase fabric n mp env y out h
  rw [List.append_assoc, List.take_append_of_le_length (by simp)]
  exact List.take_of_length_le (by simp)

/-- **the F block does not depend on the mineral**: phase, fabric, regime, grain count, texture,
recrystallisation parameters, phase assemblage — two accepted evaluations that see the same
velocity gradient and the same first nine solver components agree on the F block -/
theorem rhs_F_independent
    (phase fabric phase' fabric' : Int) (n n' : ℕ) (mp mp' : MParams) (env env' : RhsEnv)
    (y y' out out' : List ℝ) (hL : env.L = env'.L) (hy : y.take 9 = y'.take 9)
    (h : evalRhs phase fabric n mp env y = .ok out)
    (h' : evalRhs phase' fabric' n' mp' env' y' = .ok out') :
    out.take 9 = out'.take 9 := by
  rw [rhs_F_block _ _ _ _ _ _ _ h, rhs_F_block _ _ _ _ _ _ _ h', hL, hy]

/-- **post-processing (clipping, renormalisation, sliding floor, write-back) leaves F unchanged** -/
theorem post_keeps_F (chi : ℝ) (n : ℕ) (prev : List Mat3) (y : List ℝ) :
    (postStep chi n prev y).take 9 = mat3ToList (mat3OfList (y.take 9)) := by
  simp only [postStep, packY_take9, extractVars_F]

theorem post_keeps_F' (chi : ℝ) (n : ℕ) (prev : List Mat3) (y : List ℝ) (hy : 9 ≤ y.length) :
    (postStep chi n prev y).take 9 = y.take 9 := by
  rw [post_keeps_F, mat3ToList_ofList _ (by simp [hy])]

/-- **the update returns the F block of the last solver vector** -/
theorem finish_returns_F (m : Mineral) (chi : ℝ) (rs : List (List ℝ)) (raw : List ℝ)
    (hlast : rs.getLast? = some raw) :
    (updateWith m chi (some rs)).2 = some (mat3OfList (raw.take 9)) := by
  simp only [updateWith, hlast, extractVars_F, postStep, packY_take9, mat3OfList_toList]

/-- the F returned by an update does not depend on the mineral at all, given the solver vectors -/
theorem finish_F_independent (m m' : Mineral) (chi chi' : ℝ) (rs rs' : List (List ℝ)) (raw raw' : List ℝ)
    (hlast : rs.getLast? = some raw) (hlast' : rs'.getLast? = some raw')
    (h9 : raw.take 9 = raw'.take 9) :
    (updateWith m chi (some rs)).2 = (updateWith m' chi' (some rs')).2 := by
  rw [finish_returns_F m chi rs raw hlast, finish_returns_F m' chi' rs' raw' hlast', h9]

/-- **a bulk update returns the F of its last mineral** (when every mineral's update succeeds) -/
theorem updateAll_returns_last (ms : List Mineral) (chi : ℝ) (raws : List (Option (List (List ℝ))))
    (hlen : ms.length = raws.length) (hne : ms ≠ [])
    (hall : ∀ i (hi : i < raws.length), ∃ rs raw, raws[i] = some rs ∧ rs.getLast? = some raw) :
    ∃ (mlast : Mineral) (rs : List (List ℝ)),
      ms.getLast? = some mlast ∧ raws.getLast? = some (some rs) ∧
      (updateAll ms chi raws).2 = (updateWith mlast chi (some rs)).2 := by
  induction ms generalizing raws with
  | nil => exact absurd rfl hne
  | cons m ms ih =>
    cases raws with
    | nil => simp at hlen
    | cons r raws =>
      obtain ⟨rs0, raw0, hr0, hl0⟩ := hall 0 (by simp)
      simp only [List.getElem_cons_zero] at hr0
      subst hr0
      cases ms with
      | nil =>
        have : raws = [] := by
          cases raws with
          | nil => rfl
          | cons _ _ => simp at hlen
        subst this
        refine ⟨m, rs0, rfl, rfl, ?_⟩
        simp [updateAll, updateWith, hl0]
      | cons m2 ms2 =>
        have hlen' : (m2 :: ms2).length = raws.length := by simpa using hlen
        have hall' : ∀ i (hi : i < raws.length), ∃ rs raw, raws[i] = some rs ∧ rs.getLast? = some raw := by
          intro i hi
          have := hall (i + 1) (by simp; omega)
          simpa using this
        obtain ⟨mlast, rs, h1, h2, h3⟩ := ih raws hlen' (by simp) hall'
        have hr : raws ≠ [] := by
          intro h; subst h; simp at hlen'
        refine ⟨mlast, rs, ?_, ?_, ?_⟩
        · simpa [List.getLast?_cons_cons] using h1
        · cases raws with
          | nil => exact absurd rfl hr
          | cons a as => simpa [List.getLast?_cons_cons] using h2
        · rw [← h3]
          simp [updateAll, updateWith, hl0]

end ModelR
