import Properties.C07
import Properties.C01
/-! # C07 (continued) — null forcing over whole histories

If in every update the solver hands back the texture it started from (which every integrator
produces from identically zero texture rates; the F block is arbitrary) then, for a valid texture
none of whose grains is below the sliding floor, every snapshot appended by any number of updates
equals the snapshot the history started from. -/
namespace ModelR
open List

/-- the last vector of update `r` holds exactly texture `t` (with any deformation gradient) -/
def ReturnsTexture (t : Tex) (r : Option (List (List ℝ))) : Prop :=
  ∃ l F, r = some l ∧ l.getLast? = some (packY F t)

theorem null_update_appends_same (m : Mineral) (chi : ℝ) (t : Tex) (r : Option (List (List ℝ)))
    (hlast : m.snaps.getLast? = some t) (hv : ValidTex t) (hA : t.A.length = m.n) (hf : t.f.length = m.n)
    (hfloor : ∀ x ∈ t.f, ¬ x < chi / m.n) (hr : ReturnsTexture t r) :
    (updateWith m chi r).1.snaps = m.snaps ++ [t] := by
  obtain ⟨l, F, rfl, hl⟩ := hr
  have hprev : lastA m = t.A := by simp [lastA, hlast]
  rw [appended_snapshot m chi l _ hl, hprev]
  have h := null_run_constant chi m.n t.A F t hv hA hf hA hfloor
  rw [h.1, h.2]

/-- **null forcing over any number of updates**: all appended snapshots equal the starting one -/
theorem null_history_constant (chi : ℝ) (t : Tex) (hv : ValidTex t)
    (m : Mineral) (hlast : m.snaps.getLast? = some t) (hA : t.A.length = m.n) (hf : t.f.length = m.n)
    (hfloor : ∀ x ∈ t.f, ¬ x < chi / m.n)
    (rs : List (Option (List (List ℝ)))) (hrs : ∀ r ∈ rs, ReturnsTexture t r) :
    (runHistory chi m rs).snaps = m.snaps ++ List.replicate rs.length t := by
  induction rs generalizing m with
  | nil => simp [runHistory]
  | cons r rs ih =>
    simp only [runHistory]
    have hstep := null_update_appends_same m chi t r hlast hv hA hf hfloor (hrs r (by simp))
    have hn := updateWith_n m chi r
    have hlast' : (updateWith m chi r).1.snaps.getLast? = some t := by
      rw [hstep]; simp
    rw [ih (updateWith m chi r).1 hlast' (by rw [hn]; exact hA) (by rw [hn]; exact hf)
      (by rw [hn]; exact hfloor) (fun r' hr' => hrs r' (by simp [hr'])), hstep]
    simp [List.replicate_succ, List.append_assoc]

end ModelR
