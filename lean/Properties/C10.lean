import Proofs.TensorsAvg
/-! # C10 — the Voigt average is the volume-weighted mean of rotated single-crystal stiffnesses

Theorems about `ModelR.Tensors.voigtAverages`, the model of `minerals.voigt_averages` AFTER the repair
commit (stiffness looked up by phase ordinal), tied to the code by the correspondence check K20
(`harness/props/c10.py`).  Phases are ordinals (olivine 0, enstatite 1), `stiffness` is the list
`[S for S in elastic_tensors]` (ordinal order), `assemblage`/`phis` are `phase_assemblage` /
`phase_fractions`.  All statements are for every number of minerals, grains and snapshots.
`WellFormed … n steps` says: at least one mineral, every mineral has `n_grains = n` and `steps`
snapshots of orientations and fractions with at least `n` rows, every mineral's phase is listed in
the assemblage, has a fraction and a stiffness.  The negation witnesses for the code before the
repair are in `Witness/C10.lean`. -/
set_option linter.unusedVariables false
namespace ModelR.Tensors

/-- **symmetric**: every matrix `voigt_averages` can return is symmetric (no hypothesis at all) -/
theorem voigt_sym (minerals : List MineralM) (assemblage : List ℕ) (phis : List ℝ) (stiffness : List Mat6)
    (L : List Mat6) (h : voigtAverages minerals assemblage phis stiffness = .ok L) :
    ∀ M ∈ L, IsSymm6 M :=
  voigtAveragesWith_symm _ (mineralTerms_symm _ _ _) minerals L h

/-- **equals the volume-weighted sum**: on well-formed input the result is, for every snapshot `i`,
`voigtSum` of the minerals' data, i.e. `Σ_m Σ_{g<n} Voigt(rotate(C_m, A_{m,i,g}ᵀ)) · f_{m,i,g} · φ_m` -/
theorem avg_is_weighted_sum {minerals : List MineralM} {assemblage : List ℕ} {phis : List ℝ}
    {stiffness : List Mat6} {n steps : ℕ} (h : WellFormed minerals assemblage phis stiffness n steps) :
    voigtAverages minerals assemblage phis stiffness
      = .ok ((List.range steps).map fun i =>
          voigtSum (minerals.map (texOf (stiffness.map voigtToTensor) assemblage phis n i))) :=
  voigtAverages_ok h

/-- … where `voigtSum` is, entry by entry, the plain sum of the weighted rotated tensors -/
theorem weighted_sum_entry (ps : List PhaseTex) (i j : Fin 6) :
    voigtSum ps i j
      = (ps.map fun p => (p.grains.map fun g =>
          tensorToVoigt (rotate p.T (tr g.1)) i j * g.2 * p.phi).sum).sum := by
  rw [voigtSum, sum6_apply]
  induction ps with
  | nil => simp
  | cons p ps ih =>
    simp only [List.flatMap_cons, List.map_append, List.sum_append, List.map_cons, List.sum_cons, ih]
    simp [phaseTerms, grainTerm_eq, Function.comp_def]

/-- **bulk and shear moduli are texture independent**: for orthogonal orientations, symmetric
single-crystal matrices and grain volumes summing to one, `K` and `G` of every returned matrix (as
`elasticity_components` computes them) are the phase-fraction-weighted single-crystal Voigt moduli -/
theorem KG_texture_independent {minerals : List MineralM} {assemblage : List ℕ} {phis : List ℝ}
    {stiffness : List Mat6} {n steps : ℕ} (h : WellFormed minerals assemblage phis stiffness n steps)
    (hS : ∀ S ∈ stiffness, IsSymm6 S)
    (hO : ∀ m ∈ minerals, ∀ i < steps, ∀ A ∈ m.orientations.getD i [], IsOrtho (tr A))
    (hf : ∀ m ∈ minerals, ∀ i < steps, ((m.fractions.getD i []).take n).sum = 1)
    (L : List Mat6) (hL : voigtAverages minerals assemblage phis stiffness = .ok L) :
    ∀ M ∈ L,
      bulkOf M = (minerals.map fun m =>
        phis.getD (assemblage.idxOf m.phase) 0 * bulkOf (stiffness.getD m.phase zero6)).sum ∧
      shearOf M = (minerals.map fun m =>
        phis.getD (assemblage.idxOf m.phase) 0 * shearOf (stiffness.getD m.phase zero6)).sum := by
  rw [voigtAverages_ok h] at hL
  injection hL with hL; subst hL
  intro M hM
  obtain ⟨i, hi, rfl⟩ := List.mem_map.mp hM
  have hi : i < steps := List.mem_range.mp hi
  set ps := minerals.map (texOf (stiffness.map voigtToTensor) assemblage phis n i) with hps
  have hgood : ∀ p ∈ ps, GoodTex p := by
    intro p hp; obtain ⟨m, hm, rfl⟩ := List.mem_map.mp hp
    refine ⟨texOf_T_elastic stiffness hS _ _ _ _ m, ?_⟩
    intro g hg
    exact hO m hm i hi g.1 (mem_fst_zip_take hg)
  have hsum : ∀ p ∈ ps, (p.grains.map fun g => g.2).sum = 1 := by
    intro p hp; obtain ⟨m, hm, rfl⟩ := List.mem_map.mp hp
    have hr := h.rows m hm i hi
    have := snd_zip_take (m.orientations.getD i []) (m.fractions.getD i []) n hr.rowsA hr.rowsF
    simp only [texOf]
    rw [show (fun g : Mat3 × ℝ => g.2) = Prod.snd from rfl, this]
    exact hf m hm i hi
  have hSm : ∀ m ∈ minerals, IsSymm6 (stiffness.getD m.phase zero6) := by
    intro m hm
    have hlt := (h.rows m hm i hi).phaseT
    simp only [List.length_map] at hlt
    rw [List.getD_eq_getElem?_getD, List.getElem?_eq_getElem hlt]
    exact hS _ (List.getElem_mem hlt)
  constructor
  · rw [bulk_voigtSum ps hgood hsum, hps, List.map_map]
    congr 1; apply List.map_congr_left; intro m hm
    have hlt := (h.rows m hm i hi).phaseT
    simp only [List.length_map] at hlt
    simp only [Function.comp, texOf_T_eq stiffness assemblage phis n i m hlt, bulkOf_eq _ (hSm m hm)]
    rfl
  · rw [shear_voigtSum ps hgood hsum, hps, List.map_map]
    congr 1; apply List.map_congr_left; intro m hm
    have hlt := (h.rows m hm i hi).phaseT
    simp only [List.length_map] at hlt
    simp only [Function.comp, texOf_T_eq stiffness assemblage phis n i m hlt, shearOf_eq _ (hSm m hm)]
    rfl

/-- **co-rotation**: expressing every orientation in a reference frame rotated by `Q` (`A ↦ A Qᵀ`,
any matrix `Q`) rotates every returned matrix: `C' = Voigt(rotate(tensor(C), Q))` -/
theorem co_rotates (Q : Mat3) {minerals : List MineralM} {assemblage : List ℕ} {phis : List ℝ}
    {stiffness : List Mat6} {n steps : ℕ} (h : WellFormed minerals assemblage phis stiffness n steps)
    (hS : ∀ S ∈ stiffness, IsSymm6 S) :
    voigtAverages (minerals.map (rotMineral Q)) assemblage phis stiffness
      = (voigtAverages minerals assemblage phis stiffness).map (List.map (rot6 Q)) :=
  voigtAverages_corotate Q h hS

/-- **one aligned grain returns the single-crystal matrix**, for every assemblage in which the
phase is listed with fraction one, wherever it is listed -/
theorem single_aligned_grain (phase : ℕ) (assemblage : List ℕ) (phis : List ℝ) (stiffness : List Mat6)
    (hT : phase < stiffness.length) (hS : IsSymm6 (stiffness.getD phase zero6))
    (hA : phase ∈ assemblage) (hP : phis[assemblage.idxOf phase]? = some 1) :
    voigtAverages [⟨phase, 1, [[one3]], [[1]]⟩] assemblage phis stiffness
      = .ok [stiffness.getD phase zero6] := by
  have hlt : assemblage.idxOf phase < phis.length := by
    by_contra hc; rw [List.getElem?_eq_none (not_lt.mp hc)] at hP; simp at hP
  have hwf : WellFormed [⟨phase, 1, [[one3]], [[1]]⟩] assemblage phis stiffness 1 1 := {
    nonempty := by simp
    grains := by simp
    osteps := by simp
    fsteps := by simp
    rows := by
      intro m hm i hi
      simp only [List.mem_singleton] at hm; subst hm
      have : i = 0 := by omega
      subst this
      exact ⟨by simpa using hT, hA, hlt, by simp, by simp⟩ }
  rw [voigtAverages_ok hwf]
  have hphi : phis.getD (assemblage.idxOf phase) 0 = 1 := by
    rw [List.getD_eq_getElem?_getD, hP]; rfl
  simp only [List.range_one, List.map_cons, List.map_nil]
  congr 2
  have : texOf (stiffness.map voigtToTensor) assemblage phis 1 0 ⟨phase, 1, [[one3]], [[1]]⟩
      = ⟨voigtToTensor (stiffness.getD phase zero6), 1, [(one3, 1)]⟩ := by
    rw [PhaseTex.mk.injEq]
    refine ⟨texOf_T_eq stiffness assemblage phis 1 0 _ hT, hphi, ?_⟩
    simp [texOf]
  rw [this]
  exact voigtSum_single _ hS

/-- **order of the minerals**: any permutation of the mineral list gives the same result -/
theorem order_independent_minerals {minerals minerals' : List MineralM} {assemblage : List ℕ}
    {phis : List ℝ} {stiffness : List Mat6} {n steps : ℕ}
    (h : WellFormed minerals assemblage phis stiffness n steps) (hp : minerals.Perm minerals') :
    voigtAverages minerals' assemblage phis stiffness = voigtAverages minerals assemblage phis stiffness :=
  voigtAverages_perm h hp

/-- **order of the phases**: listing the two phases (with their fractions) in the other order gives
the same result or the same exception, for every list of minerals -/
theorem order_independent_phases (minerals : List MineralM) (a b : ℕ) (hab : a ≠ b) (x y : ℝ)
    (stiffness : List Mat6) :
    voigtAverages minerals [b, a] [y, x] stiffness = voigtAverages minerals [a, b] [x, y] stiffness := by
  simp only [voigtAverages, mineralTerms_swap _ a b hab x y]

/-- **mismatched grain counts are rejected** with `ValueError` -/
theorem mismatch_rejected_grains (m0 : MineralM) (rest : List MineralM) (assemblage : List ℕ)
    (phis : List ℝ) (stiffness : List Mat6) (h : ∃ m ∈ rest, m.nGrains ≠ m0.nGrains) :
    voigtAverages (m0 :: rest) assemblage phis stiffness = .error .valueError :=
  reject_grain_count _ m0 rest h

/-- **mismatched snapshot counts are rejected** with `ValueError` (orientation lists) -/
theorem mismatch_rejected_snapshots (m0 : MineralM) (rest : List MineralM) (assemblage : List ℕ)
    (phis : List ℝ) (stiffness : List Mat6)
    (h : ∃ m ∈ rest, m.orientations.length ≠ m0.orientations.length) :
    voigtAverages (m0 :: rest) assemblage phis stiffness = .error .valueError :=
  reject_snapshot_count _ m0 rest h

/-- … and fraction lists, the first mineral included -/
theorem mismatch_rejected_fractions (m0 : MineralM) (rest : List MineralM) (assemblage : List ℕ)
    (phis : List ℝ) (stiffness : List Mat6)
    (h : ∃ m ∈ m0 :: rest, m.fractions.length ≠ m0.orientations.length) :
    voigtAverages (m0 :: rest) assemblage phis stiffness = .error .valueError :=
  reject_fraction_count _ m0 rest h

/-- an empty mineral list is an `IndexError` (`minerals[0]`) -/
theorem empty_rejected (assemblage : List ℕ) (phis : List ℝ) (stiffness : List Mat6) :
    voigtAverages [] assemblage phis stiffness = .error .indexError := rfl

end ModelR.Tensors
