import Proofs.Drex
import Proofs.NoSlip
import ModelR.Solver
import Proofs.Solver
import Properties.C09
/-! # C07 — null forcing leaves the texture unchanged; unsupported regimes are rejected

Theorems about `ModelR.derivatives` (dispatch on raw ordinals, all integers), `ModelR.evalRhs`
(the solver right-hand side) and `ModelR.updateWith` (one update seen from outside). -/
namespace ModelR
open List

/-- **regimes documented as not yet supported raise** -/
theorem unsupported_rejected (regime phase fabric : Int) (h : regime = 2 ∨ regime = 3 ∨ regime = 5)
    (A : List Mat3) (f : List ℝ) (D L spin : Mat3) (q : DParams) :
    derivatives regime phase fabric A f D L spin q = .error .unsupportedRegime := by
  rcases h with h | h | h <;> subst h <;> simp [derivatives]

/-- **every out-of-range regime ordinal raises** (all integers, not a sample) -/
theorem out_of_range_rejected (regime phase fabric : Int) (h : regime < 0 ∨ 7 < regime)
    (A : List Mat3) (f : List ℝ) (D L spin : Mat3) (q : DParams) :
    derivatives regime phase fabric A f D L spin q = .error .badRegime := by
  have h0 : regime ≠ 0 := by omega
  have h1 : regime ≠ 1 := by omega
  have h2 : regime ≠ 2 := by omega
  have h3 : regime ≠ 3 := by omega
  have h4 : regime ≠ 4 := by omega
  have h5 : regime ≠ 5 := by omega
  have h6 : regime ≠ 6 := by omega
  have h7 : regime ≠ 7 := by omega
  simp [derivatives, h0, h1, h2, h3, h4, h5, h6, h7]

/-- the CRSS lookup accepts exactly the six supported (phase, fabric) pairs -/
theorem getCrss_ok_iff (phase fabric : Int) :
    (∃ c, getCrss phase fabric = .ok c) ↔
      ((phase = 0 ∧ 0 ≤ fabric ∧ fabric ≤ 4) ∨ (phase = 1 ∧ fabric = 5)) := by
  constructor
  · rintro ⟨c, hc⟩
    unfold getCrss at hc
    split_ifs at hc <;> omega
  · rintro (⟨hp, h0, h4⟩ | ⟨hp, hf⟩)
    · subst hp
      have : fabric = 0 ∨ fabric = 1 ∨ fabric = 2 ∨ fabric = 3 ∨ fabric = 4 := by omega
      rcases this with h | h | h | h | h <;> subst h <;> simp [getCrss]
    · subst hp; subst hf; simp [getCrss]

/-- **invalid or mismatched (phase, fabric) ordinals raise** in the dislocation-type regimes
(for a non-empty aggregate; the lookup happens per grain) -/
theorem bad_phase_fabric_rejected (regime phase fabric : Int) (hreg : regime = 4 ∨ regime = 6)
    (hbad : ¬ ((phase = 0 ∧ 0 ≤ fabric ∧ fabric ≤ 4) ∨ (phase = 1 ∧ fabric = 5)))
    (A : List Mat3) (hA : A ≠ []) (f : List ℝ) (D L spin : Mat3) (q : DParams) :
    ∃ e, derivatives regime phase fabric A f D L spin q = .error e ∧ (e = .badPhase ∨ e = .badFabric) := by
  have hne : A.isEmpty = false := by cases A <;> simp_all
  have hc : ∃ e, getCrss phase fabric = .error e ∧ (e = .badPhase ∨ e = .badFabric) := by
    unfold getCrss
    split_ifs <;> first | (exfalso; apply hbad; omega) | exact ⟨_, rfl, by simp⟩
  obtain ⟨e, he, hk⟩ := hc
  refine ⟨e, ?_, hk⟩
  rcases hreg with h | h <;> subst h <;> simp [derivatives, he, hne]

/-- **the two viscosity-bound regimes have zero rates** -/
theorem null_regimes_zero (regime phase fabric : Int) (h : regime = 0 ∨ regime = 7)
    (A : List Mat3) (f : List ℝ) (D L spin : Mat3) (q : DParams) :
    derivatives regime phase fabric A f D L spin q
      = .ok (A.map (fun _ => zero3), f.map (fun _ => 0)) := by
  rcases h with h | h <;> subst h <;> simp [derivatives]

/-- the rate vector returned by `eval_rhs` when all texture rates vanish -/
noncomputable def nullRhs (L : Mat3) (n : ℕ) (y : List ℝ) : List ℝ :=
  mat3ToList (mmul L (extractVars n y).1) ++ zerosR (n * 10)

theorem flatMap_zero3 (A : List Mat3) :
    (A.map (fun _ => zero3)).flatMap mat3ToList = zerosR (A.length * 9) := by
  induction A with
  | nil => simp [zerosR]
  | cons a as ih =>
    have h9 : mat3ToList zero3 = List.replicate 9 (0:ℝ) := by
      simp [mat3ToList, zero3, List.replicate]
    simp only [List.map_cons, List.flatMap_cons, ih, List.length_cons, zerosR, h9]
    rw [← List.replicate_add]; congr 1; omega

theorem zipWith_const_zero (f : List ℝ) (A : List Mat3) (h : A.length = f.length) :
    List.zipWith (fun _ _ => (0:ℝ)) f A = f.map (fun _ => 0) := by
  induction f generalizing A with
  | nil => simp
  | cons x xs ih =>
    cases A with
    | nil => simp at h
    | cons a as => simp only [List.zipWith_cons_cons, List.map_cons, ih as (by simpa using h)]

/-- the solver without any flow (`D = 0`, `L = 0`; `spin = 0` where the diffusion regime reads it): whenever it accepts
the ordinals, every rate is zero -/
theorem derivatives_no_flow (regime phase fabric : Int) (A : List Mat3) (f : List ℝ) (spin : Mat3) (q : DParams)
    (hs : regime = 1 → spin = zero3) (hlen : A.length = f.length) (ad : List Mat3) (fd : List ℝ)
    (h : derivatives regime phase fabric A f zero3 zero3 spin q = .ok (ad, fd)) :
    ad = A.map (fun _ => zero3) ∧ fd = f.map (fun _ => 0) := by
  have hz : ∀ damp : ℝ, ∀ crss : Crss, dislocationRates damp crss phase A f zero3 zero3 q
      = (A.map (fun _ => zero3), f.map (fun _ => 0)) := by
    intro damp crss
    rw [dislocationRates_zeroD, zipWith_const_zero f A hlen]
    congr 1
    apply List.map_congr_left; intro a _
    rw [noSlipRotation_zero]; funext i j; simp [smul3, zero3]
  have hnil : A.isEmpty = true → ((([] : List Mat3), ([] : List ℝ)) = (A.map (fun _ => zero3), f.map (fun _ => 0))) := by
    intro hA
    have : A = [] := by simpa using hA
    subst this
    have : f = [] := by simpa using hlen.symm
    subst this; rfl
  have hdis : ∀ damp : ℝ, (match getCrss phase fabric with
        | .error e => if A.isEmpty then (.ok ([], []) : Except Err (List Mat3 × List ℝ)) else .error e
        | .ok crss => .ok (dislocationRates damp crss phase A f zero3 zero3 q)) = .ok (ad, fd) →
      ad = A.map (fun _ => zero3) ∧ fd = f.map (fun _ => 0) := by
    intro damp h
    cases hc : getCrss phase fabric with
    | error e =>
      rw [hc] at h; simp only at h
      by_cases hA : A.isEmpty = true
      · rw [if_pos hA] at h
        injection h with h
        have := hnil hA
        rw [h] at this
        injection this with ha hf; exact ⟨ha, hf⟩
      · rw [if_neg hA] at h; cases h
    | ok crss =>
      rw [hc] at h; simp only at h
      injection h with h; rw [hz] at h; injection h with ha hf; exact ⟨ha.symm, hf.symm⟩
  by_cases h07 : regime = 0 ∨ regime = 7
  · rw [null_regimes_zero _ _ _ h07] at h
    injection h with h; injection h with ha hf; exact ⟨ha.symm, hf.symm⟩
  by_cases h1 : regime = 1
  · simp only [derivatives, if_neg h07, if_pos h1] at h
    injection h with h; injection h with ha hf
    rw [hs h1] at ha; exact ⟨ha.symm, hf.symm⟩
  by_cases h235 : regime = 2 ∨ regime = 3 ∨ regime = 5
  · rw [unsupported_rejected _ _ _ h235] at h; cases h
  by_cases h4 : regime = 4
  · simp only [derivatives, if_neg h07, if_neg h1, if_neg h235, if_pos h4] at h
    exact hdis 1 h
  by_cases h6 : regime = 6
  · simp only [derivatives, if_neg h07, if_neg h1, if_neg h235, if_neg h4, if_pos h6] at h
    exact hdis 0.3 h
  · simp only [derivatives, if_neg h07, if_neg h1, if_neg h235, if_neg h4, if_neg h6] at h
    cases h

/-- **a zero velocity gradient gives zero texture rates** in every accepted evaluation of the right-hand side, whatever the
regime, phase, fabric and parameters; the F block is still `L·F` (= 0). `emax = 0` and `spin = 0` are what the externals
(`eigvalsh`, polar decomposition of the zero matrix) return for `L = 0`; the rejected ordinals are still rejected
(`evalRhs_ok` goes through `derivatives`), which the unrepaired early return did not do. -/
theorem zero_L_zero_rates (phase fabric : Int) (n : ℕ) (mp : MParams) (env : RhsEnv) (y out : List ℝ)
    (hL : env.L = zero3) (he : env.emax = 0) (hspin : env.regime = 1 → env.spin = zero3)
    (hA : (extractVars n y).2.A.length = n) (hf : (extractVars n y).2.f.length = n)
    (h : evalRhs phase fabric n mp env y = .ok out) :
    out = nullRhs env.L n y := by
  obtain ⟨phi, _, ad, fd, hd, rfl⟩ := evalRhs_ok phase fabric n mp env y out h
  have hD : ndD env.L (rhsScale env) = zero3 := by
    funext i j; simp [ndD, hL, zero3]
  have hLz : ndL env.L (rhsScale env) = zero3 := by
    funext i j; simp [ndL, hL, zero3]
  rw [hD, hLz] at hd
  obtain ⟨rfl, rfl⟩ := derivatives_no_flow env.regime phase fabric _ _ env.spin _ hspin (by rw [hA, hf]) ad fd hd
  have hz : ∀ k : ℕ, (zerosR k).map (· * rhsScale env) = zerosR k := by
    intro k; simp [zerosR]
  have hz2 : ((extractVars n y).2.f.map (fun _ => (0:ℝ))) = zerosR n := by
    rw [List.map_const', hf]; rfl
  simp only [flatMap_zero3, hA, hz, hz2, nullRhs]
  simp only [zerosR, List.append_assoc, ← List.replicate_add]
  have h10 : n * 9 + n = n * 10 := by omega
  rw [h10]

/-- **an unsupported or out-of-range regime is rejected by the right-hand side whatever the flow** (also for `L = 0`,
where the unrepaired code returned numbers) -/
theorem rhs_rejects_bad_regime (phase fabric : Int) (n : ℕ) (mp : MParams) (env : RhsEnv) (y : List ℝ)
    (hreg : env.regime = 2 ∨ env.regime = 3 ∨ env.regime = 5 ∨ env.regime < 0 ∨ 7 < env.regime) :
    ∃ e, evalRhs phase fabric n mp env y = .error e := by
  cases hr : evalRhs phase fabric n mp env y with
  | error e => exact ⟨e, rfl⟩
  | ok out =>
    exfalso
    obtain ⟨phi, _, ad, fd, hd, _⟩ := evalRhs_ok phase fabric n mp env y out hr
    rcases hreg with h | h | h | h | h
    · rw [unsupported_rejected _ _ _ (Or.inl h)] at hd; cases hd
    · rw [unsupported_rejected _ _ _ (Or.inr (Or.inl h))] at hd; cases hd
    · rw [unsupported_rejected _ _ _ (Or.inr (Or.inr h))] at hd; cases hd
    · rw [out_of_range_rejected _ _ _ (Or.inl h)] at hd; cases hd
    · rw [out_of_range_rejected _ _ _ (Or.inr h)] at hd; cases hd

/-- **the null regimes give zero texture rates in the solver right-hand side** -/
theorem null_regime_rhs (phase fabric : Int) (n : ℕ) (mp : MParams) (env : RhsEnv)
    (y : List ℝ) (phi : ℝ) (hphi : lookupFraction mp.assemblage mp.fractions phase = .ok phi)
    (hreg : env.regime = 0 ∨ env.regime = 7)
    (hA : (extractVars n y).2.A.length = n) (hf : (extractVars n y).2.f.length = n) :
    evalRhs phase fabric n mp env y = .ok (nullRhs env.L n y) := by
  have hz : ∀ (k : ℕ) (e : ℝ), (zerosR k).map (· * e) = zerosR k := by
    intro k e; simp [zerosR]
  have hz2 : ((extractVars n y).2.f.map (fun _ => (0:ℝ))) = zerosR n := by
    rw [List.map_const', hf]; rfl
  simp only [evalRhs, hphi, null_regimes_zero env.regime phase fabric hreg, flatMap_zero3, hA, hz, hz2, nullRhs]
  simp only [zerosR, List.append_assoc, ← List.replicate_add]
  have h10 : n * 9 + n = n * 10 := by omega
  rw [h10]

/-- **a failed update leaves the stored history untouched** (nothing is appended unless the
solver loop ran to completion) -/
theorem failed_update_state_unchanged (m : Mineral) (chi : ℝ) :
    (updateWith m chi none).1 = m ∧ (updateWith m chi none).2 = none := by
  simp [updateWith]

/-- a successful update appends exactly one snapshot and keeps all earlier ones -/
theorem update_appends_one (m : Mineral) (chi : ℝ) (rs : List (List ℝ)) (hrs : rs ≠ []) :
    ∃ t F, updateWith m chi (some rs) = ({ m with snaps := m.snaps ++ [t] }, some F) := by
  obtain ⟨raw, hraw⟩ : ∃ raw, rs.getLast? = some raw := by
    cases h : rs.getLast? with
    | none => simp [List.getLast?_eq_none_iff] at h; exact absurd h hrs
    | some r => exact ⟨r, rfl⟩
  refine ⟨(extractVars m.n (postStep chi m.n (lastA m) raw)).2,
    (extractVars m.n (postStep chi m.n (lastA m) raw)).1, ?_⟩
  simp [updateWith, hraw]

/-- a valid texture: entries in [-1, 1], fractions on the simplex -/
def ValidTex (t : Tex) : Prop :=
  (∀ a ∈ t.A, ∀ i j, -1 ≤ a i j ∧ a i j ≤ 1) ∧ (∀ x ∈ t.f, 0 ≤ x) ∧ t.f.sum = 1

theorem clip_id (x : ℝ) (h : -1 ≤ x ∧ x ≤ 1) : clip (-1) 1 x = x := by
  unfold clip
  split_ifs with h1 h2 <;> linarith [h.1, h.2]

/-- `extract_vars` is the identity on a valid texture -/
theorem extractTex_id (t : Tex) (hv : ValidTex t) : extractTex t = t := by
  obtain ⟨hA, hpos, hsum⟩ := hv
  have hf := extract_id_on_simplex t.f t.A hpos hsum
  have hAid : t.A.map (fun a => fun i j => clip (-1) 1 (a i j)) = t.A := by
    conv_rhs => rw [← List.map_id t.A]
    apply List.map_congr_left
    intro a ha
    funext i j
    exact clip_id _ (hA a ha i j)
  cases t with
  | mk A f =>
    simp only [extractTex] at hf ⊢
    simp only at hAid
    rw [hAid]
    congr 1

/-- `apply_gbs` is the identity on a valid texture none of whose grains is below the floor -/
theorem applyGbs_id (chi : ℝ) (n : ℕ) (prev : List Mat3) (t : Tex) (hv : ValidTex t)
    (hA : t.A.length = t.f.length) (hp : prev.length = t.f.length)
    (hfloor : ∀ x ∈ t.f, ¬ x < chi / n) : applyGbs chi n prev t = t := by
  obtain ⟨_, hpos, hsum⟩ := hv
  have hfl : gbsFloored (chi / n) t.f = t.f := by
    simp only [gbsFloored]
    conv_rhs => rw [← List.map_id t.f]
    apply List.map_congr_left
    intro x hx
    simp [hfloor x hx]
  have hf : (applyGbs chi n prev t).f = t.f := by
    rw [applyGbs_f, hfl, hsum]
    conv_rhs => rw [← List.map_id t.f]
    apply List.map_congr_left
    intro x _; simp
  have hAeq : (applyGbs chi n prev t).A = t.A := by
    apply List.ext_getElem
    · simp [applyGbs, hA, hp]
    · intro i h1 h2
      have hif : i < t.f.length := by omega
      exact unmasked_keeps_own chi n prev t i h2 (by omega) hif (hfloor _ (List.getElem_mem _))
  cases t with
  | mk A f =>
    have e : applyGbs chi n prev ⟨A, f⟩ = ⟨(applyGbs chi n prev ⟨A, f⟩).A, (applyGbs chi n prev ⟨A, f⟩).f⟩ := rfl
    rw [e, hf, hAeq]

/-- **null forcing leaves the texture unchanged**: when the solver vector still holds the valid
texture the update started from (which every integrator produces from identically zero texture
rates) and no grain is below the sliding floor, `perform_step`'s post-processing is the identity,
so the snapshot appended by the update IS the previous snapshot. -/
theorem null_run_constant (chi : ℝ) (n : ℕ) (prev : List Mat3) (F : Mat3) (t : Tex)
    (hv : ValidTex t) (hA : t.A.length = n) (hf : t.f.length = n) (hp : prev.length = n)
    (hfloor : ∀ x ∈ t.f, ¬ x < chi / n) :
    postStep chi n prev (packY F t) = packY F t ∧ extractVars n (packY F t) = (F, t) := by
  have hx : extractVars n (packY F t) = (F, t) := by
    unfold extractVars
    rw [unpackY_packY n F t hA hf]
    simp [extractTex_id t hv]
  refine ⟨?_, hx⟩
  unfold postStep
  rw [hx]
  simp only
  rw [applyGbs_id chi n prev t hv (by omega) (by omega) hfloor]

end ModelR
