import Proofs.ScsvFaults
import Proofs.ScsvTerse
import Proofs.ScsvErrors
import Proofs.YamlScalar
import Proofs.ScsvDomain
/-! # C16 — SCSV save/read round trip is lossless; invalid schemas and data are refused

Theorems about `Scsv.save` / `Scsv.read` (the model of `pydrex.io.save_scsv` / `read_scsv` at /repo
commit cc8cd84, tied to the code by the correspondence check K29–K31: file bytes and parsed tuples
compared exactly on every run). All statements are for every number of fields, every number of
rows, every delimiter / missing marker / fill / cell in the stated classes.

The CPython externals (`repr(float)`, `float(str)`, `str(complex)`, `complex(str)`) are the
parameter `E`; their assumed behaviour is the HYPOTHESIS `FloatSpec E` (never an axiom), shown
satisfiable in `Witness/C16.lean` and validated on the running interpreter by the harness.

Hypotheses the proofs forced beyond the property's stated domain are collected in `HeaderOK` and
`CellOK`; every one of them has a negation witness in `Witness/C16.lean` and is replayed on the
real code by the harness (known findings), or was repaired in /repo (`fixed:` lines). -/
namespace Scsv.C16
open Scsv Csv Yaml

/-! ## schema validation -/

/-- **validate_iff** – `_validate_scsv_schema` returns `True` exactly for the schemas that have the
three keys, at least one field, a delimiter neither equal to nor contained in the missing marker,
identifier field names, known types, and a fill on every field that is not string/boolean. -/
theorem validate_iff (s : Schema) : validate s = .ok true ↔ SchemaValid s := Scsv.validate_iff s

/-- the validation never raises (a field without `name` is reported as invalid since commit c90071b) -/
theorem validate_never_raises (s : Schema) : ∃ b, validate s = .ok b := validate_total s

/-! ## layer 1/2: cell codec and fill substitution -/

/-- `int(str(i)) == i` for every Python int (model of `str(int)` / `int(str)`) -/
theorem int_str_roundtrip (i : Int) : pyIntOfStr (pyStrInt i) = some i := pyIntOfStr_pyStrInt i

/-- **cell_roundtrip** – for every column type `t`, fill `fill` (usable: `FillOK`), missing marker
`m = m.strip()` and representable cell `d` (`CellOK`): what `save_scsv` writes for the cell is the
missing marker iff the cell equals the fill (`cellEqFill`: Python `==`, NaN equal to NaN), and
`_parse_scsv_cell` of that text with the fill as the reader sees it (`str(fill)`) returns the cell,
or the fill value where the cell equals it. -/
theorem cell_roundtrip (E : FloatExt) (hE : FloatSpec E) (m : Str) (t : Ty) (fill : PyVal) (fv : Val) (d : Val)
    (hm : strip m = m) (hfill : t ≠ .bool → FillOK E t fill fv) (hd : CellOK E m t fv d) :
    ∃ w, saveCell E m t fill d = .ok w ∧
      w = (if t ≠ .bool ∧ cellEqFill d fv = true then m else pyStr E d) ∧
      parseCell E t w m (.str (pyStrP E fill)) = .ok (expectedCell t fv d) :=
  ⟨_, saveCell_ok E m t fill fv d hfill hd hE, rfl, parseCell_written E m t fill fv d hm hfill hd hE⟩

/-- a string-typed column accepts every fill object: the reader's `str(str(fill))` is `str(fill)` -/
theorem fill_ok_string (E : FloatExt) (fill : PyVal) : FillOK E .str fill (.str (pyStrP E fill)) :=
  ⟨by simp [construct], by simp [construct, pyStrP]⟩

/-- a fill given as a string is seen unchanged by the reader, whatever the type -/
theorem fill_ok_of_string (E : FloatExt) (t : Ty) (s : Str) (fv : Val) (h : construct E t (.str s) = .ok fv) :
    FillOK E t (.str s) fv := ⟨h, by simpa [pyStrP] using h⟩

/-- an integer column with an `int` fill: the header carries `str(i)`, the reader computes `int(str(i))` -/
theorem fill_ok_int (E : FloatExt) (i : Int) : FillOK E .int (.int i) (.int i) :=
  ⟨by simp [construct], by simp [construct, pyStrP, pyIntOfStr_pyStrInt, optErr, Except.map]⟩

/-- a float column with a `float` fill (e.g. `np.nan`) -/
theorem fill_ok_float (E : FloatExt) (hE : FloatSpec E) (x : FBits) (hx : Canon x) : FillOK E .float (.float x) (.float x) :=
  ⟨by simp [construct], by simp [construct, pyStrP, hE.fparse_frepr x hx, optErr, Except.map]⟩

/-! ## layer 3: CSV row codec -/

/-- **row_roundtrip** – `csv.reader(skipinitialspace=True)` over the lines `csv.writer`
(QUOTE_MINIMAL) wrote returns the records, for every number of records and fields, every
delimiter that is not a quote / line break, and all fields without line breaks and without
a leading blank (delimiters, quotes, inner and trailing blanks inside fields are fine); with a
blank as delimiter the fields must be non-empty (`BlankOK`: `skipinitialspace` swallows an empty field). -/
theorem row_roundtrip (d : Char) (hd : DelimOK d) (rows : List (List Str))
    (hne : ∀ r ∈ rows, r ≠ []) (hf : ∀ r ∈ rows, ∀ f ∈ r, FieldOK f) (hb : ∀ r ∈ rows, ∀ f ∈ r, BlankOK d f) :
    readRows d (rows.map (fun r => writeRow d r ++ ['\n'])) = some rows :=
  readRows_writeRows d hd rows hne hf hb

/-! ## layer 4: header codec -/

/-- a single-quoted scalar written by `_yaml_quoted` is read back verbatim by the YAML scanner -/
theorem quoted_scalar_roundtrip (v : Str) (hv : YamlSafe v) : parseQuotedValue (yamlQuoted v) = .ok v :=
  parseQuotedValue_yamlQuoted v hv

/-- **header_roundtrip** – the schema reconstructed from the lines `write_scsv_header` wrote is the
written schema with every scalar replaced by its `str()` (`normField`), for every number of fields. -/
theorem header_roundtrip (E : FloatExt) (d m : Str) (fs : List Field) (hd : YamlSafe d) (hm : YamlSafe m)
    (hne : fs ≠ []) (hf : ∀ f ∈ fs, FieldHeaderOK E f) :
    parseHeader ((headerLines E d m fs).map (· ++ ['\n'])) = .ok ⟨some d, some m, some (fs.map (normField E))⟩ :=
  parseHeader_headerLines E d m fs hd hm hne hf

/-- the YAML implicit resolver on identifiers: an identifier written as a PLAIN scalar (what the header
writer did before commit 78c9fb7) is read back as itself unless it matches PyYAML's bool or null pattern
(`yes`, `No`, `ON`, `true`, `null`, …); it is never taken for a number or a timestamp. -/
theorem yaml_identifier_plain_resolution (n : Str) (h : isIdentifier n = true) :
    resolvePlain n = .str n ∨ reBool.matchesStr n = true ∨ reNull.matchesStr n = true :=
  identifier_plain_resolution n h

/-! ## the composed property -/

/-- the schema has a single-character delimiter and safe header scalars (`HeaderOK`) -/
def HeaderSafe (E : FloatExt) (s : Schema) : Prop :=
  ∃ dc m fs, s = ⟨some [dc], some m, some fs⟩ ∧ HeaderOK E dc m fs

/-- equal-length columns (`n ≥ 1` rows), one per field, each representable (`ColOK`); if the delimiter
is a blank, no written field is empty (missing marker and cell texts non-empty) -/
def Representable (E : FloatExt) (s : Schema) (data : List (List Val)) : Prop :=
  ∃ dc m fs n, s = ⟨some [dc], some m, some fs⟩ ∧ 0 < n ∧ Rect n data ∧ Forall₂ (ColOK E m) fs data ∧
    (dc = ' ' → m ≠ [] ∧ ∀ col ∈ data, ∀ d ∈ col, pyStr E d ≠ [])

/-- **save_read_roundtrip** – for every valid schema, every representable data set and externals
satisfying the assumed spec: `save_scsv` succeeds, and `read_scsv` of the written file returns the
same field names in order and exactly the same typed values, where cells equal to a field's fill
value are read back as the fill value (`expectedTable`). -/
theorem save_read_roundtrip (E : FloatExt) (hE : FloatSpec E) (s : Schema) (data : List (List Val))
    (hv : SchemaValid s) (hh : HeaderSafe E s) (hr : Representable E s data) :
    ∃ txt fs, s.fields = some fs ∧ save E s data = .ok txt ∧
      read E txt = .ok (fieldNames fs, expectedTable E fs data) := by
  obtain ⟨dc, m, fs, rfl, hok⟩ := hh
  obtain ⟨dc', m', fs', n, heq, hn, hrect, hcols, hblank⟩ := hr
  cases heq
  obtain ⟨txt, h1, h2⟩ := read_save E hE dc m fs data n hv hok hn hrect hcols hblank
  exact ⟨txt, fs, rfl, h1, h2⟩

/-- **the domain of the theorem is executable**: `domainFailures` (run by the driver on every generated
case) lists the violated hypotheses; an empty list implies the round trip. -/
theorem domain_checked_roundtrip (E : FloatExt) (hE : FloatSpec E) (s : Schema) (data : List (List Val))
    (h : domainFailures E s data = []) :
    ∃ txt fs, s.fields = some fs ∧ save E s data = .ok txt ∧
      read E txt = .ok (fieldNames fs, expectedTable E fs data) :=
  Scsv.domain_checked_roundtrip E hE s data h

/-! ## single faults (as the code is written) -/

/-- **single_fault_rejected, schema level** – every schema that is not valid (missing key, no fields,
field without name, non-identifier name, unknown type, numeric field without fill, delimiter equal to
or contained in the missing marker) is refused with the SCSV error, for every data set with at least
one column (and with no column at all: `single_fault_no_columns`). -/
theorem single_fault_invalid_schema (E : FloatExt) (s : Schema) (data : List (List Val)) (hne : data ≠ [])
    (hinv : ¬ SchemaValid s) : save E s data = .error .scsv := save_invalid_schema E s data hne hinv

theorem fault_missing_key (s : Schema) (h : s.delimiter = none ∨ s.missing = none ∨ s.fields = none) :
    ¬ SchemaValid s := invalid_missing_key s h
theorem fault_no_fields (s : Schema) (h : s.fields = some []) : ¬ SchemaValid s := invalid_no_fields s h
theorem fault_delimiter_equals_missing (s : Schema) (d : Str) (h1 : s.delimiter = some d) (h2 : s.missing = some d) :
    ¬ SchemaValid s := invalid_delimiter_eq_missing s d h1 h2
theorem fault_delimiter_in_missing (s : Schema) (d m : Str) (h1 : s.delimiter = some d) (h2 : s.missing = some m)
    (h : isInfix d m = true) : ¬ SchemaValid s := invalid_delimiter_in_missing s d m h1 h2 h
/-- field without name, non-identifier name, unknown type, or numeric field without fill -/
theorem fault_bad_field (s : Schema) (fs : List Field) (f : Field) (h1 : s.fields = some fs) (hf : f ∈ fs)
    (h : f.name = none ∨ (∃ n, f.name = some n ∧ isIdentifier n = false) ∨ typeOf f.typeName = none ∨
      (∃ t, typeOf f.typeName = some t ∧ t ≠ .str ∧ t ≠ .bool ∧ f.fill = none)) : ¬ SchemaValid s :=
  invalid_field s fs f h1 hf h

/-- **unequal column lengths** are refused whatever the schema is -/
theorem single_fault_unequal_columns (E : FloatExt) (s : Schema) (c0 : List Val) (cs : List (List Val))
    (h : ∃ c ∈ cs, c.length ≠ c0.length) : save E s (c0 :: cs) = .error .scsv :=
  save_unequal_columns E s c0 cs h

/-- **wrong column count / unparseable cell** – valid schema, equal column lengths; the rows before
the faulty one are written without error and the faulty row raises `ValueError` (`zip(strict=True)`:
more or fewer cells than fields, see the two lemmas below) or the SCSV error of an unparseable
cell: the SCSV error is raised. -/
theorem single_fault_bad_row (E : FloatExt) (hE : FloatSpec E) (dc : Char) (m : Str) (fs : List Field)
    (c0 : List Val) (cs : List (List Val)) (hlen : ∀ c ∈ cs, c.length = c0.length)
    (hvalid : validate ⟨some [dc], some m, some fs⟩ = .ok true)
    (good : List (List Val)) (bad : List Val) (rest : List (List Val))
    (hrows : zipStar (c0 :: cs) = good ++ bad :: rest)
    (hgood : ∀ row ∈ good, ∃ cells, saveRowCells E m row (colSpecs fs) = .ok cells)
    (hbad : saveRowCells E m bad (colSpecs fs) = .error .value ∨ saveRowCells E m bad (colSpecs fs) = .error .scsv) :
    save E ⟨some [dc], some m, some fs⟩ (c0 :: cs) = .error .scsv :=
  save_bad_row E hE dc m fs c0 cs hlen hvalid good bad rest hrows hgood hbad

/-- a row with more cells than fields (after representable cells) raises `ValueError` -/
theorem row_too_many_cells (E : FloatExt) (hE : FloatSpec E) (m : Str) (fs : List Field) (row : List Val)
    (h : Forall₂ (fun f d => FieldFillOK E f ∧ CellOK E m f.ty (fillValue E f) d) fs row)
    (extra : List Val) (hx : extra ≠ []) : saveRowCells E m (row ++ extra) (colSpecs fs) = .error .value :=
  saveRowCells_too_many E hE m fs row h extra hx

/-- a row with fewer cells than fields raises `ValueError` -/
theorem row_too_few_cells (E : FloatExt) (hE : FloatSpec E) (m : Str) (fs : List Field) (row : List Val)
    (h : Forall₂ (fun f d => FieldFillOK E f ∧ CellOK E m f.ty (fillValue E f) d) fs row)
    (more : List Field) (hx : more ≠ []) : saveRowCells E m row (colSpecs (fs ++ more)) = .error .value :=
  saveRowCells_too_few E hE m fs row h more hx

/-- a row whose first non-representable cell cannot be parsed as its declared type raises the SCSV error -/
theorem row_unparseable_cell (E : FloatExt) (hE : FloatSpec E) (m : Str) (fs : List Field) (row : List Val)
    (h : Forall₂ (fun f d => FieldFillOK E f ∧ CellOK E m f.ty (fillValue E f) d) fs row)
    (f : Field) (d : Val) (post : List Field) (rowPost : List Val)
    (hd : parseCell E f.ty (pyStr E d) m f.fillVal = .error .value) :
    saveRowCells E m (row ++ d :: rowPost) (colSpecs (fs ++ f :: post)) = .error .scsv :=
  saveRowCells_unparseable E hE m fs row h f d post rowPost hd

/-- **wrong column count, no columns at all** – refused whatever the schema is (`IndexError` before commit cc8cd84) -/
theorem single_fault_no_columns (E : FloatExt) (s : Schema) : save E s [] = .error .scsv :=
  save_no_columns E s

/-! ## which exception classes can escape (for EVERY schema, data set and file text) -/

/-- `save_scsv` ends – whatever the schema and the data are – in the SCSV error, `TypeError` (delimiter
that is not one character; `np.isnan` of a string cell in a float/complex column) or outside the
model; never in a bare `ValueError`, `KeyError` or `IndexError`. -/
theorem save_exception_classes (E : FloatExt) (s : Schema) (data : List (List Val)) (e : Err)
    (h : save E s data = .error e) : e ∈ [Err.scsv, .type, .unmodelled] :=
  save_errIn E s data e h

/-- `read_scsv` ends – whatever the text of the file is – in the SCSV error, the YAML error, `TypeError`
(empty header, multi-character delimiter), `StopIteration` (no CSV lines), `ValueError`, or outside the model … -/
theorem read_exception_classes (E : FloatExt) (txt : Str) (e : Err) (h : read E txt = .error e) :
    e ∈ [Err.scsv, .yaml, .type, .csv, .stopIteration, .value, .unmodelled] :=
  readLines_errIn E _ e h

/-- … and the only `ValueError` left is the one of `collections.namedtuple` rejecting the field names
(ragged rows, wrong column count and unparseable cells are the SCSV error). -/
theorem read_ValueError_only_from_namedtuple (E : FloatExt) (txt : Str) (h : read E txt = .error .value) :
    ∃ s fs, parseHeader (fenceSplit (splitLines (universalNewlines txt)) false false).1 = .ok s ∧
      s.fields = some fs ∧ namedtupleOK (fs.map (fun f => f.name.getD [])) = false :=
  readLines_value E _ h

/-! ## the terse schema notation (`parse_scsv_schema`) -/

/-- every failure of `parse_scsv_schema` is the SCSV error -/
theorem terse_errors_are_SCSVError (s : Str) (e : Err) (h : parseTerse s = .error e) : e = .scsv :=
  parseTerse_error s e h

/-- a string that does not start with `d`, or has no `:`, or has its first `:` before position 4, or has no
`m` from position 2 on before that `:`, is refused -/
theorem terse_refused (s : Str)
    (h : s.head? ≠ some 'd' ∨ findChar ':' s = none ∨ (∃ ic, findChar ':' s = some ic ∧ ic < 4) ∨
      (∃ ic, findChar ':' s = some ic ∧
        (findChar 'm' (s.take ic) = none ∨ ∃ im, findChar 'm' (s.take ic) = some im ∧ im < 2))) :
    parseTerse s = .error .scsv := by
  rcases h with h | h | ⟨ic, h, h4⟩ | ⟨ic, h, hm⟩
  · exact parseTerse_not_d s h
  · exact parseTerse_no_colon s h
  · exact parseTerse_early_colon s ic h h4
  · exact parseTerse_no_m s ic h hm

/-- whatever `parse_scsv_schema` accepts is a complete schema: three keys, at least one field, every field
with a name, a known type and a fill (default `""`) -/
theorem terse_result_is_complete (s : Str) (sch : Schema) (h : parseTerse s = .ok sch) :
    ∃ d m fs, sch = ⟨some d, some m, some fs⟩ ∧ fs ≠ [] ∧
      ∀ f ∈ fs, f.name.isSome = true ∧ (∃ t, typeOf f.typeName = some t) ∧ f.fill.isSome = true :=
  parseTerse_shape s sch h


/-- **parsed fields**: the terse notation `d<delim>m<missing>:name(code:fill:unit)…` denotes exactly the
schema it spells, for every delimiter without `m`/`:`, missing marker without `:`, and every non-empty
list of expressible columns (any number). -/
theorem terse_denotation (d m : Str) (cols : List TCol) (hd : d ≠ []) (hdm : 'm' ∉ d) (hdc : ':' ∉ d)
    (hmc : ':' ∉ m) (hlen : 2 ≤ d.length + m.length) (hne : cols ≠ []) (h : ∀ c ∈ cols, c.OK) :
    parseTerse (printTerse d m cols) = .ok ⟨some d, some m, some (cols.map TCol.field)⟩ :=
  parseTerse_printTerse d m cols hd hdm hdc hmc hlen hne h

end Scsv.C16
