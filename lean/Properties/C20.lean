import Proofs.Density
/-! # C20 — coordinate conversions and pole-figure primitives are geometrically correct

Theorems about `ModelR.Geom.*` and `ModelR.Density.*` (the model of `geometry.to_cartesian`,
`to_spherical` — as repaired by `fix:` c4cf356 —, `poles`, `lambert_equal_area`, `stats.point_density`
and its five kernels; tied to the code by the correspondence check K38–K41).
`Ratan2 y x = Complex.arg ⟨x, y⟩`, `Racos = Real.arccos`, `Rsin/Rcos = Real.sin/cos`. -/
namespace ModelR.C20
open ModelR.Diag ModelR.Geom ModelR.Density ModelD.RefAxes

/-! ## Cartesian ↔ spherical -/

/-- `to_cartesian` of any angles is a point at distance `|r|` from the origin -/
theorem to_cartesian_on_sphere (φ θ r : ℝ) :
    (toCartesian φ θ r).1 ^ 2 + (toCartesian φ θ r).2.1 ^ 2 + (toCartesian φ θ r).2.2 ^ 2 = r ^ 2 :=
  toCartesian_normsq φ θ r

/-- **Cartesian → spherical → Cartesian is the identity on ℝ³ ∖ {0}** -/
theorem cart_sph_cart (x y z : ℝ) (h : (x, y, z) ≠ (0, 0, 0)) :
    toCartesian (toSpherical x y z).2.1 (toSpherical x y z).2.2 (toSpherical x y z).1 = (x, y, z) := by
  have hs : 0 < x * x + y * y + z * z := by
    rcases lt_or_eq_of_le (by nlinarith [mul_self_nonneg x, mul_self_nonneg y, mul_self_nonneg z] :
        0 ≤ x * x + y * y + z * z) with h1 | h1
    · exact h1
    · exfalso; apply h
      have hx : x = 0 := by nlinarith [mul_self_nonneg x, mul_self_nonneg y, mul_self_nonneg z]
      have hy : y = 0 := by nlinarith [mul_self_nonneg x, mul_self_nonneg y, mul_self_nonneg z]
      have hz : z = 0 := by nlinarith [mul_self_nonneg x, mul_self_nonneg y, mul_self_nonneg z]
      rw [hx, hy, hz]
  have hr : Real.sqrt (x * x + y * y + z * z) ≠ 0 := (Real.sqrt_pos.mpr hs).ne'
  simp only [toSpherical, toCartesian, Rsqrt, Racos, Ratan2, Rsin, Rcos]
  rw [cos_colat x y z hs, sin_colat x y z hs]
  have e1 : Real.sqrt (x * x + y * y + z * z) * (Real.sqrt (x * x + y * y) / Real.sqrt (x * x + y * y + z * z))
      = Real.sqrt (x * x + y * y) := by rw [← mul_div_assoc, mul_div_cancel_left₀ _ hr]
  rw [e1, rho_cos_arg, rho_sin_arg]
  congr 2
  rw [← mul_div_assoc, mul_div_cancel_left₀ _ hr]

/-- **spherical → Cartesian → spherical is the identity** on `r > 0`, `0 < θ < π`, `−π < ϕ ≤ π`
(on the z axis the longitude is not determined) -/
theorem sph_cart_sph (r φ θ : ℝ) (hr : 0 < r) (hθ0 : 0 < θ) (hθ1 : θ < Real.pi)
    (hφ : φ ∈ Set.Ioc (-Real.pi) Real.pi) :
    toSpherical (toCartesian φ θ r).1 (toCartesian φ θ r).2.1 (toCartesian φ θ r).2.2 = (r, φ, θ) := by
  have hn := toCartesian_normsq φ θ r
  have hsin : 0 < Real.sin θ := Real.sin_pos_of_pos_of_lt_pi hθ0 hθ1
  simp only [toCartesian, Rsin, Rcos] at hn ⊢
  have hsq : Real.sqrt (r * Real.sin θ * Real.cos φ * (r * Real.sin θ * Real.cos φ)
      + r * Real.sin θ * Real.sin φ * (r * Real.sin θ * Real.sin φ) + r * Real.cos θ * (r * Real.cos θ)) = r := by
    have : r * Real.sin θ * Real.cos φ * (r * Real.sin θ * Real.cos φ)
      + r * Real.sin θ * Real.sin φ * (r * Real.sin θ * Real.sin φ) + r * Real.cos θ * (r * Real.cos θ) = r ^ 2 := by
      linear_combination hn
    rw [this, Real.sqrt_sq hr.le]
  simp only [toSpherical, Rsqrt, Racos, Ratan2, hsq]
  have h1 : r * Real.cos θ / r = Real.cos θ := by field_simp
  rw [h1, Real.arccos_cos hθ0.le hθ1.le]
  have h2 : (⟨r * Real.sin θ * Real.cos φ, r * Real.sin θ * Real.sin φ⟩ : ℂ)
      = ((r * Real.sin θ : ℝ) : ℂ) * (Complex.cos φ + Complex.sin φ * Complex.I) := by
    apply Complex.ext <;> simp [Complex.cos_ofReal_re, Complex.sin_ofReal_re, Complex.cos_ofReal_im, Complex.sin_ofReal_im]
  rw [h2, Complex.arg_mul_cos_add_sin_mul_I (mul_pos hr hsin) hφ]

/-- **the documented convention**: the first value is the distance from the origin, the second is the
longitude `ϕ = arg(x + iy) ∈ (−π, π]` measured from the x axis towards the y axis
(`ρ cos ϕ = x`, `ρ sin ϕ = y`, `ρ = √(x²+y²)`), the third is the colatitude `θ ∈ [0, π]` measured from
the z axis (`r cos θ = z`, `r sin θ = ρ`) -/
theorem spherical_convention (x y z : ℝ) (h : (x, y, z) ≠ (0, 0, 0)) :
    let r := (toSpherical x y z).1
    let φ := (toSpherical x y z).2.1
    let θ := (toSpherical x y z).2.2
    let ρ := Real.sqrt (x * x + y * y)
    r = Real.sqrt (x * x + y * y + z * z) ∧ 0 < r
    ∧ -Real.pi < φ ∧ φ ≤ Real.pi ∧ ρ * Real.cos φ = x ∧ ρ * Real.sin φ = y
    ∧ 0 ≤ θ ∧ θ ≤ Real.pi ∧ r * Real.cos θ = z ∧ r * Real.sin θ = ρ := by
  intro r φ θ ρ
  have hs : 0 < x * x + y * y + z * z := by
    rcases lt_or_eq_of_le (by nlinarith [mul_self_nonneg x, mul_self_nonneg y, mul_self_nonneg z] :
        0 ≤ x * x + y * y + z * z) with h1 | h1
    · exact h1
    · exfalso; apply h
      have hx : x = 0 := by nlinarith [mul_self_nonneg x, mul_self_nonneg y, mul_self_nonneg z]
      have hy : y = 0 := by nlinarith [mul_self_nonneg x, mul_self_nonneg y, mul_self_nonneg z]
      have hz : z = 0 := by nlinarith [mul_self_nonneg x, mul_self_nonneg y, mul_self_nonneg z]
      rw [hx, hy, hz]
  have hr : 0 < Real.sqrt (x * x + y * y + z * z) := Real.sqrt_pos.mpr hs
  refine ⟨rfl, hr, Complex.neg_pi_lt_arg _, Complex.arg_le_pi _, rho_cos_arg x y, rho_sin_arg x y,
    Real.arccos_nonneg _, Real.arccos_le_pi _, ?_, ?_⟩
  · show Real.sqrt (x * x + y * y + z * z) * Real.cos (Real.arccos (z / Real.sqrt (x * x + y * y + z * z))) = z
    rw [cos_colat x y z hs, ← mul_div_assoc, mul_div_cancel_left₀ _ hr.ne']
  · show Real.sqrt (x * x + y * y + z * z) * Real.sin (Real.arccos (z / Real.sqrt (x * x + y * y + z * z))) = ρ
    rw [sin_colat x y z hs, ← mul_div_assoc, mul_div_cancel_left₀ _ hr.ne']

/-! ## crystallographic poles -/

/-- the pole is the normalised `Aᵀ · hkl`, a unit vector whenever `Aᵀ · hkl ≠ 0` -/
theorem poles_unit_and_direction (a : Mat3) (hkl : Vec3) (h : rawDir a hkl ≠ 0) :
    poleDir a hkl = (fun i => mulVec (tr a) hkl i / Real.sqrt (dot3 (mulVec (tr a) hkl) (mulVec (tr a) hkl)))
    ∧ dot3 (poleDir a hkl) (poleDir a hkl) = 1 :=
  ⟨poleDir_eq a hkl, poleDir_unit a hkl h⟩

/-- for an orientation matrix (orthonormal rows) the pole is the requested crystal direction
`hkl/|hkl|` expressed in the external frame: `Σ_j (hkl_j/|hkl|) · (crystal axis j)`, crystal axis `j`
being row `j` of the matrix -/
theorem poles_crystal_direction (a : Mat3) (hkl : Vec3) (ha : mmul a (tr a) = one3) :
    poleDir a hkl = fun i => sum3 fun j => (hkl j / Real.sqrt (dot3 hkl hkl)) * a j i := by
  rw [poleDir_eq, rawDir_norm a hkl ha]
  funext i
  simp only [rawDir, mulVec, tr, sum3]
  ring

/-- in particular `hkl = e_k` gives row `k` of the orientation matrix (the k-th crystal axis) -/
theorem poles_basis_is_row (a : Mat3) (k : Fin 3) (ha : mmul a (tr a) = one3) :
    poleDir a (fun j => if j = k then 1 else 0) = a k := by
  rw [poles_crystal_direction a _ ha]
  funext i
  fin_cases k <;> simp [dot3, sum3]

/-- **the reference-axes string permutes the components**: for two distinct letters `c0 c1` of `xyz`
the outputs are (component `c0`, component `c1`, remaining component), a permutation of the three -/
theorem ref_axes_permutation (c0 c1 : Char) (h0 : c0 ∈ ['x', 'y', 'z']) (h1 : c1 ∈ ['x', 'y', 'z'])
    (hne : c0 ≠ c1) :
    ∃ ix iy iz : Fin 3, resolveChars [c0, c1] = .ok (ix, iy, some iz)
      ∧ axesMap c0 = some ix ∧ axesMap c1 = some iy ∧ ix ≠ iy ∧ iz ≠ ix ∧ iz ≠ iy := by
  simp only [List.mem_cons, List.not_mem_nil, or_false] at h0 h1
  rcases h0 with rfl | rfl | rfl <;> rcases h1 with rfl | rfl | rfl <;>
    first
    | exact absurd rfl hne
    | exact ⟨0, 1, 2, by decide⟩ | exact ⟨0, 2, 1, by decide⟩ | exact ⟨1, 0, 2, by decide⟩
    | exact ⟨1, 2, 0, by decide⟩ | exact ⟨2, 0, 1, by decide⟩ | exact ⟨2, 1, 0, by decide⟩

/-- the six documented strings, in either case, as a table -/
theorem ref_axes_table :
    resolve "xy" = .ok (0, 1, some 2) ∧ resolve "xz" = .ok (0, 2, some 1)
    ∧ resolve "yx" = .ok (1, 0, some 2) ∧ resolve "yz" = .ok (1, 2, some 0)
    ∧ resolve "zx" = .ok (2, 0, some 1) ∧ resolve "zy" = .ok (2, 1, some 0)
    ∧ resolve "XY" = .ok (0, 1, some 2) ∧ resolve "XZ" = .ok (0, 2, some 1)
    ∧ resolve "YX" = .ok (1, 0, some 2) ∧ resolve "YZ" = .ok (1, 2, some 0)
    ∧ resolve "ZX" = .ok (2, 0, some 1) ∧ resolve "ZY" = .ok (2, 1, some 0) := by
  refine ⟨?_, ?_, ?_, ?_, ?_, ?_, ?_, ?_, ?_, ?_, ?_, ?_⟩ <;> rfl

/-- `poles` end to end for a string that resolves: each grain's pole, components permuted -/
theorem poles_permuted (A : List Mat3) (s : String) (hkl : Vec3) (ix iy iz : Fin 3)
    (hs : resolve s = .ok (ix, iy, some iz)) :
    poles A s hkl = .ok (A.map fun a => (poleDir a hkl ix, poleDir a hkl iy, some (poleDir a hkl iz))) := by
  simp [poles, hs]

/-! ## Lambert equal-area projection -/

/-- **squared radius `1 − |z|`** for a unit vector that is not masked -/
theorem lambert_radius (x y z : ℝ) (hu : x * x + y * y + z * z = 1) (hm : ¬ Masked x y) :
    (lambert x y z).1 ^ 2 + (lambert x y z).2 ^ 2 = 1 - |z| := by
  have hρ := rho_pos_of_unmasked x y hm
  have hz := abs_le_one_of_unit hu
  have hq : 0 ≤ (1 - |z|) / (x * x + y * y) := div_nonneg (by linarith) hρ.le
  rw [lambert_unmasked_eq x y z hm, if_neg (not_lt.mpr hq)]
  simp only []
  have hsq : Real.sqrt ((1 - |z|) / (x * x + y * y)) ^ 2 = (1 - |z|) / (x * x + y * y) := Real.sq_sqrt hq
  have : (Real.sqrt ((1 - |z|) / (x * x + y * y)) * x) ^ 2 + (Real.sqrt ((1 - |z|) / (x * x + y * y)) * y) ^ 2
      = Real.sqrt ((1 - |z|) / (x * x + y * y)) ^ 2 * (x * x + y * y) := by ring
  rw [this, hsq, div_mul_cancel₀ _ hρ.ne']

/-- masked points (`|x|, |y| < 1e-16`: the poles of the sphere and their immediate neighbourhood) are
sent to the origin; for a unit vector the exact value `1 − |z|` is then below `2·10⁻³²` -/
theorem lambert_masked (x y z : ℝ) (hu : x * x + y * y + z * z = 1) (hm : Masked x y) :
    lambert x y z = (0, 0) ∧ 0 ≤ 1 - |z| ∧ 1 - |z| < 2e-32 := by
  refine ⟨lambert_masked_eq x y z hm, by have := abs_le_one_of_unit hu; linarith, ?_⟩
  obtain ⟨hx, hy⟩ := hm
  have hxx : x * x < 1e-32 := by
    have := abs_nonneg x
    calc x * x = |x| * |x| := (abs_mul_abs_self x).symm
      _ < 1e-16 * 1e-16 := by nlinarith
      _ = 1e-32 := by norm_num
  have hyy : y * y < 1e-32 := by
    have := abs_nonneg y
    calc y * y = |y| * |y| := (abs_mul_abs_self y).symm
      _ < 1e-16 * 1e-16 := by nlinarith
      _ = 1e-32 := by norm_num
  have h1 := one_sub_abs_mul z
  have hz := abs_le_one_of_unit hu
  have h2 : 1 - |z| ≤ (1 - |z|) * (1 + |z|) := by nlinarith [abs_nonneg z]
  have h3 : (1 - |z|) * (1 + |z|) = x * x + y * y := by rw [h1]; linarith
  have : (2e-32 : ℝ) = 1e-32 + 1e-32 := by norm_num
  rw [this]; linarith

/-- the exact poles go to the origin -/
theorem lambert_pole (z : ℝ) : lambert 0 0 z = (0, 0) :=
  lambert_masked_eq 0 0 z ⟨by norm_num, by norm_num⟩

/-- **every unit vector is mapped into the closed unit disk** -/
theorem lambert_in_disk (x y z : ℝ) (hu : x * x + y * y + z * z = 1) :
    (lambert x y z).1 ^ 2 + (lambert x y z).2 ^ 2 ≤ 1 := by
  by_cases hm : Masked x y
  · rw [lambert_masked_eq x y z hm]; norm_num
  · rw [lambert_radius x y z hu hm]; linarith [abs_nonneg z]

/-- **the azimuth is unchanged**: the image is a positive multiple of `(x, y)` -/
theorem lambert_azimuth (x y z : ℝ) (hu : x * x + y * y + z * z = 1) (hm : ¬ Masked x y) :
    ∃ c : ℝ, 0 < c ∧ lambert x y z = (c * x, c * y) := by
  have hρ := rho_pos_of_unmasked x y hm
  have hz := abs_le_one_of_unit hu
  have hlt : |z| < 1 := by
    rcases hz.lt_or_eq with h | h
    · exact h
    · exfalso
      have : z * z = 1 := by rw [← abs_mul_abs_self, h]; norm_num
      linarith
  have hq : 0 < (1 - |z|) / (x * x + y * y) := div_pos (by linarith) hρ
  refine ⟨Real.sqrt ((1 - |z|) / (x * x + y * y)), Real.sqrt_pos.mpr hq, ?_⟩
  rw [lambert_unmasked_eq x y z hm, if_neg (not_lt.mpr hq.le)]

/-- the disk-to-sphere lifting (inverse equal-area map onto the upper hemisphere) -/
noncomputable def lift (X Y : ℝ) : ℝ × ℝ × ℝ :=
  (X * Real.sqrt (2 - (X * X + Y * Y)), Y * Real.sqrt (2 - (X * X + Y * Y)), 1 - (X * X + Y * Y))

/-- the lifting lands on the unit sphere -/
theorem lift_unit (X Y : ℝ) (hd : X * X + Y * Y ≤ 1) :
    (lift X Y).1 * (lift X Y).1 + (lift X Y).2.1 * (lift X Y).2.1 + (lift X Y).2.2 * (lift X Y).2.2 = 1 := by
  simp only [lift]
  have hs : Real.sqrt (2 - (X * X + Y * Y)) * Real.sqrt (2 - (X * X + Y * Y)) = 2 - (X * X + Y * Y) :=
    Real.mul_self_sqrt (by linarith)
  linear_combination (X * X + Y * Y) * hs

/-- **the projection inverts the lifting** on the closed unit disk (away from the masked
neighbourhood of the centre, where the result is the origin, i.e. within `1e-16` of the input) -/
theorem lambert_inverts_lift (X Y : ℝ) (hd : X * X + Y * Y ≤ 1) :
    (¬ Masked (lift X Y).1 (lift X Y).2.1 → lambert (lift X Y).1 (lift X Y).2.1 (lift X Y).2.2 = (X, Y))
    ∧ (Masked (lift X Y).1 (lift X Y).2.1 →
        lambert (lift X Y).1 (lift X Y).2.1 (lift X Y).2.2 = (0, 0) ∧ |X| < 1e-16 ∧ |Y| < 1e-16) := by
  have hR0 : 0 ≤ X * X + Y * Y := by nlinarith [mul_self_nonneg X, mul_self_nonneg Y]
  set s := Real.sqrt (2 - (X * X + Y * Y)) with hs_def
  have hs1 : 1 ≤ s := by
    rw [hs_def]; rw [show (1 : ℝ) = Real.sqrt 1 by simp]; exact Real.sqrt_le_sqrt (by linarith)
  have hss : s * s = 2 - (X * X + Y * Y) := Real.mul_self_sqrt (by linarith)
  constructor
  · intro hm
    have hρ := rho_pos_of_unmasked _ _ hm
    simp only [lift, ← hs_def] at hρ hm ⊢
    rw [lambert_unmasked_eq _ _ _ hm]
    have hz : |1 - (X * X + Y * Y)| = 1 - (X * X + Y * Y) := abs_of_nonneg (by linarith)
    have hρ' : X * s * (X * s) + Y * s * (Y * s) = (X * X + Y * Y) * (s * s) := by ring
    have hRpos : 0 < X * X + Y * Y := by
      rcases hR0.lt_or_eq with h | h
      · exact h
      · exfalso; rw [hρ', ← h] at hρ; simp at hρ
    have hq : (1 - |1 - (X * X + Y * Y)|) / (X * s * (X * s) + Y * s * (Y * s)) = (1 / s) ^ 2 := by
      rw [hz, hρ']
      have h1 : 1 - (1 - (X * X + Y * Y)) = X * X + Y * Y := by ring
      rw [h1, one_div, inv_pow, sq, ← div_div, div_self hRpos.ne', one_div]
    have hspos : 0 < s := by linarith
    rw [hq, if_neg (not_lt.mpr (by positivity)), Real.sqrt_sq (by positivity)]
    congr 1 <;> field_simp
  · intro hm
    refine ⟨lambert_masked_eq _ _ _ hm, ?_, ?_⟩
    · have h1 := hm.1
      simp only [lift, ← hs_def] at h1
      rw [abs_mul, abs_of_nonneg (by linarith : 0 ≤ s)] at h1
      nlinarith [abs_nonneg X]
    · have h1 := hm.2
      simp only [lift, ← hs_def] at h1
      rw [abs_mul, abs_of_nonneg (by linarith : 0 ≤ s)] at h1
      nlinarith [abs_nonneg Y]

/-! ## spherical point density -/

/-- **normalised to a grid mean of 1 before clipping** (needs a non-zero mean of the raw totals:
see `Density.schmidt_total_zero` and `Witness/C20.lean` for the case where it fails) -/
theorem density_normalised_mean_one (t : List ℝ) (hm : t.sum / t.length ≠ 0) :
    (divMean t).sum / (divMean t).length = 1 := divMean_mean_one t hm

/-- **non-negative after clipping**, and clipping can only raise the grid mean above 1 -/
theorem density_nonneg_after_clip (t : List ℝ) :
    (∀ x ∈ clipNeg (divMean t), 0 ≤ x) ∧ (divMean t).sum ≤ (clipNeg (divMean t)).sum :=
  ⟨clipNeg_nonneg _, clipNeg_sum_ge _⟩

/-- **independent of data order** (scalar weights), for each of the five kernels, axial or not:
the whole result of `point_density` (grid and densities, or the exception) is identical -/
theorem density_perm_invariant (data data' : List Vec3) (h : data.Perm data') (g : ℕ) (w : ℝ)
    (kernel : String) (axial : Bool) (σ : Option ℝ) :
    pointDensity data g (.scalar w) kernel axial σ = pointDensity data' g (.scalar w) kernel axial σ := by
  have key : ∀ k sig, (fun c => total k sig axial (.scalar w) data c) = fun c => total k sig axial (.scalar w) data' c :=
    fun k sig => funext fun c => total_perm k sig axial w h c
  simp only [pointDensity, rawTotals, key]

/-- **for axial data, independent of the sign of each datum**, for each of the five kernels and any
weights -/
theorem density_axial_sign_invariant (data data' : List Vec3) (h : List.Forall₂ SignFlip data data')
    (g : ℕ) (w : Weights) (kernel : String) (σ : Option ℝ) :
    pointDensity data' g w kernel true σ = pointDensity data g w kernel true σ := by
  have key : ∀ k sig, (fun c => total k sig true w data' c) = fun c => total k sig true w data c :=
    fun k sig => funext fun c => by simp only [total, products_sign h c]
  simp only [pointDensity, rawTotals, key]

/-- **the grid points reported lie inside the closed unit disk** (every counter is a unit vector) -/
theorem density_grid_in_disk (data : List Vec3) (g : ℕ) (w : Weights) (kernel : String) (axial : Bool)
    (σ : Option ℝ) (xy : List (ℝ × ℝ)) (t : List ℝ)
    (h : pointDensity data g w kernel axial σ = .ok (xy, t)) :
    ∀ p ∈ xy, p.1 ^ 2 + p.2 ^ 2 ≤ 1 := by
  simp only [pointDensity] at h
  split at h
  · exact absurd h (by simp)
  · simp only [Except.ok.injEq, Prod.mk.injEq] at h
    obtain ⟨rfl, _⟩ := h
    intro p hp
    simp only [List.mem_map] at hp
    obtain ⟨c, hc, rfl⟩ := hp
    exact lambert_in_disk _ _ _ (counters_unit g c hc)

/-- **no division by zero in the totals**: the kernel's scale is strictly positive for a non-empty
data set, `σ ≠ 0`, when `axial = True` or (`axial = False` and `n > σ²`); the remaining class
(`axial = False`, `n ≤ σ²`) is the known finding `density:nonfinite:non_axial_n_le_sigma2:*` -/
theorem density_scale_pos (k : Kernel) (σ : ℝ) (axial : Bool) (data : List Vec3) (c : Vec3)
    (hne : data ≠ []) (hσ : σ ≠ 0) (hdom : axial = true ∨ σ * σ < (data.length : ℝ)) :
    0 < (kernelEval k σ axial (products data c axial)).2 := by
  apply scale_pos k σ axial _ _ hσ
  · simpa [products] using hdom
  · simpa [products] using hne

/-- **where finiteness fails (1)**: Schmidt kernel, unit weight, no datum within the 1 % circle of a
counter ⇒ the raw total at that counter is exactly 0; when this holds at every counter the grid mean
is 0 and `density_normalised_mean_one` does not apply (the real code returns NaN: known finding
`density:nonfinite:schmidt_count:no_datum_in_any_cell`) -/
theorem density_schmidt_zero_count (σ : ℝ) (axial : Bool) (data : List Vec3) (counter : Vec3)
    (hne : data ≠ []) (hfar : ∀ p ∈ products data counter axial, ¬ (1 - p ≤ 0.01)) :
    total .schmidtCount σ axial (.scalar 1) data counter = .ok 0 :=
  schmidt_total_zero σ axial data counter hne hfar

/-- **where finiteness fails (2)**: `axial = False` and `0 < n ≤ σ²` ⇒ the argument of the square root
in `_kamb_units` is `≤ 0` (the real code returns NaN: known findings
`density:nonfinite:non_axial_n_le_sigma2:{kamb_count, linear_inverse_kamb, square_inverse_kamb}`) -/
theorem density_non_axial_small_n (n σ : ℝ) (hn : 0 < n) (hσ : n ≤ σ * σ) :
    n * kambRadius n σ false * (1 - kambRadius n σ false) ≤ 0 :=
  kambUnits_arg_nonpos_of_non_axial_small_n n σ hn hσ

end ModelR.C20
